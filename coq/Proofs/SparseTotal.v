(* C09 for the sparse vector: every query of Model/Sparse.v is total on a built vector (sets and multisets). Out-of-range
   and extreme arguments (EVERY N, in particular every value below 2^64; both overflow-check modes, both in-word
   select paths) get the documented answer, and the wrappers return before they touch the high or the low part:
     rank(i >= len) = count_ones, select(r >= count_ones) = None with the empty select_iter,
     select_zero(r >= count_zeros) = None with the empty select_zero_iter, successor(v >= len) = the empty
     iterator, predecessor(v >= len) = predecessor(len - 1); nth(n) / nth_back(n) with n at least the number of
     items left answer None and leave the iterator exhausted.
   Corollaries of the query theorems of the C02 / C15 cone (Proofs/SparseProof.v, SparseZero.v, SparseMain.v),
   of the deque refinement (Proofs/SparseDeque.v) and of facts about the value-list specification. *)
From Coq Require Import NArith List Lia ZArith Bool.
Require Import SDS.Model.Mach SDS.Model.Bits SDS.Model.Raw SDS.Model.IntVec SDS.Model.BitVec SDS.Model.Iters.
Require Import SDS.Spec.BitSeq SDS.Spec.ValSeq SDS.Spec.Deque SDS.Spec.IterRefs.
Require Import SDS.Model.Sparse SDS.Model.SparseIters.
Require Import SDS.Proofs.BitsProof SDS.Proofs.BVCommon SDS.Proofs.SparseSeq SDS.Proofs.SparseProof.
Require Import SDS.Proofs.SparseBuild SDS.Proofs.SparseZero SDS.Proofs.SparseMain SDS.Proofs.SparseHigh SDS.Proofs.SparseDeque.
Import ListNotations.
Open Scope N_scope.
Require Import ZifyBool ZifyN ZifyNat.
Ltac Zify.zify_post_hook ::= Z.div_mod_to_equations.
Arguments N.add : simpl never. Arguments N.sub : simpl never. Arguments N.mul : simpl never.
Arguments N.eqb : simpl never. Arguments N.ltb : simpl never. Arguments N.leb : simpl never.
Arguments N.pow : simpl never. Arguments N.min : simpl never. Arguments N.div : simpl never.
Arguments N.modulo : simpl never.

(* ================================================================ 1. facts that hold for ANY vector value *)

(* the wrappers decide on len / count_ones / count_zeros alone *)
Lemma sp_rank_beyond sp md sv i : sv_len sv <= i -> sv_rank sp md sv i = Ok (sv_count_ones sv).
Proof. intros Hi. unfold sv_rank. replace (sv_len sv <=? i) with true by lia. reflexivity. Qed.

Lemma sp_select_beyond sp md sv r : sv_count_ones sv <= r ->
  sv_select sp md sv r = Ok None /\ sv_select_iter sp md sv r = Ok (it_empty sv).
Proof. intros Hr. unfold sv_select, sv_select_iter. replace (sv_count_ones sv <=? r) with true by lia. split; reflexivity. Qed.

Lemma sp_select_zero_beyond sp md sv r : sv_count_zeros sv <= r ->
  sv_select_zero sp md sv r = Ok None /\ sv_select_zero_iter sp md sv r = Ok (zi_empty sv).
Proof.
  intros Hr. unfold sv_select_zero, sv_select_zero_iter. replace (sv_count_zeros sv <=? r) with true by lia. split; reflexivity.
Qed.

Lemma sp_successor_beyond sp md sv x : sv_len sv <= x -> sv_successor sp md sv x = Ok (it_empty sv).
Proof. intros Hx. unfold sv_successor. replace (sv_len sv <=? x) with true by lia. reflexivity. Qed.

(* the clamping `min(value, len - 1)` *)
Lemma sp_predecessor_beyond sp md sv x : sv_len sv <= x ->
  sv_predecessor sp md sv x = sv_predecessor sp md sv (sv_len sv - 1).
Proof.
  intros Hx. unfold sv_predecessor. destruct (sv_is_empty sv); [reflexivity|].
  replace (N.min x (sv_len sv - 1)) with (sv_len sv - 1) by lia.
  replace (N.min (sv_len sv - 1) (sv_len sv - 1)) with (sv_len sv - 1) by lia. reflexivity.
Qed.

(* the empty iterators yield nothing from either end, stay as they are, and have length 0 *)
Lemma it_empty_exhausted md sv :
  it_next_f md sv (it_empty sv) = Ok (it_empty sv, None) /\ it_next_back md sv (it_empty sv) = Ok (it_empty sv, None) /\
  it_len md (it_empty sv) = Ok 0.
Proof.
  unfold it_next_f, it_next_back, it_len, it_empty, it_full_limit. cbn [it_next it_limit snd].
  rewrite N.leb_refl. split; [reflexivity|]. split; [reflexivity|]. rewrite usub_ok by lia. f_equal. lia.
Qed.

Lemma zi_empty_exhausted md sv :
  zi_next_f md sv (zi_empty sv) = Ok (zi_empty sv, None) /\ zi_len md (zi_empty sv) = Ok 0.
Proof. split; [reflexivity|]. unfold zi_len, zi_empty. cbn [zi_limit zi_next fst]. rewrite usub_ok by lia. reflexivity. Qed.

Theorem sp_wrappers_beyond sp md sv :
  (forall i, sv_len sv <= i -> sv_rank sp md sv i = Ok (sv_count_ones sv)) /\
  (forall r, sv_count_ones sv <= r -> sv_select sp md sv r = Ok None /\ sv_select_iter sp md sv r = Ok (it_empty sv)) /\
  (forall r, sv_count_zeros sv <= r ->
     sv_select_zero sp md sv r = Ok None /\ sv_select_zero_iter sp md sv r = Ok (zi_empty sv)) /\
  (forall x, sv_len sv <= x -> sv_successor sp md sv x = Ok (it_empty sv)) /\
  (forall x, sv_len sv <= x -> sv_predecessor sp md sv x = sv_predecessor sp md sv (sv_len sv - 1)) /\
  it_next_f md sv (it_empty sv) = Ok (it_empty sv, None) /\ it_next_back md sv (it_empty sv) = Ok (it_empty sv, None) /\
  it_len md (it_empty sv) = Ok 0 /\
  zi_next_f md sv (zi_empty sv) = Ok (zi_empty sv, None) /\ zi_len md (zi_empty sv) = Ok 0.
Proof.
  split; [intros i; apply sp_rank_beyond|]. split; [intros r; apply sp_select_beyond|].
  split; [intros r; apply sp_select_zero_beyond|]. split; [intros x; apply sp_successor_beyond|].
  split; [intros x; apply sp_predecessor_beyond|].
  destruct (it_empty_exhausted md sv) as (H1 & H2 & H3). destruct (zi_empty_exhausted md sv) as (H4 & H5). auto 10.
Qed.

(* ================================================================ 2. the specification beyond the end *)

Lemma spec_rank_beyond n Vs i : sorted_le Vs -> bounded n Vs -> n <= i -> vs_rank Vs i = lenN Vs.
Proof. intros Hs Hb Hi. apply vs_rank_all; [exact Hs|]. intros j Hj. specialize (Hb j Hj). lia. Qed.

Lemma spec_select_beyond (Vs : list N) r : lenN Vs <= r -> vs_select Vs r = None.
Proof.
  unfold vs_select. revert r. induction Vs as [|v t IH]; intros r Hr; [reflexivity|].
  rewrite lenN_cons in Hr. cbn [nth_opt]. replace (r =? 0) with false by lia. apply IH. lia.
Qed.

Lemma spec_select_zero_beyond n P r : sorted_lt P -> bounded n P -> n - lenN P <= r -> vs_select_zero P n r = None.
Proof. intros Hs Hb Hr. unfold vs_select_zero. apply vs_select_zero_from_none; try assumption; try lia; try (intros; lia). Qed.

Lemma spec_succ_beyond n Vs x : sorted_le Vs -> bounded n Vs -> n <= x -> vs_succ Vs x = [].
Proof.
  intros Hs Hb Hx. rewrite (vs_succ_eq Vs x Hs), (spec_rank_beyond n Vs x Hs Hb Hx), skipN_ranked_seg.
  apply seg_nil. lia.
Qed.

Lemma spec_pred_beyond n Vs x : sorted_le Vs -> bounded n Vs -> n <= x -> 0 < n -> vs_pred Vs x = vs_pred Vs (n - 1).
Proof.
  intros Hs Hb Hx Hn. rewrite !(vs_pred_eq Vs _ Hs).
  rewrite (spec_rank_beyond n Vs (x + 1) Hs Hb) by lia. rewrite (spec_rank_beyond n Vs (n - 1 + 1) Hs Hb) by lia.
  reflexivity.
Qed.

(* ================================================================ 3. nth / nth_back beyond what is left *)

Lemma dq_nth_beyond {A} (l : list A) cs k : lenA (fst (dq_run l cs)) <= k ->
  snd (dq_run l (cs ++ [Nth k; Next; Len])) = snd (dq_run l cs) ++ [Item None; Item None; Count 0].
Proof.
  intros Hk. rewrite dq_run_app. cbn [snd]. f_equal.
  rewrite !dq_run_cons. cbn [dq_run snd fst].
  rewrite (dq_step_nth_none _ k Hk). cbn [fst snd]. rewrite !dq_step_nil. reflexivity.
Qed.
Lemma dq_nth_back_beyond {A} (l : list A) cs k : lenA (fst (dq_run l cs)) <= k ->
  snd (dq_run l (cs ++ [NthBack k; NextBack; Len])) = snd (dq_run l cs) ++ [Item None; Item None; Count 0].
Proof.
  intros Hk. rewrite dq_run_app. cbn [snd]. f_equal.
  rewrite !dq_run_cons. cbn [dq_run snd fst].
  rewrite (dq_step_nth_back_none _ k Hk). cbn [fst snd]. rewrite !dq_step_nil. reflexivity.
Qed.

(* ================================================================ 4. on a vector satisfying the representation invariant *)

Definition present_total (sp : selpath) (md : mode) (sv : sparse) (n : N) (Vs : list N) : Prop :=
  sv_len sv = n /\ sv_count_ones sv = lenN Vs /\ sv_count_zeros sv = n - lenN Vs /\
  (* every argument gets the specified answer: no panic, no exhausted fuel *)
  (forall i, sv_rank sp md sv i = Ok (vs_rank Vs i)) /\
  (forall r, sv_select sp md sv r = Ok (vs_select Vs r)) /\
  (forall x, it_first md sv (sv_predecessor sp md sv x) = Ok (hd_error (vs_pred Vs x)) /\
             it_first md sv (sv_successor sp md sv x) = Ok (hd_error (vs_succ Vs x))) /\
  (* beyond the end / the counts *)
  (forall i, n <= i -> sv_rank sp md sv i = Ok (sv_count_ones sv) /\ vs_rank Vs i = lenN Vs) /\
  (forall r, sv_count_ones sv <= r ->
     sv_select sp md sv r = Ok None /\ vs_select Vs r = None /\ sv_select_iter sp md sv r = Ok (it_empty sv)) /\
  (forall r, sv_count_zeros sv <= r ->
     sv_select_zero sp md sv r = Ok None /\ sv_select_zero_iter sp md sv r = Ok (zi_empty sv)) /\
  (forall x, n <= x -> sv_successor sp md sv x = Ok (it_empty sv) /\ vs_succ Vs x = []) /\
  (forall x, n <= x -> 0 < n ->
     sv_predecessor sp md sv x = sv_predecessor sp md sv (n - 1) /\ vs_pred Vs x = vs_pred Vs (n - 1)) /\
  (* the empty iterators yield nothing from either end, stay as they are, and have length 0 *)
  it_next_f md sv (it_empty sv) = Ok (it_empty sv, None) /\ it_next_back md sv (it_empty sv) = Ok (it_empty sv, None) /\
  it_len md (it_empty sv) = Ok 0 /\
  zi_next_f md sv (zi_empty sv) = Ok (zi_empty sv, None) /\ zi_len md (zi_empty sv) = Ok 0.

Definition zero_total (sp : selpath) (md : mode) (sv : sparse) (n : N) (P : list N) : Prop :=
  (forall i, sv_rank_zero sp md sv i = Ok (i - vs_rank P i)) /\
  (forall r, sv_select_zero sp md sv r = Ok (vs_select_zero P n r)) /\
  (forall i, n <= i -> sv_rank_zero sp md sv i = Ok (i - sv_count_ones sv)) /\
  (forall r, sv_count_zeros sv <= r -> vs_select_zero P n r = None).

Lemma present_total_ok sp md sv n w Vs H : sv_ok sp md sv n w Vs H -> present_total sp md sv n Vs.
Proof.
  intros Hok. destruct (sv_ok_present sp md sv n w Vs H Hok) as (Hl & Ho & Hz & _ & Hrk & Hsel & Hp & Hs & _).
  assert (Hsorted : sorted_le Vs) by apply Hok. assert (Hb : bounded n Vs) by apply Hok.
  destruct (sp_wrappers_beyond sp md sv) as (W1 & W2 & W3 & W4 & W5 & W6 & W7 & W8 & W9 & W10).
  unfold present_total. split; [exact Hl|]. split; [exact Ho|]. split; [exact Hz|]. split; [exact Hrk|].
  split; [exact Hsel|]. split; [intros x; split; [apply Hp|apply Hs]|].
  split; [intros i Hi; split; [apply W1; rewrite Hl; exact Hi|exact (spec_rank_beyond n Vs i Hsorted Hb Hi)]|].
  split.
  { intros r Hr. destruct (W2 r Hr) as [A1 A2]. split; [exact A1|]. split; [|exact A2].
    apply spec_select_beyond. rewrite <- Ho. exact Hr. }
  split; [exact W3|].
  split; [intros x Hx; split; [apply W4; rewrite Hl; exact Hx|exact (spec_succ_beyond n Vs x Hsorted Hb Hx)]|].
  split.
  { intros x Hx Hn. split; [rewrite <- Hl; apply W5; rewrite Hl; exact Hx|exact (spec_pred_beyond n Vs x Hsorted Hb Hx Hn)]. }
  auto 10.
Qed.

Lemma zero_total_ok sp md sv n w P H : sv_ok sp md sv n w P H -> sorted_lt P -> zero_total sp md sv n P.
Proof.
  intros Hok Hs. destruct (sv_ok_zero sp md sv n w P H Hok Hs) as (Hrz & Hsz & _).
  assert (Hb : bounded n P) by apply Hok.
  unfold zero_total. split; [exact Hrz|]. split; [exact Hsz|]. split.
  - intros i Hi. rewrite Hrz, (q_ones sp md sv n w P H Hok), (spec_rank_beyond n P i (sorted_lt_le _ Hs) Hb Hi). reflexivity.
  - intros r Hr. rewrite (q_count_zeros sp md sv n w P H Hok Hs) in Hr. exact (spec_select_zero_beyond n P r Hs Hb Hr).
Qed.

(* nth(k) / nth_back(k) after ANY history of next / next_back / nth / nth_back / len calls, with k at least the number of
   items left: None, the following next() / next_back() is None, the length is 0 *)
Definition nth_total_de {St A} (step : St -> call -> res (St * out A)) (start : res St) (l : list A) : Prop :=
  forall cs k, lenA (fst (dq_run l cs)) <= k ->
    exists s s' s'', start = Ok s /\
      it_run step s (cs ++ [Nth k; Next; Len]) = Ok (s', snd (dq_run l cs) ++ [Item None; Item None; Count 0]) /\
      it_run step s (cs ++ [NthBack k; NextBack; Len]) = Ok (s'', snd (dq_run l cs) ++ [Item None; Item None; Count 0]).
Definition nth_total_fw {St A} (step : St -> call -> res (St * out A)) (start : res St) (l : list A) : Prop :=
  forall cs k, Forall call_fwd cs -> lenA (fst (dq_run l cs)) <= k ->
    exists s s', start = Ok s /\
      it_run step s (cs ++ [Nth k; Next; Len]) = Ok (s', snd (dq_run l cs) ++ [Item None; Item None; Count 0]).

Lemma one_nth_total sp md sv n w Vs H : sv_ok sp md sv n w Vs H ->
  nth_total_de (sp_oi_step md sv) (Ok (sv_one_iter sv)) (vs_ranked Vs).
Proof.
  intros Hok cs k Hk. pose proof (sp_oi_entries sp md sv n w Vs H Hok EOne _ eq_refl) as He. cbn [sp_oi_entry] in He.
  destruct He as (it & E & Hrep). injection E as <-.
  destruct (sp_oi_run sp md sv n w Vs H Hok (cs ++ [Nth k; Next; Len]) _ _ Hrep) as (s' & E1 & _).
  destruct (sp_oi_run sp md sv n w Vs H Hok (cs ++ [NthBack k; NextBack; Len]) _ _ Hrep) as (s'' & E2 & _).
  exists (sv_one_iter sv), s', s''. split; [reflexivity|].
  rewrite E1, E2, (dq_nth_beyond _ cs k Hk), (dq_nth_back_beyond _ cs k Hk). split; reflexivity.
Qed.

Lemma bit_nth_total sp md sv n w Vs H : sv_ok sp md sv n w Vs H ->
  nth_total_de (sp_bi_step md sv) (sv_iter_new md sv) (vs_bits Vs n).
Proof.
  intros Hok cs k Hk. destruct (sp_bi_entry sp md sv n w Vs H Hok) as (s & E & Hrep).
  destruct (sp_bi_run sp md sv n w Vs H Hok (cs ++ [Nth k; Next; Len]) _ _ Hrep) as (s' & E1 & _).
  destruct (sp_bi_run sp md sv n w Vs H Hok (cs ++ [NthBack k; NextBack; Len]) _ _ Hrep) as (s'' & E2 & _).
  exists s, s', s''. split; [exact E|].
  rewrite E1, E2, (dq_nth_beyond _ cs k Hk), (dq_nth_back_beyond _ cs k Hk). split; reflexivity.
Qed.

Lemma zero_nth_total sp md sv n w P H : sv_ok sp md sv n w P H -> sorted_lt P ->
  nth_total_fw (sp_zi_step md sv) (sv_zero_iter md sv) (vs_zeros_all P n 0).
Proof.
  intros Hok Hs cs k Hcs Hk. destruct (sp_zi_entries sp md sv n w P H Hok Hs 0) as [(z & E & Hrep) _].
  assert (Hcs' : Forall call_fwd (cs ++ [Nth k; Next; Len])) by (apply Forall_app; split; [exact Hcs|repeat constructor]).
  destruct (sp_zi_run sp md sv n w P H Hok Hs _ _ _ Hrep Hcs') as (z' & E1 & _).
  exists z, z'. split; [exact E|]. rewrite E1, (dq_nth_beyond _ cs k Hk). reflexivity.
Qed.

(* ================================================================ 5. assembled over the builders, as in C02 / C15 *)

Theorem sparse_set_total sp md w' n P :
  n < 2 ^ 64 -> 1 <= w' <= 63 -> increasing P = true -> all_below n P = true ->
  lenN P + buckets_of n (eff_width w' n (lenN P)) < 2 ^ 64 ->
  exists sv, sv_build_set sp md w' n P = Ok (inl sv) /\
    present_total sp md sv n P /\ zero_total sp md sv n P /\
    nth_total_de (sp_oi_step md sv) (Ok (sv_one_iter sv)) (vs_ranked P) /\
    nth_total_de (sp_bi_step md sv) (sv_iter_new md sv) (vs_bits P n) /\
    nth_total_fw (sp_zi_step md sv) (sv_zero_iter md sv) (vs_zeros_all P n 0).
Proof.
  intros Hn Hw Hi Hb Hfit. destruct (build_set_ok_closed sp md w' n P Hn Hw Hi Hb Hfit) as (sv & H & E & Hok).
  pose proof (increasing_sorted _ Hi) as Hs.
  exists sv. split; [exact E|]. split; [exact (present_total_ok _ _ _ _ _ _ _ Hok)|].
  split; [exact (zero_total_ok _ _ _ _ _ _ _ Hok Hs)|]. split; [exact (one_nth_total _ _ _ _ _ _ _ Hok)|].
  split; [exact (bit_nth_total _ _ _ _ _ _ _ Hok)|exact (zero_nth_total _ _ _ _ _ _ _ Hok Hs)].
Qed.

Theorem sparse_multiset_total sp md w' n Vs :
  n < 2 ^ 64 -> 1 <= w' <= 63 -> nondecreasing Vs = true -> all_below n Vs = true ->
  lenN Vs + buckets_of n (eff_width w' n (lenN Vs)) < 2 ^ 64 ->
  exists sv, sv_build_multiset sp md w' n Vs = Ok (inl sv) /\
    present_total sp md sv n Vs /\
    nth_total_de (sp_oi_step md sv) (Ok (sv_one_iter sv)) (vs_ranked Vs) /\
    nth_total_de (sp_bi_step md sv) (sv_iter_new md sv) (vs_bits Vs n).
Proof.
  intros Hn Hw Hi Hb Hfit. destruct (build_multiset_ok_closed sp md w' n Vs Hn Hw Hi Hb Hfit) as (sv & H & E & Hok).
  exists sv. split; [exact E|]. split; [exact (present_total_ok _ _ _ _ _ _ _ Hok)|].
  split; [exact (one_nth_total _ _ _ _ _ _ _ Hok)|exact (bit_nth_total _ _ _ _ _ _ _ Hok)].
Qed.
