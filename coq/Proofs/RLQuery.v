(* The queries of RLVector on a vector satisfying [rl_ok]: block lookup through the sample indexes and the
   binary search, then the scan loops; every answer equals the run-list specification (Spec/Runs.v). *)
From Coq Require Import NArith List Lia ZArith Bool.
Require Import SDS.Model.Mach SDS.Model.Bits SDS.Model.Raw SDS.Model.IntVec SDS.Model.RL SDS.gen.Consts SDS.gen.Funs.
Require Import SDS.Spec.Runs.
Require Import SDS.Proofs.BitsProof SDS.Proofs.RLIntVec SDS.Proofs.RLVarint SDS.Proofs.RLIndex SDS.Proofs.RLRep
               SDS.Proofs.RunsLemmas SDS.Proofs.RLIter.
Import ListNotations.
Open Scope N_scope.
Require Import ZifyBool ZifyN ZifyNat.
Ltac Zify.zify_post_hook ::= Z.div_mod_to_equations.
Arguments N.add : simpl never. Arguments N.sub : simpl never. Arguments N.mul : simpl never.
Arguments N.eqb : simpl never. Arguments N.ltb : simpl never. Arguments N.leb : simpl never.
Arguments N.pow : simpl never. Arguments N.shiftl : simpl never. Arguments N.shiftr : simpl never.
Arguments N.land : simpl never. Arguments N.lor : simpl never. Arguments N.div : simpl never.
Arguments N.modulo : simpl never. Arguments N.ones : simpl never. Arguments N.testbit : simpl never.
Arguments N.min : simpl never.

Lemma layout_len_ge us : lenN (concat us) <= lenN (layout us).
Proof.
  induction us as [|u us IH]; [cbn [concat layout]; lia|].
  cbn [concat]. rewrite lenN_app. destruct us as [|u' us'].
  - cbn [layout concat] in *. unfold lenN at 2. cbn [length]. lia.
  - rewrite layout_cons2, lenN_app. unfold pad64. rewrite lenN_app. lia.
Qed.

Lemma units_total : forall BS o t, 2 * lenN (concat BS) <= lenN (concat (map ab_units (annot o t BS))).
Proof.
  induction BS as [|b BS IH]; intros o t; [cbn [concat annot map]; unfold lenN; cbn [length]; lia|].
  cbn [concat annot map]. rewrite !lenN_app. specialize (IH (o + rones b) (runs_end_from t b)).
  unfold ab_units at 1. unfold ab_tail, ab_runs. cbn [fst snd].
  pose proof (enc_runs_len_lower t b). lia.
Qed.

Section Query.
  Variable m : mode.
  Variable v : rlvec.
  Variable BS : list (list run).
  Variable L : N.
  Hypothesis Hok : rl_ok v BS L.

  Let F := concat BS.
  Let AB := annot 0 0 BS.
  Notation Abs := (RLIter.Abs BS).

  Lemma F_ok : runs_ok true 0 F. Proof. exact (ok_runs _ _ _ Hok). Qed.
  Lemma F_end : runs_end_from 0 F <= L. Proof. exact (ok_end _ _ _ Hok). Qed.
  Lemma L_lt : L < 2 ^ 64. Proof. exact (ok_L _ _ _ Hok). Qed.
  Lemma ones_F : rl_ones v = rones F. Proof. exact (ok_ones _ _ _ Hok). Qed.
  Lemma len_L : rl_len v = L. Proof. exact (ok_len _ _ _ Hok). Qed.
  Lemma ones_le_L : rones F <= L.
  Proof. pose proof (rones_le_end _ _ _ F_ok). pose proof F_end. lia. Qed.

  (* ---- fuel ---- *)
  Lemma fuel_ok it dn todo : Abs it dn todo -> (length todo < rl_fuel v)%nat.
  Proof.
    intros (HF & _). unfold rl_fuel. rewrite (data_ilen v BS L Hok).
    pose proof (units_total BS 0 0) as H1. pose proof (layout_len_ge (map ab_units (annot 0 0 BS))) as H2.
    fold (data_of BS) in H2.
    assert (H3 : lenN todo <= lenN (concat BS)) by (rewrite HF, lenN_app; lia).
    unfold lenN in *. lia.
  Qed.

  (* ---- block lookup ---- *)

  Lemma nthN_BS_of_AB i a : nthN AB i = Some a -> nthN BS i = Some (ab_runs a).
  Proof.
    intros H. pose proof (map_ab_runs_annot 0 0 BS) as E. fold AB in E.
    rewrite <- E, nthN_map, H. reflexivity.
  Qed.

  Lemma lookup_spec (idx : sindex) (h : N * N * list run -> N) U x f :
    si_ok idx (map h AB) U -> x < U -> U < 2 ^ 64 ->
    (forall i a, nthN AB i = Some a -> f i = Ok (h a)) ->
    exists Bpre bl Bpost it,
      (let* (s, e) := si_range m idx x in
       let* block := rl_block_for 64 m s e x f in rl_iter_for_block v block) = Ok it /\
      BS = Bpre ++ bl :: Bpost /\ Abs it (concat Bpre) (bl ++ concat Bpost) /\
      h (rones (concat Bpre), runs_end_from 0 (concat Bpre), bl) <= x.
  Proof.
    intros Hsi Hx HU Hf.
    destruct (si_range_spec m idx _ U x Hsi Hx HU) as (s & e & y & Hr & Hse & He & Hy & Hyx).
    rewrite Hr. cbn [bind]. rewrite lenN_map in He. unfold AB in He. rewrite annot_lenN in He.
    set (g := fun i => match nthN AB i with Some a => h a | None => 0 end).
    destruct (block_for_spec 64 m x f g s e) as (i & Hb & Hi1 & Hi2 & Hi3).
    { intros i Hi. destruct (nthN_lt_Some AB i) as [a Ha]; [unfold AB; rewrite annot_lenN; lia|].
      rewrite (Hf i a Ha). unfold g. rewrite Ha. reflexivity. }
    { lia. }
    { pose proof (ok_nblocks _ _ _ Hok). change (2 ^ (N.of_nat 64 - 1)) with (2 ^ 63). lia. }
    { lia. }
    rewrite Hb. cbn [bind].
    assert (HiL : i < lenN AB) by (unfold AB; rewrite annot_lenN; lia).
    destruct (nthN_lt_Some AB i HiL) as [a Ha].
    assert (Hha : h a <= x).
    { destruct Hi3 as [->|Hg].
      - rewrite nthN_map, Ha in Hy. cbn [option_map] in Hy. injection Hy as <-. exact Hyx.
      - unfold g in Hg. rewrite Ha in Hg. exact Hg. }
    pose proof (nthN_BS_of_AB i a Ha) as HnB.
    destruct (nthN_split BS i _ HnB) as (Bpre & Bpost & EBS & HlB).
    pose proof (nth_AB BS _ _ _ EBS) as Hn2. fold AB in Hn2. rewrite HlB, Ha in Hn2. injection Hn2 as Ea.
    destruct (iter_for_block_spec v BS L Hok _ _ _ EBS) as (it & Hit & Habs).
    rewrite HlB in Hit. exists Bpre, (ab_runs a), Bpost, it.
    split; [exact Hit|]. split; [exact EBS|]. split; [exact Habs|]. rewrite <- Ea. exact Hha.
  Qed.

  Lemma BS_cases : BS = [] \/ BS <> [].
  Proof. destruct BS; [left; reflexivity|right; discriminate]. Qed.

  Lemma F_nil_of_BS : BS = [] -> F = [].
  Proof. intros H. unfold F. rewrite H. reflexivity. Qed.

  Lemma data_nil : BS = [] -> ilen (rl_data v) = 0 /\ ilen (rl_samples v) = 0 /\ rl_blocks v = 0.
  Proof.
    intros H. rewrite (data_ilen v BS L Hok), (blocks_len v BS L Hok).
    destruct (ok_samples _ _ _ Hok) as (w & Hs). rewrite (iv_rep_ilen _ _ _ Hs).
    rewrite H. repeat split; reflexivity.
  Qed.

  (* the iterator for an empty structure *)
  Lemma empty_lookup idx x f :
    BS = [] -> si_is_empty idx -> x < MAXU ->
    exists it, (let* (s, e) := si_range m idx x in
                let* block := rl_block_for 64 m s e x f in rl_iter_for_block v block) = Ok it /\
               Abs it [] [].
  Proof.
    intros HBS Hsi Hx. rewrite (si_range_empty m idx x Hsi Hx). cbn [bind].
    destruct (block_for_spec 64 m x f (fun _ => 0) 0 0) as (i & Hb & Hi1 & Hi2 & _); try lia.
    assert (i = 0) by lia. subst i. rewrite Hb.
    cbn [bind]. unfold rl_iter_for_block, rl_ones_after.
    destruct (data_nil HBS) as (Hd & Hs & Hbl). rewrite Hs, Hbl. change (0 =? 0) with true. cbn iota. cbn [bind].
    replace (0 + 1 <? 0) with false by lia. cbn [bind]. eexists. split; [reflexivity|].
    split; [rewrite HBS; reflexivity|]. unfold ri_rank, ri_off. cbn [ri_pos fst snd].
    split; [reflexivity|]. split; [reflexivity|]. left. split; [reflexivity|].
    rewrite <- (data_ilen v BS L Hok), Hd. cbn [ri_offset]. change rl_BLOCK_SIZE with 64. lia.
  Qed.

  Lemma iter_for_bit_spec index : index < L ->
    exists it dn todo, rl_iter_for_bit m v index = Ok it /\ Abs it dn todo /\ runs_end_from 0 dn <= index.
  Proof.
    intros Hi. unfold rl_iter_for_bit. rewrite len_L. replace (L <=? index) with false by lia.
    pose proof L_lt as HL. pose proof (ok_rank_index _ _ _ Hok) as Hidx.
    destruct BS_cases as [HBS|HBS].
    - rewrite HBS in Hidx.
      destruct (empty_lookup (rl_rank_index v) index (fun i => iv_get (rl_samples v) (2 * i + 1)) HBS Hidx) as (it & Hit & Ha).
      { unfold MAXU. lia. }
      exists it, [], []. split; [exact Hit|]. split; [exact Ha|]. cbn [runs_end_from]. lia.
    - assert (Hsi : si_ok (rl_rank_index v) (map ab_tail AB) L) by (destruct BS; [congruence|exact Hidx]).
      destruct (lookup_spec (rl_rank_index v) ab_tail L index (fun i => iv_get (rl_samples v) (2 * i + 1)) Hsi Hi HL)
        as (Bpre & bl & Bpost & it & Hit & EBS & Ha & Hh).
      { intros i a Ha. apply (sample_get v BS L Hok i a Ha). }
      exists it, (concat Bpre), (bl ++ concat Bpost). split; [exact Hit|]. split; [exact Ha|exact Hh].
  Qed.

  Lemma iter_for_one_spec rank : rank < rones F ->
    exists it dn todo, rl_iter_for_one m v rank = Ok it /\ Abs it dn todo /\ rones dn <= rank.
  Proof.
    intros Hi. unfold rl_iter_for_one. rewrite ones_F. replace (rones F <=? rank) with false by lia.
    pose proof L_lt as HL. pose proof ones_le_L as HoL. pose proof (ok_select_index _ _ _ Hok) as Hidx.
    destruct BS_cases as [HBS|HBS].
    - rewrite (F_nil_of_BS HBS) in Hi. cbn [rones] in Hi. lia.
    - assert (Hsi : si_ok (rl_select_index v) (map ab_ones AB) (rones F)) by (destruct BS; [congruence|exact Hidx]).
      destruct (lookup_spec (rl_select_index v) ab_ones (rones F) rank (fun i => iv_get (rl_samples v) (2 * i)) Hsi Hi ltac:(lia))
        as (Bpre & bl & Bpost & it & Hit & EBS & Ha & Hh).
      { intros i a Ha. apply (sample_get v BS L Hok i a Ha). }
      exists it, (concat Bpre), (bl ++ concat Bpost). split; [exact Hit|]. split; [exact Ha|exact Hh].
  Qed.

  Lemma AB_ones_le_tail i a : nthN AB i = Some a -> ab_ones a <= ab_tail a.
  Proof.
    intros Ha. pose proof (nthN_BS_of_AB i a Ha) as HnB.
    destruct (nthN_split BS i _ HnB) as (Bpre & Bpost & EBS & HlB).
    pose proof (nth_AB BS _ _ _ EBS) as Hn2. fold AB in Hn2. rewrite HlB, Ha in Hn2. injection Hn2 as Ea.
    rewrite Ea. unfold ab_ones, ab_tail. cbn [fst snd].
    pose proof F_ok as Hf. unfold F in Hf. rewrite EBS, concat_app in Hf. apply runs_ok_app in Hf.
    destruct Hf as [Hf _]. pose proof (rones_le_end _ _ _ Hf). lia.
  Qed.

  Lemma iter_for_zero_spec rank : rank < L - rones F ->
    exists it dn todo, rl_iter_for_zero m v rank = Ok it /\ Abs it dn todo /\
                       runs_end_from 0 dn - rones dn <= rank.
  Proof.
    intros Hi. unfold rl_iter_for_zero, rl_count_zeros. rewrite ones_F, len_L.
    replace (L - rones F <=? rank) with false by lia.
    pose proof L_lt as HL. destruct (ok_select_zero_index _ _ _ Hok) as [Hidx0 Hidx].
    set (f := fun i => let* b := iv_get (rl_samples v) (2 * i + 1) in
                       let* a := iv_get (rl_samples v) (2 * i) in usub m b a).
    destruct BS_cases as [HBS|HBS].
    - destruct (empty_lookup (rl_select_zero_index v) rank f HBS (Hidx0 HBS)) as (it & Hit & Ha).
      { unfold MAXU. lia. }
      exists it, [], []. split; [exact Hit|]. split; [exact Ha|]. cbn [runs_end_from rones]. lia.
    - assert (Hz : L - rones F <> 0) by lia.
      destruct (lookup_spec (rl_select_zero_index v) (fun x => ab_tail x - ab_ones x) (L - rones F) rank f
                  (Hidx HBS Hz) Hi ltac:(lia)) as (Bpre & bl & Bpost & it & Hit & EBS & Ha & Hh).
      { intros i a Ha. unfold f. destruct (sample_get v BS L Hok i a Ha) as [H1 H2]. rewrite H2, H1. cbn [bind].
        apply usub_ok. eapply AB_ones_le_tail; eauto. }
      exists it, (concat Bpre), (bl ++ concat Bpost). split; [exact Hit|]. split; [exact Ha|].
      unfold ab_tail, ab_ones in Hh. cbn [fst snd] in Hh. exact Hh.
  Qed.

  (* facts available from Abs *)
  Lemma abs_ok it dn todo : Abs it dn todo ->
    F = dn ++ todo /\ ri_rank it = rones dn /\ ri_off it = runs_end_from 0 dn /\
    runs_ok true 0 dn /\ runs_ok (match dn with [] => true | _ => false end) (runs_end_from 0 dn) todo.
  Proof.
    intros (HF & Hr & Ho & _). pose proof F_ok as Hf. unfold F in *. rewrite HF in Hf.
    apply runs_ok_app in Hf. destruct Hf as [H1 H2]. auto.
  Qed.

  (* ---- run_iter().collect() with (offset, rank) after each item ---- *)

  Lemma runs_loop_spec : forall todo fuel it dn,
    Abs it dn todo -> (length todo < fuel)%nat ->
    rl_runs_loop fuel m v it = Ok (runs_with_pos (rones dn) todo).
  Proof.
    induction todo as [|r t IH]; intros fuel it dn Ha Hf; (destruct fuel as [|k]; [cbn [length] in Hf; lia|]).
    - cbn [rl_runs_loop]. rewrite (next_spec m v BS L Hok it dn [] Ha). reflexivity.
    - cbn [rl_runs_loop]. destruct (next_spec m v BS L Hok it dn (r :: t) Ha) as (it' & Ha' & Hn).
      rewrite Hn. cbn [bind]. cbn [length] in Hf. rewrite (IH k it' (dn ++ [r]) Ha') by lia. cbn [bind].
      destruct (abs_ok _ _ _ Ha') as (_ & Hr' & Ho' & _). rewrite Hr', Ho'.
      rewrite rones_app, runs_end_from_app. cbn [rones runs_end_from]. destruct r as [s l]. cbn [runs_with_pos fst snd].
      rewrite N.add_0_r. reflexivity.
  Qed.

  Lemma runs_spec : rl_runs m v = Ok (runs_with_pos 0 F).
  Proof.
    unfold rl_runs. destruct (run_iter_spec v BS L Hok) as (it & Hit & Ha). rewrite Hit. cbn [bind].
    apply (runs_loop_spec F _ it [] Ha). eapply fuel_ok; eauto.
  Qed.

  (* ---- get ---- *)

  Lemma get_loop_spec index : forall todo fuel it dn,
    Abs it dn todo -> (length todo < fuel)%nat -> runs_end_from 0 dn <= index ->
    rl_get_loop fuel m v it index = Ok (runs_get todo index).
  Proof.
    induction todo as [|r t IH]; intros fuel it dn Ha Hf Hd; (destruct fuel as [|k]; [cbn [length] in Hf; lia|]).
    - cbn [rl_get_loop]. rewrite (next_spec m v BS L Hok it dn [] Ha). reflexivity.
    - cbn [rl_get_loop]. destruct (next_spec m v BS L Hok it dn (r :: t) Ha) as (it' & Ha' & Hn).
      rewrite Hn. cbn [bind]. destruct (abs_ok _ _ _ Ha) as (_ & _ & _ & _ & Hrt).
      destruct (abs_ok _ _ _ Ha') as (_ & Hr' & Ho' & _ & Ht').
      rewrite runs_end_from_app in Ho', Ht'. cbn [runs_end_from] in Ho', Ht'.
      replace (match dn ++ [r] with [] => true | _ :: _ => false end) with false in Ht' by (destruct dn; reflexivity).
      destruct r as [s l]. cbn [fst snd] in *. cbn [runs_ok fst snd] in Hrt. destruct Hrt as (Hs & Hl & _).
      unfold runs_get. cbn [existsb]. fold (runs_get t index). unfold in_run. cbn [fst snd].
      destruct (N.ltb_spec index s) as [Hlt|Hge].
      + replace (s <=? index) with false by lia. cbn [andb orb].
        rewrite (runs_get_below _ _ _ _ Ht') by lia. reflexivity.
      + replace (s <=? index) with true by lia. rewrite Ho'. cbn [andb].
        destruct (N.ltb_spec index (s + l)) as [Hin|Hout]; [reflexivity|]. cbn [orb].
        cbn [length] in Hf. apply (IH k it' (dn ++ [(s, l)]) Ha'); [lia|].
        rewrite runs_end_from_app. cbn [runs_end_from fst snd]. lia.
  Qed.

  Lemma get_spec index : index < L -> rl_get m v index = Ok (runs_get F index).
  Proof.
    intros Hi. unfold rl_get. destruct (iter_for_bit_spec index Hi) as (it & dn & todo & Hit & Ha & Hd).
    rewrite Hit. cbn [bind]. rewrite (get_loop_spec index todo _ it dn Ha (fuel_ok _ _ _ Ha) Hd).
    destruct (abs_ok _ _ _ Ha) as (HF & _ & _ & Hdn & _). rewrite HF, runs_get_app.
    rewrite (runs_get_above _ _ _ _ Hdn Hd). reflexivity.
  Qed.

  (* ---- rank ---- *)

  Lemma rank_loop_spec index : forall todo fuel it dn,
    Abs it dn todo -> (length todo < fuel)%nat -> runs_end_from 0 dn <= index ->
    rl_rank_loop fuel m v it index = Ok (rones dn + runs_rank todo index).
  Proof.
    induction todo as [|r t IH]; intros fuel it dn Ha Hf Hd; (destruct fuel as [|k]; [cbn [length] in Hf; lia|]).
    - cbn [rl_rank_loop]. rewrite (next_spec m v BS L Hok it dn [] Ha). cbn [bind runs_rank].
      destruct (abs_ok _ _ _ Ha) as (_ & Hr & _). rewrite Hr, N.add_0_r. reflexivity.
    - cbn [rl_rank_loop]. destruct (next_spec m v BS L Hok it dn (r :: t) Ha) as (it' & Ha' & Hn).
      rewrite Hn. cbn [bind]. destruct (abs_ok _ _ _ Ha) as (_ & _ & _ & _ & Hrt).
      destruct (abs_ok _ _ _ Ha') as (_ & Hr' & Ho' & _ & Ht').
      rewrite runs_end_from_app in Ho', Ht'. cbn [runs_end_from] in Ho', Ht'. rewrite rones_app in Hr'. cbn [rones] in Hr'.
      replace (match dn ++ [r] with [] => true | _ :: _ => false end) with false in Ht' by (destruct dn; reflexivity).
      destruct r as [s l]. cbn [fst snd] in *. cbn [runs_ok fst snd] in Hrt. destruct Hrt as (Hs & Hl & _).
      cbn [runs_rank]. unfold overlap. cbn [fst snd]. unfold ri_rank_at. rewrite Hr', Ho'.
      destruct (N.leb_spec index s) as [Hle|Hgt].
      + rewrite (runs_rank_below _ _ _ _ Ht') by lia. f_equal. lia.
      + destruct (N.leb_spec index (s + l)) as [Hin|Hout].
        * rewrite (runs_rank_below _ _ _ _ Ht') by lia. f_equal. lia.
        * cbn [length] in Hf. rewrite (IH k it' (dn ++ [(s, l)]) Ha'); [|lia|].
          -- rewrite rones_app. cbn [rones snd]. f_equal. lia.
          -- rewrite runs_end_from_app. cbn [runs_end_from fst snd]. lia.
  Qed.

  Lemma rank_spec index : rl_rank m v index = Ok (runs_rank F index).
  Proof.
    destruct (N.lt_ge_cases index L) as [Hi|Hi].
    - unfold rl_rank. destruct (iter_for_bit_spec index Hi) as (it & dn & todo & Hit & Ha & Hd).
      rewrite Hit. cbn [bind]. rewrite (rank_loop_spec index todo _ it dn Ha (fuel_ok _ _ _ Ha) Hd).
      destruct (abs_ok _ _ _ Ha) as (HF & _ & _ & Hdn & _). rewrite HF, runs_rank_app.
      rewrite (runs_rank_above _ _ _ _ Hdn Hd). reflexivity.
    - unfold rl_rank, rl_iter_for_bit. rewrite len_L. replace (L <=? index) with true by lia. cbn [bind].
      unfold rl_fuel. cbn [rl_rank_loop]. rewrite ri_empty_next. cbn [bind].
      unfold ri_rank, ri_empty. cbn [ri_pos fst]. rewrite ones_F.
      rewrite (runs_rank_above _ _ _ _ F_ok) by (pose proof F_end; lia). reflexivity.
  Qed.

  Lemma rank_zero_spec index : rl_rank_zero m v index = Ok (index - runs_rank F index).
  Proof.
    unfold rl_rank_zero. rewrite rank_spec. cbn [bind]. apply usub_ok. apply runs_rank_le0. exact F_ok.
  Qed.
End Query.
