(* Proofs about Model/Raw.v: the invariant of RawVector, its abstraction to a [list bool], every operation
   against the list specification of Spec/SeqSpec.v, canonical form, and operation histories. *)
From Coq Require Import NArith List Lia ZArith Bool.
Require Import SDS.Model.Mach SDS.Model.Bits SDS.Model.Raw SDS.Model.Hist SDS.gen.Consts.
Require Import SDS.Spec.BitSeq SDS.Spec.SeqSpec SDS.Proofs.BitsProof.
Import ListNotations.
Open Scope N_scope.
Require Import ZifyBool ZifyN ZifyNat.
Ltac Zify.zify_post_hook ::= Z.div_mod_to_equations.
Arguments N.add : simpl never. Arguments N.sub : simpl never. Arguments N.mul : simpl never.
Arguments N.eqb : simpl never. Arguments N.ltb : simpl never. Arguments N.leb : simpl never.
Arguments N.pow : simpl never. Arguments N.shiftl : simpl never. Arguments N.shiftr : simpl never.
Arguments N.land : simpl never. Arguments N.lor : simpl never. Arguments N.div : simpl never.
Arguments N.modulo : simpl never. Arguments N.ones : simpl never. Arguments N.testbit : simpl never.
Arguments N.lxor : simpl never. Arguments N.min : simpl never. Arguments N.max : simpl never.

(* ---- abstraction and invariant ---- *)

(* the content of a raw vector: its first [rlen] bits *)
Definition abs_raw (r : raw) : list bool := bits_of (rlen r) (rdata r).

(* exactly the words needed; every word fits in 64 bits; no bit is set at or beyond the length
   (inside the last word these are its unused bits; beyond the words [bit] reads 0) *)
Definition raw_inv (r : raw) : Prop :=
  lenN (rdata r) = bits_to_words (rlen r) /\
  wf (rdata r) /\
  forall p, rlen r <= p -> bit (rdata r) p = false.

Lemma bits_to_words_eq n : bits_to_words n = (n + 63) / 64.
Proof. reflexivity. Qed.

(* ---- word lists ---- *)

Lemma lenN_lenL {A} (l : list A) : lenN l = lenL l. Proof. reflexivity. Qed.
Lemma lenN_app {A} (a b : list A) : lenN (a ++ b) = lenN a + lenN b.
Proof. unfold lenN. rewrite app_length. lia. Qed.
Lemma lenN_cons {A} (x : A) l : lenN (x :: l) = lenN l + 1.
Proof. unfold lenN. cbn [length]. lia. Qed.
Lemma lenN_firstn {A} n (l : list A) : lenN (firstn n l) = N.min (N.of_nat n) (lenN l).
Proof. unfold lenN. rewrite firstn_length. lia. Qed.
Lemma repeatN_length {A} (x : A) n : length (repeatN x n) = n.
Proof. induction n; cbn [repeatN length]; congruence. Qed.
Lemma lenN_repeatN {A} (x : A) n : lenN (repeatN x n) = N.of_nat n.
Proof. unfold lenN. rewrite repeatN_length. reflexivity. Qed.
Lemma lenN_map {A B} (f : A -> B) l : lenN (map f l) = lenN l.
Proof. unfold lenN. rewrite map_length. reflexivity. Qed.

Lemma getw_nil i : getw [] i = 0. Proof. reflexivity. Qed.
Lemma getw_cons w t i : getw (w :: t) i = if i =? 0 then w else getw t (i - 1).
Proof. unfold getw. cbn [nthN]. destruct (i =? 0); reflexivity. Qed.
Lemma getw_beyond a i : lenN a <= i -> getw a i = 0.
Proof. intros H. unfold getw. apply nthN_None_ge in H. rewrite H. reflexivity. Qed.
Lemma getw_app a b i : getw (a ++ b) i = if i <? lenN a then getw a i else getw b (i - lenN a).
Proof.
  revert i. induction a as [|x t IH]; intros i.
  - cbn [app]. change (lenN (@nil N)) with 0. replace (i <? 0) with false by lia. f_equal. lia.
  - cbn [app]. rewrite !getw_cons, lenN_cons. destruct (N.eqb_spec i 0) as [->|Hi].
    + replace (0 <? lenN t + 1) with true by lia. reflexivity.
    + rewrite IH. replace (i - 1 <? lenN t) with (i <? lenN t + 1) by lia.
      destruct (i <? lenN t + 1); [reflexivity|]. f_equal. lia.
Qed.
Lemma getw_firstn n a i : getw (firstn n a) i = if i <? N.of_nat n then getw a i else 0.
Proof.
  revert a i. induction n as [|n IH]; intros a i.
  - cbn [firstn]. replace (i <? N.of_nat 0) with false by lia. reflexivity.
  - destruct a as [|x t]; cbn [firstn].
    + rewrite getw_nil. destruct (_ <? _); reflexivity.
    + rewrite !getw_cons. destruct (N.eqb_spec i 0) as [->|Hi].
      * replace (0 <? N.of_nat (S n)) with true by lia. reflexivity.
      * rewrite IH. replace (i - 1 <? N.of_nat n) with (i <? N.of_nat (S n)) by lia. reflexivity.
Qed.
Lemma getw_repeatN x n i : getw (repeatN x n) i = if i <? N.of_nat n then x else 0.
Proof.
  revert i. induction n as [|n IH]; intros i; cbn [repeatN].
  - rewrite getw_nil. replace (i <? N.of_nat 0) with false by lia. reflexivity.
  - rewrite getw_cons. destruct (N.eqb_spec i 0) as [->|Hi].
    + replace (0 <? N.of_nat (S n)) with true by lia. reflexivity.
    + rewrite IH. replace (i - 1 <? N.of_nat n) with (i <? N.of_nat (S n)) by lia. reflexivity.
Qed.
Lemma getw_map (f : N -> N) a i : f 0 = 0 -> getw (map f a) i = f (getw a i).
Proof.
  intros Hf. revert i. induction a as [|x t IH]; intros i; cbn [map].
  - rewrite getw_nil. auto.
  - rewrite !getw_cons. destruct (i =? 0); [reflexivity|apply IH].
Qed.
Lemma getw_map_lt (f : N -> N) a i : i < lenN a -> getw (map f a) i = f (getw a i).
Proof.
  revert i. induction a as [|x t IH]; intros i Hi; cbn [map].
  - change (lenN (@nil N)) with 0 in Hi. lia.
  - rewrite lenN_cons in Hi. rewrite !getw_cons. destruct (N.eqb_spec i 0); [reflexivity|]. apply IH. lia.
Qed.

Lemma wf_nil : wf []. Proof. constructor. Qed.
Lemma wf_app a b : wf a -> wf b -> wf (a ++ b).
Proof. unfold wf. intros Ha Hb. apply Forall_app. split; assumption. Qed.
Lemma wf_firstn n a : wf a -> wf (firstn n a).
Proof.
  unfold wf. intros H. rewrite <- (firstn_skipn n a) in H. apply Forall_app in H. apply H.
Qed.
Lemma wf_repeatN x n : x < 2 ^ 64 -> wf (repeatN x n).
Proof. intros H. unfold wf. induction n; cbn [repeatN]; constructor; assumption. Qed.
Lemma wf_map (f : N -> N) a : (forall x, f x < 2 ^ 64) -> wf (map f a).
Proof. intros H. unfold wf. induction a; cbn [map]; constructor; auto. Qed.

Lemma list_ext_getw a b : lenN a = lenN b -> (forall i, getw a i = getw b i) -> a = b.
Proof.
  revert b. induction a as [|x t IH]; intros b Hl H.
  - destruct b; [reflexivity|]. rewrite lenN_cons in Hl. change (lenN (@nil N)) with 0 in Hl. lia.
  - destruct b as [|y u]; [rewrite lenN_cons in Hl; change (lenN (@nil N)) with 0 in Hl; lia|].
    rewrite !lenN_cons in Hl. f_equal.
    + specialize (H 0). rewrite !getw_cons in H. exact H.
    + apply IH; [lia|]. intros i. specialize (H (i + 1)). rewrite !getw_cons in H.
      replace (i + 1 =? 0) with false in H by lia. replace (i + 1 - 1) with i in H by lia. exact H.
Qed.

(* ---- bits of a word list ---- *)

Lemma bit_hi a p : 64 * lenN a <= p -> bit a p = false.
Proof. intros H. unfold bit. rewrite getw_beyond by lia. apply N.bits_0. Qed.

Lemma bit_cons w t p : bit (w :: t) p = if p <? 64 then N.testbit w p else bit t (p - 64).
Proof.
  unfold bit. rewrite getw_cons. destruct (N.ltb_spec p 64) as [H|H].
  - replace (p / 64 =? 0) with true by lia. f_equal. lia.
  - replace (p / 64 =? 0) with false by lia. f_equal; [f_equal|]; lia.
Qed.

Lemma bits_of_words_cons w t : bits_of_words (w :: t) = wbits w ++ bits_of_words t.
Proof. reflexivity. Qed.

Lemma lenL_bits_of_words a : lenL (bits_of_words a) = 64 * lenN a.
Proof.
  induction a as [|w t IH]; [reflexivity|].
  rewrite bits_of_words_cons, lenL_app, lenL_wbits, IH, lenN_cons. lia.
Qed.

Lemma nthb_bits_of_words a p : nthb (bits_of_words a) p = bit a p.
Proof.
  revert p. induction a as [|w t IH]; intros p.
  - cbn [bits_of_words flat_map]. rewrite nthb_nil. symmetry. apply bit_hi. change (lenN (@nil N)) with 0. lia.
  - rewrite bits_of_words_cons, nthb_app, lenL_wbits, bit_cons, nthb_wbits, IH.
    destruct (N.ltb_spec p 64); reflexivity.
Qed.

Lemma count_bits_of_words a : wf a -> count (bits_of_words a) = sum_pop a.
Proof.
  intros H. induction a as [|w t IH]; [reflexivity|].
  inversion H; subst. rewrite bits_of_words_cons, count_app. cbn [sum_pop fold_right].
  rewrite popcount_wbits by assumption. fold (sum_pop t). rewrite IH by assumption. reflexivity.
Qed.

(* ---- reading the abstraction pointwise ---- *)

Lemma abs_len r : raw_inv r -> lenL (abs_raw r) = rlen r.
Proof.
  intros (Hl & _ & _). unfold abs_raw, bits_of. fold (takeN (rlen r) (bits_of_words (rdata r))).
  rewrite lenL_takeN, lenL_bits_of_words, Hl, bits_to_words_eq. lia.
Qed.

Lemma abs_nthb r p : raw_inv r -> nthb (abs_raw r) p = bit (rdata r) p.
Proof.
  intros (Hl & _ & Hz). unfold abs_raw, bits_of. fold (takeN (rlen r) (bits_of_words (rdata r))).
  rewrite nthb_takeN, nthb_bits_of_words. destruct (N.ltb_spec p (rlen r)) as [H|H]; [reflexivity|].
  symmetry. apply Hz. exact H.
Qed.

(* a state whose words spell the list L is valid and abstracts to L *)
Lemma raw_of_bits len d L :
  wf d -> lenN d = bits_to_words len -> lenL L = len -> (forall p, bit d p = nthb L p) ->
  raw_inv (mkraw len d) /\ abs_raw (mkraw len d) = L.
Proof.
  intros Hwf Hl HL Hb.
  assert (Hinv : raw_inv (mkraw len d)).
  { split; [exact Hl|]. split; [exact Hwf|]. cbn [rlen rdata]. intros p Hp.
    rewrite Hb. apply nthb_beyond. lia. }
  split; [exact Hinv|]. apply list_ext_nthb.
  - rewrite abs_len by assumption. cbn [rlen]. lia.
  - intros i. rewrite abs_nthb by assumption. cbn [rdata]. apply Hb.
Qed.

(* ---- canonical form ---- *)

Theorem raw_canonical r1 r2 : raw_inv r1 -> raw_inv r2 -> abs_raw r1 = abs_raw r2 -> r1 = r2.
Proof.
  intros H1 H2 E.
  assert (Hlen : rlen r1 = rlen r2) by (rewrite <- (abs_len r1 H1), <- (abs_len r2 H2), E; reflexivity).
  destruct r1 as [n1 d1], r2 as [n2 d2]. cbn [rlen] in Hlen. subst n2. f_equal.
  pose proof H1 as (Hl1 & Hw1 & _). pose proof H2 as (Hl2 & Hw2 & _). cbn [rlen rdata] in *.
  apply list_ext_getw; [congruence|]. intros i. apply N.bits_inj. intros k.
  destruct (N.ltb_spec k 64) as [Hk|Hk].
  - pose proof (abs_nthb _ (64 * i + k) H1) as B1. pose proof (abs_nthb _ (64 * i + k) H2) as B2.
    rewrite E in B1. rewrite B1 in B2. cbn [rdata] in B2. unfold bit in B2.
    replace ((64 * i + k) / 64) with i in B2 by lia. replace ((64 * i + k) mod 64) with k in B2 by lia.
    exact B2.
  - rewrite !testbit_high; auto using getw_lt.
Qed.

Lemma raw_eqb_refl r : raw_eqb r r = true.
Proof.
  unfold raw_eqb. rewrite N.eqb_refl. cbn [andb]. induction (rdata r) as [|x t IH]; [reflexivity|].
  rewrite N.eqb_refl. exact IH.
Qed.

Lemma raw_eqb_eq a b : raw_eqb a b = true <-> a = b.
Proof.
  split; [|intros ->; apply raw_eqb_refl].
  destruct a as [n1 d1], b as [n2 d2]. unfold raw_eqb. cbn [rlen rdata].
  intros H. apply andb_true_iff in H. destruct H as [Hn Hd]. apply N.eqb_eq in Hn. subst n2. f_equal.
  revert d2 Hd. induction d1 as [|x t IH]; intros [|y u] Hd; try discriminate; [reflexivity|].
  apply andb_true_iff in Hd. destruct Hd as [Hx Ht]. apply N.eqb_eq in Hx. subst y. f_equal. apply IH. exact Ht.
Qed.

(* ---- count_ones ---- *)

Theorem raw_count_ones_spec r : raw_inv r -> raw_count_ones r = count (abs_raw r).
Proof.
  intros Hinv. pose proof Hinv as (Hl & Hwf & Hz).
  unfold raw_count_ones. rewrite <- count_bits_of_words by assumption.
  rewrite <- (takeN_dropN (rlen r) (bits_of_words (rdata r))), count_app.
  unfold abs_raw, bits_of. fold (takeN (rlen r) (bits_of_words (rdata r))).
  rewrite (count_all_false (dropN _ _)); [lia|].
  intros i. rewrite nthb_dropN, nthb_bits_of_words. apply Hz. lia.
Qed.

(* ---- tactics: decide every comparison from the context when possible, split otherwise ---- *)

Ltac cmp_step :=
  match goal with
  | |- context [?a <? ?b] =>
      first [replace (a <? b) with true by lia | replace (a <? b) with false by lia | destruct (N.ltb_spec a b)]
  | |- context [?a <=? ?b] =>
      first [replace (a <=? b) with true by lia | replace (a <=? b) with false by lia | destruct (N.leb_spec a b)]
  | |- context [?a =? ?b] =>
      first [replace (a =? b) with true by lia | replace (a =? b) with false by lia | destruct (N.eqb_spec a b)]
  end.
Ltac cmp_dec := repeat (cmp_step; cbn [andb orb negb xorb]).
Ltac bfin :=
  cbn [andb orb negb xorb];
  rewrite ?andb_false_r, ?andb_true_r, ?orb_false_r, ?orb_true_r; cbn [andb orb negb xorb];
  first [ reflexivity | (exfalso; lia) | (f_equal; lia)
        | (apply testbit_high; [assumption|lia]) | (symmetry; apply testbit_high; [assumption|lia])
        | (destruct_bools) ]
with destruct_bools :=
  match goal with
  | |- context [if ?b then _ else _] => is_var b; destruct b; bfin
  | |- context [negb ?b] => is_var b; destruct b; bfin
  | |- context [andb _ ?b] => is_var b; destruct b; bfin
  end.
Ltac bsolve := cmp_dec; bfin.

(* ---- small facts about words ---- *)

Lemma testbit_wnot x k : N.testbit (wnot x) k = xorb (N.testbit x k) (k <? 64).
Proof. unfold wnot. rewrite N.lxor_spec, testbit_ones. reflexivity. Qed.

Lemma wnot_lt x : x < 2 ^ 64 -> wnot x < 2 ^ 64.
Proof.
  intros H. apply lt_pow2_of_bits. intros k Hk.
  rewrite testbit_wnot, (testbit_high x) by (auto; lia). replace (k <? 64) with false by lia. reflexivity.
Qed.

Lemma testbit_filler b k : N.testbit (filler_value b) k = (k <? 64) && b.
Proof.
  unfold filler_value. destruct b.
  - rewrite testbit_ones. rewrite andb_true_r. reflexivity.
  - rewrite N.bits_0, andb_false_r. reflexivity.
Qed.
Lemma filler_lt b : filler_value b < 2 ^ 64.
Proof. destruct b; reflexivity. Qed.

Lemma testbit_1 j : N.testbit 1 j = (j =? 0).
Proof.
  destruct (N.eqb_spec j 0) as [->|H]; [reflexivity|]. apply N.bits_above_log2. cbn. lia.
Qed.

Lemma land_shiftr_1 w o : (N.land (N.shiftr w o) 1 =? 1) = N.testbit w o.
Proof.
  change (N.land (N.shiftr w o) 1) with (N.land (N.shiftr w o) (N.ones 1)).
  rewrite N.land_ones. change (2 ^ 1) with 2. rewrite <- N.bit0_eqb, N.shiftr_spec'. f_equal.
Qed.

Lemma testbit_b2n (b : bool) j : N.testbit (if b then 1 else 0) j = b && (j =? 0).
Proof. destruct b; [apply testbit_1|apply N.bits_0]. Qed.

Lemma set_bit_word w o (b : bool) k :
  o < 64 -> w < 2 ^ 64 ->
  N.testbit (N.lor (N.land w (wnot (N.shiftl 1 o))) (N.shiftl (if b then 1 else 0) o)) k =
  if k =? o then b else N.testbit w k.
Proof.
  intros Ho Hw. rewrite N.lor_spec, N.land_spec, testbit_wnot, !testbit_shiftl, testbit_1, testbit_b2n.
  destruct (N.eqb_spec k o) as [->|Hk].
  - rewrite N.leb_refl, N.sub_diag. replace (o <? 64) with true by lia. cbn. rewrite andb_false_r, andb_true_r. reflexivity.
  - replace (k - o =? 0) with (k <=? o) by lia.
    destruct (N.leb_spec o k), (N.leb_spec k o); try lia; cbn [andb xorb orb]; rewrite ?andb_false_r, ?orb_false_r.
    + destruct (N.ltb_spec k 64); cbn [xorb]; [apply andb_true_r|].
      rewrite andb_false_r. symmetry. apply testbit_high; assumption.
    + replace (k <? 64) with true by lia. apply andb_true_r.
Qed.

Lemma push_bit_word w o (b : bool) k :
  N.testbit (N.lor w (N.shiftl (if b then 1 else 0) o)) k = if k =? o then N.testbit w k || b else N.testbit w k.
Proof.
  rewrite N.lor_spec, testbit_shiftl, testbit_b2n.
  destruct (N.eqb_spec k o) as [->|Hk].
  - rewrite N.leb_refl, N.sub_diag. cbn. rewrite andb_true_r. reflexivity.
  - replace (k - o =? 0) with (k <=? o) by lia.
    destruct (N.leb_spec o k), (N.leb_spec k o); try lia; cbn [andb]; rewrite ?andb_false_r; apply orb_false_r.
Qed.

Lemma bit_setN a i v p :
  i < lenN a -> bit (setN a i v) p = if p / 64 =? i then N.testbit v (p mod 64) else bit a p.
Proof.
  intros H. unfold bit. destruct (N.eqb_spec (p / 64) i) as [->|Hn].
  - rewrite getw_setN_eq by assumption. reflexivity.
  - rewrite getw_setN_neq by congruence. reflexivity.
Qed.

Lemma bit_app_zero a p : bit (a ++ [0]) p = bit a p.
Proof.
  unfold bit. rewrite getw_app. destruct (N.ltb_spec (p / 64) (lenN a)) as [H|H]; [reflexivity|].
  rewrite (getw_beyond a) by assumption. rewrite getw_cons, getw_nil. destruct (_ =? _); reflexivity.
Qed.

Lemma read_int_val a off w :
  wf a -> 1 <= w <= 64 -> (off + w - 1) / 64 < lenN a ->
  exists v, read_int a off w = Ok v /\ v < 2 ^ 64 /\ forall k, N.testbit v k = (k <? w) && bit a (off + k).
Proof.
  intros Hwf Hw Hi. destruct (read_int_bits a off w 0 Hwf Hw Hi) as (v & Hv & Hlt & _).
  exists v. split; [exact Hv|]. split; [exact Hlt|]. intros k.
  destruct (read_int_bits a off w k Hwf Hw Hi) as (v' & Hv' & _ & Hb). congruence.
Qed.

(* ---- the two building blocks: Vec::resize and set_unused_bits ---- *)

Lemma vec_resize_ok d n x :
  wf d -> x < 2 ^ 64 ->
  wf (vec_resize d n x) /\ lenN (vec_resize d n x) = n /\
  forall p, bit (vec_resize d n x) p =
            if p <? 64 * N.min n (lenN d) then bit d p else (p <? 64 * n) && N.testbit x (p mod 64).
Proof.
  intros Hwf Hx. unfold vec_resize. split; [|split].
  - apply wf_app; [apply wf_firstn; assumption|apply wf_repeatN; assumption].
  - rewrite lenN_app, lenN_firstn, lenN_repeatN. unfold lenN. lia.
  - intros p. unfold bit. rewrite getw_app, lenN_firstn, getw_firstn, getw_repeatN, N2Nat.id.
    unfold lenN. cmp_dec; first [reflexivity | apply N.bits_0 | (exfalso; lia)].
Qed.

Lemma set_unused_ok len d value :
  wf d -> lenN d = bits_to_words len ->
  exists d', set_unused_bits (mkraw len d) value = Ok (mkraw len d') /\ wf d' /\ lenN d' = lenN d /\
    forall p, bit d' p = if (len <=? p) && (p <? 64 * lenN d) then value else bit d p.
Proof.
  intros Hwf Hl. rewrite bits_to_words_eq in Hl.
  unfold set_unused_bits. cbn [rlen rdata]. rewrite split_offset_spec.
  destruct (N.ltb_spec 0 (len mod 64)) as [Hpos|Hz].
  - rewrite low_set_ok by lia. cbn [bind].
    assert (Hi : len / 64 < lenN d) by lia.
    rewrite (idx_getw d _ Hi). cbn [bind]. rewrite upd_ok by assumption. cbn [bind].
    pose proof (getw_lt d (len / 64) Hwf) as Hg.
    eexists. split; [reflexivity|].
    match goal with |- wf (setN d _ ?nv) /\ _ => set (nw := nv) end.
    assert (Hnb : forall k, N.testbit nw k =
              if (len mod 64 <=? k) && (k <? 64) then value else N.testbit (getw d (len / 64)) k).
    { intros k. subst nw. destruct value.
      - rewrite N.lor_spec, testbit_wnot, testbit_ones. bsolve.
      - rewrite N.land_spec, testbit_ones. bsolve. }
    assert (Hnlt : nw < 2 ^ 64).
    { apply lt_pow2_of_bits. intros k Hk. rewrite Hnb. replace (k <? 64) with false by lia.
      rewrite andb_false_r. apply testbit_high; [assumption|lia]. }
    split; [apply wf_setN; assumption|]. split; [apply lenN_setN|].
    intros p. rewrite bit_setN by assumption. rewrite Hnb. unfold bit.
    destruct (N.eqb_spec (p / 64) (len / 64)) as [He|He].
    + rewrite He. replace (p mod 64 <? 64) with true by lia. rewrite andb_true_r.
      replace (p <? 64 * lenN d) with true by lia. rewrite andb_true_r.
      replace (len mod 64 <=? p mod 64) with (len <=? p) by lia. reflexivity.
    + replace ((len <=? p) && (p <? 64 * lenN d)) with false by lia. reflexivity.
  - exists d. split; [reflexivity|]. split; [assumption|]. split; [reflexivity|].
    intros p. replace ((len <=? p) && (p <? 64 * lenN d)) with false by lia. reflexivity.
Qed.

(* shrinking to n <= len bits, as the pops do: drop the unneeded words, clear the tail of the last one *)
Lemma raw_truncate_ok r n :
  raw_inv r -> n <= rlen r ->
  exists r', set_unused_bits (mkraw n (vec_resize (rdata r) (bits_to_words n) 0)) false = Ok r' /\
             raw_inv r' /\ abs_raw r' = takeN n (abs_raw r).
Proof.
  intros Hinv Hn. pose proof Hinv as (Hl & Hwf & Hz).
  destruct (vec_resize_ok (rdata r) (bits_to_words n) 0 Hwf ltac:(reflexivity)) as (Hwf1 & Hl1 & Hb1).
  destruct (set_unused_ok n _ false Hwf1 Hl1) as (d' & E & Hwf2 & Hl2 & Hb2).
  rewrite E. eexists. split; [reflexivity|].
  apply raw_of_bits; [assumption|congruence| |].
  - rewrite lenL_takeN, abs_len by assumption. lia.
  - intros p. rewrite Hb2, Hb1, Hl1, nthb_takeN, abs_nthb by assumption.
    rewrite N.bits_0, andb_false_r. rewrite Hl, !bits_to_words_eq.
    destruct (N.ltb_spec p n) as [Hp|Hp]; cbn [andb].
    + replace (n <=? p) with false by lia. cbn [andb].
      replace (p <? 64 * N.min ((n + 63) / 64) ((rlen r + 63) / 64)) with true by lia. reflexivity.
    + replace (n <=? p) with true by lia. cbn [andb].
      destruct (p <? 64 * ((n + 63) / 64)) eqn:E1; [reflexivity|].
      destruct (p <? 64 * N.min ((n + 63) / 64) ((rlen r + 63) / 64)) eqn:E2; [lia|reflexivity].
Qed.

(* ---- every operation against the list specification ---- *)

Theorem raw_new_ok : raw_inv raw_new /\ abs_raw raw_new = [].
Proof.
  split; [|reflexivity]. split; [reflexivity|]. split; [apply wf_nil|].
  intros p _. apply bit_hi. change (lenN (rdata raw_new)) with 0. lia.
Qed.

Theorem raw_with_len_ok len value :
  exists r, raw_with_len len value = Ok r /\ raw_inv r /\ abs_raw r = repN value len.
Proof.
  unfold raw_with_len.
  set (d0 := repeatN (filler_value value) (N.to_nat (bits_to_words len))).
  assert (Hwf0 : wf d0) by (apply wf_repeatN, filler_lt).
  assert (Hl0 : lenN d0 = bits_to_words len) by (subst d0; rewrite lenN_repeatN; lia).
  destruct (set_unused_ok len d0 false Hwf0 Hl0) as (d' & E & Hwf & Hl & Hb).
  rewrite E. eexists. split; [reflexivity|].
  apply raw_of_bits; [assumption|congruence|apply lenL_repN|].
  intros p. rewrite Hb, nthb_repN, Hl0. unfold bit. subst d0. rewrite getw_repeatN, N2Nat.id.
  rewrite bits_to_words_eq.
  destruct (N.ltb_spec p len) as [Hp|Hp]; cbn [andb].
  - replace (len <=? p) with false by lia. cbn [andb].
    replace (p / 64 <? (len + 63) / 64) with true by lia. rewrite testbit_filler.
    replace (p mod 64 <? 64) with true by lia. reflexivity.
  - replace (len <=? p) with true by lia. cbn [andb].
    destruct (N.ltb_spec p (64 * ((len + 63) / 64))); [reflexivity|].
    replace (p / 64 <? (len + 63) / 64) with false by lia. apply N.bits_0.
Qed.

Theorem raw_clear_ok r : raw_inv (raw_clear r) /\ abs_raw (raw_clear r) = [].
Proof. exact raw_new_ok. Qed.

Theorem raw_reserve_ok r a : raw_reserve r a = r.
Proof. reflexivity. Qed.

Theorem raw_resize_ok r n value :
  raw_inv r ->
  exists r', raw_resize r n value = Ok r' /\ raw_inv r' /\
             abs_raw r' = takeN n (abs_raw r) ++ repN value (n - lenL (abs_raw r)).
Proof.
  intros Hinv. pose proof Hinv as (Hl & Hwf & Hz). unfold raw_resize.
  destruct r as [len d]. cbn [rlen rdata] in *.
  assert (S1 : exists d1,
     (if len <? n then set_unused_bits (mkraw len d) value else Ok (mkraw len d)) = Ok (mkraw len d1) /\
     wf d1 /\ lenN d1 = lenN d /\
     forall p, bit d1 p = if (len <? n) && (len <=? p) && (p <? 64 * lenN d) then value else bit d p).
  { destruct (len <? n).
    - destruct (set_unused_ok len d value Hwf Hl) as (d1 & E & H1 & H2 & H3). exists d1. cbn [andb]. auto.
    - exists d. cbn [andb]. auto. }
  destruct S1 as (d1 & E1 & Hwf1 & Hl1 & Hb1). rewrite E1. cbn [bind rdata].
  destruct (vec_resize_ok d1 (bits_to_words n) (filler_value value) Hwf1 (filler_lt value)) as (Hwf2 & Hl2 & Hb2).
  destruct (set_unused_ok n _ false Hwf2 Hl2) as (d3 & E3 & Hwf3 & Hl3 & Hb3).
  rewrite E3. eexists. split; [reflexivity|].
  pose proof (abs_len _ Hinv) as HL. cbn [rlen] in HL.
  apply raw_of_bits; [assumption|congruence| |].
  - rewrite lenL_app, lenL_takeN, lenL_repN, HL. lia.
  - intros p. rewrite Hb3, Hb2, Hb1, Hl2, Hl1, testbit_filler.
    rewrite nthb_app, lenL_takeN, nthb_takeN, nthb_repN, HL, (abs_nthb _ _ Hinv). cbn [rdata].
    rewrite Hl, !bits_to_words_eq.
    destruct (N.ltb_spec p n) as [Hp|Hp].
    + replace (n <=? p) with false by lia. cbn [andb].
      replace (p mod 64 <? 64) with true by lia. cbn [andb].
      replace (p <? 64 * ((n + 63) / 64)) with true by lia. cbn [andb].
      destruct (N.ltb_spec p len) as [Hpl|Hpl].
      * replace (p <? N.min n len) with true by lia.
        replace (len <=? p) with false by lia. rewrite andb_false_r. cbn [andb].
        replace (p <? 64 * N.min ((n + 63) / 64) ((len + 63) / 64)) with true by lia. reflexivity.
      * replace (p <? N.min n len) with false by lia.
        replace (p - N.min n len <? n - len) with true by lia. cbn [andb].
        replace (len <? n) with true by lia. replace (len <=? p) with true by lia. cbn [andb].
        destruct (N.ltb_spec p (64 * ((len + 63) / 64))) as [Hq|Hq].
        -- replace (p <? 64 * N.min ((n + 63) / 64) ((len + 63) / 64)) with true by lia. reflexivity.
        -- replace (p <? 64 * N.min ((n + 63) / 64) ((len + 63) / 64)) with false by lia. reflexivity.
    + replace (n <=? p) with true by lia. cbn [andb].
      replace (p <? N.min n len) with false by lia.
      replace (p - N.min n len <? n - len) with false by lia. cbn [andb].
      destruct (N.ltb_spec p (64 * ((n + 63) / 64))) as [Hq|Hq]; [reflexivity|].
      replace (p <? 64 * N.min ((n + 63) / 64) ((len + 63) / 64)) with false by lia. reflexivity.
Qed.

Theorem raw_complement_ok r :
  raw_inv r -> exists r', raw_complement r = Ok r' /\ raw_inv r' /\ abs_raw r' = map negb (abs_raw r).
Proof.
  intros Hinv. pose proof Hinv as (Hl & Hwf & Hz). unfold raw_complement.
  assert (Hwf1 : wf (map wnot (rdata r))).
  { unfold wf in *. rewrite Forall_forall in *. intros x Hx. apply in_map_iff in Hx.
    destruct Hx as (y & <- & Hy). apply wnot_lt. auto. }
  assert (Hl1 : lenN (map wnot (rdata r)) = bits_to_words (rlen r)) by (rewrite lenN_map; exact Hl).
  destruct (set_unused_ok (rlen r) _ false Hwf1 Hl1) as (d' & E & Hwf2 & Hl2 & Hb2).
  rewrite E. eexists. split; [reflexivity|].
  pose proof (abs_len _ Hinv) as HL.
  apply raw_of_bits; [assumption|congruence|rewrite lenL_map; exact HL|].
  intros p. rewrite Hb2, nthb_map_negb, HL, (abs_nthb _ _ Hinv), lenN_map, Hl, bits_to_words_eq.
  destruct (N.ltb_spec p (rlen r)) as [Hp|Hp]; cbn [andb].
  - replace (rlen r <=? p) with false by lia. cbn [andb]. unfold bit.
    rewrite getw_map_lt by (rewrite Hl, bits_to_words_eq; lia).
    rewrite testbit_wnot. replace (p mod 64 <? 64) with true by lia. apply xorb_true_r.
  - replace (rlen r <=? p) with true by lia. cbn [andb].
    destruct (N.ltb_spec p (64 * ((rlen r + 63) / 64))) as [Hq|Hq]; [reflexivity|].
    apply bit_hi. rewrite lenN_map, Hl, bits_to_words_eq. exact Hq.
Qed.

Theorem raw_bit_ok r i : raw_inv r -> i < rlen r -> raw_bit r i = Ok (nthb (abs_raw r) i).
Proof.
  intros Hinv Hi. pose proof Hinv as (Hl & Hwf & Hz). rewrite bits_to_words_eq in Hl.
  unfold raw_bit. rewrite split_offset_spec. rewrite idx_getw by lia. cbn [bind].
  rewrite land_shiftr_1, abs_nthb by assumption. reflexivity.
Qed.

Theorem raw_int_ok r off w :
  raw_inv r -> w <= 64 -> off + w <= rlen r ->
  raw_int r off w = Ok (bits_val (takeN w (dropN off (abs_raw r)))).
Proof.
  intros Hinv Hw Hoff. pose proof Hinv as (Hl & Hwf & Hz). rewrite bits_to_words_eq in Hl.
  unfold raw_int. destruct (N.eqb_spec w 0) as [->|Hw0]; [reflexivity|].
  destruct (read_int_val (rdata r) off w Hwf ltac:(lia) ltac:(lia)) as (v & E & Hlt & Hb).
  rewrite E. f_equal. apply N.bits_inj. intros k.
  rewrite Hb, bits_val_testbit, nthb_takeN, nthb_dropN, abs_nthb by assumption. reflexivity.
Qed.

Theorem raw_set_bit_ok r i b :
  raw_inv r -> i < rlen r ->
  exists r', raw_set_bit r i b = Ok r' /\ raw_inv r' /\
             abs_raw r' = takeN i (abs_raw r) ++ [b] ++ dropN (i + 1) (abs_raw r).
Proof.
  intros Hinv Hi. pose proof Hinv as (Hl & Hwf & Hz). pose proof Hl as Hl'. rewrite bits_to_words_eq in Hl'.
  unfold raw_set_bit. replace (i <? rlen r) with true by lia. unfold raw_set_bit_body. rewrite split_offset_spec.
  assert (Hidx : i / 64 < lenN (rdata r)) by lia.
  rewrite idx_getw by assumption. cbn [bind]. rewrite upd_ok by assumption. cbn [bind].
  pose proof (getw_lt (rdata r) (i / 64) Hwf) as Hg.
  eexists. split; [reflexivity|].
  match goal with |- context [setN _ _ ?nv] => set (nw := nv) end.
  assert (Hnb : forall k, N.testbit nw k = if k =? i mod 64 then b else N.testbit (getw (rdata r) (i / 64)) k).
  { intros k. subst nw. apply set_bit_word; [lia|assumption]. }
  assert (Hnlt : nw < 2 ^ 64).
  { apply lt_pow2_of_bits. intros k Hk. rewrite Hnb. replace (k =? i mod 64) with false by lia.
    apply testbit_high; [assumption|lia]. }
  pose proof (abs_len _ Hinv) as HL.
  apply raw_of_bits.
  - apply wf_setN; assumption.
  - rewrite lenN_setN. exact Hl.
  - rewrite lenL_app, lenL_takeN. cbn [app]. rewrite lenL_cons, lenL_dropN, HL. lia.
  - intros p. rewrite bit_setN by assumption. rewrite Hnb. cbn [app].
    rewrite nthb_app, lenL_takeN, nthb_takeN, nthb_cons, nthb_dropN, HL, !(abs_nthb _ _ Hinv).
    replace (N.min i (rlen r)) with i by lia.
    destruct (N.ltb_spec p i) as [Hp|Hp]; cbn [andb].
    + destruct (N.eqb_spec (p / 64) (i / 64)) as [He|He]; [|reflexivity].
      replace (p mod 64 =? i mod 64) with false by lia. unfold bit. rewrite He. reflexivity.
    + destruct (N.eqb_spec (p - i) 0) as [He|He].
      * replace (p / 64 =? i / 64) with true by lia. replace (p mod 64 =? i mod 64) with true by lia. reflexivity.
      * replace (i + 1 + (p - i - 1)) with p by lia.
        destruct (N.eqb_spec (p / 64) (i / 64)) as [He2|He2]; [|reflexivity].
        replace (p mod 64 =? i mod 64) with false by lia. unfold bit. rewrite He2. reflexivity.
Qed.

Theorem raw_set_int_ok r off v w :
  raw_inv r -> w <= 64 -> off + w <= rlen r ->
  exists r', raw_set_int r off v w = Ok r' /\ raw_inv r' /\
             abs_raw r' = takeN off (abs_raw r) ++ vbits v w ++ dropN (off + w) (abs_raw r).
Proof.
  intros Hinv Hw Hoff. pose proof Hinv as (Hl & Hwf & Hz). pose proof Hl as Hl'. rewrite bits_to_words_eq in Hl'.
  pose proof (abs_len _ Hinv) as HL.
  unfold raw_set_int. destruct (N.eqb_spec w 0) as [->|Hw0].
  - exists r. split; [reflexivity|]. split; [assumption|].
    rewrite vbits_0. cbn [app]. rewrite N.add_0_r. symmetry. apply takeN_dropN.
  - destruct (write_int_bits (rdata r) off v w Hwf ltac:(lia) ltac:(lia)) as (d' & E & Hwf' & Hlen' & Hb').
    rewrite E. cbn [bind]. eexists. split; [reflexivity|].
    apply raw_of_bits; [assumption|unfold lenN in *; congruence| |].
    + rewrite !lenL_app, lenL_takeN, lenL_vbits, lenL_dropN, HL by assumption. lia.
    + intros p. rewrite Hb'. rewrite nthb_app, lenL_takeN, nthb_takeN, nthb_app, lenL_vbits, nthb_vbits, nthb_dropN by assumption.
      rewrite HL, !(abs_nthb _ _ Hinv). replace (N.min off (rlen r)) with off by lia.
      destruct (N.ltb_spec p off) as [Hp|Hp].
      * replace (off <=? p) with false by lia. reflexivity.
      * replace (off <=? p) with true by lia. cbn [andb].
        destruct (N.ltb_spec p (off + w)) as [Hq|Hq].
        -- replace (p - off <? w) with true by lia. reflexivity.
        -- replace (p - off <? w) with false by lia. f_equal. lia.
Qed.

Theorem raw_push_bit_ok r b :
  raw_inv r -> exists r', raw_push_bit r b = Ok r' /\ raw_inv r' /\ abs_raw r' = abs_raw r ++ [b].
Proof.
  intros Hinv. pose proof Hinv as (Hl & Hwf & Hz). pose proof Hl as Hl'. rewrite bits_to_words_eq in Hl'.
  pose proof (abs_len _ Hinv) as HL.
  unfold raw_push_bit. rewrite split_offset_spec.
  set (d0 := if rlen r / 64 =? lenN (rdata r) then rdata r ++ [0] else rdata r).
  assert (Hwf0 : wf d0).
  { subst d0. destruct (_ =? _); [|assumption]. apply wf_app; [assumption|]. constructor; [reflexivity|constructor]. }
  assert (Hl0 : lenN d0 = bits_to_words (rlen r + 1)).
  { subst d0. rewrite bits_to_words_eq. destruct (N.eqb_spec (rlen r / 64) (lenN (rdata r))).
    - rewrite lenN_app. change (lenN [0]) with 1. lia.
    - lia. }
  assert (Hb0 : forall p, bit d0 p = bit (rdata r) p).
  { intros p. subst d0. destruct (_ =? _); [apply bit_app_zero|reflexivity]. }
  rewrite bits_to_words_eq in Hl0.
  assert (Hidx : rlen r / 64 < lenN d0) by lia.
  rewrite idx_getw by assumption. cbn [bind]. rewrite upd_ok by assumption. cbn [bind].
  eexists. split; [reflexivity|].
  pose proof (getw_lt d0 (rlen r / 64) Hwf0) as Hg.
  match goal with |- context [setN _ _ ?nv] => set (nw := nv) end.
  assert (Hnb : forall k, N.testbit nw k =
            if k =? rlen r mod 64 then N.testbit (getw d0 (rlen r / 64)) k || b else N.testbit (getw d0 (rlen r / 64)) k).
  { intros k. subst nw. apply push_bit_word. }
  assert (Hnlt : nw < 2 ^ 64).
  { apply lt_pow2_of_bits. intros k Hk. rewrite Hnb. replace (k =? rlen r mod 64) with false by lia.
    apply testbit_high; [assumption|lia]. }
  apply raw_of_bits.
  - apply wf_setN; assumption.
  - rewrite lenN_setN, bits_to_words_eq. exact Hl0.
  - rewrite lenL_app, HL. reflexivity.
  - intros p. rewrite bit_setN by assumption. rewrite Hnb.
    rewrite nthb_app, HL, nthb_single, (abs_nthb _ _ Hinv).
    destruct (N.ltb_spec p (rlen r)) as [Hp|Hp].
    + destruct (N.eqb_spec (p / 64) (rlen r / 64)) as [He|He]; [|apply Hb0].
      replace (p mod 64 =? rlen r mod 64) with false by lia.
      rewrite <- Hb0. unfold bit. rewrite He. reflexivity.
    + destruct (N.eqb_spec (p - rlen r) 0) as [He|He]; cbn [andb].
      * replace (p / 64 =? rlen r / 64) with true by lia.
        replace (p mod 64 =? rlen r mod 64) with true by lia.
        assert (Hf : bit d0 p = false) by (rewrite Hb0; apply Hz; lia).
        unfold bit in Hf. replace (p / 64) with (rlen r / 64) in Hf by lia. rewrite Hf. reflexivity.
      * assert (Hf : bit d0 p = false) by (rewrite Hb0; apply Hz; lia).
        destruct (N.eqb_spec (p / 64) (rlen r / 64)) as [He2|He2]; [|exact Hf].
        replace (p mod 64 =? rlen r mod 64) with false by lia.
        unfold bit in Hf. rewrite He2 in Hf. exact Hf.
Qed.

Theorem raw_push_int_ok r v w :
  raw_inv r -> w <= 64 ->
  exists r', raw_push_int r v w = Ok r' /\ raw_inv r' /\ abs_raw r' = abs_raw r ++ vbits v w.
Proof.
  intros Hinv Hw. pose proof Hinv as (Hl & Hwf & Hz). pose proof Hl as Hl'. rewrite bits_to_words_eq in Hl'.
  pose proof (abs_len _ Hinv) as HL.
  unfold raw_push_int. destruct (N.eqb_spec w 0) as [->|Hw0].
  - exists r. split; [reflexivity|]. split; [assumption|]. rewrite vbits_0, app_nil_r. reflexivity.
  - unfold words_to_bits. change bits_WORD_BITS with 64.
    set (d0 := if lenN (rdata r) * 64 <? rlen r + w then rdata r ++ [0] else rdata r).
    assert (Hwf0 : wf d0).
    { subst d0. destruct (_ <? _); [|assumption]. apply wf_app; [assumption|]. constructor; [reflexivity|constructor]. }
    assert (Hl0 : lenN d0 = bits_to_words (rlen r + w)).
    { subst d0. rewrite bits_to_words_eq. destruct (N.ltb_spec (lenN (rdata r) * 64) (rlen r + w)).
      - rewrite lenN_app. change (lenN [0]) with 1. lia.
      - lia. }
    assert (Hb0 : forall p, bit d0 p = bit (rdata r) p).
    { intros p. subst d0. destruct (_ <? _); [apply bit_app_zero|reflexivity]. }
    pose proof Hl0 as Hl0'. rewrite bits_to_words_eq in Hl0'.
    destruct (write_int_bits d0 (rlen r) v w Hwf0 ltac:(lia) ltac:(lia)) as (d' & E & Hwf' & Hlen' & Hb').
    rewrite E. cbn [bind]. eexists. split; [reflexivity|].
    apply raw_of_bits; [assumption|unfold lenN in *; congruence| |].
    + rewrite lenL_app, lenL_vbits, HL by assumption. reflexivity.
    + intros p. rewrite Hb', Hb0, nthb_app, HL, nthb_vbits, (abs_nthb _ _ Hinv) by assumption.
      destruct (N.ltb_spec p (rlen r)) as [Hp|Hp].
      * replace (rlen r <=? p) with false by lia. reflexivity.
      * replace (rlen r <=? p) with true by lia. cbn [andb].
        destruct (N.ltb_spec p (rlen r + w)) as [Hq|Hq].
        -- replace (p - rlen r <? w) with true by lia. reflexivity.
        -- replace (p - rlen r <? w) with false by lia. apply Hz. lia.
Qed.

Theorem raw_pop_bit_ok r :
  raw_inv r ->
  exists r', raw_pop_bit r =
               Ok (r', if lenL (abs_raw r) =? 0 then None else Some (nthb (abs_raw r) (lenL (abs_raw r) - 1))) /\
             raw_inv r' /\
             abs_raw r' = if lenL (abs_raw r) =? 0 then abs_raw r else takeN (lenL (abs_raw r) - 1) (abs_raw r).
Proof.
  intros Hinv. rewrite (abs_len _ Hinv). unfold raw_pop_bit.
  destruct (N.eqb_spec (rlen r) 0) as [Hz|Hnz].
  - exists r. auto.
  - rewrite raw_bit_ok by (assumption || lia). cbn [bind].
    destruct (raw_truncate_ok r (rlen r - 1) Hinv ltac:(lia)) as (r' & E & Hinv' & Habs).
    rewrite E. cbn [bind]. exists r'. auto.
Qed.

Theorem raw_pop_int_ok r w :
  raw_inv r -> w <= 64 ->
  exists r', raw_pop_int r w =
               Ok (r', if w <=? lenL (abs_raw r) then Some (bits_val (dropN (lenL (abs_raw r) - w) (abs_raw r))) else None) /\
             raw_inv r' /\
             abs_raw r' = if w <=? lenL (abs_raw r) then takeN (lenL (abs_raw r) - w) (abs_raw r) else abs_raw r.
Proof.
  intros Hinv Hw. pose proof (abs_len _ Hinv) as HL. rewrite HL. unfold raw_pop_int.
  destruct (N.leb_spec w (rlen r)) as [Hle|Hgt]; [|exists r; auto].
  destruct (N.eqb_spec w 0) as [->|Hw0].
  - exists r. rewrite N.sub_0_r. rewrite dropN_all, takeN_all by lia. auto.
  - rewrite raw_int_ok by (assumption || lia). cbn [bind].
    destruct (raw_truncate_ok r (rlen r - w) Hinv ltac:(lia)) as (r' & E & Hinv' & Habs).
    rewrite E. cbn [bind]. exists r'. split; [|auto].
    rewrite (takeN_all w) by (rewrite lenL_dropN; lia). reflexivity.
Qed.

(* ---- one step, then whole histories ---- *)

Theorem rstep_refines r o :
  raw_inv r -> rop_pre (abs_raw r) o ->
  exists r', rstep r o = Ok (r', snd (rspec_step (abs_raw r) o)) /\ raw_inv r' /\
             abs_raw r' = fst (rspec_step (abs_raw r) o).
Proof.
  intros Hinv Hpre. pose proof (abs_len _ Hinv) as HL.
  destruct o as [len value|n value| |a| |i|off w|i b|off v w|b|v w| |w| ];
    cbn [rstep rspec_step rop_pre fst snd] in *.
  - destruct (raw_with_len_ok len value) as (r' & E & Hi & Ha). rewrite E. cbn [bind]. eauto.
  - destruct (raw_resize_ok r n value Hinv) as (r' & E & Hi & Ha). rewrite E. cbn [bind]. eauto.
  - exists (raw_clear r). destruct (raw_clear_ok r). auto.
  - exists r. auto.
  - destruct (raw_complement_ok r Hinv) as (r' & E & Hi & Ha). rewrite E. cbn [bind]. eauto.
  - rewrite raw_bit_ok by (assumption || lia). cbn [bind]. eauto.
  - rewrite raw_int_ok by (assumption || lia). cbn [bind]. eauto.
  - destruct (raw_set_bit_ok r i b Hinv ltac:(lia)) as (r' & E & Hi & Ha). rewrite E. cbn [bind]. eauto.
  - destruct (raw_set_int_ok r off v w Hinv ltac:(lia) ltac:(lia)) as (r' & E & Hi & Ha). rewrite E. cbn [bind]. eauto.
  - destruct (raw_push_bit_ok r b Hinv) as (r' & E & Hi & Ha). rewrite E. cbn [bind]. eauto.
  - destruct (raw_push_int_ok r v w Hinv Hpre) as (r' & E & Hi & Ha). rewrite E. cbn [bind]. eauto.
  - destruct (raw_pop_bit_ok r Hinv) as (r' & E & Hi & Ha). rewrite E. cbn [bind].
    exists r'. destruct (lenL (abs_raw r) =? 0); cbn [fst snd]; auto.
  - destruct (raw_pop_int_ok r w Hinv Hpre) as (r' & E & Hi & Ha). rewrite E. cbn [bind].
    exists r'. destruct (w <=? lenL (abs_raw r)); cbn [fst snd]; auto.
  - rewrite raw_count_ones_spec by assumption. eauto.
Qed.

Theorem rrun_refines ops : forall r,
  raw_inv r -> rpre_all (abs_raw r) ops ->
  exists r', rrun r ops = Ok (r', snd (rspec_run (abs_raw r) ops)) /\ raw_inv r' /\
             abs_raw r' = fst (rspec_run (abs_raw r) ops).
Proof.
  induction ops as [|o t IH]; intros r Hinv Hpre.
  - exists r. cbn [rrun rspec_run fst snd]. auto.
  - destruct Hpre as [Hp Ht]. cbn [rrun rspec_run].
    destruct (rstep_refines r o Hinv Hp) as (r1 & E1 & Hinv1 & Ha1). rewrite E1. cbn [bind].
    destruct (rspec_step (abs_raw r) o) as [l1 x] eqn:Es. cbn [fst snd] in *.
    rewrite <- Ha1 in Ht. destruct (IH r1 Hinv1 Ht) as (r2 & E2 & Hinv2 & Ha2). rewrite E2. cbn [bind].
    rewrite Ha1 in *. destruct (rspec_run l1 t) as [l2 xs]. cbn [fst snd] in *. eauto.
Qed.

(* the observers are functions of the content *)
Corollary raw_observers_canonical r1 r2 :
  raw_inv r1 -> raw_inv r2 -> abs_raw r1 = abs_raw r2 ->
  raw_eqb r1 r2 = true /\ raw_serialize r1 = raw_serialize r2 /\ raw_count_ones r1 = raw_count_ones r2.
Proof.
  intros H1 H2 E. rewrite (raw_canonical r1 r2 H1 H2 E). split; [apply raw_eqb_refl|]. split; reflexivity.
Qed.
