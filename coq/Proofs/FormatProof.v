(* Proofs about the document codec of Spec/Format.v itself: for every admissible writer-side choice the
   document's writer produces a file that the document's reader accepts and decodes to the same content
   (so the formalised document is consistent and decodable). Each result is stated in "stream" form
   (the reader consumes exactly the encoding and leaves the rest), from which the whole-file forms follow. *)
From Coq Require Import NArith List Lia ZArith Bool.
Require Import SDS.Spec.BitSeq SDS.Spec.Utf8 SDS.Spec.Format.
Import ListNotations.
Open Scope N_scope.
Require Import ZifyBool ZifyN ZifyNat.
Ltac Zify.zify_post_hook ::= Z.div_mod_to_equations.
Arguments N.add : simpl never. Arguments N.sub : simpl never. Arguments N.mul : simpl never.
Arguments N.eqb : simpl never. Arguments N.ltb : simpl never. Arguments N.leb : simpl never.
Arguments N.pow : simpl never. Arguments N.shiftl : simpl never. Arguments N.shiftr : simpl never.
Arguments N.land : simpl never. Arguments N.lor : simpl never. Arguments N.div : simpl never.
Arguments N.modulo : simpl never. Arguments N.ones : simpl never. Arguments N.testbit : simpl never.
Arguments N.min : simpl never. Arguments N.max : simpl never. Arguments N.log2 : simpl never.

(* ------------------------------------------------------------------ generic *)

Lemma lenN_nil {A} : lenN (@nil A) = 0. Proof. reflexivity. Qed.
Lemma lenN_cons {A} (x : A) l : lenN (x :: l) = lenN l + 1.
Proof. unfold lenN. cbn [length]. lia. Qed.
Lemma lenN_app {A} (a b : list A) : lenN (a ++ b) = lenN a + lenN b.
Proof. unfold lenN. rewrite app_length. lia. Qed.
Lemma to_nat_lenN {A} (l : list A) : N.to_nat (lenN l) = length l.
Proof. unfold lenN. lia. Qed.

Lemma firstn_app_exact {A} (a b : list A) : firstn (length a) (a ++ b) = a.
Proof. rewrite firstn_app, Nat.sub_diag, firstn_all. cbn [firstn]. apply app_nil_r. Qed.
Lemma skipn_app_exact {A} (a b : list A) : skipn (length a) (a ++ b) = b.
Proof. rewrite skipn_app, Nat.sub_diag, skipn_all. reflexivity. Qed.

Lemma forallb_app_true {A} (f : A -> bool) a b : forallb f a = true -> forallb f b = true -> forallb f (a ++ b) = true.
Proof. intros Ha Hb. rewrite forallb_app, Ha, Hb. reflexivity. Qed.

(* a reader that consumes exactly an encoding *)
Definition reads {A} (p : parser A) (enc : list N) (a : A) : Prop :=
  forall rest, p (enc ++ rest) = Some (a, rest).

Lemma reads_whole {A} (p : parser A) enc a : reads p enc a -> whole p enc = Some a.
Proof. intros H. unfold whole. specialize (H []). rewrite app_nil_r in H. rewrite H. reflexivity. Qed.

Lemma reads_valid {A} (p : parser A) enc a : reads p enc a -> file_ok enc = true -> valid_with p enc = true.
Proof. intros H Hf. unfold valid_with. rewrite Hf, (reads_whole _ _ _ H). reflexivity. Qed.

Lemma reads_bind {A B} (p : parser A) (k : A -> parser B) e1 e2 a b :
  reads p e1 a -> reads (k a) e2 b -> reads (bind p k) (e1 ++ e2) b.
Proof. intros H1 H2 rest. unfold bind. rewrite <- app_assoc, H1. apply H2. Qed.

Lemma reads_ret {A} (a : A) : reads (ret a) [] a.
Proof. intros rest. reflexivity. Qed.

Lemma reads_guard (b : bool) : b = true -> reads (guard b) [] tt.
Proof. intros -> rest. reflexivity. Qed.

Lemma reads_elem x : reads p_elem [x] x.
Proof. intros rest. reflexivity. Qed.

Lemma reads_take l : reads (p_take (lenN l)) l l.
Proof.
  intros rest. unfold p_take. rewrite lenN_app. replace (lenN l <=? lenN l + lenN rest) with true by lia.
  rewrite to_nat_lenN, firstn_app_exact, skipn_app_exact. reflexivity.
Qed.

(* bind with a guard that holds *)
Lemma reads_must {B} (b : bool) (k : parser B) e x : b = true -> reads k e x -> reads (bind (guard b) (fun _ => k)) e x.
Proof. intros Hb Hk. apply (reads_bind (guard b) (fun _ => k) [] e tt x); [apply reads_guard; exact Hb|exact Hk]. Qed.

Lemma file_ok_app a b : file_ok (a ++ b) = file_ok a && file_ok b.
Proof. apply forallb_app. Qed.
Lemma file_ok_cons x l : file_ok (x :: l) = elem_ok x && file_ok l.
Proof. reflexivity. Qed.
Lemma elem_ok_lt x : x < 2 ^ 64 -> elem_ok x = true.
Proof. intros H. unfold elem_ok. lia. Qed.

(* ------------------------------------------------------------------ vectors *)

Lemma reads_vec l : reads p_vec (doc_encode_vec l) l.
Proof.
  unfold p_vec, doc_encode_vec. change (lenN l :: l) with ([lenN l] ++ l).
  eapply reads_bind; [apply reads_elem|apply reads_take].
Qed.

Lemma file_ok_vec l : lenN l < 2 ^ 64 -> file_ok l = true -> file_ok (doc_encode_vec l) = true.
Proof. intros Hl Hf. unfold doc_encode_vec. rewrite file_ok_cons, Hf, elem_ok_lt by assumption. reflexivity. Qed.

Lemma pairs_of_flat items : pairs_of (flat_map (fun p : N * N => [fst p; snd p]) items) = items.
Proof. induction items as [|[a b] t IH]; [reflexivity|]. cbn [flat_map app pairs_of fst snd]. rewrite IH. reflexivity. Qed.
Lemma len_flat_pairs (items : list (N * N)) : lenN (flat_map (fun p : N * N => [fst p; snd p]) items) = 2 * lenN items.
Proof.
  unfold lenN. induction items as [|p t IH]; [reflexivity|]. cbn [flat_map app length] in *. lia.
Qed.

Lemma reads_pairs items : reads p_vec_pairs (doc_encode_pairs items) items.
Proof.
  unfold p_vec_pairs, doc_encode_pairs.
  change (lenN items :: ?b) with ([lenN items] ++ b).
  eapply reads_bind; [apply reads_elem|].
  rewrite <- len_flat_pairs. rewrite <- (app_nil_r (flat_map _ items)) at 2.
  eapply reads_bind; [apply reads_take|]. rewrite pairs_of_flat. apply reads_ret.
Qed.

(* ------------------------------------------------------------------ optional structures *)

Lemma reads_opt_none {A} (p : parser A) : reads (p_opt p) (doc_encode_opt None) None.
Proof. intros rest. reflexivity. Qed.

Lemma reads_opt_some {A} (p : parser A) f a :
  f <> [] -> reads p f a -> reads (p_opt p) (doc_encode_opt (Some f)) (Some a).
Proof.
  intros Hne Hp rest. unfold p_opt, doc_encode_opt, bind. cbn [app p_elem].
  assert (Hl : lenN f =? 0 = false). { destruct f; [congruence|]. rewrite lenN_cons. lia. }
  rewrite Hl. rewrite (reads_take f rest). rewrite (reads_whole _ _ _ Hp). reflexivity.
Qed.

(* ------------------------------------------------------------------ bits and words *)

Lemma testbit_bits_val l j : N.testbit (bits_val l) (N.of_nat j) = nth j l false.
Proof.
  revert j. induction l as [|b t IH]; intros j.
  - cbn [bits_val]. rewrite N.bits_0. destruct j; reflexivity.
  - cbn [bits_val]. replace (b2n b + 2 * bits_val t) with (2 * bits_val t + N.b2n b) by (destruct b; cbn [b2n N.b2n]; lia).
    destruct j as [|j].
    + cbn [nth]. apply N.testbit_0_r.
    + cbn [nth]. rewrite Nat2N.inj_succ, N.testbit_succ_r. apply IH.
Qed.

Lemma bits_val_lt l : bits_val l < 2 ^ lenN l.
Proof.
  induction l as [|b t IH]; [cbn; lia|].
  cbn [bits_val]. rewrite lenN_cons, N.pow_add_r. destruct b; cbn [b2n]; lia.
Qed.

Lemma map_nth_seq {A} (d : A) l n : (length l <= n)%nat ->
  map (fun j => nth j l d) (seq 0 n) = l ++ repeat d (n - length l).
Proof.
  revert n. induction l as [|x t IH]; intros n Hn.
  - cbn [length app]. rewrite Nat.sub_0_r. clear Hn. generalize 0%nat. induction n as [|n IHn]; intros s; [reflexivity|].
    cbn [seq map repeat]. rewrite IHn. destruct s; reflexivity.
  - destruct n as [|n]; [cbn [length] in Hn; lia|].
    cbn [seq map nth length]. rewrite <- seq_shift, map_map. cbn [app]. f_equal.
    cbn [length] in Hn. rewrite (IH n) by lia. reflexivity.
Qed.

Lemma wbits_bits_val l : (length l <= 64)%nat -> wbits (bits_val l) = l ++ repeat false (64 - length l).
Proof.
  intros H. unfold wbits. rewrite <- (map_nth_seq false l 64 H). apply map_ext. intros j. apply testbit_bits_val.
Qed.

Lemma pack_words_nil fuel : pack_words fuel [] = [].
Proof. destruct fuel; reflexivity. Qed.

Lemma pack_words_spec fuel B : (length B <= fuel)%nat ->
  exists pad, bits_of_words (pack_words fuel B) = B ++ repeat false pad /\
              (64 * length (pack_words fuel B) = length B + pad)%nat /\ (pad < 64)%nat.
Proof.
  revert B. induction fuel as [|k IH]; intros B HB.
  - destruct B; [|cbn [length] in HB; lia]. exists 0%nat. cbn. repeat split; lia.
  - destruct B as [|b0 B0] eqn:EB; [exists 0%nat; cbn; repeat split; lia|]. rewrite <- EB in *.
    assert (Hne : (0 < length B)%nat) by (subst B; cbn [length]; lia).
    assert (Hpk : pack_words (S k) B = bits_val (firstn 64 B) :: pack_words k (skipn 64 B)) by (subst B; reflexivity).
    rewrite Hpk. clear Hpk EB.
    destruct (Nat.le_gt_cases 64 (length B)) as [Hge|Hlt].
    + destruct (IH (skipn 64 B)) as (pad & Hb & Hl & Hp); [rewrite skipn_length; lia|].
      exists pad. cbn [bits_of_words flat_map]. fold (bits_of_words (pack_words k (skipn 64 B))).
      rewrite wbits_bits_val by (rewrite firstn_length; lia).
      rewrite firstn_length, Nat.min_l by lia. cbn [repeat Nat.sub]. rewrite app_nil_r, Hb, app_assoc, firstn_skipn.
      rewrite skipn_length in Hl. cbn [length]. repeat split; lia.
    + rewrite skipn_all2 by lia. rewrite pack_words_nil. rewrite firstn_all2 by lia.
      exists (64 - length B)%nat. cbn [bits_of_words flat_map]. rewrite wbits_bits_val by lia.
      rewrite app_nil_r. cbn [length]. repeat split; lia.
Qed.

Lemma words_of_bits_spec B :
  exists pad, bits_of_words (words_of_bits B) = B ++ repeat false pad /\
              (64 * length (words_of_bits B) = length B + pad)%nat /\ (pad < 64)%nat.
Proof. apply pack_words_spec. lia. Qed.

Lemma words_of_bits_len B : lenN (words_of_bits B) = (lenN B + 63) / 64.
Proof. destruct (words_of_bits_spec B) as (pad & _ & Hl & Hp). unfold lenN. lia. Qed.

Lemma forallb_negb_repeat n : forallb negb (repeat false n) = true.
Proof. induction n; [reflexivity|]. cbn. exact IHn. Qed.

Lemma pack_words_ok fuel B : file_ok (pack_words fuel B) = true.
Proof.
  revert B. induction fuel as [|k IH]; intros B; [reflexivity|].
  destruct B as [|b t]; [reflexivity|]. cbn [pack_words]. rewrite file_ok_cons, IH, andb_true_r.
  apply elem_ok_lt. eapply N.lt_le_trans; [apply bits_val_lt|].
  apply N.pow_le_mono_r; [lia|]. unfold lenN. rewrite firstn_length. lia.
Qed.

(* ------------------------------------------------------------------ raw bitvector *)

Lemma reads_raw B : reads p_raw (doc_encode_raw B) B.
Proof.
  unfold p_raw, doc_encode_raw. change (lenN B :: ?b) with ([lenN B] ++ b).
  eapply reads_bind; [apply reads_elem|].
  rewrite <- (app_nil_r (doc_encode_vec _)).
  eapply reads_bind; [apply reads_vec|].
  destruct (words_of_bits_spec B) as (pad & Hb & Hl & Hp).
  apply reads_must; [rewrite words_of_bits_len; lia|].
  cbv zeta. rewrite Hb, to_nat_lenN, firstn_app_exact, skipn_app_exact.
  apply reads_must; [apply forallb_negb_repeat|]. apply reads_ret.
Qed.

Lemma file_ok_raw B : lenN B < 2 ^ 64 -> file_ok (doc_encode_raw B) = true.
Proof.
  intros HB. unfold doc_encode_raw. rewrite file_ok_cons, elem_ok_lt by assumption. cbn [andb].
  apply file_ok_vec; [|apply pack_words_ok]. rewrite words_of_bits_len. lia.
Qed.

(* ------------------------------------------------------------------ integer vector *)

Lemma vbits_length w v : length (vbits w v) = N.to_nat w.
Proof. unfold vbits. rewrite map_length, seq_length. reflexivity. Qed.

Lemma nth_vbits w v j : nth j (vbits w v) false = if N.of_nat j <? w then N.testbit v (N.of_nat j) else false.
Proof.
  unfold vbits. destruct (N.ltb_spec (N.of_nat j) w) as [H|H].
  - rewrite (nth_indep _ false (N.testbit v (N.of_nat 0))) by (rewrite map_length, seq_length; lia).
    rewrite (map_nth (fun j => N.testbit v (N.of_nat j))), seq_nth by lia. reflexivity.
  - apply nth_overflow. rewrite map_length, seq_length. lia.
Qed.

Lemma bits_val_vbits w v : bits_val (vbits w v) = v mod 2 ^ w.
Proof.
  apply N.bits_inj. intros n. rewrite <- (N2Nat.id n), testbit_bits_val, nth_vbits, N2Nat.id.
  destruct (N.ltb_spec n w) as [H|H].
  - rewrite N.mod_pow2_bits_low by exact H. reflexivity.
  - rewrite N.mod_pow2_bits_high by exact H. reflexivity.
Qed.

Lemma flat_vbits_len w items : lenN (flat_map (vbits w) items) = lenN items * w.
Proof.
  induction items as [|x t IH]; [reflexivity|]. cbn [flat_map]. rewrite lenN_app, lenN_cons, IH.
  unfold lenN at 1. rewrite vbits_length. lia.
Qed.

Lemma chunk_vals_flat w items : Forall (fun v => v < 2 ^ w) items ->
  chunk_vals (length items) (N.to_nat w) (flat_map (vbits w) items) = items.
Proof.
  induction 1 as [|x t Hx Ht IH]; [reflexivity|].
  cbn [length chunk_vals flat_map].
  assert (E1 : firstn (N.to_nat w) (vbits w x ++ flat_map (vbits w) t) = vbits w x).
  { rewrite <- (vbits_length w x). apply firstn_app_exact. }
  assert (E2 : skipn (N.to_nat w) (vbits w x ++ flat_map (vbits w) t) = flat_map (vbits w) t).
  { rewrite <- (vbits_length w x). apply skipn_app_exact. }
  rewrite E1, E2, bits_val_vbits, N.mod_small, IH by exact Hx. reflexivity.
Qed.

Lemma reads_int w items : 1 <= w <= 64 -> Forall (fun v => v < 2 ^ w) items ->
  reads p_int (doc_encode_int w items) (w, items).
Proof.
  intros Hw Hit. unfold p_int, doc_encode_int.
  change (lenN items :: w :: ?b) with ([lenN items] ++ [w] ++ b).
  eapply reads_bind; [apply reads_elem|]. eapply reads_bind; [apply reads_elem|].
  apply reads_must; [lia|].
  rewrite <- (app_nil_r (doc_encode_raw _)). eapply reads_bind; [apply reads_raw|].
  apply reads_must; [rewrite flat_vbits_len; lia|].
  rewrite to_nat_lenN, chunk_vals_flat by exact Hit. apply reads_ret.
Qed.

Lemma file_ok_int w items : w < 2 ^ 64 -> lenN items * w < 2 ^ 64 -> lenN items < 2 ^ 64 ->
  file_ok (doc_encode_int w items) = true.
Proof.
  intros Hw Hl Hn. unfold doc_encode_int. rewrite !file_ok_cons, !elem_ok_lt by assumption. cbn [andb].
  apply file_ok_raw. rewrite flat_vbits_len. exact Hl.
Qed.

(* ------------------------------------------------------------------ bitvector *)

Lemma reads_bv r s1 s0 B : reads p_bv (doc_encode_bv (r, s1, s0) B) B.
Proof.
  unfold p_bv, doc_encode_bv. change (count B :: ?b) with ([count B] ++ b).
  eapply reads_bind; [apply reads_elem|].
  eapply reads_bind; [apply reads_raw|]. unfold p_opt_opaque.
  eapply reads_bind; [apply reads_vec|]. eapply reads_bind; [apply reads_vec|].
  rewrite <- (app_nil_r (doc_encode_vec s0)). eapply reads_bind; [apply reads_vec|].
  apply reads_must; [lia|]. apply reads_ret.
Qed.

Lemma file_ok_bv r s1 s0 B : lenN B < 2 ^ 64 ->
  file_ok (doc_encode_vec r) = true -> file_ok (doc_encode_vec s1) = true -> file_ok (doc_encode_vec s0) = true ->
  file_ok (doc_encode_bv (r, s1, s0) B) = true.
Proof.
  intros HB Hr H1 H0. unfold doc_encode_bv. rewrite file_ok_cons, !file_ok_app, Hr, H1, H0, file_ok_raw by assumption.
  rewrite elem_ok_lt; [reflexivity|]. pose proof (count_le_length B). unfold lenN in HB. lia.
Qed.

(* ------------------------------------------------------------------ byte vectors and strings *)

Lemma ebytes_le_value l : (length l <= 8)%nat -> Forall (fun b => b < 256) l ->
  ebytes (le_value l) = l ++ repeat 0 (8 - length l).
Proof.
  intros Hl Hb. unfold ebytes. rewrite <- (map_nth_seq 0 l 8 Hl). apply map_ext_in. intros j Hj. apply in_seq in Hj.
  clear Hl. revert j Hj. induction Hb as [|b t Hb Ht IH]; intros j Hj.
  - cbn [le_value]. destruct j; cbn [nth]; rewrite N.div_0_l by (apply N.pow_nonzero; lia); reflexivity.
  - cbn [le_value]. destruct j as [|j]; cbn [nth].
    + change (8 * N.of_nat 0) with 0. rewrite N.pow_0_r, N.div_1_r. lia.
    + rewrite <- (IH j) by lia. replace (8 * N.of_nat (S j)) with (8 + 8 * N.of_nat j) by lia.
      rewrite N.pow_add_r, <- N.div_div by (try apply N.pow_nonzero; lia).
      change (2 ^ 8) with 256. replace ((b + 256 * le_value t) / 256) with (le_value t) by lia. reflexivity.
Qed.

Lemma pack_bytes_nil fuel : pack_bytes fuel [] = [].
Proof. destruct fuel; reflexivity. Qed.

Lemma pack_bytes_spec fuel bs : (length bs <= fuel)%nat -> Forall (fun b => b < 256) bs ->
  exists pad, flat_map ebytes (pack_bytes fuel bs) = bs ++ repeat 0 pad /\
              (8 * length (pack_bytes fuel bs) = length bs + pad)%nat /\ (pad < 8)%nat.
Proof.
  revert bs. induction fuel as [|k IH]; intros bs HB Hb.
  - destruct bs; [|cbn [length] in HB; lia]. exists 0%nat. cbn. repeat split; lia.
  - destruct bs as [|b0 B0] eqn:EB; [exists 0%nat; cbn; repeat split; lia|]. rewrite <- EB in *.
    assert (Hne : (0 < length bs)%nat) by (subst bs; cbn [length]; lia).
    assert (Hpk : pack_bytes (S k) bs = le_value (firstn 8 bs) :: pack_bytes k (skipn 8 bs)) by (subst bs; reflexivity).
    rewrite Hpk. clear Hpk EB.
    assert (Hf : Forall (fun b => b < 256) (firstn 8 bs)).
    { rewrite <- (firstn_skipn 8 bs) in Hb. apply Forall_app in Hb. apply Hb. }
    assert (Hs : Forall (fun b => b < 256) (skipn 8 bs)).
    { rewrite <- (firstn_skipn 8 bs) in Hb. apply Forall_app in Hb. apply Hb. }
    destruct (Nat.le_gt_cases 8 (length bs)) as [Hge|Hlt].
    + destruct (IH (skipn 8 bs)) as (pad & Hbb & Hl & Hp); [rewrite skipn_length; lia|exact Hs|].
      exists pad. cbn [flat_map]. rewrite ebytes_le_value by (try rewrite firstn_length; try exact Hf; lia).
      rewrite firstn_length, Nat.min_l by lia. cbn [repeat Nat.sub]. rewrite app_nil_r, Hbb, app_assoc, firstn_skipn.
      rewrite skipn_length in Hl. cbn [length]. repeat split; lia.
    + rewrite skipn_all2 by lia. rewrite pack_bytes_nil. rewrite firstn_all2 in * by lia.
      exists (8 - length bs)%nat. cbn [flat_map]. rewrite ebytes_le_value by (try exact Hf; lia).
      rewrite app_nil_r. cbn [length]. repeat split; lia.
Qed.

Lemma forallb_zero_repeat n : forallb (N.eqb 0) (repeat 0 n) = true.
Proof. induction n; [reflexivity|]. cbn. exact IHn. Qed.

Lemma reads_bytes bs : Forall (fun b => b < 256) bs -> reads p_bytes (doc_encode_bytes bs) bs.
Proof.
  intros Hb. unfold p_bytes, doc_encode_bytes. change (lenN bs :: ?b) with ([lenN bs] ++ b).
  eapply reads_bind; [apply reads_elem|].
  destruct (pack_bytes_spec (length bs) bs (le_n _) Hb) as (pad & Hbb & Hl & Hp).
  replace ((lenN bs + 7) / 8) with (lenN (pack_bytes (length bs) bs)) by (unfold lenN; lia).
  rewrite <- (app_nil_r (pack_bytes _ _)) at 2. eapply reads_bind; [apply reads_take|].
  cbv zeta. rewrite Hbb, to_nat_lenN, firstn_app_exact, skipn_app_exact.
  apply reads_must; [apply forallb_zero_repeat|]. apply reads_ret.
Qed.

Lemma le_value_lt l : Forall (fun b => b < 256) l -> le_value l < 256 ^ lenN l.
Proof.
  induction 1 as [|b t Hb Ht IH]; [cbn; lia|].
  cbn [le_value]. rewrite lenN_cons, N.pow_add_r. lia.
Qed.

Lemma pack_bytes_ok fuel bs : Forall (fun b => b < 256) bs -> file_ok (pack_bytes fuel bs) = true.
Proof.
  revert bs. induction fuel as [|k IH]; intros bs Hb; [reflexivity|].
  destruct bs as [|b t] eqn:E; [reflexivity|]. rewrite <- E in *.
  assert (Hpk : pack_bytes (S k) bs = le_value (firstn 8 bs) :: pack_bytes k (skipn 8 bs)) by (subst bs; reflexivity).
  rewrite Hpk. rewrite <- (firstn_skipn 8 bs) in Hb. apply Forall_app in Hb. destruct Hb as [Hf Hs].
  rewrite file_ok_cons, IH, andb_true_r by exact Hs.
  apply elem_ok_lt. eapply N.lt_le_trans; [apply le_value_lt; exact Hf|].
  change (2 ^ 64) with (256 ^ 8). apply N.pow_le_mono_r; [lia|]. unfold lenN. rewrite firstn_length. lia.
Qed.

Lemma file_ok_bytes bs : lenN bs < 2 ^ 64 -> Forall (fun b => b < 256) bs -> file_ok (doc_encode_bytes bs) = true.
Proof.
  intros Hl Hb. unfold doc_encode_bytes. rewrite file_ok_cons, elem_ok_lt, pack_bytes_ok by assumption. reflexivity.
Qed.

Lemma reads_string bs : Forall (fun b => b < 256) bs -> sp_utf8 bs = true -> reads p_string (doc_encode_string bs) bs.
Proof.
  intros Hb Hu. unfold p_string, doc_encode_string. rewrite <- (app_nil_r (doc_encode_bytes bs)).
  eapply reads_bind; [apply reads_bytes; exact Hb|]. apply reads_must; [exact Hu|]. apply reads_ret.
Qed.

(* ------------------------------------------------------------------ whole-file forms *)

Definition roundtrip {A} (p : parser A) (enc : list N) (a : A) : Prop :=
  valid_with p enc = true /\ whole p enc = Some a.

Lemma roundtrip_of {A} (p : parser A) enc a : reads p enc a -> file_ok enc = true -> roundtrip p enc a.
Proof. intros H Hf. split; [apply (reads_valid _ _ _ H Hf)|apply (reads_whole _ _ _ H)]. Qed.

Lemma Forall_forallb {A} (f : A -> bool) (P : A -> Prop) l : (forall x, P x -> f x = true) -> Forall P l -> forallb f l = true.
Proof. intros H. induction 1 as [|x t Hx Ht IH]; [reflexivity|]. cbn [forallb]. rewrite (H x Hx), IH. reflexivity. Qed.

Lemma file_ok_Forall l : Forall (fun x => x < 2 ^ 64) l -> file_ok l = true.
Proof. apply Forall_forallb. intros x. apply elem_ok_lt. Qed.

Lemma roundtrip_vec items : lenN items < 2 ^ 64 -> Forall (fun x => x < 2 ^ 64) items ->
  doc_valid_vec (doc_encode_vec items) = true /\ doc_content_vec (doc_encode_vec items) = Some items.
Proof. intros Hl Hi. apply roundtrip_of; [apply reads_vec|apply file_ok_vec; [exact Hl|apply file_ok_Forall; exact Hi]]. Qed.

Lemma file_ok_flat_pairs items : Forall (fun p : N * N => fst p < 2 ^ 64 /\ snd p < 2 ^ 64) items ->
  file_ok (flat_map (fun p : N * N => [fst p; snd p]) items) = true.
Proof.
  induction 1 as [|p t [Ha Hb] Ht IH]; [reflexivity|]. cbn [flat_map app]. rewrite !file_ok_cons, IH, !elem_ok_lt by assumption. reflexivity.
Qed.

Lemma roundtrip_pairs items : lenN items < 2 ^ 64 -> Forall (fun p : N * N => fst p < 2 ^ 64 /\ snd p < 2 ^ 64) items ->
  doc_valid_pairs (doc_encode_pairs items) = true /\ doc_content_pairs (doc_encode_pairs items) = Some items.
Proof.
  intros Hl Hi. apply roundtrip_of; [apply reads_pairs|]. unfold doc_encode_pairs.
  rewrite file_ok_cons, elem_ok_lt, file_ok_flat_pairs by assumption. reflexivity.
Qed.

Lemma roundtrip_bytes bs : lenN bs < 2 ^ 64 -> Forall (fun b => b < 256) bs ->
  doc_valid_bytes (doc_encode_bytes bs) = true /\ doc_content_bytes (doc_encode_bytes bs) = Some bs.
Proof. intros Hl Hb. apply roundtrip_of; [apply reads_bytes; exact Hb|apply file_ok_bytes; assumption]. Qed.

Lemma roundtrip_string bs : lenN bs < 2 ^ 64 -> Forall (fun b => b < 256) bs -> sp_utf8 bs = true ->
  doc_valid_string (doc_encode_string bs) = true /\ doc_content_string (doc_encode_string bs) = Some bs.
Proof. intros Hl Hb Hu. apply roundtrip_of; [apply reads_string; assumption|apply file_ok_bytes; assumption]. Qed.

(* an optional structure around any type whose own encoding is read back *)
Lemma roundtrip_opt_none {A} (p : parser A) :
  doc_valid_opt p (doc_encode_opt None) = true /\ doc_content_opt p (doc_encode_opt None) = Some None.
Proof. apply roundtrip_of; [apply reads_opt_none|reflexivity]. Qed.

Lemma roundtrip_opt_some {A} (p : parser A) f a :
  f <> [] -> lenN f < 2 ^ 64 -> file_ok f = true -> reads p f a ->
  doc_valid_opt p (doc_encode_opt (Some f)) = true /\ doc_content_opt p (doc_encode_opt (Some f)) = Some (Some a).
Proof.
  intros Hne Hl Hf Hp. apply roundtrip_of; [apply reads_opt_some; assumption|].
  unfold doc_encode_opt. rewrite file_ok_cons, Hf, elem_ok_lt by assumption. reflexivity.
Qed.

Lemma roundtrip_raw B : lenN B < 2 ^ 64 ->
  doc_valid_raw (doc_encode_raw B) = true /\ doc_content_raw (doc_encode_raw B) = Some B.
Proof. intros Hl. apply roundtrip_of; [apply reads_raw|apply file_ok_raw; exact Hl]. Qed.

Lemma roundtrip_int w items : 1 <= w <= 64 -> lenN items * w < 2 ^ 64 -> Forall (fun v => v < 2 ^ w) items ->
  doc_valid_int (doc_encode_int w items) = true /\ doc_content_int (doc_encode_int w items) = Some (w, items).
Proof.
  intros Hw Hl Hi. apply roundtrip_of; [apply reads_int; assumption|]. apply file_ok_int; nia.
Qed.

Lemma roundtrip_bv r s1 s0 B : lenN B < 2 ^ 64 ->
  lenN r < 2 ^ 64 -> lenN s1 < 2 ^ 64 -> lenN s0 < 2 ^ 64 ->
  Forall (fun x => x < 2 ^ 64) r -> Forall (fun x => x < 2 ^ 64) s1 -> Forall (fun x => x < 2 ^ 64) s0 ->
  doc_valid_bv (doc_encode_bv (r, s1, s0) B) = true /\ doc_content_bv (doc_encode_bv (r, s1, s0) B) = Some B.
Proof.
  intros HB Hr H1 H0 Fr F1 F0. apply roundtrip_of; [apply reads_bv|].
  apply file_ok_bv; [exact HB| | |]; apply file_ok_vec; try assumption; apply file_ok_Forall; assumption.
Qed.

(* ------------------------------------------------------------------ sparse bitvector *)

(* the high parts form a non-decreasing chain b <= h1 <= ... <= hk < B *)
Fixpoint chain (w b : N) (items : list N) (B : N) : Prop :=
  match items with
  | [] => b <= B
  | x :: t => b <= N.shiftr x w /\ N.shiftr x w < B /\ chain w (N.shiftr x w) t B
  end.

Lemma shiftr_mono a b w : a <= b -> N.shiftr a w <= N.shiftr b w.
Proof. intros H. rewrite !N.shiftr_div_pow2. apply N.div_le_mono; [apply N.pow_nonzero; lia|exact H]. Qed.

Lemma shiftr_lt_buckets x n w : x < n -> N.shiftr x w < doc_buckets n w.
Proof.
  intros H. unfold doc_buckets. rewrite N.shiftr_div_pow2.
  assert (Hp : 2 ^ w <> 0) by (apply N.pow_nonzero; lia).
  replace (n + 2 ^ w - 1) with ((n - 1) + 1 * 2 ^ w) by lia. rewrite N.div_add by exact Hp.
  assert (x / 2 ^ w <= (n - 1) / 2 ^ w) by (apply N.div_le_mono; [exact Hp|lia]). lia.
Qed.

Lemma chain_of_sorted w n items : sorted_le items = true -> Forall (fun x => x < n) items ->
  forall b, match items with [] => b <= doc_buckets n w | x :: _ => b <= N.shiftr x w end ->
  chain w b items (doc_buckets n w).
Proof.
  induction items as [|x t IH]; intros Hs Hn b Hb; [exact Hb|].
  inversion Hn as [|? ? Hx Ht]; subst. cbn [chain]. split; [exact Hb|]. split; [apply shiftr_lt_buckets; exact Hx|].
  apply IH; [destruct t; [reflexivity|]; cbn [sorted_le] in Hs; apply andb_prop in Hs; apply Hs|exact Ht|].
  destruct t as [|y u]; [pose proof (shiftr_lt_buckets x n w Hx); lia|].
  cbn [sorted_le] in Hs. apply andb_prop in Hs. destruct Hs as [Hxy _]. apply shiftr_mono. lia.
Qed.

Lemma count_repeat_false k : count (repeat false k) = 0.
Proof. induction k; [reflexivity|]. cbn [repeat count b2n]. lia. Qed.
Lemma count_negb_repeat_false k : count (map negb (repeat false k)) = N.of_nat k.
Proof. induction k; [reflexivity|]. cbn [repeat map count negb b2n]. lia. Qed.

Lemma high_bits_count w items B : forall b, count (high_bits w b items B) = lenN items.
Proof.
  induction items as [|x t IH]; intros b; cbn [high_bits].
  - apply count_repeat_false.
  - rewrite count_app, count_repeat_false. cbn [count b2n]. rewrite IH, lenN_cons. lia.
Qed.

Lemma high_bits_zeros w items B : forall b, chain w b items B ->
  count (map negb (high_bits w b items B)) = B - b.
Proof.
  induction items as [|x t IH]; intros b Hc; cbn [high_bits chain] in *.
  - rewrite count_negb_repeat_false. lia.
  - destruct Hc as (H1 & H2 & H3). rewrite map_app, count_app, count_negb_repeat_false. cbn [map count negb b2n].
    rewrite IH by exact H3. lia.
Qed.

Lemma high_bits_length w items B : forall b, chain w b items B ->
  lenN (high_bits w b items B) = lenN items + (B - b).
Proof.
  induction items as [|x t IH]; intros b Hc; cbn [high_bits chain] in *.
  - unfold lenN. rewrite repeat_length. cbn [length]. lia.
  - destruct Hc as (H1 & H2 & H3). rewrite lenN_app, !lenN_cons, IH by exact H3.
    unfold lenN at 1. rewrite repeat_length. lia.
Qed.

Lemma last_repeat_false k : last (repeat false k) false = false.
Proof. induction k as [|k IH]; [reflexivity|]. cbn [repeat]. destruct (repeat false k) eqn:E; [reflexivity|]. cbn [last]. exact IH. Qed.

Lemma last_app_ne {A} (a b : list A) d : b <> [] -> last (a ++ b) d = last b d.
Proof.
  intros Hb. induction a as [|x t IH]; [reflexivity|]. cbn [app]. destruct (t ++ b) eqn:E.
  - apply app_eq_nil in E. destruct E; congruence.
  - cbn [last]. exact IH.
Qed.

Lemma last_cons_ne {A} (x : A) l d : l <> [] -> last (x :: l) d = last l d.
Proof. intros H. destruct l; [congruence|reflexivity]. Qed.

Lemma high_bits_last w items B : forall b, chain w b items B -> last (high_bits w b items B) false = false.
Proof.
  induction items as [|x t IH]; intros b Hc; cbn [high_bits chain] in *.
  - apply last_repeat_false.
  - destruct Hc as (H1 & H2 & H3). rewrite last_app_ne by discriminate.
    assert (Hne : high_bits w (N.shiftr x w) t B <> []).
    { destruct t as [|y u]; cbn [high_bits].
      - destruct (N.to_nat (B - N.shiftr x w)) eqn:E; [lia|discriminate].
      - intros E. apply app_eq_nil in E. destruct E; discriminate. }
    rewrite last_cons_ne by exact Hne. apply IH. exact H3.
Qed.

Lemma ones_from_repeat_false k L pos : ones_from (repeat false k ++ L) pos = ones_from L (pos + N.of_nat k).
Proof.
  revert pos. induction k as [|k IH]; intros pos.
  - cbn [repeat app]. f_equal. lia.
  - cbn [repeat app ones_from]. rewrite IH. f_equal. lia.
Qed.

Lemma split_low_high x w : x mod 2 ^ w + N.shiftl (N.shiftr x w) w = x.
Proof.
  rewrite N.shiftl_mul_pow2, N.shiftr_div_pow2. pose proof (N.div_mod x (2 ^ w) (N.pow_nonzero 2 w ltac:(lia))). lia.
Qed.

Lemma sparse_items_high_bits w items B : forall b i, chain w b items B ->
  sparse_items w i (ones_from (high_bits w b items B) (b + i)) (map (fun x => x mod 2 ^ w) items) = items.
Proof.
  induction items as [|x t IH]; intros b i Hc; cbn [high_bits chain map] in *.
  - destruct (ones_from _ _); reflexivity.
  - destruct Hc as (H1 & H2 & H3). rewrite ones_from_repeat_false. cbn [ones_from sparse_items].
    replace (b + i + N.of_nat (N.to_nat (N.shiftr x w - b)) - i) with (N.shiftr x w) by lia.
    rewrite split_low_high. f_equal.
    replace (b + i + N.of_nat (N.to_nat (N.shiftr x w - b)) + 1) with (N.shiftr x w + (i + 1)) by lia.
    apply IH. exact H3.
Qed.

Lemma Forall_lt_forallb n items : Forall (fun x => x < n) items -> forallb (fun x => x <? n) items = true.
Proof. apply Forall_forallb. intros x H. lia. Qed.

Lemma reads_sparse w n items : 1 <= w <= 64 -> sorted_le items = true -> Forall (fun x => x < n) items ->
  reads p_sparse (doc_encode_sparse w (n, items)) (n, items).
Proof.
  intros Hw Hs Hn. unfold p_sparse, doc_encode_sparse.
  change (n :: ?b) with ([n] ++ b). eapply reads_bind; [apply reads_elem|].
  eapply reads_bind; [apply reads_bv|].
  rewrite <- (app_nil_r (doc_encode_int _ _)). eapply reads_bind.
  { apply reads_int; [exact Hw|]. apply Forall_forall. intros v Hv. apply in_map_iff in Hv. destruct Hv as (x & <- & _).
    apply N.mod_lt. apply N.pow_nonzero. lia. }
  assert (Hc : chain w 0 items (doc_buckets n w)).
  { apply chain_of_sorted; try assumption. destruct items; lia. }
  cbv beta iota zeta.
  apply reads_must; [rewrite high_bits_count; unfold lenN; rewrite map_length; lia|].
  apply reads_must; [rewrite high_bits_zeros by exact Hc; lia|].
  apply reads_must; [rewrite high_bits_last by exact Hc; reflexivity|].
  assert (Ei : sparse_items w 0 (ones (high_bits w 0 items (doc_buckets n w))) (map (fun x => x mod 2 ^ w) items) = items).
  { unfold ones. exact (sparse_items_high_bits w items _ 0 0 Hc). }
  rewrite Ei.
  apply reads_must; [rewrite Hs, Forall_lt_forallb by exact Hn; reflexivity|]. apply reads_ret.
Qed.

Lemma roundtrip_sparse w n items :
  1 <= w <= 64 -> n < 2 ^ 64 -> sorted_le items = true -> Forall (fun x => x < n) items ->
  lenN items + doc_buckets n w < 2 ^ 64 -> lenN items * w < 2 ^ 64 ->
  doc_valid_sparse (doc_encode_sparse w (n, items)) = true /\
  doc_content_sparse (doc_encode_sparse w (n, items)) = Some (n, items).
Proof.
  intros Hw Hn Hs Hi Hh Hl. apply roundtrip_of; [apply reads_sparse; assumption|].
  unfold doc_encode_sparse. rewrite file_ok_cons, file_ok_app, elem_ok_lt by exact Hn. cbn [andb].
  assert (Hc : chain w 0 items (doc_buckets n w)).
  { apply chain_of_sorted; try assumption. destruct items; lia. }
  unfold no_sup. rewrite file_ok_bv; [|rewrite high_bits_length by exact Hc; lia|reflexivity|reflexivity|reflexivity]. cbn [andb].
  apply file_ok_int; [lia| |]; unfold lenN in *; rewrite map_length; lia.
Qed.
