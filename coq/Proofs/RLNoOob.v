(* C08 for the run-length vector: on a built vector every query and every iterator step of Model/RL.v returns
   [Ok _] for every argument - hence never [OOB] (and never a panic). rl_vector.rs has no memory-unsafe block of
   its own: its reads are IntVector::get (asserting, Model/IntVec.v iv_get = Panic PIndex on a miss) on `samples`
   and `data` and SampleIndex lookups through get_or; the theorem below says that none of those asserts fires
   either. Corollary of the query theorems of the C03 cone and of the all-histories theorems of RLDeque.v. *)
From Coq Require Import NArith List Lia ZArith Bool.
Require Import SDS.Model.Mach SDS.Model.Bits SDS.Model.Raw SDS.Model.IntVec SDS.gen.Consts SDS.gen.Funs.
Require Import SDS.Spec.Deque SDS.Spec.IterRefs SDS.Model.Iters.
Require Import SDS.Model.RL SDS.Model.RLIters.
Require Import SDS.Spec.Runs SDS.Spec.RunsIter.
Require Import SDS.Proofs.BitsProof SDS.Proofs.RLIntVec SDS.Proofs.RLRep SDS.Proofs.RunsLemmas SDS.Proofs.RLBuild
               SDS.Proofs.RLIter SDS.Proofs.RLQuery SDS.Proofs.RLQuery2 SDS.Proofs.RLProof SDS.Proofs.RLDeque.
Import ListNotations.
Open Scope N_scope.
Require Import ZifyBool ZifyN ZifyNat.
Arguments N.add : simpl never. Arguments N.sub : simpl never. Arguments N.mul : simpl never.
Arguments N.eqb : simpl never. Arguments N.ltb : simpl never. Arguments N.leb : simpl never.
Arguments N.pow : simpl never. Arguments N.min : simpl never.

(* get beyond the end (the API leaves it unspecified): the empty run iterator, hence false - for any vector value *)
Lemma get_beyond m v i : rl_len v <= i -> rl_get m v i = Ok false.
Proof.
  intros H. unfold rl_get, rl_iter_for_bit. replace (rl_len v <=? i) with true by lia. cbn [bind].
  unfold rl_fuel. cbn [rl_get_loop]. unfold ri_next, ri_advance_if, ri_empty. cbn [ri_offset].
  replace (ilen (rl_data v) <=? ilen (rl_data v)) with true by lia. reflexivity.
Qed.

Theorem rl_no_oob m R L :
  runs_sorted 0 R -> runs_end R <= L -> L <= 2 ^ 64 - 1 -> lenN R < 2 ^ 56 ->
  exists v,
    rl_build m (rl_ops R L) = Ok (v, map (fun _ => true) R ++ [true]) /\
    (forall i, exists b, rl_get m v i = Ok b) /\
    (forall i, (exists x, rl_rank m v i = Ok x) /\ (exists x, rl_rank_zero m v i = Ok x)) /\
    (forall r, (exists x, rl_select m v r = Ok x) /\ (exists x, rl_select_zero m v r = Ok x)) /\
    (exists l, rl_runs m v = Ok l) /\
    (forall cs, Forall (fun c => call_fwd c /\ c <> Len) cs ->
       exists it res, rl_run_iter v = Ok it /\ it_run (rl_ri_step m v) it cs = Ok res) /\
    (forall cs, Forall call_fwd cs -> exists s res, rl_iter v = Ok s /\ it_run (rl_bi_step m v) s cs = Ok res) /\
    (forall e cs, Forall call_fwd cs ->
       match rl_oi_entry m v e with
       | Some start => exists s res, start = Ok s /\ it_run (rl_oi_step m v) s cs = Ok res
       | None => True
       end) /\
    (forall e cs, Forall call_fwd cs ->
       match rl_zi_entry m v e with
       | Some start => exists s res, start = Ok s /\ it_run (rl_zi_step m v) s cs = Ok res
       | None => True
       end).
Proof.
  intros Hs He HL Hn. apply runs_srt_sorted in Hs. rewrite runs_end_spec in He.
  destruct (rl_build_ok m R L Hs He ltac:(lia) Hn) as (v & BS & Hb & Hok & HF).
  exists v. split; [exact Hb|].
  split.
  { intros i. destruct (N.lt_ge_cases i L) as [Hi|Hi].
    - eexists. exact (get_spec m v BS L Hok i Hi).
    - eexists. apply get_beyond. rewrite (len_L v BS L Hok). exact Hi. }
  split; [intros i; split; eexists; [exact (rank_spec m v BS L Hok i)|exact (rank_zero_spec m v BS L Hok i)]|].
  split; [intros r; split; eexists; [exact (select_spec m v BS L Hok r)|exact (select_zero_spec m v BS L Hok r)]|].
  split; [eexists; exact (runs_spec m v BS L Hok)|].
  split.
  { intros cs Hcs. destruct (run_iter_refines m v BS L Hok cs Hcs) as (it & it' & E1 & E2). eauto. }
  split.
  { intros cs Hcs. destruct (iter_refines m v BS L Hok cs Hcs) as (s & s' & E1 & E2). eauto. }
  split.
  { intros e cs Hcs.
    destruct e; cbn [rl_oi_entry]; try exact I;
      match goal with
      | |- context [rl_one_iter] => pose proof (one_iters_refine m v BS L Hok EOne _ cs eq_refl Hcs) as H
      | |- context [rl_select_iter _ _ ?r] => pose proof (one_iters_refine m v BS L Hok (ESelect r) _ cs eq_refl Hcs) as H
      | |- context [rl_predecessor _ _ ?x] => pose proof (one_iters_refine m v BS L Hok (EPred x) _ cs eq_refl Hcs) as H
      | |- context [rl_successor _ _ ?x] => pose proof (one_iters_refine m v BS L Hok (ESucc x) _ cs eq_refl Hcs) as H
      end; cbn [rl_oi_entry] in H; destruct H as (s & s' & E1 & E2); eauto. }
  intros e cs Hcs.
  destruct e; cbn [rl_zi_entry]; try exact I;
    match goal with
    | |- context [rl_zero_iter] => pose proof (zero_iters_refine m v BS L Hok EZero _ cs eq_refl Hcs) as H
    | |- context [rl_select_zero_iter _ _ ?r] => pose proof (zero_iters_refine m v BS L Hok (ESelectZero r) _ cs eq_refl Hcs) as H
    end; cbn [rl_zi_entry] in H; destruct H as (s & s' & E1 & E2); eauto.
Qed.
