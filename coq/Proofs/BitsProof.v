(* Proofs about Model/Bits.v: tables, masks, read_int / write_int at bit level, in-word select. *)
From Coq Require Import NArith List Lia ZArith Bool.
Require Import SDS.Model.Mach SDS.Model.Bits SDS.gen.Tables SDS.gen.Consts SDS.Spec.BitSeq.
Import ListNotations.
Open Scope N_scope.
Require Import ZifyBool ZifyN ZifyNat.
Ltac Zify.zify_post_hook ::= Z.div_mod_to_equations.
Arguments N.add : simpl never. Arguments N.sub : simpl never. Arguments N.mul : simpl never.
Arguments N.eqb : simpl never. Arguments N.ltb : simpl never. Arguments N.leb : simpl never.
Arguments N.pow : simpl never. Arguments N.shiftl : simpl never. Arguments N.shiftr : simpl never.
Arguments N.land : simpl never. Arguments N.lor : simpl never. Arguments N.div : simpl never.
Arguments N.modulo : simpl never. Arguments N.ones : simpl never. Arguments N.testbit : simpl never.

(* ---- the constants this file relies on (any retuning shows up here first) ---- *)
Lemma consts_bits_ok :
  bits_WORD_BITS = 64 /\ bits_WORD_BYTES = 8 /\ bits_INDEX_SHIFT = 6 /\ bits_OFFSET_MASK = 63.
Proof. repeat split; reflexivity. Qed.

(* ---- nthN / setN / lenN ---- *)

Lemma nthN_nth_error {A} (l : list A) i : nthN l i = nth_error l (N.to_nat i).
Proof.
  revert i. induction l as [|x t IH]; intros i; cbn [nthN].
  - destruct (N.to_nat i); reflexivity.
  - destruct (N.eqb_spec i 0) as [->|Hn]; [reflexivity|].
    rewrite IH. replace (N.to_nat i) with (S (N.to_nat (i - 1))) by lia. reflexivity.
Qed.

Lemma nthN_Some_lt {A} (l : list A) i x : nthN l i = Some x -> i < lenN l.
Proof.
  rewrite nthN_nth_error. intros H. assert (nth_error l (N.to_nat i) <> None) by congruence.
  apply nth_error_Some in H0. unfold lenN. lia.
Qed.

Lemma nthN_None_ge {A} (l : list A) i : nthN l i = None <-> lenN l <= i.
Proof. rewrite nthN_nth_error, nth_error_None. unfold lenN. lia. Qed.

Lemma nthN_lt_Some {A} (l : list A) i : i < lenN l -> exists x, nthN l i = Some x.
Proof.
  intros H. destruct (nthN l i) eqn:E; [eauto|]. apply nthN_None_ge in E. lia.
Qed.

Lemma setN_length {A} (l : list A) i v : length (setN l i v) = length l.
Proof.
  revert i. induction l as [|x t IH]; intros i; cbn [setN length]; [reflexivity|].
  destruct (i =? 0); cbn [length]; [reflexivity|rewrite IH; reflexivity].
Qed.

Lemma lenN_setN {A} (l : list A) i v : lenN (setN l i v) = lenN l.
Proof. unfold lenN. rewrite setN_length. reflexivity. Qed.

Lemma nthN_setN_eq {A} (l : list A) i v : i < lenN l -> nthN (setN l i v) i = Some v.
Proof.
  revert i. unfold lenN. induction l as [|x t IH]; intros i Hi; cbn [length] in Hi; [lia|].
  cbn [setN]. destruct (N.eqb_spec i 0) as [->|Hn]; cbn [nthN].
  - reflexivity.
  - destruct (N.eqb_spec i 0); [lia|]. apply IH. lia.
Qed.

Lemma nthN_setN_neq {A} (l : list A) i j v : i <> j -> nthN (setN l i v) j = nthN l j.
Proof.
  revert i j. induction l as [|x t IH]; intros i j Hij; cbn [setN]; [reflexivity|].
  destruct (N.eqb_spec i 0) as [->|Hn]; cbn [nthN].
  - destruct (N.eqb_spec j 0); [lia|reflexivity].
  - destruct (N.eqb_spec j 0); [reflexivity|]. apply IH. lia.
Qed.

(* ---- tables ---- *)

Definition range65 : list N := map N.of_nat (seq 0 65).

Lemma in_range65 n : n <= 64 -> In n range65.
Proof.
  intros H. unfold range65. rewrite <- (N2Nat.id n). apply in_map. apply in_seq. lia.
Qed.

Lemma low_table_sweep :
  forallb (fun n => match nthN LOW_SET n with Some v => v =? N.ones n | None => false end) range65 = true.
Proof. vm_compute. reflexivity. Qed.

Lemma high_table_sweep :
  forallb (fun n => match nthN HIGH_SET n with Some v => v =? N.shiftl (N.ones n) (64 - n) | None => false end) range65 = true.
Proof. vm_compute. reflexivity. Qed.

Lemma LOW_SET_len : lenN LOW_SET = 65. Proof. reflexivity. Qed.
Lemma HIGH_SET_len : lenN HIGH_SET = 65. Proof. reflexivity. Qed.

Lemma nthN_LOW_SET n : n <= 64 -> nthN LOW_SET n = Some (N.ones n).
Proof.
  intros H. pose proof low_table_sweep as S. rewrite forallb_forall in S.
  specialize (S n (in_range65 n H)). destruct (nthN LOW_SET n); [|discriminate].
  apply N.eqb_eq in S. congruence.
Qed.

Lemma nthN_HIGH_SET n : n <= 64 -> nthN HIGH_SET n = Some (N.shiftl (N.ones n) (64 - n)).
Proof.
  intros H. pose proof high_table_sweep as S. rewrite forallb_forall in S.
  specialize (S n (in_range65 n H)). destruct (nthN HIGH_SET n); [|discriminate].
  apply N.eqb_eq in S. congruence.
Qed.

Lemma low_set_ok n : n <= 64 -> low_set n = Ok (N.ones n).
Proof. intros H. unfold low_set, idx. rewrite nthN_LOW_SET by assumption. reflexivity. Qed.
Lemma low_set_unchecked_ok n : n <= 64 -> low_set_unchecked n = Ok (N.ones n).
Proof. intros H. unfold low_set_unchecked, idx_unchecked. rewrite nthN_LOW_SET by assumption. reflexivity. Qed.
Lemma high_set_ok n : n <= 64 -> high_set n = Ok (N.shiftl (N.ones n) (64 - n)).
Proof. intros H. unfold high_set, idx. rewrite nthN_HIGH_SET by assumption. reflexivity. Qed.
Lemma high_set_unchecked_ok n : n <= 64 -> high_set_unchecked n = Ok (N.shiftl (N.ones n) (64 - n)).
Proof. intros H. unfold high_set_unchecked, idx_unchecked. rewrite nthN_HIGH_SET by assumption. reflexivity. Qed.

Lemma low_set_panics n : 64 < n -> low_set n = Panic PIndex.
Proof.
  intros H. unfold low_set, idx. destruct (nthN LOW_SET n) eqn:E; [|reflexivity].
  apply nthN_Some_lt in E. rewrite LOW_SET_len in E. lia.
Qed.
Lemma high_set_panics n : 64 < n -> high_set n = Panic PIndex.
Proof.
  intros H. unfold high_set, idx. destruct (nthN HIGH_SET n) eqn:E; [|reflexivity].
  apply nthN_Some_lt in E. rewrite HIGH_SET_len in E. lia.
Qed.
Lemma low_set_unchecked_oob n : 64 < n -> low_set_unchecked n = OOB SITE_LOW_SET.
Proof.
  intros H. unfold low_set_unchecked, idx_unchecked. destruct (nthN LOW_SET n) eqn:E; [|reflexivity].
  apply nthN_Some_lt in E. rewrite LOW_SET_len in E. lia.
Qed.

(* ---- testbit toolkit ---- *)

Lemma testbit_wrap x k : N.testbit (wrap x) k = (k <? 64) && N.testbit x k.
Proof.
  unfold wrap. destruct (N.ltb_spec k 64).
  - rewrite N.mod_pow2_bits_low by lia. reflexivity.
  - rewrite N.mod_pow2_bits_high by lia. reflexivity.
Qed.

Lemma testbit_ones n k : N.testbit (N.ones n) k = (k <? n).
Proof. destruct (N.ltb_spec k n); [apply N.ones_spec_low|apply N.ones_spec_high]; lia. Qed.

Lemma testbit_shiftl a n k : N.testbit (N.shiftl a n) k = (n <=? k) && N.testbit a (k - n).
Proof.
  destruct (N.leb_spec n k).
  - rewrite N.shiftl_spec_high' by lia. reflexivity.
  - rewrite N.shiftl_spec_low by lia. reflexivity.
Qed.

Lemma testbit_high w k : w < 2 ^ 64 -> 64 <= k -> N.testbit w k = false.
Proof.
  intros Hw Hk. destruct (N.eq_dec w 0) as [->|Hz]; [apply N.bits_0|].
  apply N.bits_above_log2. apply N.log2_lt_pow2 in Hw; lia.
Qed.

Lemma lt_pow2_of_bits w n : (forall k, n <= k -> N.testbit w k = false) -> w < 2 ^ n.
Proof.
  intros H. destruct (N.eq_dec w 0) as [->|Hz]; [apply N.neq_0_lt_0, N.pow_nonzero; lia|].
  apply N.log2_lt_pow2; [lia|].
  destruct (N.lt_ge_cases (N.log2 w) n) as [Hl|Hl]; [assumption|].
  specialize (H (N.log2 w) Hl). rewrite N.bit_log2 in H by assumption. discriminate.
Qed.


(* boolean goals over comparisons and testbit atoms *)
Ltac bool_simp :=
  cbn [andb orb negb];
  rewrite ?andb_false_r, ?andb_true_r, ?orb_false_r, ?orb_true_r; cbn [andb orb negb].
Ltac cmp_cases :=
  repeat match goal with
  | |- context [?a <? ?b] => destruct (N.ltb_spec a b)
  | |- context [?a <=? ?b] => destruct (N.leb_spec a b)
  end.
Ltac tb_fin :=
  bool_simp;
  first [ reflexivity | (exfalso; lia) | (f_equal; lia)
        | (apply testbit_high; [assumption|lia]) | (symmetry; apply testbit_high; [assumption|lia]) ].
Ltac tb_solve := cmp_cases; tb_fin.

Lemma split_offset_spec bo : split_offset bo = (bo / 64, bo mod 64).
Proof.
  unfold split_offset. change bits_INDEX_SHIFT with 6. change bits_OFFSET_MASK with (N.ones 6).
  rewrite N.shiftr_div_pow2, N.land_ones. reflexivity.
Qed.

(* ---- word arrays as bit arrays ---- *)

Definition wf (a : list N) : Prop := Forall (fun w => w < 2 ^ 64) a.
Definition getw (a : list N) (i : N) : N := match nthN a i with Some w => w | None => 0 end.
Definition bit (a : list N) (p : N) : bool := N.testbit (getw a (p / 64)) (p mod 64).

Lemma wf_nthN a i w : wf a -> nthN a i = Some w -> w < 2 ^ 64.
Proof.
  intros Hwf H. rewrite nthN_nth_error in H. apply nth_error_In in H.
  unfold wf in Hwf. rewrite Forall_forall in Hwf. auto.
Qed.

Lemma getw_lt a i : wf a -> getw a i < 2 ^ 64.
Proof.
  intros Hwf. unfold getw. destruct (nthN a i) eqn:E; [eapply wf_nthN; eauto|reflexivity].
Qed.

Lemma wf_setN a i v : wf a -> v < 2 ^ 64 -> wf (setN a i v).
Proof.
  unfold wf. revert i. induction a as [|x t IH]; intros i Ha Hv; cbn [setN]; [constructor|].
  inversion Ha; subst. destruct (i =? 0); constructor; auto.
Qed.

Lemma getw_setN_eq a i v : i < lenN a -> getw (setN a i v) i = v.
Proof. intros H. unfold getw. rewrite nthN_setN_eq by assumption. reflexivity. Qed.
Lemma getw_setN_neq a i j v : i <> j -> getw (setN a i v) j = getw a j.
Proof. intros H. unfold getw. rewrite nthN_setN_neq by assumption. reflexivity. Qed.

Lemma idx_getw a i : i < lenN a -> idx a i = Ok (getw a i).
Proof. intros H. unfold idx, getw. destruct (nthN_lt_Some a i H) as [x ->]. reflexivity. Qed.
Lemma idx_panics {A} (a : list A) i : lenN a <= i -> idx a i = Panic PIndex.
Proof. intros H. unfold idx. apply nthN_None_ge in H. rewrite H. reflexivity. Qed.
Lemma upd_ok {A} (a : list A) i v : i < lenN a -> upd a i v = Ok (setN a i v).
Proof. intros H. unfold upd. replace (i <? lenN a) with true by lia. reflexivity. Qed.

(* ---- read_int ---- *)

Lemma read_int_bits a off w k :
  wf a -> 1 <= w <= 64 -> (off + w - 1) / 64 < lenN a ->
  exists v, read_int a off w = Ok v /\ v < 2 ^ 64 /\
            N.testbit v k = (k <? w) && bit a (off + k).
Proof.
  intros Hwf Hw Hidx. unfold read_int. rewrite split_offset_spec.
  set (index := off / 64). set (offset := off mod 64).
  assert (Hoff : offset < 64) by (subst offset; lia).
  change bits_WORD_BITS with 64. change bits_OFFSET_MASK with (N.ones 6).
  assert (Hi0 : index < lenN a) by (subst index; lia).
  rewrite (idx_getw a index Hi0). cbn [bind].
  pose proof (getw_lt a index Hwf) as Hg0.
  destruct (N.leb_spec (offset + w) 64) as [Hle|Hgt].
  - rewrite low_set_unchecked_ok by lia. cbn [bind].
    eexists. split; [reflexivity|]. split.
    + apply lt_pow2_of_bits. intros j Hj. rewrite N.land_spec, testbit_ones.
      replace (j <? w) with false by lia. apply andb_false_r.
    + unfold bit. rewrite N.land_spec, N.shiftr_spec', testbit_ones.
      destruct (N.ltb_spec k w); [|rewrite andb_false_r; reflexivity]. rewrite andb_true_r. cbn [andb].
      replace ((off + k) / 64) with index by (subst index offset; lia).
      replace ((off + k) mod 64) with (k + offset) by (subst index offset; lia). reflexivity.
  - assert (Hi1 : index + 1 < lenN a) by (subst index offset; lia).
    rewrite (idx_getw a (index + 1) Hi1). cbn [bind].
    rewrite N.land_ones. change (2 ^ 6) with 64.
    rewrite low_set_unchecked_ok by lia. cbn [bind].
    eexists. split; [reflexivity|]. split.
    + apply lt_pow2_of_bits. intros j Hj. rewrite N.lor_spec, N.shiftr_spec', testbit_wrap.
      rewrite (testbit_high (getw a index)) by (auto; lia).
      replace (j <? 64) with false by lia. reflexivity.
    + unfold bit. rewrite N.lor_spec, N.shiftr_spec', testbit_wrap, testbit_shiftl, N.land_spec, testbit_ones.
      destruct (N.ltb_spec k (64 - offset)) as [Hk|Hk].
      * replace (64 - offset <=? k) with false by lia. rewrite andb_false_r, orb_false_r.
        replace ((off + k) / 64) with index by (subst index offset; lia).
        replace ((off + k) mod 64) with (k + offset) by (subst index offset; lia).
        replace (k <? w) with true by lia. reflexivity.
      * rewrite (testbit_high (getw a index)) by (auto; lia). cbn [orb].
        replace (64 - offset <=? k) with true by lia. cbn [andb].
        destruct (N.ltb_spec k w) as [Hkw|Hkw].
        -- replace ((off + k) / 64) with (index + 1) by (subst index offset; lia).
           replace ((off + k) mod 64) with (k - (64 - offset)) by (subst index offset; lia).
           replace (k <? 64) with true by lia.
           replace (k - (64 - offset) <? (offset + w) mod 64) with true by lia.
           rewrite andb_true_r. reflexivity.
        -- destruct (N.ltb_spec k 64); [|reflexivity]. cbn [andb].
           replace (k - (64 - offset) <? (offset + w) mod 64) with false by lia.
           rewrite andb_false_r. reflexivity.
Qed.

(* the value read is the number whose bits are the w bits starting at off *)
Lemma read_int_unique a off w v1 v2 :
  (forall k, N.testbit v1 k = (k <? w) && bit a (off + k)) ->
  (forall k, N.testbit v2 k = (k <? w) && bit a (off + k)) -> v1 = v2.
Proof. intros H1 H2. apply N.bits_inj. intros k. rewrite H1, H2. reflexivity. Qed.

(* ---- write_int ---- *)

Lemma write_int_bits a off v w :
  wf a -> 1 <= w <= 64 -> (off + w - 1) / 64 < lenN a ->
  exists a', write_int a off v w = Ok a' /\ wf a' /\ length a' = length a /\
    forall p, bit a' p = if (off <=? p) && (p <? off + w) then N.testbit v (p - off) else bit a p.
Proof.
  intros Hwf Hw Hidx. unfold write_int. rewrite split_offset_spec.
  set (index := off / 64). set (offset := off mod 64).
  assert (Hoff : offset < 64) by (subst offset; lia).
  change bits_WORD_BITS with 64.
  rewrite low_set_ok by lia. cbn [bind].
  assert (Hi0 : index < lenN a) by (subst index; lia).
  pose proof (getw_lt a index Hwf) as Hg0.
  destruct (N.leb_spec (offset + w) 64) as [Hle|Hgt].
  - rewrite high_set_unchecked_ok by lia. cbn [bind].
    rewrite low_set_unchecked_ok by lia. cbn [bind].
    rewrite (idx_getw a index Hi0). cbn [bind].
    rewrite upd_ok by assumption.
    eexists. split; [reflexivity|].
    match goal with |- wf (setN a index ?nv) /\ _ => set (neww := nv) end.
    assert (Hnb : forall k, N.testbit neww k =
              if (offset <=? k) && (k <? offset + w) then N.testbit v (k - offset)
              else N.testbit (getw a index) k).
    { intros k. subst neww.
      rewrite N.lor_spec, !N.land_spec, N.lor_spec, testbit_wrap, !testbit_shiftl, !testbit_ones, N.land_spec, testbit_ones.
      tb_solve. }
    assert (Hnlt : neww < 2 ^ 64).
    { apply lt_pow2_of_bits. intros k Hk. rewrite Hnb.
      replace (k <? offset + w) with false by lia. rewrite andb_false_r.
      apply testbit_high; [assumption|lia]. }
    split; [apply wf_setN; assumption|]. split; [apply setN_length|].
    intros p. unfold bit.
    destruct (N.eq_dec (p / 64) index) as [Hp|Hp].
    + rewrite Hp, getw_setN_eq by assumption. rewrite Hnb.
      replace (offset <=? p mod 64) with (off <=? p) by (subst index offset; lia).
      replace (p mod 64 <? offset + w) with (p <? off + w) by (subst index offset; lia).
      destruct ((off <=? p) && (p <? off + w)) eqn:E; [|reflexivity].
      f_equal. subst index offset. lia.
    + rewrite getw_setN_neq by congruence.
      replace ((off <=? p) && (p <? off + w)) with false by (subst index offset; lia). reflexivity.
  - assert (Hi1 : index + 1 < lenN a) by (subst index offset; lia).
    rewrite low_set_unchecked_ok by lia. cbn [bind].
    rewrite (idx_getw a index Hi0). cbn [bind].
    rewrite upd_ok by assumption. cbn [bind].
    rewrite high_set_ok by lia. cbn [bind].
    match goal with |- context [setN a index ?nv] => set (w0 := nv) end.
    rewrite (idx_getw (setN a index w0) (index + 1)) by (rewrite lenN_setN; assumption). cbn [bind].
    rewrite getw_setN_neq by lia.
    rewrite upd_ok by (rewrite lenN_setN; assumption).
    eexists. split; [reflexivity|].
    match goal with |- wf (setN _ (index + 1) ?nv) /\ _ => set (w1 := nv) end.
    pose proof (getw_lt a (index + 1) Hwf) as Hg1.
    assert (Hb0 : forall k, N.testbit w0 k =
              if (offset <=? k) && (k <? 64) then N.testbit v (k - offset)
              else N.testbit (getw a index) k).
    { intros k. subst w0.
      rewrite N.lor_spec, N.land_spec, testbit_wrap, testbit_shiftl, !testbit_ones, N.land_spec, testbit_ones.
      tb_solve. }
    assert (Hb1 : forall k, N.testbit w1 k =
              if k <? offset + w - 64 then N.testbit v (k + (64 - offset))
              else N.testbit (getw a (index + 1)) k).
    { intros k. subst w1.
      rewrite N.lor_spec, N.land_spec, N.shiftr_spec', testbit_shiftl, !testbit_ones, N.land_spec, testbit_ones.
      tb_solve. }
    assert (Hw0 : w0 < 2 ^ 64).
    { apply lt_pow2_of_bits. intros k Hk. rewrite Hb0. replace (k <? 64) with false by lia.
      rewrite andb_false_r. apply testbit_high; [assumption|lia]. }
    assert (Hw1 : w1 < 2 ^ 64).
    { apply lt_pow2_of_bits. intros k Hk. rewrite Hb1. replace (k <? offset + w - 64) with false by lia.
      apply testbit_high; [assumption|lia]. }
    split; [apply wf_setN; [apply wf_setN|]; assumption|].
    split; [rewrite !setN_length; reflexivity|].
    intros p. unfold bit.
    destruct (N.eq_dec (p / 64) (index + 1)) as [Hp1|Hp1].
    + rewrite Hp1, getw_setN_eq by (rewrite lenN_setN; assumption). rewrite Hb1.
      replace (off <=? p) with true by (subst index offset; lia). cbn [andb].
      replace (p mod 64 <? offset + w - 64) with (p <? off + w) by (subst index offset; lia).
      destruct (p <? off + w) eqn:E; [|reflexivity].
      f_equal. subst index offset. lia.
    + rewrite getw_setN_neq by congruence.
      destruct (N.eq_dec (p / 64) index) as [Hp0|Hp0].
      * rewrite Hp0, getw_setN_eq by assumption. rewrite Hb0.
        replace (p mod 64 <? 64) with true by lia. rewrite andb_true_r.
        replace (p <? off + w) with true by (subst index offset; lia). rewrite andb_true_r.
        replace (offset <=? p mod 64) with (off <=? p) by (subst index offset; lia).
        destruct (off <=? p) eqn:E; [|reflexivity].
        f_equal. subst index offset. lia.
      * rewrite getw_setN_neq by congruence.
        replace ((off <=? p) && (p <? off + w)) with false by (subst index offset; lia). reflexivity.
Qed.

(* read after write: the value truncated to w bits; every other bit untouched *)
Theorem write_read a off v w :
  wf a -> 1 <= w <= 64 -> (off + w - 1) / 64 < lenN a ->
  exists a', write_int a off v w = Ok a' /\ wf a' /\ length a' = length a /\
    read_int a' off w = Ok (v mod 2 ^ w) /\
    forall p, ~ (off <= p < off + w) -> bit a' p = bit a p.
Proof.
  intros Hwf Hw Hidx.
  destruct (write_int_bits a off v w Hwf Hw Hidx) as (a' & Hwr & Hwf' & Hlen & Hbits).
  exists a'. split; [assumption|]. split; [assumption|]. split; [assumption|]. split.
  - assert (Hidx' : (off + w - 1) / 64 < lenN a') by (unfold lenN in *; rewrite Hlen; assumption).
    destruct (read_int_bits a' off w 0 Hwf' Hw Hidx') as (r & Hr & _ & _).
    rewrite Hr. f_equal. apply N.bits_inj. intros k.
    destruct (read_int_bits a' off w k Hwf' Hw Hidx') as (r' & Hr' & _ & Hb).
    assert (r' = r) by congruence. subst r'. rewrite Hb, Hbits.
    destruct (N.ltb_spec k w) as [Hk|Hk]; cbn [andb].
    + replace ((off <=? off + k) && (off + k <? off + w)) with true by lia.
      rewrite N.mod_pow2_bits_low by lia. f_equal. lia.
    + rewrite N.mod_pow2_bits_high by lia. reflexivity.
  - intros p Hp. rewrite Hbits.
    replace ((off <=? p) && (p <? off + w)) with false by lia. reflexivity.
Qed.

(* error branches: the index checks of the array, and the checked mask lookup *)
Lemma write_int_width_panics a off v w : 64 < w -> write_int a off v w = Panic PIndex.
Proof. intros H. unfold write_int. rewrite low_set_panics by assumption. reflexivity. Qed.

Lemma read_int_index_panics a off w : lenN a <= off / 64 -> read_int a off w = Panic PIndex.
Proof.
  intros H. unfold read_int. rewrite split_offset_spec. rewrite idx_panics by assumption. reflexivity.
Qed.

(* ---- bit lists of a word ---- *)

Definition bits_n (n : nat) (w : N) : list bool := map (fun j => N.testbit w (N.of_nat j)) (seq 0 n).

Lemma wbits_bits_n w : wbits w = bits_n 64 w. Proof. reflexivity. Qed.
Lemma bbits_bits_n w : bbits w = bits_n 8 w. Proof. reflexivity. Qed.

Lemma bits_n_S n w : bits_n (S n) w = N.odd w :: bits_n n (N.div2 w).
Proof.
  unfold bits_n. cbn [seq map]. rewrite N.bit0_odd. f_equal.
  rewrite <- seq_shift, map_map. apply map_ext. intros j.
  rewrite Nat2N.inj_succ, N.div2_spec, N.shiftr_spec'. f_equal. lia.
Qed.

Lemma nth_opt_ones_from_shift B pos r :
  nth_opt (ones_from B pos) r = option_map (N.add pos) (nth_opt (ones_from B 0) r).
Proof.
  revert pos r. induction B as [|b t IH]; intros pos r; cbn [ones_from]; [reflexivity|].
  destruct b.
  - cbn [nth_opt]. destruct (N.eqb_spec r 0) as [->|Hr].
    + cbn [option_map]. f_equal. lia.
    + rewrite (IH (pos + 1)), (IH (0 + 1)).
      destruct (nth_opt (ones_from t 0) (r - 1)); cbn [option_map]; [f_equal; lia|reflexivity].
  - rewrite (IH (pos + 1)), (IH (0 + 1)).
    destruct (nth_opt (ones_from t 0) r); cbn [option_map]; [f_equal; lia|reflexivity].
Qed.

Lemma popcount_double q : popcount (Npos (xO q)) = popcount (Npos q). Proof. reflexivity. Qed.

Lemma popcount_bits_n n w : w < 2 ^ N.of_nat n -> popcount w = count (bits_n n w).
Proof.
  revert w. induction n as [|n IH]; intros w Hw.
  - assert (w = 0) by (cbn in Hw; lia). subst. reflexivity.
  - rewrite bits_n_S. cbn [count].
    assert (Hd : N.div2 w < 2 ^ N.of_nat n).
    { rewrite Nat2N.inj_succ, N.pow_succ_r' in Hw. rewrite N.div2_div. lia. }
    rewrite <- (IH _ Hd).
    destruct w as [|[q|q|]]; cbn [N.odd N.div2 b2n popcount pop_pos Pos.div2]; try reflexivity; lia.
Qed.

Lemma popcount_wbits w : w < 2 ^ 64 -> popcount w = count (wbits w).
Proof. intros H. rewrite wbits_bits_n. apply popcount_bits_n. exact H. Qed.

Lemma popcount_le_64 w : w < 2 ^ 64 -> popcount w <= 64.
Proof.
  intros H. rewrite popcount_wbits by assumption.
  pose proof (count_le_length (wbits w)) as L. rewrite wbits_length in L. lia.
Qed.

Lemma pdep_pos_0 q : pdep_pos 0 q = 0.
Proof. induction q as [q IH|q IH|]; cbn [pdep_pos N.odd N.even negb N.div2]; rewrite ?IH; reflexivity. Qed.

Lemma pow2_odd r : N.odd (2 ^ r) = (r =? 0).
Proof.
  destruct (N.eqb_spec r 0) as [->|Hr]; [reflexivity|].
  replace r with (N.succ (r - 1)) by lia. rewrite N.pow_succ_r', N.odd_mul. reflexivity.
Qed.

Lemma pow2_div2 r : r <> 0 -> N.div2 (2 ^ r) = 2 ^ (r - 1).
Proof.
  intros Hr. replace r with (N.succ (r - 1)) at 1 by lia. rewrite N.pow_succ_r' by lia. rewrite N.div2_double. reflexivity.
Qed.

(* the heart of the PDEP path: depositing a single bit at index r lands on the r-th set bit *)
Lemma pdep_select n w r :
  w < 2 ^ N.of_nat n -> r < popcount w ->
  exists p, nth_opt (ones_from (bits_n n w) 0) r = Some p /\ pdep (2 ^ r) w = 2 ^ p /\ p < N.of_nat n.
Proof.
  revert w r. induction n as [|n IH]; intros w r Hw Hr.
  - assert (w = 0) by (cbn in Hw; lia). subst. cbn in Hr. lia.
  - rewrite bits_n_S.
    assert (Hd : N.div2 w < 2 ^ N.of_nat n).
    { rewrite Nat2N.inj_succ, N.pow_succ_r' in Hw. rewrite N.div2_div. lia. }
    destruct w as [|[q|q|]].
    + cbn in Hr. lia.
    + (* xI q *)
      cbn [N.odd N.even negb N.div2 Pos.div2] in *. cbn [ones_from nth_opt].
      destruct (N.eqb_spec r 0) as [->|Hr0].
      * exists 0. split; [reflexivity|]. split; [|lia].
        cbn [pdep pdep_pos]. change (2 ^ 0) with 1. cbn [N.odd N.even negb N.div2]. rewrite pdep_pos_0. reflexivity.
      * cbn [popcount pop_pos] in Hr.
        destruct (IH (Npos q) (r - 1) Hd) as (p & Hp & Hd2 & Hlt); [cbn [popcount]; lia|].
        exists (1 + p). split.
        -- rewrite nth_opt_ones_from_shift, Hp. reflexivity.
        -- split; [|lia]. cbn [pdep pdep_pos]. rewrite pow2_odd. replace (r =? 0) with false by lia.
           rewrite pow2_div2 by assumption. cbn [pdep] in Hd2. rewrite Hd2.
           rewrite N.add_0_l, <- N.pow_succ_r'. f_equal. lia.
    + (* xO q *)
      cbn [N.odd N.even negb N.div2 Pos.div2] in *. cbn [ones_from].
      destruct (IH (Npos q) r Hd) as (p & Hp & Hd2 & Hlt); [exact Hr|].
      exists (1 + p). split.
      * rewrite nth_opt_ones_from_shift, Hp. reflexivity.
      * split; [|lia]. cbn [pdep pdep_pos]. cbn [pdep] in Hd2. rewrite Hd2.
        rewrite <- N.pow_succ_r'. f_equal. lia.
    + (* 1 *)
      cbn [popcount pop_pos] in Hr. assert (r = 0) by lia. subst r.
      exists 0. split; [reflexivity|]. split; [reflexivity|lia].
Qed.

Lemma trailing_zeros_pow2 p : trailing_zeros (2 ^ p) = p.
Proof.
  induction p as [|p IH] using N.peano_ind; [reflexivity|].
  rewrite N.pow_succ_r'. destruct (2 ^ p) as [|q] eqn:E.
  - exfalso. apply (N.pow_nonzero 2 p); [lia|exact E].
  - change (2 * N.pos q) with (N.pos (xO q)). cbn [trailing_zeros ctz_pos].
    cbn [trailing_zeros] in IH. rewrite IH. lia.
Qed.

Theorem select_pdep_correct m n r :
  n < 2 ^ 64 -> r < popcount n ->
  exists p, select_pdep m n r = Ok p /\ select_in_word n r = Some p /\ p < 64.
Proof.
  intros Hn Hr. pose proof (popcount_le_64 n Hn) as Hp64.
  destruct (pdep_select 64 n r Hn Hr) as (p & Hsel & Hpd & Hlt).
  exists p. split; [|split; [exact Hsel|exact Hlt]].
  unfold select_pdep, ushl. replace (r <? 64) with true by lia. cbn [bind].
  rewrite N.shiftl_1_l. rewrite N.mod_small by (apply N.pow_lt_mono_r; lia).
  rewrite Hpd, trailing_zeros_pow2. reflexivity.
Qed.

(* ---- the lookup tables of the portable select ---- *)

Definition range_n (n : nat) : list N := map N.of_nat (seq 0 n).
Lemma in_range_n n x : x < N.of_nat n -> In x (range_n n).
Proof. intros H. unfold range_n. rewrite <- (N2Nat.id x). apply in_map, in_seq. lia. Qed.

Lemma ps_overflow_sweep :
  forallb (fun i => match nthN PS_OVERFLOW i with
                    | Some v => v =? (128 - i) * 72340172838076673 | None => false end) range65 = true.
Proof. vm_compute. reflexivity. Qed.

Lemma nthN_PS_OVERFLOW i : i <= 64 -> nthN PS_OVERFLOW i = Some ((128 - i) * 72340172838076673).
Proof.
  intros H. pose proof ps_overflow_sweep as S. rewrite forallb_forall in S.
  specialize (S i (in_range65 i H)). destruct (nthN PS_OVERFLOW i); [|discriminate].
  apply N.eqb_eq in S. congruence.
Qed.

Definition opt_eqb (a b : option N) : bool :=
  match a, b with Some x, Some y => x =? y | _, _ => false end.

Lemma select_in_byte_sweep :
  forallb (fun i => forallb (fun x =>
     if i <? popcount x then opt_eqb (nthN SELECT_IN_BYTE (256 * i + x)) (select1 (bbits x) i) else true)
     (range_n 256)) (range_n 8) = true.
Proof. vm_compute. reflexivity. Qed.

Theorem select_in_byte_ok i x :
  x < 256 -> i < popcount x ->
  exists p, nthN SELECT_IN_BYTE (256 * i + x) = Some p /\ select1 (bbits x) i = Some p.
Proof.
  intros Hx Hi.
  assert (Hi8 : i < 8).
  { assert (popcount x <= 8); [|lia].
    rewrite (popcount_bits_n 8 x) by (cbn; lia).
    pose proof (count_le_length (bits_n 8 x)) as L.
    assert (length (bits_n 8 x) = 8%nat) as E by (unfold bits_n; rewrite map_length, seq_length; reflexivity).
    rewrite E in L. lia. }
  pose proof select_in_byte_sweep as S. rewrite forallb_forall in S.
  specialize (S i (in_range_n 8 i ltac:(lia))). rewrite forallb_forall in S.
  specialize (S x (in_range_n 256 x ltac:(lia))).
  replace (i <? popcount x) with true in S by lia.
  destruct (nthN SELECT_IN_BYTE (256 * i + x)) as [a|], (select1 (bbits x) i) as [b|]; cbn [opt_eqb] in S; try discriminate.
  apply N.eqb_eq in S. subst. eauto.
Qed.

(* ---- helpers ---- *)

Lemma bit_len_spec n : n < 2 ^ 64 -> bit_len n = if n =? 0 then 1 else N.log2 n + 1.
Proof.
  intros Hn. unfold bit_len, leading_zeros. change bits_WORD_BITS with 64.
  destruct (N.eqb_spec n 0) as [->|Hz]; [reflexivity|].
  assert (Hl : N.lor n 1 <> 0) by (intros E; apply N.lor_eq_0_iff in E; lia).
  rewrite N.size_log2 by assumption. rewrite N.log2_lor. change (N.log2 1) with 0.
  assert (N.log2 n < 64) by (apply N.log2_lt_pow2; lia). lia.
Qed.

Lemma bit_len_bounds n : 0 < n < 2 ^ 64 -> 2 ^ (bit_len n - 1) <= n < 2 ^ bit_len n.
Proof.
  intros Hn. rewrite bit_len_spec by lia. replace (n =? 0) with false by lia.
  replace (N.log2 n + 1 - 1) with (N.log2 n) by lia. rewrite N.add_1_r.
  apply N.log2_spec. lia.
Qed.

Lemma testbit_double_plus a (b : bool) j :
  N.testbit (2 * a + (if b then 1 else 0)) j = if j =? 0 then b else N.testbit a (j - 1).
Proof.
  destruct (N.eqb_spec j 0) as [->|Hj].
  - change (if b then 1 else 0) with (N.b2n b). apply N.testbit_0_r.
  - replace j with (N.succ (j - 1)) at 1 by lia.
    change (if b then 1 else 0) with (N.b2n b). apply N.testbit_succ_r.
Qed.

Lemma rev_bits_aux_spec fuel w acc k :
  N.testbit (rev_bits_aux fuel w acc) k =
  if k <? N.of_nat fuel then N.testbit w (N.of_nat fuel - 1 - k) else N.testbit acc (k - N.of_nat fuel).
Proof.
  revert w acc k. induction fuel as [|f IH]; intros w acc k; cbn [rev_bits_aux].
  - replace (k <? N.of_nat 0) with false by lia. f_equal. lia.
  - rewrite IH. destruct (N.ltb_spec k (N.of_nat f)) as [Hk|Hk].
    + replace (k <? N.of_nat (S f)) with true by lia.
      rewrite N.div2_spec, N.shiftr_spec'. f_equal. lia.
    + rewrite testbit_double_plus.
      destruct (N.eqb_spec (k - N.of_nat f) 0) as [He|He].
      * replace (k <? N.of_nat (S f)) with true by lia. rewrite <- N.bit0_odd. f_equal. lia.
      * replace (k <? N.of_nat (S f)) with false by lia. f_equal. lia.
Qed.

Lemma reverse_bits_spec w k : N.testbit (reverse_bits w) k = (k <? 64) && N.testbit w (63 - k).
Proof.
  unfold reverse_bits. rewrite rev_bits_aux_spec. change (N.of_nat 64) with 64.
  destruct (N.ltb_spec k 64); cbn [andb]; [f_equal; lia|apply N.bits_0].
Qed.

Theorem reverse_low_spec m n bits :
  1 <= bits <= 64 ->
  exists v, reverse_low m n bits = Ok v /\
            forall k, N.testbit v k = (k <? bits) && N.testbit n (bits - 1 - k).
Proof.
  intros Hb. unfold reverse_low, usub, ushr. change bits_WORD_BITS with 64.
  replace (bits <=? 64) with true by lia. cbn [bind].
  replace (64 - bits <? 64) with true by lia.
  eexists. split; [reflexivity|]. intros k.
  rewrite N.shiftr_spec', reverse_bits_spec.
  destruct (N.ltb_spec k bits) as [Hk|Hk]; cbn [andb].
  - replace (k + (64 - bits) <? 64) with true by lia. cbn [andb]. f_equal. lia.
  - replace (k + (64 - bits) <? 64) with false by lia. reflexivity.
Qed.

(* the helpers generated from the source (gen/Funs.v) *)
Require Import SDS.gen.Funs.

Theorem div_round_up_spec m v n :
  1 <= n -> v + n < 2 ^ 64 ->
  f_div_round_up m v n = Ok ((v + n - 1) / n) /\
  n * ((v + n - 1) / n) >= v /\ n * ((v + n - 1) / n) < v + n.
Proof.
  intros Hn Hv. unfold f_div_round_up, uadd, usub, udiv. cbn [bind].
  replace (v + n <? 2 ^ 64) with true by lia. cbn [bind].
  replace (1 <=? v + n) with true by lia. cbn [bind].
  replace (n =? 0) with false by lia.
  split; [reflexivity|]. nia.
Qed.

Theorem div_round_up_overflow_debug v n : 2 ^ 64 <= v + n -> f_div_round_up Debug v n = Panic POverflow.
Proof.
  intros H. unfold f_div_round_up, uadd. cbn [bind]. replace (v + n <? 2 ^ 64) with false by lia. reflexivity.
Qed.

Theorem div_round_up_zero m v : exists k, f_div_round_up m v 0 = Panic k.
Proof.
  unfold f_div_round_up, uadd, usub, udiv. cbn [bind]. change (0 =? 0) with true.
  destruct m, (v + 0 <? 2 ^ 64); cbn [bind]; eauto;
    destruct (1 <=? _); cbn [bind]; eauto.
Qed.

(* Finding F11 (fixed in /repo by a "fix:" commit): the code used to compute (n + 64) - 1, which overflowed
   at n + 63 = usize::MAX, inside the documented domain. The theorems below cover the whole documented domain. *)
Theorem bits_to_words_spec m n :
  n + 63 < 2 ^ 64 -> f_bits_to_words m n = Ok ((n + 63) / 64) /\ f_bits_to_words m n = Ok (bits_to_words n).
Proof.
  intros H. unfold f_bits_to_words, bits_to_words, uadd, usub, udiv. change bits_WORD_BITS with 64. cbn [bind].
  change (1 <=? 64) with true. cbn [bind]. change (64 - 1) with 63.
  replace (n + 63 <? 2 ^ 64) with true by lia. cbn [bind]. change (64 =? 0) with false. cbv iota.
  split; f_equal; lia.
Qed.

Theorem bytes_to_words_spec m n :
  n + 7 < 2 ^ 64 -> f_bytes_to_words m n = Ok ((n + 7) / 8).
Proof.
  intros H. unfold f_bytes_to_words, uadd, usub, udiv. change bits_WORD_BYTES with 8. cbn [bind].
  change (1 <=? 8) with true. cbn [bind]. change (8 - 1) with 7.
  replace (n + 7 <? 2 ^ 64) with true by lia. cbn [bind]. change (8 =? 0) with false. cbv iota. reflexivity.
Qed.

(* words_to_bytes / words_to_bits over their whole argument space, in both build modes: exact while the product
   fits a usize, an overflow panic (checks on) or the product mod 2^64 (checks off) beyond *)
Theorem words_to_bytes_total m n :
  f_words_to_bytes m n =
    if n * 8 <? 2 ^ 64 then Ok (n * 8)
    else match m with Debug => Panic POverflow | Release => Ok ((n * 8) mod 2 ^ 64) end.
Proof. unfold f_words_to_bytes, umul. cbn [bind]. change bits_WORD_BYTES with 8. reflexivity. Qed.

Theorem words_to_bits_total m n :
  f_words_to_bits m n =
    if n * 64 <? 2 ^ 64 then Ok (n * 64)
    else match m with Debug => Panic POverflow | Release => Ok ((n * 64) mod 2 ^ 64) end.
Proof. unfold f_words_to_bits, umul. cbn [bind]. change bits_WORD_BITS with 64. reflexivity. Qed.

(* the two conversions invert each other on every word count whose size in bits / bytes is a usize *)
Theorem words_bits_words m n :
  n * 64 + 63 < 2 ^ 64 -> bind (f_words_to_bits m n) (f_bits_to_words m) = Ok n.
Proof.
  intros H. rewrite words_to_bits_total. replace (n * 64 <? 2 ^ 64) with true by lia. cbn [bind].
  destruct (bits_to_words_spec m (n * 64) H) as [E _]. rewrite E. f_equal. lia.
Qed.

Theorem words_bytes_words m n :
  n * 8 + 7 < 2 ^ 64 -> bind (f_words_to_bytes m n) (f_bytes_to_words m) = Ok n.
Proof.
  intros H. rewrite words_to_bytes_total. replace (n * 8 <? 2 ^ 64) with true by lia. cbn [bind].
  rewrite bytes_to_words_spec by exact H. f_equal. lia.
Qed.

(* filler_value: a 64-bit word whose every bit is the given bit *)
Theorem filler_value_bits b k : N.testbit (filler_value b) k = b && (k <? 64).
Proof.
  unfold filler_value. destruct b; cbn [andb].
  - destruct (N.ltb_spec k 64) as [Hk|Hk].
    + apply N.ones_spec_low. exact Hk.
    + apply N.ones_spec_high. exact Hk.
  - apply N.bits_0.
Qed.

Theorem filler_value_lt b : filler_value b < 2 ^ 64.
Proof. unfold filler_value. destruct b; [rewrite N.ones_equiv|]; lia. Qed.

Theorem round_up_to_word_bits_spec m n :
  n + 63 < 2 ^ 64 ->
  exists r, f_round_up_to_word_bits m n = Ok r /\ n <= r < n + 64 /\ r mod 64 = 0.
Proof.
  intros H. unfold f_round_up_to_word_bits. cbn [bind].
  destruct (bits_to_words_spec m n H) as [E _]. rewrite E. cbn [bind].
  unfold f_words_to_bits, umul. cbn [bind]. change bits_WORD_BITS with 64.
  replace ((n + 63) / 64 * 64 <? 2 ^ 64) with true by lia.
  eexists. split; [reflexivity|]. lia.
Qed.

Theorem round_up_to_word_bytes_spec m n :
  n + 7 < 2 ^ 64 ->
  exists r, f_round_up_to_word_bytes m n = Ok r /\ n <= r < n + 8 /\ r mod 8 = 0.
Proof.
  intros H. unfold f_round_up_to_word_bytes. cbn [bind].
  rewrite bytes_to_words_spec by assumption. cbn [bind].
  unfold f_words_to_bytes, umul. cbn [bind]. change bits_WORD_BYTES with 8.
  replace ((n + 7) / 8 * 8 <? 2 ^ 64) with true by lia.
  eexists. split; [reflexivity|]. lia.
Qed.

Theorem bit_offset_split m bo :
  bo < 2 ^ 64 ->
  let '(i, o) := split_offset bo in f_bit_offset m i o = Ok bo /\ o < 64 /\ bo = 64 * i + o.
Proof.
  intros H. rewrite split_offset_spec. unfold f_bit_offset, ushl, uadd. cbn [bind].
  change bits_INDEX_SHIFT with 6. change (6 <? 64) with true. cbn [bind].
  rewrite N.shiftl_mul_pow2. change (2 ^ 6) with 64.
  rewrite N.mod_small by lia.
  replace (bo / 64 * 64 + bo mod 64 <? 2 ^ 64) with true by lia.
  split; [f_equal; lia|lia].
Qed.
