(* C11, concrete SparseVector (Model/Sparse.v): copy_bit_vec (SparseBuilder::new + set_unchecked per position +
   try_from) computes exactly what the builder's own checked route (new + try_set per position + try_from)
   computes, for every increasing list of positions below the length: same structure, or the same failure.
   The structure is therefore a function of (len, positions, low width) only. *)
From Coq Require Import NArith List Lia ZArith Bool.
Require Import SDS.Model.Mach SDS.Model.Bits SDS.Model.Raw SDS.Model.IntVec SDS.Model.BitVec SDS.Model.Sparse.
Require Import SDS.Spec.BitSeq.
Import ListNotations.
Open Scope N_scope.
Require Import ZifyBool ZifyN ZifyNat.
Ltac Zify.zify_post_hook ::= Z.div_mod_to_equations.
Arguments N.add : simpl never. Arguments N.sub : simpl never. Arguments N.mul : simpl never.
Arguments N.eqb : simpl never. Arguments N.ltb : simpl never. Arguments N.leb : simpl never.
Arguments N.pow : simpl never.

(* increasing, at or after [cur], the last one below [hi] *)
Fixpoint incr_below (cur hi : N) (ps : list N) : Prop :=
  match ps with
  | [] => cur <= hi
  | p :: t => cur <= p /\ incr_below (p + 1) hi t
  end.

Lemma incr_below_count ps : forall cur hi, incr_below cur hi ps -> cur + lenN ps <= hi.
Proof.
  induction ps as [|p t IH]; intros cur hi H; cbn [incr_below] in H.
  - unfold lenN. cbn [length]. lia.
  - destruct H as [H1 H2]. apply IH in H2. unfold lenN in *. cbn [length]. lia.
Qed.

Lemma uadd_inv m a b c : uadd m a b = Ok c -> a + b < 2 ^ 64 -> c = a + b.
Proof. unfold uadd. intros E H. replace (a + b <? 2 ^ 64) with true in E by lia. congruence. Qed.

Lemma iv_set_len v i x v' : iv_set v i x = Ok v' -> ilen v' = ilen v.
Proof.
  unfold iv_set. destruct (i <? ilen v); [|discriminate].
  destruct (raw_set_int (idata v) (i * iwidth v) x (iwidth v)); cbn [bind]; [|discriminate|discriminate].
  intros E. injection E as <-. reflexivity.
Qed.

(* what set_unchecked does to the scalar fields *)
Lemma sb_set_unchecked_fields m b x b' : sb_set_unchecked m b x = Ok b' ->
  b_len b + 1 < 2 ^ 64 -> x + b_inc b < 2 ^ 64 ->
  b_universe b' = b_universe b /\ ilen (b_low b') = ilen (b_low b) /\ b_len b' = b_len b + 1 /\
  b_next b' = x + b_inc b /\ b_inc b' = b_inc b.
Proof.
  unfold sb_set_unchecked. intros E H1 H2.
  destruct (split_w m (iwidth (b_low b)) x) as [[ph pl]| |]; cbn [bind] in E; try discriminate.
  destruct (uadd m ph (b_len b)) as [hpos| |]; cbn [bind] in E; try discriminate.
  destruct (raw_set_bit (b_high b) hpos true) as [high| |]; cbn [bind] in E; try discriminate.
  destruct (iv_set (b_low b) (b_len b) pl) as [low| |] eqn:El; cbn [bind] in E; try discriminate.
  destruct (uadd m (b_len b) 1) as [len'| |] eqn:E1; cbn [bind] in E; try discriminate.
  destruct (uadd m x (b_inc b)) as [next| |] eqn:E2; cbn [bind] in E; try discriminate.
  injection E as <-. cbn [b_universe b_low b_len b_next b_inc].
  rewrite (iv_set_len _ _ _ _ El), (uadd_inv _ _ _ _ E1 H1), (uadd_inv _ _ _ _ E2 H2). auto.
Qed.

(* on increasing positions below the universe, with room left, every check of try_set passes *)
Lemma try_set_all_unchecked m ps : forall b,
  b_inc b = 1 -> incr_below (b_next b) (b_universe b) ps -> b_universe b < 2 ^ 64 ->
  b_len b + lenN ps <= ilen (b_low b) -> ilen (b_low b) < 2 ^ 64 ->
  sb_try_set_all m b ps = rmap inl (sb_set_unchecked_all m b ps).
Proof.
  induction ps as [|x t IH]; intros b Hinc Hi Hu Hl Hlow; [reflexivity|].
  cbn [incr_below] in Hi. destruct Hi as [Hx Hi]. pose proof (incr_below_count _ _ _ Hi) as Hc.
  assert (Hlen : lenN (x :: t) = lenN t + 1) by (unfold lenN; cbn [length]; lia). rewrite Hlen in Hl.
  cbn [sb_try_set_all sb_set_unchecked_all]. unfold sb_try_set.
  replace (b_len b =? ilen (b_low b)) with false by lia.
  replace (x <? b_next b) with false by lia.
  replace (b_universe b <=? x) with false by lia.
  destruct (sb_set_unchecked m b x) as [b'| |] eqn:E; cbn [bind rmap]; [|reflexivity|reflexivity].
  destruct (sb_set_unchecked_fields m b x b' E) as (F1 & F2 & F3 & F4 & F5); [lia|lia|].
  apply IH.
  - congruence.
  - rewrite F4, F1, Hinc. exact Hi.
  - congruence.
  - rewrite F3, F2. lia.
  - congruence.
Qed.

Lemma iv_with_len_len n w v r : iv_with_len n w v = Some (Ok r) -> ilen r = n.
Proof.
  unfold iv_with_len. destruct (width_ok w); [|discriminate].
  destruct (push_n raw_new (N.to_nat n) v w); cbn [bind]; intros E; inversion E. reflexivity.
Qed.

Lemma sb_new_fields m w n ones b : sb_new m w n ones = Ok (inl b) ->
  b_universe b = n /\ ilen (b_low b) = ones /\ b_len b = 0 /\ b_next b = 0 /\ b_inc b = 1.
Proof.
  unfold sb_new. destruct (n <? ones); [discriminate|].
  destruct (get_params m w n ones) as [[width high_len]| |]; cbn [bind]; try discriminate.
  destruct (iv_with_len ones width 0) as [[low| |]|] eqn:El; cbn [unwrap_iv bind]; try discriminate.
  destruct (raw_with_len high_len false) as [high| |]; cbn [bind]; try discriminate.
  intros E. injection E as <-. cbn [b_universe b_low b_len b_next b_inc].
  rewrite (iv_with_len_len _ _ _ _ El). auto.
Qed.

(* C11, concrete sparse vector: conversion = the builder's own route, as values of the result type
   (the same structure, or the same failure), for every select path, build mode and low width *)
Theorem sv_copy_is_build : forall (sp : selpath) (m : mode) (w len : N) (ps : list N),
  len < 2 ^ 64 -> incr_below 0 len ps ->
  sv_copy sp m w len ps = unwrap_sum (sv_build_set sp m w len ps).
Proof.
  intros sp m w len ps Hlen Hi. pose proof (incr_below_count _ _ _ Hi) as Hc.
  unfold sv_copy, sv_build_set.
  destruct (sb_new m w len (lenN ps)) as [[b|e]| |] eqn:En; cbn [unwrap_sum bind]; try reflexivity.
  (* sb_new returned a builder (an Err or a panic of sb_new is the same on both sides) *)
  destruct (sb_new_fields m w len (lenN ps) b En) as (F1 & F2 & F3 & F4 & F5).
  rewrite (try_set_all_unchecked m ps b F5); [|rewrite F4, F1; exact Hi|lia|lia|lia].
  destruct (sb_set_unchecked_all m b ps) as [b'| |]; cbn [rmap bind]; reflexivity.
Qed.

(* the set positions of a bit sequence are such a list *)
Lemma incr_below_weaken cur cur' hi ps : cur' <= cur -> incr_below cur hi ps -> incr_below cur' hi ps.
Proof. destruct ps as [|p t]; cbn [incr_below]; intros; [lia|]. split; [lia|tauto]. Qed.

Lemma ones_from_incr B : forall pos, incr_below pos (pos + lenB B) (ones_from B pos).
Proof.
  induction B as [|b t IH]; intros pos; cbn [ones_from].
  - cbn [incr_below]. unfold lenB. cbn [length]. lia.
  - assert (E : lenB (b :: t) = lenB t + 1) by (unfold lenB; cbn [length]; lia). rewrite E.
    specialize (IH (pos + 1)). replace (pos + (lenB t + 1)) with (pos + 1 + lenB t) by lia.
    destruct b.
    + cbn [incr_below]. split; [lia|exact IH].
    + apply (incr_below_weaken (pos + 1)); [lia|exact IH].
Qed.

Theorem sv_copy_is_build_bits : forall (sp : selpath) (m : mode) (w : N) (B : list bool),
  lenB B < 2 ^ 64 ->
  sv_copy sp m w (lenB B) (ones B) = unwrap_sum (sv_build_set sp m w (lenB B) (ones B)).
Proof.
  intros sp m w B Hlen. apply sv_copy_is_build; [exact Hlen|].
  pose proof (ones_from_incr B 0) as H. rewrite N.add_0_l in H. exact H.
Qed.
