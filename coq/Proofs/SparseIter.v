(* The bit iterator of the sparse vector (sparse_vector::Iter): under any sequence of next() / next_back()
   calls it yields the membership bits of the remaining positions, also for multisets (duplicates are
   skipped from both ends). *)
From Coq Require Import NArith List Lia ZArith Bool.
Require Import SDS.Model.Mach SDS.Model.Bits SDS.Model.Raw SDS.Model.IntVec SDS.Model.BitVec SDS.Model.Sparse.
Require Import SDS.Spec.BitSeq SDS.Spec.ValSeq SDS.Proofs.BitsProof SDS.Proofs.BVCommon SDS.Proofs.SparseSeq.
Require Import SDS.Proofs.SparseProof.
Import ListNotations.
Open Scope N_scope.
Require Import ZifyBool ZifyN ZifyNat.
Ltac Zify.zify_post_hook ::= Z.div_mod_to_equations.
Arguments N.add : simpl never. Arguments N.sub : simpl never. Arguments N.mul : simpl never.
Arguments N.eqb : simpl never. Arguments N.ltb : simpl never. Arguments N.leb : simpl never.
Arguments N.pow : simpl never. Arguments N.div : simpl never. Arguments N.modulo : simpl never.

Section BitIter.
Variables (sp : selpath) (md : mode) (sv : sparse) (n w : N) (Vs : list N) (H : list bool).
Hypothesis Hok : sv_ok sp md sv n w Vs H.

Local Notation m := (lenN Vs).
Local Notation V := (nthd Vs).
Local Notation itr := (it_repr w Vs H).
Local Notation rk := (vs_rank Vs).

Let Hsorted : sorted_le Vs. Proof. apply Hok. Qed.
Let Hbound : bounded n Vs. Proof. apply Hok. Qed.
Let Hlen : sv_len sv = n. Proof. apply Hok. Qed.

(* facts about ranks *)
Lemma r_lt x i : i < rk x -> V i < x. Proof. apply vs_rank_lt. exact Hsorted. Qed.
Lemma r_ge x i : rk x <= i -> i < m -> x <= V i. Proof. apply vs_rank_ge. exact Hsorted. Qed.
Lemma r_le_m x : rk x <= m. Proof. apply vs_rank_le_len. Qed.
Lemma r_mono x y : x <= y -> rk x <= rk y. Proof. apply vs_rank_mono. Qed.
Lemma v_mono i j : i <= j -> j < m -> V i <= V j. Proof. apply Hsorted. Qed.

(* parent = the values with indices in [j, k); a = first position not visited, b = first position not to visit *)
Definition sbi_inv (s : sbit_iter) (a b j k : N) : Prop :=
  sbi_next s = a /\ sbi_limit s = b /\ b <= n /\
  itr (sbi_parent s) j k /\
  (rk a < rk b ->
     sbi_next_set s = Some (V (rk a)) /\ sbi_last_set s = Some (V (rk b - 1)) /\
     (forall i, j <= i -> i < k -> V (rk a) <= V i /\ V i <= V (rk b - 1)) /\
     (forall i, rk a <= i -> i < rk b -> V i = V (rk a) \/ V i = V (rk b - 1) \/ (j <= i /\ i < k))) /\
  (rk b <= rk a ->
     (forall x, sbi_next_set s = Some x -> ~ (a <= x /\ x < b)) /\
     (forall y, sbi_last_set s = Some y -> ~ (a <= y /\ y < b))).

Lemma get_false_no_value a b : a < b -> rk b <= rk a -> vs_get Vs a = false.
Proof.
  intros Hab Hr. destruct (vs_get Vs a) eqn:E; [|reflexivity]. exfalso.
  apply (vs_get_true_iff Vs a Hsorted) in E. destruct E as [Hlt Heq].
  pose proof (r_ge b (rk a) Hr Hlt). lia.
Qed.

Lemma sbi_next_ok s a b j k : sbi_inv s a b j k -> a < b ->
  exists s' j', sbi_next_f md sv s = Ok (s', Some (vs_get Vs a)) /\ sbi_inv s' (a + 1) b j' k.
Proof.
  intros [Ha [Hb [Hbn [Hit [H1 H2]]]]] Hab. unfold sbi_next_f. rewrite Ha, Hb. replace (b <=? a) with false by lia.
  pose proof (r_le_m a) as Hfm. pose proof (r_le_m b) as Hlm. pose proof (r_mono a b ltac:(lia)) as Hfl.
  destruct (N.lt_ge_cases (rk a) (rk b)) as [Hlt|Hge].
  - destruct (H1 Hlt) as [Hns [Hls [Hrange Hcomp]]]. rewrite Hns.
    pose proof (r_ge a (rk a) ltac:(lia) ltac:(lia)) as Hva.
    destruct (N.eqb_spec (V (rk a)) a) as [Heq|Hne].
    + (* the position is set: skip its duplicates in the parent *)
      assert (Hget : vs_get Vs a = true) by (apply (vs_get_true_iff Vs a Hsorted); split; [lia|exact Heq]).
      destruct (q_skip_fwd sp md sv n w Vs H Hok a (sbi_parent s) j k Hit) as [it' [j' [found [Hrun [Hit' Hcases]]]]].
      rewrite Hrun. cbn [bind]. eexists. exists j'. split; [rewrite Hget; reflexivity|].
      assert (Hf'lo : forall i, i < rk (a + 1) -> V i <= a) by (intros i Hi; pose proof (r_lt (a + 1) i Hi); lia).
      assert (Hf'hi : forall i, rk (a + 1) <= i -> i < m -> a + 1 <= V i) by (intros i Hi1 Hi2; apply (r_ge (a + 1) i Hi1 Hi2)).
      assert (Hff' : rk a < rk (a + 1)).
      { destruct (N.lt_ge_cases (rk a) (rk (a + 1))) as [|Hc]; [assumption|]. pose proof (Hf'hi (rk a) Hc ltac:(lia)). lia. }
      unfold sbi_inv. cbn [sbi_next sbi_limit sbi_parent sbi_next_set sbi_last_set].
      split; [reflexivity|]. split; [first [exact Hb|reflexivity]|]. split; [exact Hbn|]. split; [exact Hit'|].
      destruct Hcases as [[i [Hfound [Hji [Hik [Hgt [Hskip Hj']]]]]]|[Hfound [Hskip Hkj']]].
      * subst found j'. assert (Hkm : k <= m) by apply Hit.
        destruct (Hrange i Hji Hik) as [_ Hiup].
        pose proof (r_lt b (rk b - 1) ltac:(lia)) as Hlast.
        assert (Hil : i < rk b).
        { destruct (N.lt_ge_cases i (rk b)) as [|Hc]; [assumption|]. pose proof (r_ge b i Hc ltac:(lia)). lia. }
        assert (Hf'i : rk (a + 1) <= i).
        { destruct (N.le_gt_cases (rk (a + 1)) i) as [|Hc]; [assumption|]. pose proof (Hf'lo i Hc). lia. }
        assert (HVf' : V (rk (a + 1)) = V i).
        { destruct (Hcomp (rk (a + 1)) ltac:(lia) ltac:(lia)) as [Hc|[Hc|[Hc1 Hc2]]].
          - pose proof (Hf'hi (rk (a + 1)) ltac:(lia) ltac:(lia)). lia.
          - pose proof (v_mono (rk (a + 1)) i Hf'i ltac:(lia)). lia.
          - destruct (N.lt_ge_cases (rk (a + 1)) i) as [Hc|Hc]; [pose proof (Hskip _ Hc1 Hc); pose proof (Hf'hi (rk (a + 1)) ltac:(lia) ltac:(lia)); lia|].
            replace (rk (a + 1)) with i by lia. reflexivity. }
        split.
        -- intros _. split; [rewrite HVf'; reflexivity|]. split; [exact Hls|]. split.
           ++ intros i' Hi1 Hi2. destruct (Hrange i' ltac:(lia) Hi2) as [_ Hup]. split; [|exact Hup].
              rewrite HVf'. apply v_mono; lia.
           ++ intros i'' Hi1 Hi2. destruct (Hcomp i'' ltac:(lia) Hi2) as [Hc|[Hc|[Hc1 Hc2]]].
              ** pose proof (Hf'hi i'' Hi1 ltac:(lia)). lia.
              ** right. left. exact Hc.
              ** destruct (N.le_gt_cases i'' i) as [Hle|Hgt'].
                 --- left. rewrite HVf'. pose proof (v_mono i'' i Hle ltac:(lia)). pose proof (v_mono (rk (a + 1)) i'' Hi1 ltac:(lia)). lia.
                 --- right. right. lia.
        -- intros Hc. lia.
      * subst found. pose proof (r_lt b (rk b - 1) ltac:(lia)) as Hlast.
        split.
        -- intros Hf'l. rewrite Hls.
           assert (HVf' : V (rk (a + 1)) = V (rk b - 1)).
           { destruct (Hcomp (rk (a + 1)) ltac:(lia) ltac:(lia)) as [Hc|[Hc|[Hc1 Hc2]]].
             - pose proof (Hf'hi (rk (a + 1)) ltac:(lia) ltac:(lia)). lia.
             - exact Hc.
             - pose proof (Hskip _ Hc1 Hc2). pose proof (Hf'hi (rk (a + 1)) ltac:(lia) ltac:(lia)). lia. }
           split; [rewrite HVf'; reflexivity|]. split; [reflexivity|]. split.
           ++ intros i' Hi1 Hi2. lia.
           ++ intros i'' Hi1 Hi2. destruct (Hcomp i'' ltac:(lia) Hi2) as [Hc|[Hc|[Hc1 Hc2]]].
              ** pose proof (Hf'hi i'' Hi1 ltac:(lia)). lia.
              ** right. left. exact Hc.
              ** pose proof (Hskip _ Hc1 Hc2). pose proof (Hf'hi i'' Hi1 ltac:(lia)). lia.
        -- intros Hlf'. rewrite Hls. pose proof (Hf'lo (rk b - 1) ltac:(lia)).
           split; intros x Hx; injection Hx as <-; lia.
    + (* the position is not set *)
      assert (Hget : vs_get Vs a = false).
      { destruct (vs_get Vs a) eqn:E; [|reflexivity]. apply (vs_get_true_iff Vs a Hsorted) in E. lia. }
      eexists. exists j. split; [rewrite Hget; reflexivity|].
      unfold sbi_inv. cbn [sbi_next sbi_limit sbi_parent sbi_next_set sbi_last_set].
      rewrite (vs_rank_succ_absent Vs a Hsorted Hget).
      split; [reflexivity|]. split; [first [exact Hb|reflexivity]|]. split; [exact Hbn|]. split; [exact Hit|].
      split; [intros _; split; [first [exact Hns|reflexivity]|split; [exact Hls|split; [exact Hrange|exact Hcomp]]]|intros Hc; lia].
  - (* no value left in [a, b) *)
    destruct (H2 Hge) as [Hnsx Hlsy].
    pose proof (get_false_no_value a b Hab Hge) as Hget.
    assert (Hinv' : forall ns, ns = sbi_next_set s ->
              sbi_inv (mksbi (sbi_parent s) (a + 1) ns (sbi_limit s) (sbi_last_set s)) (a + 1) b j k).
    { intros ns ->. unfold sbi_inv. cbn [sbi_next sbi_limit sbi_parent sbi_next_set sbi_last_set].
      rewrite (vs_rank_succ_absent Vs a Hsorted Hget).
      split; [reflexivity|]. split; [first [exact Hb|reflexivity]|]. split; [exact Hbn|]. split; [exact Hit|].
      split; [intros Hc; lia|]. intros _. split.
      - intros x Hx Hin. apply (Hnsx x Hx). lia.
      - intros y Hy Hin. apply (Hlsy y Hy). lia. }
    destruct (sbi_next_set s) as [x|] eqn:Ens.
    + destruct (N.eqb_spec x a) as [Heq|Hne].
      * exfalso. apply (Hnsx x eq_refl). lia.
      * eexists. exists j. split; [rewrite Hget; reflexivity|]. rewrite <- Hb at 1. apply Hinv'. reflexivity.
    + eexists. exists j. split; [rewrite Hget; reflexivity|]. rewrite <- Hb at 1. apply Hinv'. reflexivity.
Qed.

Lemma sbi_back_ok s a b j k : sbi_inv s a b j k -> a < b ->
  exists s' k', sbi_next_back md sv s = Ok (s', Some (vs_get Vs (b - 1))) /\ sbi_inv s' a (b - 1) j k'.
Proof.
  intros [Ha [Hb [Hbn [Hit [H1 H2]]]]] Hab. unfold sbi_next_back. rewrite Ha, Hb. replace (b <=? a) with false by lia.
  pose proof (r_le_m a) as Hfm. pose proof (r_le_m b) as Hlm. pose proof (r_mono a b ltac:(lia)) as Hfl.
  pose proof (r_mono (b - 1) b ltac:(lia)) as Hl'l. pose proof (r_le_m (b - 1)) as Hl'm.
  assert (Hl'lo : forall i, i < rk (b - 1) -> V i < b - 1) by (intros i Hi; apply (r_lt (b - 1) i Hi)).
  assert (Hl'hi : forall i, rk (b - 1) <= i -> i < m -> b - 1 <= V i) by (intros i Hi1 Hi2; apply (r_ge (b - 1) i Hi1 Hi2)).
  destruct (N.lt_ge_cases (rk a) (rk b)) as [Hlt|Hge].
  - destruct (H1 Hlt) as [Hns [Hls [Hrange Hcomp]]]. rewrite Hls.
    pose proof (r_lt b (rk b - 1) ltac:(lia)) as Hlast.
    pose proof (r_ge a (rk a) ltac:(lia) ltac:(lia)) as Hva.
    destruct (N.eqb_spec (V (rk b - 1)) (b - 1)) as [Heq|Hne].
    + (* the position is set *)
      assert (Hl'lt : rk (b - 1) < rk b).
      { destruct (N.lt_ge_cases (rk (b - 1)) (rk b)) as [|Hc]; [assumption|]. pose proof (Hl'lo (rk b - 1) ltac:(lia)). lia. }
      assert (Hget : vs_get Vs (b - 1) = true).
      { apply (vs_get_true_iff Vs (b - 1) Hsorted). split; [lia|].
        pose proof (Hl'hi (rk (b - 1)) ltac:(lia) ltac:(lia)). pose proof (v_mono (rk (b - 1)) (rk b - 1) ltac:(lia) ltac:(lia)). lia. }
      destruct (q_skip_bwd sp md sv n w Vs H Hok (b - 1) (sbi_parent s) j k Hit) as [it' [k' [found [Hrun [Hit' Hcases]]]]].
      rewrite Hrun. cbn [bind]. eexists. exists k'. split; [rewrite Hget; reflexivity|].
      unfold sbi_inv. cbn [sbi_next sbi_limit sbi_parent sbi_next_set sbi_last_set].
      split; [first [exact Ha|reflexivity]|]. split; [reflexivity|]. split; [lia|]. split; [exact Hit'|].
      assert (Hkm : k <= m) by apply Hit.
      destruct Hcases as [[i [Hfound [Hji [Hik [Hvlt [Hskip Hk']]]]]]|[Hfound [Hskip Hk'j]]].
      * subst found k'.
        destruct (Hrange i Hji Hik) as [Hilo _].
        assert (Hil' : i < rk (b - 1)).
        { destruct (N.lt_ge_cases i (rk (b - 1))) as [|Hc]; [assumption|]. pose proof (Hl'hi i Hc ltac:(lia)). lia. }
        assert (Hfi : rk a <= i).
        { destruct (N.le_gt_cases (rk a) i) as [|Hc]; [assumption|]. pose proof (r_lt a i Hc). lia. }
        assert (HVl' : V (rk (b - 1) - 1) = V i).
        { destruct (Hcomp (rk (b - 1) - 1) ltac:(lia) ltac:(lia)) as [Hc|[Hc|[Hc1 Hc2]]].
          - pose proof (v_mono i (rk (b - 1) - 1) ltac:(lia) ltac:(lia)). lia.
          - pose proof (Hl'lo (rk (b - 1) - 1) ltac:(lia)). lia.
          - destruct (N.lt_ge_cases i (rk (b - 1) - 1)) as [Hc|Hc]; [pose proof (Hskip _ Hc Hc2); pose proof (Hl'lo (rk (b - 1) - 1) ltac:(lia)); lia|].
            replace (rk (b - 1) - 1) with i by lia. reflexivity. }
        split.
        -- intros _. split; [first [exact Hns|reflexivity]|]. split; [rewrite HVl'; reflexivity|]. split.
           ++ intros i' Hi1 Hi2. destruct (Hrange i' Hi1 ltac:(lia)) as [Hlo _]. split; [exact Hlo|].
              rewrite HVl'. apply v_mono; lia.
           ++ intros i'' Hi1 Hi2. destruct (Hcomp i'' Hi1 ltac:(lia)) as [Hc|[Hc|[Hc1 Hc2]]].
              ** left. exact Hc.
              ** pose proof (Hl'lo i'' Hi2). lia.
              ** destruct (N.le_gt_cases i i'') as [Hle|Hgt'].
                 --- right. left. rewrite HVl'. pose proof (v_mono i i'' Hle ltac:(lia)). pose proof (v_mono i'' (rk (b - 1) - 1) ltac:(lia) ltac:(lia)). lia.
                 --- right. right. lia.
        -- intros Hc. lia.
      * subst found. split.
        -- intros Hfl'. rewrite Hns.
           assert (HVl' : V (rk (b - 1) - 1) = V (rk a)).
           { destruct (Hcomp (rk (b - 1) - 1) ltac:(lia) ltac:(lia)) as [Hc|[Hc|[Hc1 Hc2]]].
             - exact Hc.
             - pose proof (Hl'lo (rk (b - 1) - 1) ltac:(lia)). lia.
             - pose proof (Hskip _ Hc1 Hc2). pose proof (Hl'lo (rk (b - 1) - 1) ltac:(lia)). lia. }
           split; [reflexivity|]. split; [rewrite HVl'; reflexivity|]. split.
           ++ intros i' Hi1 Hi2. lia.
           ++ intros i'' Hi1 Hi2. destruct (Hcomp i'' Hi1 ltac:(lia)) as [Hc|[Hc|[Hc1 Hc2]]].
              ** left. exact Hc.
              ** pose proof (Hl'lo i'' Hi2). lia.
              ** pose proof (Hskip _ Hc1 Hc2). pose proof (Hl'lo i'' Hi2). lia.
        -- intros Hl'f. rewrite Hns. pose proof (Hl'hi (rk a) Hl'f ltac:(lia)).
           split; intros x Hx; injection Hx as <-; lia.
    + (* the position is not set *)
      assert (Hget : vs_get Vs (b - 1) = false).
      { destruct (vs_get Vs (b - 1)) eqn:E; [|reflexivity]. apply (vs_get_true_iff Vs (b - 1) Hsorted) in E.
        destruct E as [E1 E2]. exfalso.
        assert (rk (b - 1) < rk b).
        { destruct (N.lt_ge_cases (rk (b - 1)) (rk b)) as [|Hc]; [assumption|]. pose proof (r_ge b (rk (b - 1)) Hc E1). lia. }
        pose proof (v_mono (rk (b - 1)) (rk b - 1) ltac:(lia) ltac:(lia)). lia. }
      eexists. exists k. split; [rewrite Hget; reflexivity|].
      unfold sbi_inv. cbn [sbi_next sbi_limit sbi_parent sbi_next_set sbi_last_set].
      pose proof (vs_rank_succ_absent Vs (b - 1) Hsorted Hget) as Hrk. replace (b - 1 + 1) with b in Hrk by lia. rewrite <- Hrk.
      split; [first [exact Ha|reflexivity]|]. split; [reflexivity|]. split; [lia|]. split; [exact Hit|].
      split; [intros _; split; [exact Hns|split; [first [exact Hls|reflexivity]|split; [exact Hrange|exact Hcomp]]]|intros Hc; lia].
  - (* no value left in [a, b) *)
    destruct (H2 Hge) as [Hnsx Hlsy].
    assert (Hget : vs_get Vs (b - 1) = false).
    { destruct (vs_get Vs (b - 1)) eqn:E; [|reflexivity]. apply (vs_get_true_iff Vs (b - 1) Hsorted) in E.
      destruct E as [E1 E2]. exfalso.
      assert (rk (b - 1) < rk b).
      { destruct (N.lt_ge_cases (rk (b - 1)) (rk b)) as [|Hc]; [assumption|]. pose proof (r_ge b (rk (b - 1)) Hc E1). lia. }
      assert (rk a <= rk (b - 1)).
      { destruct (N.le_gt_cases (rk a) (rk (b - 1))) as [|Hc]; [assumption|]. pose proof (r_lt a (rk (b - 1)) Hc). lia. }
      lia. }
    pose proof (vs_rank_succ_absent Vs (b - 1) Hsorted Hget) as Hrk. replace (b - 1 + 1) with b in Hrk by lia.
    assert (Hinv' : forall ls, ls = sbi_last_set s ->
              sbi_inv (mksbi (sbi_parent s) (sbi_next s) (sbi_next_set s) (b - 1) ls) a (b - 1) j k).
    { intros ls ->. unfold sbi_inv. cbn [sbi_next sbi_limit sbi_parent sbi_next_set sbi_last_set]. rewrite <- Hrk.
      split; [exact Ha|]. split; [reflexivity|]. split; [lia|]. split; [exact Hit|].
      split; [intros Hc; lia|]. intros _. split.
      - intros x Hx Hin. apply (Hnsx x Hx). lia.
      - intros y Hy Hin. apply (Hlsy y Hy). lia. }
    destruct (sbi_last_set s) as [y|] eqn:Els.
    + destruct (N.eqb_spec y (b - 1)) as [Heq|Hne].
      * exfalso. apply (Hlsy y eq_refl). lia.
      * eexists. exists k. split; [rewrite Hget; reflexivity|]. rewrite <- Ha at 1. apply Hinv'. reflexivity.
    + eexists. exists k. split; [rewrite Hget; reflexivity|]. rewrite <- Ha at 1. apply Hinv'. reflexivity.
Qed.

Lemma sbi_next_none s a b j k : sbi_inv s a b j k -> b <= a -> sbi_next_f md sv s = Ok (s, None).
Proof. intros [Ha [Hb _]] Hba. unfold sbi_next_f. rewrite Ha, Hb. replace (b <=? a) with true by lia. reflexivity. Qed.
Lemma sbi_back_none s a b j k : sbi_inv s a b j k -> b <= a -> sbi_next_back md sv s = Ok (s, None).
Proof. intros [Ha [Hb _]] Hba. unfold sbi_next_back. rewrite Ha, Hb. replace (b <=? a) with true by lia. reflexivity. Qed.

(* any sequence of calls *)
Lemma sbi_drive_ok pat : forall s a b j k, sbi_inv s a b j k ->
  sbi_drive md sv pat s = Ok (deque_run (gseg (vs_get Vs) a b) pat).
Proof.
  induction pat as [|bk t IH]; intros s a b j k Hinv; [reflexivity|].
  cbn [sbi_drive]. destruct bk.
  - destruct (N.lt_ge_cases a b) as [Hab|Hab].
    + destruct (sbi_back_ok s a b j k Hinv Hab) as [s' [k' [Hb Hinv']]]. rewrite Hb. cbn [bind].
      rewrite (IH s' a (b - 1) j k' Hinv'). cbn [bind]. rewrite (gseg_snoc _ a b Hab), deque_back_snoc. reflexivity.
    + rewrite (sbi_back_none s a b j k Hinv Hab). cbn [bind]. rewrite (IH s a b j k Hinv). cbn [bind].
      rewrite (gseg_nil _ a b Hab). reflexivity.
  - destruct (N.lt_ge_cases a b) as [Hab|Hab].
    + destruct (sbi_next_ok s a b j k Hinv Hab) as [s' [j' [Hb Hinv']]]. rewrite Hb. cbn [bind].
      rewrite (IH s' (a + 1) b j' k Hinv'). cbn [bind]. rewrite (gseg_cons _ a b Hab). reflexivity.
    + rewrite (sbi_next_none s a b j k Hinv Hab). cbn [bind]. rewrite (IH s a b j k Hinv). cbn [bind].
      rewrite (gseg_nil _ a b Hab). reflexivity.
Qed.

(* iter() *)
Lemma rk_0 : rk 0 = 0.
Proof. apply vs_rank_char; [exact Hsorted|lia|intros; lia|intros; lia]. Qed.
Lemma rk_n : rk n = m.
Proof. apply vs_rank_all; [exact Hsorted|exact Hbound]. Qed.

Lemma sbi_new_ok : exists s j k, sv_iter_new md sv = Ok s /\ sbi_inv s 0 n j k.
Proof.
  unfold sv_iter_new. pose proof (q_one_iter sp md sv n w Vs H Hok) as Hit0.
  destruct (N.eq_dec m 0) as [Hm0|Hm0].
  - rewrite (q_it_next_none sp md sv n w Vs H Hok _ 0 m Hit0 ltac:(lia)). cbn [bind].
    rewrite (q_it_back_none sp md sv n w Vs H Hok _ 0 m Hit0 ltac:(lia)). cbn [bind].
    eexists. exists 0, m. split; [reflexivity|]. unfold sbi_inv. cbn [sbi_next sbi_limit sbi_parent sbi_next_set sbi_last_set].
    rewrite rk_0, rk_n. split; [reflexivity|]. split; [exact Hlen|]. split; [lia|]. split; [exact Hit0|].
    split; [intros Hc; lia|]. intros _. split; intros x Hx; discriminate.
  - destruct (q_it_next sp md sv n w Vs H Hok _ 0 m Hit0 ltac:(lia)) as [it1 [Hn1 Hit1]]. rewrite Hn1. cbn [bind].
    replace (0 + 1) with 1 in Hit1 by lia.
    destruct (N.eq_dec m 1) as [Hm1|Hm1].
    + rewrite (q_it_back_none sp md sv n w Vs H Hok _ 1 m Hit1 ltac:(lia)). cbn [bind].
      eexists. exists 1, m. split; [reflexivity|]. unfold sbi_inv. cbn [sbi_next sbi_limit sbi_parent sbi_next_set sbi_last_set].
      rewrite rk_0, rk_n. split; [reflexivity|]. split; [exact Hlen|]. split; [lia|]. split; [exact Hit1|].
      split; [|intros Hc; lia]. intros _. replace (m - 1) with 0 by lia.
      split; [reflexivity|]. split; [reflexivity|]. split; [intros i Hi1 Hi2; lia|].
      intros i Hi1 Hi2. left. replace i with 0 by lia. reflexivity.
    + destruct (q_it_back sp md sv n w Vs H Hok _ 1 m Hit1 ltac:(lia)) as [it2 [Hb2 Hit2]]. rewrite Hb2. cbn [bind].
      eexists. exists 1, (m - 1). split; [reflexivity|]. unfold sbi_inv. cbn [sbi_next sbi_limit sbi_parent sbi_next_set sbi_last_set].
      rewrite rk_0, rk_n. split; [reflexivity|]. split; [exact Hlen|]. split; [lia|]. split; [exact Hit2|].
      split; [|intros Hc; lia]. intros _.
      split; [reflexivity|]. split; [reflexivity|]. split.
      * intros i Hi1 Hi2. split; apply v_mono; lia.
      * intros i Hi1 Hi2. destruct (N.eq_dec i 0) as [->|]; [left; reflexivity|].
        destruct (N.eq_dec i (m - 1)) as [->|]; [right; left; reflexivity|right; right; lia].
Qed.

(* iter() driven by any sequence of next() / next_back() calls yields the membership bits of the universe as a
   double-ended iterator would *)
Theorem q_bits_drive pat :
  (let* s := sv_iter_new md sv in sbi_drive md sv pat s) = Ok (deque_run (vs_bits Vs n) pat).
Proof.
  destruct sbi_new_ok as [s [j [k [Hs Hinv]]]]. rewrite Hs. cbn [bind].
  rewrite (sbi_drive_ok pat s 0 n j k Hinv), vs_bits_gseg. reflexivity.
Qed.

End BitIter.
