(* Lemmas about the run-list specification (Spec/Runs.v) for sorted, non-overlapping runs. *)
From Coq Require Import NArith List Lia ZArith Bool.
Require Import SDS.Spec.Runs.
Require Import SDS.Model.Mach SDS.Proofs.RLIntVec SDS.Proofs.RLRep.
Import ListNotations.
Open Scope N_scope.
Require Import ZifyBool ZifyN ZifyNat.
Ltac Zify.zify_post_hook ::= Z.div_mod_to_equations.
Arguments N.add : simpl never. Arguments N.sub : simpl never. Arguments N.mul : simpl never.
Arguments N.eqb : simpl never. Arguments N.ltb : simpl never. Arguments N.leb : simpl never.
Arguments N.min : simpl never.

(* ---- get ---- *)

Lemma runs_get_app a b i : runs_get (a ++ b) i = runs_get a i || runs_get b i.
Proof. unfold runs_get. apply existsb_app. Qed.

Lemma runs_get_below first from R i : runs_ok first from R -> i < from -> runs_get R i = false.
Proof.
  revert first from. induction R as [|r t IH]; intros first from Hok Hi; [reflexivity|].
  cbn [runs_ok] in Hok. destruct Hok as (H0 & H1 & H2). unfold runs_get in *. cbn [existsb].
  rewrite (IH false (fst r + snd r)) by (try assumption; destruct first; lia).
  unfold in_run. destruct first; replace (fst r <=? i) with false by lia; reflexivity.
Qed.

Lemma runs_get_above first from R i : runs_ok first from R -> runs_end_from from R <= i -> runs_get R i = false.
Proof.
  revert first from. induction R as [|r t IH]; intros first from Hok Hi; [reflexivity|].
  cbn [runs_ok runs_end_from] in *. destruct Hok as (H0 & H1 & H2). unfold runs_get in *. cbn [existsb].
  rewrite (IH false (fst r + snd r)) by assumption.
  pose proof (runs_ok_end _ _ _ H2). unfold in_run. replace (i <? fst r + snd r) with false by lia.
  rewrite andb_false_r. reflexivity.
Qed.

(* ---- rank ---- *)

Lemma runs_rank_app a b i : runs_rank (a ++ b) i = runs_rank a i + runs_rank b i.
Proof. induction a as [|r a IH]; cbn [app runs_rank]; [lia|]. rewrite IH. lia. Qed.

Lemma runs_rank_below first from R i : runs_ok first from R -> i <= from -> runs_rank R i = 0.
Proof.
  revert first from. induction R as [|r t IH]; intros first from Hok Hi; [reflexivity|].
  cbn [runs_ok] in Hok. destruct Hok as (H0 & H1 & H2). cbn [runs_rank].
  rewrite (IH false (fst r + snd r)) by (try assumption; destruct first; lia).
  unfold overlap. destruct first; lia.
Qed.

Lemma runs_rank_above first from R i : runs_ok first from R -> runs_end_from from R <= i -> runs_rank R i = rones R.
Proof.
  revert first from. induction R as [|r t IH]; intros first from Hok Hi; [reflexivity|].
  cbn [runs_ok runs_end_from] in *. destruct Hok as (H0 & H1 & H2). cbn [runs_rank rones].
  rewrite (IH false (fst r + snd r)) by assumption.
  pose proof (runs_ok_end _ _ _ H2). unfold overlap. lia.
Qed.

Lemma runs_rank_le first from R i : runs_ok first from R -> from <= i -> runs_rank R i + from <= i.
Proof.
  revert first from. induction R as [|r t IH]; intros first from Hok Hi; cbn [runs_rank]; [lia|].
  cbn [runs_ok] in Hok. destruct Hok as (H0 & H1 & H2). unfold overlap.
  destruct (N.le_gt_cases (fst r + snd r) i) as [Hle|Hgt].
  - specialize (IH false _ H2 Hle). destruct first; lia.
  - rewrite (runs_rank_below false (fst r + snd r) t i) by (try assumption; lia). destruct first; lia.
Qed.

Lemma runs_rank_le0 R i : runs_ok true 0 R -> runs_rank R i <= i.
Proof. intros H. pose proof (runs_rank_le true 0 R i H). lia. Qed.

Lemma runs_rank_total first from R i : runs_ok first from R -> runs_rank R i <= rones R.
Proof.
  revert first from. induction R as [|r t IH]; intros first from Hok; cbn [runs_rank rones]; [lia|].
  cbn [runs_ok] in Hok. destruct Hok as (H0 & H1 & H2). specialize (IH _ _ H2). unfold overlap. lia.
Qed.

(* ---- select ---- *)

Lemma runs_select_app_r a b k : rones a <= k -> runs_select (a ++ b) k = runs_select b (k - rones a).
Proof.
  revert k. induction a as [|[s l] a IH]; intros k Hk; cbn [app runs_select rones snd] in *.
  - f_equal. lia.
  - replace (k <? l) with false by lia. rewrite IH by lia. f_equal. lia.
Qed.

Lemma runs_select_none R k : rones R <= k -> runs_select R k = None.
Proof.
  revert k. induction R as [|[s l] R IH]; intros k Hk; cbn [runs_select rones snd] in *; [reflexivity|].
  replace (k <? l) with false by lia. apply IH. lia.
Qed.

Lemma runs_select_head r t k : k < snd r -> runs_select (r :: t) k = Some (fst r + k).
Proof. destruct r as [s l]. cbn [runs_select fst snd]. intros H. replace (k <? l) with true by lia. reflexivity. Qed.

Lemma runs_select_tail r t k : snd r <= k -> runs_select (r :: t) k = runs_select t (k - snd r).
Proof. destruct r as [s l]. cbn [runs_select fst snd]. intros H. replace (k <? l) with false by lia. reflexivity. Qed.

(* ---- select_zero ---- *)

Lemma sz_cons prev r t L k :
  runs_select_zero_from prev (r :: t) L k =
  if k <? fst r - prev then Some (prev + k) else runs_select_zero_from (fst r + snd r) t L (k - (fst r - prev)).
Proof. destruct r as [s l]. reflexivity. Qed.

Lemma sz_app : forall a first prev b L k,
  runs_ok first prev a -> runs_end_from prev a - prev - rones a <= k ->
  runs_select_zero_from prev (a ++ b) L k =
  runs_select_zero_from (runs_end_from prev a) b L (k - (runs_end_from prev a - prev - rones a)).
Proof.
  induction a as [|r a IH]; intros first prev b L k Hok Hk.
  - cbn [app runs_end_from rones]. f_equal. lia.
  - cbn [runs_ok runs_end_from rones app] in *. destruct Hok as (H0 & H1 & H2).
    pose proof (rones_le_end _ _ _ H2) as Hle.
    assert (Hge : prev <= fst r) by (destruct first; lia).
    rewrite sz_cons. replace (k <? fst r - prev) with false by lia.
    rewrite (IH false) by (try assumption; lia). f_equal. lia.
Qed.

(* ---- the end of a run list ---- *)

Lemma runs_end_from_last t R : runs_end_from t R = match R with [] => t | _ => run_end (last R (0, 0)) end.
Proof.
  revert t. induction R as [|r R IH]; intros t; [reflexivity|]. cbn [runs_end_from]. rewrite IH.
  destruct R as [|r' R']; [reflexivity|]. reflexivity.
Qed.

Lemma runs_end_spec R : runs_end R = runs_end_from 0 R.
Proof. unfold runs_end. rewrite runs_end_from_last. destruct R; reflexivity. Qed.

(* sorted, non-overlapping runs (adjacency allowed) *)
Fixpoint runs_srt (from : N) (R : list run) : Prop :=
  match R with
  | [] => True
  | r :: t => from <= fst r /\ 1 <= snd r /\ runs_srt (fst r + snd r) t
  end.
Lemma runs_srt_sorted from R : runs_srt from R <-> runs_sorted from R.
Proof.
  revert from. induction R as [|[s l] t IH]; intros from; cbn [runs_srt runs_sorted fst snd]; [tauto|].
  rewrite IH. tauto.
Qed.

Lemma runs_srt_end from R : runs_srt from R -> from <= runs_end_from from R.
Proof.
  revert from. induction R as [|r t IH]; intros from H; cbn [runs_end_from]; [lia|].
  destruct H as (H0 & H1 & H2). apply IH in H2. lia.
Qed.


(* maximal runs of a sorted list are maximal *)
Lemma maximal_from_ok : forall rest cur (first : bool) from,
  (if first then from <= fst cur else from < fst cur) -> 1 <= snd cur ->
  runs_srt (fst cur + snd cur) rest ->
  runs_ok first from (maximal_from cur rest) /\
  runs_end_from from (maximal_from cur rest) = runs_end_from (fst cur + snd cur) rest.
Proof.
  induction rest as [|[s l] rest IH]; intros cur first from Hc Hl Hs.
  - cbn [maximal_from runs_ok runs_end_from]. repeat split; trivial.
  - destruct Hs as (H0 & H1 & H2). cbn [fst snd] in *. cbn [maximal_from].
    destruct (N.eqb_spec (fst cur + snd cur) s) as [E|NE].
    + destruct (IH (fst cur, snd cur + l) first from) as [G1 G2]; cbn [fst snd]; try assumption; try lia.
      { replace (fst cur + (snd cur + l)) with (s + l) by lia. exact H2. }
      split; [exact G1|]. rewrite G2. cbn [runs_end_from fst snd]. f_equal. lia.
    + destruct (IH (s, l) false (fst cur + snd cur)) as [G1 G2]; cbn [fst snd]; try assumption; try lia.
      cbn [runs_ok runs_end_from]. split; [repeat split; assumption|]. rewrite G2. reflexivity.
Qed.
