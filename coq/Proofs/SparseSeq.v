(* List-level lemmas used by the sparse-vector proofs: rank/select algebra on [list bool] (Spec/BitSeq.v),
   sorted value lists (Spec/ValSeq.v), and the fuel-bounded loop combinator of Model/Sparse.v. *)
From Coq Require Import NArith List Lia ZArith Bool.
Require Import SDS.Model.Mach SDS.Model.Sparse.
Require Import SDS.Spec.BitSeq SDS.Spec.ValSeq SDS.Proofs.BitsProof.
Import ListNotations.
Open Scope N_scope.
Require Import ZifyBool ZifyN ZifyNat.
Ltac Zify.zify_post_hook ::= Z.div_mod_to_equations.
Arguments N.add : simpl never. Arguments N.sub : simpl never. Arguments N.mul : simpl never.
Arguments N.eqb : simpl never. Arguments N.ltb : simpl never. Arguments N.leb : simpl never.
Arguments N.pow : simpl never. Arguments N.shiftl : simpl never. Arguments N.shiftr : simpl never.
Arguments N.land : simpl never. Arguments N.lor : simpl never. Arguments N.div : simpl never.
Arguments N.modulo : simpl never. Arguments N.ones : simpl never. Arguments N.testbit : simpl never.

(* ---------------------------------------------------------------- bit sequences *)

Lemma sq_getb_lt B p x : getb B p = Some x -> p < lenB B.
Proof.
  revert p. unfold lenB. induction B as [|b t IH]; intros p H; cbn [getb length] in *; [discriminate|].
  destruct (N.eqb_spec p 0) as [E0|Hp]; [subst p; lia|]. specialize (IH _ H). lia.
Qed.

Lemma sq_getb_some B p : p < lenB B -> exists x, getb B p = Some x.
Proof.
  revert p. unfold lenB. induction B as [|b t IH]; intros p H; cbn [getb length] in *; [lia|].
  destruct (N.eqb_spec p 0) as [E0|Hp]; [subst p; eauto|]. apply IH. lia.
Qed.

Lemma sq_rank1_0 B : rank1 B 0 = 0.
Proof. destruct B; reflexivity. Qed.

Lemma sq_rank1_succ B p x : getb B p = Some x -> rank1 B (p + 1) = rank1 B p + b2n x.
Proof.
  revert p. induction B as [|b t IH]; intros p H; cbn [getb] in H; [discriminate|].
  cbn [rank1]. replace (p + 1 =? 0) with false by lia.
  destruct (N.eqb_spec p 0) as [E0|Hp]; [subst p|].
  - injection H as ->. replace (0 + 1 - 1) with 0 by lia. rewrite sq_rank1_0. lia.
  - replace (p + 1 - 1) with (p - 1 + 1) by lia. rewrite (IH _ H). lia.
Qed.

Lemma sq_rank1_gap B a b :
  a <= b -> (forall p, a <= p < b -> getb B p = Some false) -> rank1 B b = rank1 B a.
Proof.
  intros Hab Hz. remember (N.to_nat (b - a)) as d eqn:Hd. revert b Hab Hz Hd.
  induction d as [|d IH]; intros b Hab Hz Hd.
  - replace b with a by lia. reflexivity.
  - replace b with (b - 1 + 1) by lia. rewrite (sq_rank1_succ _ _ false) by (apply Hz; lia).
    cbn [b2n]. rewrite (IH (b - 1)); [lia|lia| |lia]. intros p Hp. apply Hz. lia.
Qed.

Lemma sq_rank1_le_pos B p : rank1 B p <= p.
Proof.
  revert p. induction B as [|b t IH]; intros p; cbn [rank1]; [lia|].
  destruct (N.eqb_spec p 0); [lia|]. specialize (IH (p - 1)). destruct b; cbn [b2n]; lia.
Qed.

Lemma sq_select1_rank B p : getb B p = Some true -> select1 B (rank1 B p) = Some p.
Proof.
  unfold select1, ones. revert p. induction B as [|b t IH]; intros p H; cbn [getb] in H; [discriminate|].
  cbn [rank1 ones_from]. destruct (N.eqb_spec p 0) as [E0|Hp]; [subst p|].
  - injection H as ->. cbn [nth_opt]. reflexivity.
  - specialize (IH _ H). destruct b; cbn [b2n].
    + cbn [nth_opt]. replace (1 + rank1 t (p - 1) =? 0) with false by lia.
      replace (1 + rank1 t (p - 1) - 1) with (rank1 t (p - 1)) by lia.
      rewrite nth_opt_ones_from_shift, IH. cbn [option_map]. f_equal. lia.
    + replace (0 + rank1 t (p - 1)) with (rank1 t (p - 1)) by lia.
      rewrite nth_opt_ones_from_shift, IH. cbn [option_map]. f_equal. lia.
Qed.

Lemma sq_getb_map_negb B p : getb (map negb B) p = option_map negb (getb B p).
Proof.
  revert p. induction B as [|b t IH]; intros p; cbn [map getb]; [reflexivity|].
  destruct (p =? 0); [reflexivity|apply IH].
Qed.

Lemma sq_rank1_map_negb B p : p <= lenB B -> rank1 (map negb B) p = p - rank1 B p.
Proof.
  revert p. unfold lenB. induction B as [|b t IH]; intros p H; cbn [map rank1 length] in *; [lia|].
  destruct (N.eqb_spec p 0) as [E0|Hp]; [subst p; lia|].
  rewrite IH by lia. pose proof (sq_rank1_le_pos t (p - 1)). destruct b; cbn [negb b2n]; lia.
Qed.

Lemma sq_select0_rank B p : getb B p = Some false -> select0 B (p - rank1 B p) = Some p.
Proof.
  intros H. unfold select0, zeros.
  pose proof (sq_getb_lt _ _ _ H) as Hlt.
  rewrite <- sq_rank1_map_negb by lia.
  apply (sq_select1_rank (map negb B) p). rewrite sq_getb_map_negb, H. reflexivity.
Qed.

Lemma sq_lenB_map_negb B : lenB (map negb B) = lenB B.
Proof. unfold lenB. rewrite map_length. reflexivity. Qed.

(* ---------------------------------------------------------------- lists by index *)

(* total access with a default, convenient for arithmetic reasoning *)
Definition nthd (l : list N) (i : N) : N := match nthN l i with Some v => v | None => 0 end.

Lemma nthN_nth_opt {A} (l : list A) i : nth_opt l i = nthN l i.
Proof. revert i. induction l as [|x t IH]; intros i; cbn [nth_opt nthN]; [reflexivity|]. destruct (i =? 0); [reflexivity|apply IH]. Qed.

Lemma nthd_some l i : i < lenN l -> nthN l i = Some (nthd l i).
Proof. intros H. unfold nthd. destruct (nthN_lt_Some l i H) as [x ->]. reflexivity. Qed.

Lemma nthN_cons {A} (x : A) t i : nthN (x :: t) i = if i =? 0 then Some x else nthN t (i - 1).
Proof. reflexivity. Qed.

Lemma nthd_cons x t i : nthd (x :: t) i = if i =? 0 then x else nthd t (i - 1).
Proof. unfold nthd. rewrite nthN_cons. destruct (i =? 0); reflexivity. Qed.

Lemma lenN_cons {A} (x : A) t : lenN (x :: t) = lenN t + 1.
Proof. unfold lenN. cbn [length]. lia. Qed.

(* sortedness by indices *)
Definition sorted_le (l : list N) : Prop := forall i j, i <= j -> j < lenN l -> nthd l i <= nthd l j.
Definition sorted_lt (l : list N) : Prop := forall i j, i < j -> j < lenN l -> nthd l i < nthd l j.
Definition bounded (n : N) (l : list N) : Prop := forall i, i < lenN l -> nthd l i < n.

Lemma sorted_le_tail x t : sorted_le (x :: t) -> sorted_le t.
Proof.
  intros H i j Hij Hj. specialize (H (i + 1) (j + 1)). rewrite !nthd_cons, lenN_cons in H.
  replace (i + 1 =? 0) with false in H by lia. replace (j + 1 =? 0) with false in H by lia.
  replace (i + 1 - 1) with i in H by lia. replace (j + 1 - 1) with j in H by lia. apply H; lia.
Qed.

Lemma nondecreasing_sorted l : nondecreasing l = true -> sorted_le l.
Proof.
  induction l as [|a t IH]; intros H i j Hij Hj; [unfold lenN in Hj; cbn in Hj; lia|].
  assert (Ht : nondecreasing t = true).
  { destruct t as [|b u]; [reflexivity|]. cbn [nondecreasing] in H. apply andb_true_iff in H. tauto. }
  specialize (IH Ht). rewrite lenN_cons in Hj. rewrite !nthd_cons.
  destruct (N.eqb_spec i 0) as [E0|Hi]; [subst i|].
  - destruct (N.eqb_spec j 0) as [E0|Hj0]; [subst j; lia|].
    (* a <= t[0] <= t[j-1] *)
    destruct t as [|b u]; [unfold lenN in Hj; cbn in Hj; lia|].
    cbn [nondecreasing] in H. apply andb_true_iff in H. destruct H as [Hab _].
    specialize (IH 0 (j - 1)). rewrite nthd_cons in IH at 1. replace (0 =? 0) with true in IH by lia.
    assert (b <= nthd (b :: u) (j - 1)) by (apply IH; lia). lia.
  - replace (j =? 0) with false by lia. apply IH; lia.
Qed.

Lemma increasing_sorted l : increasing l = true -> sorted_lt l.
Proof.
  induction l as [|a t IH]; intros H i j Hij Hj; [unfold lenN in Hj; cbn in Hj; lia|].
  assert (Ht : increasing t = true).
  { destruct t as [|b u]; [reflexivity|]. cbn [increasing] in H. apply andb_true_iff in H. tauto. }
  specialize (IH Ht). rewrite lenN_cons in Hj. rewrite !nthd_cons.
  replace (j =? 0) with false by lia.
  destruct (N.eqb_spec i 0) as [E0|Hi]; [subst i|].
  - destruct t as [|b u]; [unfold lenN in Hj; cbn in Hj; lia|].
    cbn [increasing] in H. apply andb_true_iff in H. destruct H as [Hab _].
    destruct (N.eqb_spec (j - 1) 0) as [Hj0|Hj0].
    + rewrite Hj0, nthd_cons. replace (0 =? 0) with true by lia. lia.
    + specialize (IH 0 (j - 1)). rewrite nthd_cons in IH at 1. replace (0 =? 0) with true in IH by lia.
      assert (b < nthd (b :: u) (j - 1)) by (apply IH; lia). lia.
  - apply IH; lia.
Qed.

Lemma sorted_lt_le l : sorted_lt l -> sorted_le l.
Proof.
  intros H i j Hij Hj. destruct (N.eq_dec i j) as [E0|Hne]; [subst i; lia|].
  specialize (H i j). lia.
Qed.

Lemma all_below_bounded n l : all_below n l = true -> bounded n l.
Proof.
  unfold all_below. induction l as [|a t IH]; intros H i Hi; [unfold lenN in Hi; cbn in Hi; lia|].
  cbn [forallb] in H. apply andb_true_iff in H. destruct H as [Ha Ht].
  rewrite lenN_cons in Hi. rewrite nthd_cons. destruct (N.eqb_spec i 0); [lia|]. apply IH; [exact Ht|lia].
Qed.

(* vs_rank of a sorted list: the number of values below x is the first index whose value is >= x *)
Lemma vs_rank_le_len l x : vs_rank l x <= lenN l.
Proof.
  induction l as [|a t IH]; cbn [vs_rank]; [unfold lenN; cbn; lia|].
  rewrite lenN_cons. destruct (a <? x); lia.
Qed.

Lemma vs_rank_char l x c :
  sorted_le l -> c <= lenN l ->
  (forall i, i < c -> nthd l i < x) -> (forall i, c <= i -> i < lenN l -> x <= nthd l i) ->
  vs_rank l x = c.
Proof.
  revert c. induction l as [|a t IH]; intros c Hs Hc Hlo Hhi.
  - unfold lenN in Hc. cbn in Hc. cbn [vs_rank]. lia.
  - cbn [vs_rank]. rewrite lenN_cons in *.
    destruct (N.eqb_spec c 0) as [E0|Hc0]; [subst c|].
    + (* everything is >= x *)
      assert (Ha : x <= a). { specialize (Hhi 0). rewrite nthd_cons in Hhi. apply Hhi; lia. }
      replace (a <? x) with false by lia.
      rewrite (IH 0); [lia|apply (sorted_le_tail _ _ Hs)|lia|intros; lia|].
      intros i _ Hi. specialize (Hhi (i + 1)). rewrite nthd_cons in Hhi.
      replace (i + 1 =? 0) with false in Hhi by lia. replace (i + 1 - 1) with i in Hhi by lia. apply Hhi; lia.
    + assert (Ha : a < x). { specialize (Hlo 0). rewrite nthd_cons in Hlo. apply Hlo; lia. }
      replace (a <? x) with true by lia.
      rewrite (IH (c - 1)); [lia|apply (sorted_le_tail _ _ Hs)|lia| |].
      * intros i Hi. specialize (Hlo (i + 1)). rewrite nthd_cons in Hlo.
        replace (i + 1 =? 0) with false in Hlo by lia. replace (i + 1 - 1) with i in Hlo by lia. apply Hlo; lia.
      * intros i Hi1 Hi2. specialize (Hhi (i + 1)). rewrite nthd_cons in Hhi.
        replace (i + 1 =? 0) with false in Hhi by lia. replace (i + 1 - 1) with i in Hhi by lia. apply Hhi; lia.
Qed.

(* the converse: positions below / at-or-above the rank *)
Lemma vs_rank_lt l x i : sorted_le l -> i < vs_rank l x -> nthd l i < x.
Proof.
  revert i. induction l as [|a t IH]; intros i Hs Hi; cbn [vs_rank] in Hi; [lia|].
  rewrite nthd_cons. destruct (N.ltb_spec a x) as [Hax|Hax].
  - destruct (N.eqb_spec i 0); [lia|]. apply IH; [apply (sorted_le_tail _ _ Hs)|lia].
  - (* a >= x: then nothing in t is below x either *)
    exfalso. assert (Hz : vs_rank t x = 0).
    { apply vs_rank_char; [apply (sorted_le_tail _ _ Hs)|lia|intros; lia|].
      intros k _ Hk. specialize (Hs 0 (k + 1)). rewrite !nthd_cons, lenN_cons in Hs.
      replace (0 =? 0) with true in Hs by lia. replace (k + 1 =? 0) with false in Hs by lia.
      replace (k + 1 - 1) with k in Hs by lia. specialize (Hs ltac:(lia) ltac:(lia)). lia. }
    lia.
Qed.

Lemma vs_rank_ge l x i : sorted_le l -> vs_rank l x <= i -> i < lenN l -> x <= nthd l i.
Proof.
  revert i. induction l as [|a t IH]; intros i Hs Hi Hl; [unfold lenN in Hl; cbn in Hl; lia|].
  cbn [vs_rank] in Hi. rewrite lenN_cons in Hl. rewrite nthd_cons.
  destruct (N.ltb_spec a x) as [Hax|Hax].
  - destruct (N.eqb_spec i 0); [lia|]. apply IH; [apply (sorted_le_tail _ _ Hs)|lia|lia].
  - destruct (N.eqb_spec i 0); [lia|].
    specialize (Hs 0 i). rewrite !nthd_cons, lenN_cons in Hs.
    replace (0 =? 0) with true in Hs by lia. replace (i =? 0) with false in Hs by lia.
    specialize (Hs ltac:(lia) ltac:(lia)). lia.
Qed.

(* ---------------------------------------------------------------- the loop combinator *)

Section Loop.
Context {S R : Type}.
Variable f : S -> res (step S R).
Variable Inv : S -> N -> Prop.      (* invariant with a measure that strictly decreases on Continue *)
Variable Post : R -> Prop.
Hypothesis Hstep : forall s k, Inv s k ->
  (exists r, f s = Ok (Done r) /\ Post r) \/
  (exists s' k', f s = Ok (Continue s') /\ Inv s' k' /\ k' < k).

Lemma run_steps_inv j : forall s k, Inv s k ->
  (exists r, run_steps j f s = Ok (Done r) /\ Post r) \/
  (exists s' k', run_steps j f s = Ok (Continue s') /\ Inv s' k' /\ k' + N.of_nat j <= k).
Proof.
  induction j as [|j IH]; intros s k HI.
  - right. exists s, k. cbn [run_steps]. split; [reflexivity|split; [exact HI|lia]].
  - cbn [run_steps]. destruct (Hstep s k HI) as [[r [Hf HP]]|[s' [k' [Hf [HI' Hk]]]]].
    + left. exists r. rewrite Hf. cbn [bind]. auto.
    + rewrite Hf. cbn [bind]. destruct (IH s' k' HI') as [[r [Hr HP]]|[s'' [k'' [Hr [HI'' Hk'']]]]].
      * left. exists r. auto.
      * right. exists s'', k''. split; [exact Hr|split; [exact HI''|lia]].
Qed.

Lemma run_loop_inv blocks : forall s k, Inv s k -> k < 64 * N.of_nat blocks ->
  exists r, run_loop blocks f s = Ok r /\ Post r.
Proof.
  induction blocks as [|b IH]; intros s k HI Hk; [lia|].
  cbn [run_loop]. destruct (run_steps_inv 64 s k HI) as [[r [Hr HP]]|[s' [k' [Hr [HI' Hk']]]]].
  - rewrite Hr. cbn [bind]. eauto.
  - rewrite Hr. cbn [bind]. apply (IH s' k' HI'). lia.
Qed.
End Loop.

(* ---------------------------------------------------------------- membership in a sorted list *)

Lemma vs_rank_zero_of_ge a t x : sorted_le (a :: t) -> x <= a -> vs_rank t x = 0.
Proof.
  intros Hs Hx. apply vs_rank_char; [apply (sorted_le_tail _ _ Hs)|lia|intros; lia|].
  intros k _ Hk. specialize (Hs 0 (k + 1)). rewrite !nthd_cons, lenN_cons in Hs.
  replace (0 =? 0) with true in Hs by lia. replace (k + 1 =? 0) with false in Hs by lia.
  replace (k + 1 - 1) with k in Hs by lia. specialize (Hs ltac:(lia) ltac:(lia)). lia.
Qed.

Lemma vs_get_sorted l x : sorted_le l ->
  vs_get l x = if vs_rank l x <? lenN l then nthd l (vs_rank l x) =? x else false.
Proof.
  unfold vs_get. induction l as [|a t IH]; intros Hs; [reflexivity|].
  cbn [existsb vs_rank]. rewrite lenN_cons. specialize (IH (sorted_le_tail _ _ Hs)).
  destruct (N.ltb_spec a x) as [Hax|Hax].
  - replace (x =? a) with false by lia. cbn [orb]. rewrite IH, nthd_cons.
    replace (1 + vs_rank t x =? 0) with false by lia. replace (1 + vs_rank t x - 1) with (vs_rank t x) by lia.
    destruct (N.ltb_spec (vs_rank t x) (lenN t)); [replace (1 + vs_rank t x <? lenN t + 1) with true by lia|replace (1 + vs_rank t x <? lenN t + 1) with false by lia]; reflexivity.
  - pose proof (vs_rank_zero_of_ge a t x Hs Hax) as Hz. rewrite Hz in *.
    replace (0 + 0 <? lenN t + 1) with true by lia. rewrite nthd_cons. replace (0 + 0 =? 0) with true by lia.
    destruct (N.eqb_spec x a) as [->|Hne]; [cbn [orb]; symmetry; apply N.eqb_refl|].
    cbn [orb]. rewrite IH. replace (a =? x) with false by lia.
    destruct (N.ltb_spec 0 (lenN t)) as [Hl|Hl]; [|reflexivity].
    specialize (Hs 0 1). rewrite !nthd_cons, lenN_cons in Hs. replace (0 =? 0) with true in Hs by lia.
    replace (1 =? 0) with false in Hs by lia. replace (1 - 1) with 0 in Hs by lia.
    specialize (Hs ltac:(lia) ltac:(lia)). apply N.eqb_neq. lia.
Qed.

(* comparing two numbers with the same quotient by their remainders *)
Lemma mod_cmp a b P : 0 < P -> a / P = b / P ->
  (a mod P <=? b mod P) = (a <=? b) /\ (a mod P <? b mod P) = (a <? b) /\ (a mod P =? b mod P) = (a =? b).
Proof.
  intros HP Hq. pose proof (N.div_mod a P ltac:(lia)) as Ha. pose proof (N.div_mod b P ltac:(lia)) as Hb.
  rewrite Hq in Ha. set (q := b / P) in *. set (ra := a mod P) in *. set (rb := b mod P) in *.
  repeat split; [destruct (N.leb_spec ra rb), (N.leb_spec a b)|destruct (N.ltb_spec ra rb), (N.ltb_spec a b)|destruct (N.eqb_spec ra rb), (N.eqb_spec a b)]; try reflexivity; nia.
Qed.

Lemma vs_rank_all l x : sorted_le l -> (forall i, i < lenN l -> nthd l i < x) -> vs_rank l x = lenN l.
Proof. intros Hs Hx. apply vs_rank_char; [exact Hs|lia|exact Hx|intros; lia]. Qed.

(* in a strictly increasing list the i-th value is at least i, so at most x values are below x *)
Lemma sorted_lt_ge_index l i : sorted_lt l -> i < lenN l -> i <= nthd l i.
Proof.
  intros Hs. rewrite <- (N2Nat.id i). induction (N.to_nat i) as [|k IH]; intros Hi; [lia|].
  specialize (IH ltac:(lia)). specialize (Hs (N.of_nat k) (N.of_nat (S k)) ltac:(lia) Hi). lia.
Qed.

Lemma vs_rank_le_arg l x : sorted_lt l -> vs_rank l x <= x.
Proof.
  intros Hs. destruct (N.eq_dec (vs_rank l x) 0) as [->|Hne]; [lia|].
  pose proof (vs_rank_le_len l x).
  pose proof (vs_rank_lt l x (vs_rank l x - 1) (sorted_lt_le _ Hs) ltac:(lia)).
  pose proof (sorted_lt_ge_index l (vs_rank l x - 1) Hs ltac:(lia)). lia.
Qed.

(* consecutive values of a strictly increasing list are at least their index distance apart *)
Lemma sorted_lt_gap l i j : sorted_lt l -> i <= j -> j < lenN l -> nthd l i + (j - i) <= nthd l j.
Proof.
  intros Hs Hij. remember (N.to_nat (j - i)) as d eqn:Hd. revert j Hij Hd.
  induction d as [|d IH]; intros j Hij Hd Hj.
  - replace j with i by lia. lia.
  - specialize (IH (j - 1) ltac:(lia) ltac:(lia) ltac:(lia)).
    specialize (Hs (j - 1) j ltac:(lia) Hj). lia.
Qed.

Lemma sorted_lt_len_le l n : sorted_lt l -> bounded n l -> lenN l <= n.
Proof.
  intros Hs Hb. destruct (N.eq_dec (lenN l) 0) as [->|Hne]; [lia|].
  pose proof (sorted_lt_ge_index l (lenN l - 1) Hs ltac:(lia)). pose proof (Hb (lenN l - 1) ltac:(lia)). lia.
Qed.

(* ---------------------------------------------------------------- successor / predecessor lists of a sorted list *)

Lemma skipN_0 {A} (l : list A) : skipN l 0 = l.
Proof. destruct l; reflexivity. Qed.
Lemma skipN_cons_pos {A} (x : A) t r : r <> 0 -> skipN (x :: t) r = skipN t (r - 1).
Proof. intros H. cbn [skipN]. replace (r =? 0) with false by lia. reflexivity. Qed.

Lemma drop_below_sorted l i0 v : sorted_le l ->
  drop_below (index_from l i0) v = skipN (index_from l i0) (vs_rank l v).
Proof.
  revert i0. induction l as [|a t IH]; intros i0 Hs; [reflexivity|].
  cbn [index_from drop_below vs_rank]. destruct (N.ltb_spec a v) as [Hav|Hav].
  - rewrite skipN_cons_pos by lia. replace (1 + vs_rank t v - 1) with (vs_rank t v) by lia.
    apply IH. apply (sorted_le_tail _ _ Hs).
  - rewrite (vs_rank_zero_of_ge a t v Hs Hav). replace (0 + 0) with 0 by lia. rewrite skipN_0. reflexivity.
Qed.

Lemma vs_succ_eq l v : sorted_le l -> vs_succ l v = skipN (vs_ranked l) (vs_rank l v).
Proof. intros Hs. unfold vs_succ, vs_ranked. apply drop_below_sorted. exact Hs. Qed.

Lemma pred_suffix_sorted l i0 v best : sorted_le l ->
  pred_suffix_aux (index_from l i0) v best =
  if vs_rank l (v + 1) =? 0 then best else skipN (index_from l i0) (vs_rank l (v + 1) - 1).
Proof.
  revert i0 best. induction l as [|a t IH]; intros i0 best Hs; [reflexivity|].
  cbn [index_from pred_suffix_aux vs_rank]. destruct (N.leb_spec a v) as [Hav|Hav].
  - replace (a <? v + 1) with true by lia. rewrite IH by apply (sorted_le_tail _ _ Hs).
    replace (1 + vs_rank t (v + 1) =? 0) with false by lia.
    replace (1 + vs_rank t (v + 1) - 1) with (vs_rank t (v + 1)) by lia.
    destruct (N.eqb_spec (vs_rank t (v + 1)) 0) as [Hz|Hz].
    + rewrite Hz, skipN_0. reflexivity.
    + rewrite skipN_cons_pos by exact Hz. reflexivity.
  - replace (a <? v + 1) with false by lia.
    rewrite (vs_rank_zero_of_ge a t (v + 1) Hs ltac:(lia)). reflexivity.
Qed.

Lemma vs_pred_eq l v : sorted_le l ->
  vs_pred l v = if vs_rank l (v + 1) =? 0 then [] else skipN (vs_ranked l) (vs_rank l (v + 1) - 1).
Proof. intros Hs. unfold vs_pred, vs_ranked. apply pred_suffix_sorted. exact Hs. Qed.

Lemma hd_skipN_index_from l i0 j :
  hd_error (skipN (index_from l i0) j) = if j <? lenN l then Some (i0 + j, nthd l j) else None.
Proof.
  revert i0 j. induction l as [|a t IH]; intros i0 j.
  - cbn [index_from skipN hd_error]. change (lenN (@nil N)) with 0. replace (j <? 0) with false by lia. reflexivity.
  - cbn [index_from]. rewrite lenN_cons, nthd_cons. destruct (N.eqb_spec j 0) as [E|E].
    + subst j. rewrite skipN_0. cbn [hd_error]. replace (0 <? lenN t + 1) with true by lia. do 2 f_equal. lia.
    + rewrite skipN_cons_pos by exact E. rewrite IH.
      destruct (N.ltb_spec (j - 1) (lenN t)); [replace (j <? lenN t + 1) with true by lia|replace (j <? lenN t + 1) with false by lia]; [|reflexivity].
      do 2 f_equal. lia.
Qed.

Lemma hd_skipN_ranked l j : hd_error (skipN (vs_ranked l) j) = if j <? lenN l then Some (j, nthd l j) else None.
Proof. unfold vs_ranked. rewrite hd_skipN_index_from. destruct (j <? lenN l); [do 2 f_equal; lia|reflexivity]. Qed.

(* ---------------------------------------------------------------- index ranges of the (index, value) list *)

Fixpoint rangeN (j : N) (d : nat) : list N :=
  match d with O => [] | S d' => j :: rangeN (j + 1) d' end.

(* the pairs (i, l[i]) for j <= i < k *)
Definition seg (l : list N) (j k : N) : list (N * N) :=
  map (fun i => (i, nthd l i)) (rangeN j (N.to_nat (k - j))).

Lemma rangeN_snoc j d : rangeN j (S d) = rangeN j d ++ [j + N.of_nat d].
Proof.
  revert j. induction d as [|d IH]; intros j.
  - cbn [rangeN app]. f_equal. lia.
  - change (rangeN j (S (S d))) with (j :: rangeN (j + 1) (S d)). rewrite IH. cbn [rangeN app]. do 2 f_equal.
    f_equal. lia.
Qed.

Lemma rangeN_ge j d i : In i (rangeN j d) -> j <= i.
Proof.
  revert j. induction d as [|d IH]; intros j Hin; cbn [rangeN In] in Hin; [contradiction|].
  destruct Hin as [<-|Hin]; [lia|]. specialize (IH _ Hin). lia.
Qed.

Lemma seg_nil l j k : k <= j -> seg l j k = [].
Proof. intros H. unfold seg. replace (N.to_nat (k - j)) with 0%nat by lia. reflexivity. Qed.

Lemma seg_cons l j k : j < k -> seg l j k = (j, nthd l j) :: seg l (j + 1) k.
Proof.
  intros H. unfold seg. replace (N.to_nat (k - j)) with (S (N.to_nat (k - (j + 1)))) by lia. reflexivity.
Qed.

Lemma seg_snoc l j k : j < k -> seg l j k = seg l j (k - 1) ++ [(k - 1, nthd l (k - 1))].
Proof.
  intros H. unfold seg. replace (N.to_nat (k - j)) with (S (N.to_nat (k - 1 - j))) by lia.
  rewrite rangeN_snoc, map_app. cbn [map]. replace (j + N.of_nat (N.to_nat (k - 1 - j))) with (k - 1) by lia. reflexivity.
Qed.

Lemma index_from_seg l i0 :
  index_from l i0 = map (fun i => (i, nthd l (i - i0))) (rangeN i0 (length l)).
Proof.
  revert i0. induction l as [|a t IH]; intros i0; [reflexivity|].
  cbn [index_from length rangeN map]. f_equal.
  - f_equal. rewrite nthd_cons. replace (i0 - i0 =? 0) with true by lia. reflexivity.
  - rewrite IH. apply map_ext_in. intros i Hi. apply rangeN_ge in Hi. f_equal.
    rewrite nthd_cons. replace (i - i0 =? 0) with false by lia. f_equal. lia.
Qed.

Lemma vs_ranked_seg l : vs_ranked l = seg l 0 (lenN l).
Proof.
  unfold vs_ranked, seg. rewrite index_from_seg. unfold lenN. replace (N.to_nat (N.of_nat (length l) - 0)) with (length l) by lia.
  apply map_ext. intros i. f_equal. f_equal. lia.
Qed.

Lemma skipN_seg l j k r : skipN (seg l j k) r = seg l (j + r) k.
Proof.
  remember (N.to_nat r) as d eqn:Hd. revert j r Hd. induction d as [|d IH]; intros j r Hd.
  - replace r with 0 by lia. rewrite skipN_0. f_equal. lia.
  - destruct (N.lt_ge_cases j k) as [Hjk|Hjk].
    + rewrite (seg_cons l j k Hjk). rewrite skipN_cons_pos by lia. rewrite (IH (j + 1) (r - 1)) by lia. f_equal. lia.
    + rewrite !seg_nil by lia. reflexivity.
Qed.

Lemma skipN_ranked_seg l r : skipN (vs_ranked l) r = seg l r (lenN l).
Proof. rewrite vs_ranked_seg, skipN_seg. f_equal. Qed.

Lemma deque_back_snoc {A} (l : list A) x t :
  deque_run (l ++ [x]) (true :: t) = Some x :: deque_run l t.
Proof.
  cbn [deque_run]. rewrite app_length. cbn [length]. replace (length l + 1 - 1)%nat with (length l) by lia.
  rewrite nth_error_app2 by lia. replace (length l - length l)%nat with 0%nat by lia. cbn [nth_error].
  rewrite removelast_last. reflexivity.
Qed.

(* the converse direction: index-sorted lists pass the boolean test *)
Lemma sorted_nondecreasing l : sorted_le l -> nondecreasing l = true.
Proof.
  induction l as [|a t IH]; intros Hs; [reflexivity|].
  destruct t as [|b u]; [reflexivity|]. cbn [nondecreasing]. apply andb_true_iff. split.
  - specialize (Hs 0 1). rewrite !nthd_cons, !lenN_cons in Hs. replace (0 =? 0) with true in Hs by lia.
    replace (1 =? 0) with false in Hs by lia. replace (1 - 1 =? 0) with true in Hs by lia.
    apply N.leb_le. apply Hs; lia.
  - apply IH. apply (sorted_le_tail _ _ Hs).
Qed.

(* rank just above an absent / a present position *)
Lemma vs_rank_succ_absent l a : sorted_le l -> vs_get l a = false -> vs_rank l (a + 1) = vs_rank l a.
Proof.
  intros Hs Hg. pose proof (vs_rank_le_len l a) as Hle. apply vs_rank_char; [exact Hs|exact Hle| |].
  - intros i Hi. pose proof (vs_rank_lt l a i Hs Hi). lia.
  - intros i Hi1 Hi2. pose proof (vs_rank_ge l a i Hs Hi1 Hi2) as Hge.
    destruct (N.eq_dec (nthd l i) a) as [Heq|Hne]; [|lia]. exfalso.
    rewrite (vs_get_sorted l a Hs) in Hg.
    destruct (N.ltb_spec (vs_rank l a) (lenN l)) as [Hlt|Hge']; [|lia].
    apply N.eqb_neq in Hg. pose proof (vs_rank_ge l a (vs_rank l a) Hs ltac:(lia) Hlt).
    pose proof (Hs (vs_rank l a) i Hi1 Hi2). lia.
Qed.

Lemma vs_get_true_iff l a : sorted_le l ->
  (vs_get l a = true <-> vs_rank l a < lenN l /\ nthd l (vs_rank l a) = a).
Proof.
  intros Hs. rewrite (vs_get_sorted l a Hs). destruct (N.ltb_spec (vs_rank l a) (lenN l)) as [Hlt|Hge].
  - rewrite N.eqb_eq. tauto.
  - split; [discriminate|lia].
Qed.

Lemma vs_rank_mono l a b : a <= b -> vs_rank l a <= vs_rank l b.
Proof.
  intros Hab. induction l as [|x t IH]; cbn [vs_rank]; [lia|].
  destruct (N.ltb_spec x a), (N.ltb_spec x b); lia.
Qed.

(* ---------------------------------------------------------------- generic index segments *)

Definition gseg {A} (f : N -> A) (j k : N) : list A := map f (rangeN j (N.to_nat (k - j))).

Lemma gseg_nil {A} (f : N -> A) j k : k <= j -> gseg f j k = [].
Proof. intros H. unfold gseg. replace (N.to_nat (k - j)) with 0%nat by lia. reflexivity. Qed.
Lemma gseg_cons {A} (f : N -> A) j k : j < k -> gseg f j k = f j :: gseg f (j + 1) k.
Proof. intros H. unfold gseg. replace (N.to_nat (k - j)) with (S (N.to_nat (k - (j + 1)))) by lia. reflexivity. Qed.
Lemma gseg_snoc {A} (f : N -> A) j k : j < k -> gseg f j k = gseg f j (k - 1) ++ [f (k - 1)].
Proof.
  intros H. unfold gseg. replace (N.to_nat (k - j)) with (S (N.to_nat (k - 1 - j))) by lia.
  rewrite rangeN_snoc, map_app. cbn [map]. replace (j + N.of_nat (N.to_nat (k - 1 - j))) with (k - 1) by lia. reflexivity.
Qed.

Lemma rangeN_seq s d : rangeN (N.of_nat s) d = map N.of_nat (seq s d).
Proof.
  revert s. induction d as [|d IH]; intros s; [reflexivity|].
  cbn [rangeN seq map]. f_equal. replace (N.of_nat s + 1) with (N.of_nat (S s)) by lia. apply IH.
Qed.

Lemma vs_bits_gseg l n : vs_bits l n = gseg (vs_get l) 0 n.
Proof. unfold vs_bits, gseg, N_range. replace (n - 0) with n by lia. rewrite <- (rangeN_seq 0). reflexivity. Qed.
