(* Counts of set bits of filled raw vectors of ANY length (in particular lengths of 2^32 bits and more, which the
   correspondence run cannot replay on a list of words): corollaries of raw_with_len_ok / raw_resize_ok /
   raw_count_ones_spec of Proofs/RawProof.v. *)
From Coq Require Import NArith List Lia ZArith Bool.
Require Import SDS.Model.Mach SDS.Model.Bits SDS.Model.Raw.
Require Import SDS.Spec.BitSeq SDS.Spec.SeqSpec SDS.Proofs.RawProof.
Import ListNotations.
Open Scope N_scope.
Require Import ZifyBool ZifyN ZifyNat.
Arguments N.add : simpl never. Arguments N.sub : simpl never. Arguments N.mul : simpl never.

Lemma count_repeat b k : count (repeat b k) = if b then N.of_nat k else 0.
Proof.
  induction k as [|k IH]; cbn [repeat count].
  - destruct b; reflexivity.
  - rewrite IH. destruct b; cbn [b2n]; lia.
Qed.

Lemma count_repN b n : count (repN b n) = if b then n else 0.
Proof. unfold repN. rewrite count_repeat. destruct b; lia. Qed.

(* RawVector::with_len(n, value).count_ones() *)
Theorem raw_with_len_count n value :
  exists r, raw_with_len n value = Ok r /\ raw_inv r /\ rlen r = n /\
            raw_count_ones r = if value then n else 0.
Proof.
  destruct (raw_with_len_ok n value) as (r & E & Hi & Ha).
  exists r. split; [assumption|]. split; [assumption|]. split.
  - rewrite <- (abs_len r Hi), Ha. apply lenL_repN.
  - rewrite (raw_count_ones_spec r Hi), Ha. apply count_repN.
Qed.

(* growing with the fill value true adds exactly the new positions to the count (whatever the content was);
   growing with false adds nothing *)
Theorem raw_resize_grow_count r n' value :
  raw_inv r -> rlen r <= n' ->
  exists r', raw_resize r n' value = Ok r' /\ raw_inv r' /\ rlen r' = n' /\
             raw_count_ones r' = raw_count_ones r + (if value then n' - rlen r else 0).
Proof.
  intros Hi Hle.
  destruct (raw_resize_ok r n' value Hi) as (r' & E & Hi' & Ha).
  pose proof (abs_len r Hi) as HL.
  exists r'. split; [assumption|]. split; [assumption|]. split.
  - rewrite <- (abs_len r' Hi'), Ha, lenL_app, lenL_repN, takeN_all by lia. lia.
  - rewrite (raw_count_ones_spec r' Hi'), Ha, takeN_all by lia.
    rewrite count_app, count_repN, HL, <- (raw_count_ones_spec r Hi). reflexivity.
Qed.

(* an all-ones vector of n bits grown to n' >= n bits with fill value true counts n' *)
Theorem raw_with_len_resize_count n n' :
  n <= n' ->
  exists r r', raw_with_len n true = Ok r /\ raw_resize r n' true = Ok r' /\ raw_count_ones r' = n'.
Proof.
  intros Hle.
  destruct (raw_with_len_count n true) as (r & E & Hi & Hl & Hc).
  destruct (raw_resize_grow_count r n' true Hi) as (r' & E' & _ & _ & Hc'); [lia|].
  exists r, r'. split; [assumption|]. split; [assumption|]. rewrite Hc', Hc, Hl. lia.
Qed.
