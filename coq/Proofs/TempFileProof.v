(* Proofs about Model/TempFile.v: decimal rendering is injective and consists of digits only, so the
   text after the last '_' of a generated name determines the count; every name contains its name part. *)
From Coq Require Import String Ascii NArith List Lia ZArith Bool.
Require Import SDS.gen.TempName SDS.Model.TempFile.
Import ListNotations.
Open Scope N_scope.
Require Import ZifyBool ZifyN ZifyNat.
Ltac Zify.zify_post_hook ::= Z.div_mod_to_equations.
Arguments N.add : simpl never. Arguments N.sub : simpl never. Arguments N.mul : simpl never.
Arguments N.eqb : simpl never. Arguments N.ltb : simpl never. Arguments N.leb : simpl never.
Arguments N.pow : simpl never. Arguments N.div : simpl never. Arguments N.modulo : simpl never.

(* ---- decimal digits ---- *)

Fixpoint undigits (l : list N) : N :=
  match l with [] => 0 | d :: r => d + 10 * undigits r end.

Lemma undigits_digits : forall f n, n < 2 ^ N.of_nat f -> undigits (digits_le f n) = n.
Proof.
  induction f as [|f IH]; intros n Hn.
  - cbn [N.of_nat] in Hn. cbn [digits_le undigits]. change (2 ^ 0) with 1 in Hn. lia.
  - cbn [digits_le undigits].
    rewrite Nat2N.inj_succ, N.pow_succ_r' in Hn.
    destruct (N.eqb_spec (n / 10) 0) as [Hz|Hnz]; cbn [undigits].
    + lia.
    + rewrite IH by lia. lia.
Qed.

Lemma fuel_enough : forall n, n < 2 ^ N.of_nat (S (N.to_nat (N.log2 n))).
Proof.
  intros n. rewrite Nat2N.inj_succ, N2Nat.id.
  destruct (N.eq_dec n 0) as [->|Hn]; [reflexivity|].
  apply N.log2_spec. lia.
Qed.

Lemma digits_lt10 : forall f n, Forall (fun d => d < 10) (digits_le f n).
Proof.
  induction f as [|f IH]; intros n; cbn [digits_le]; [constructor|].
  constructor; [lia|]. destruct (n / 10 =? 0); [constructor|apply IH].
Qed.

Lemma digit_code : forall d, d < 10 -> N_of_ascii (digit d) = 48 + d.
Proof. intros d Hd. unfold digit. apply N_ascii_embedding. lia. Qed.

Lemma map_digit_inj : forall l1 l2,
  Forall (fun d => d < 10) l1 -> Forall (fun d => d < 10) l2 -> map digit l1 = map digit l2 -> l1 = l2.
Proof.
  induction l1 as [|a l1 IH]; intros l2 H1 H2 He; destruct l2 as [|b l2]; try discriminate; [reflexivity|].
  cbn [map] in He. injection He as Hab Hrest.
  inversion H1 as [|? ? Ha H1']; inversion H2 as [|? ? Hb H2']; subst.
  f_equal; [|apply IH; assumption].
  apply (f_equal N_of_ascii) in Hab. rewrite !digit_code in Hab by assumption. lia.
Qed.

Lemma dec_inj : forall a b, dec a = dec b -> a = b.
Proof.
  intros a b H. unfold dec in H.
  apply map_digit_inj in H; try (apply Forall_rev; apply digits_lt10).
  apply (f_equal (@rev N)) in H. rewrite !rev_involutive in H.
  rewrite <- (undigits_digits _ a (fuel_enough a)), <- (undigits_digits _ b (fuel_enough b)).
  rewrite H. reflexivity.
Qed.

(* every character of a rendered number is one of '0'..'9' *)
Lemma dec_chars : forall n c, In c (dec n) -> 48 <= N_of_ascii c <= 57.
Proof.
  intros n c Hc. unfold dec in Hc. apply in_map_iff in Hc. destruct Hc as [d [Hd Hin]].
  assert (Hlt : d < 10).
  { apply in_rev in Hin. pose proof (digits_lt10 (S (N.to_nat (N.log2 n))) n) as HF.
    rewrite Forall_forall in HF. apply HF. exact Hin. }
  subst c. rewrite digit_code by exact Hlt. lia.
Qed.

Lemma dec_nonempty : forall n, dec n <> [].
Proof.
  intros n H. unfold dec in H. apply map_eq_nil in H. apply (f_equal (@rev N)) in H.
  rewrite rev_involutive in H. cbn [digits_le rev] in H. discriminate.
Qed.

(* ---- the text after the last separator ---- *)

Lemma last_sep {A} (x : A) : forall s1 d1 s2 d2,
  ~ In x d1 -> ~ In x d2 -> s1 ++ x :: d1 = s2 ++ x :: d2 -> s1 = s2 /\ d1 = d2.
Proof.
  induction s1 as [|a s1 IH]; intros d1 s2 d2 H1 H2 He; destruct s2 as [|b s2]; cbn [app] in He.
  - injection He as ->. split; reflexivity.
  - injection He as Hx Hd. exfalso. apply H1. rewrite Hd. apply in_or_app. right. left. reflexivity.
  - injection He as Hx Hd. exfalso. apply H2. rewrite <- Hd. apply in_or_app. right. left. reflexivity.
  - injection He as -> Hrest. destruct (IH d1 s2 d2 H1 H2 Hrest) as [-> ->]. split; reflexivity.
Qed.

Definition underscore : ascii := ascii_of_N 95.

Lemma underscore_not_in_dec : forall n, ~ In underscore (dec n).
Proof. intros n H. apply dec_chars in H. change (N_of_ascii underscore) with 95 in H. lia. Qed.

(* ---- the generated format ---- *)

(* what format!("{}_{}_{}", name_part, process::id(), count) builds, from the generated pieces *)
Lemma temp_name_eq : forall part pid c,
  temp_name part pid c = Some (part ++ underscore :: dec pid ++ underscore :: dec c).
Proof.
  intros part pid c. unfold temp_name, temp_name_format. cbn [render piece list_ascii_of_string app].
  rewrite app_nil_r. reflexivity.
Qed.

Lemma push_suffix : forall dir nm, exists pre, push dir nm = pre ++ nm.
Proof.
  intros dir nm. unfold push. destruct nm as [|c nm].
  - eexists. rewrite app_nil_r. reflexivity.
  - destruct (Ascii.eqb c slash).
    + exists []. reflexivity.
    + eexists. rewrite app_assoc. reflexivity.
Qed.

Lemma temp_path_shape : forall dir part pid c,
  exists pre, temp_path dir part pid c =
              Some ((pre ++ part ++ underscore :: dec pid) ++ underscore :: dec c).
Proof.
  intros dir part pid c. unfold temp_path. rewrite temp_name_eq.
  destruct (push_suffix dir (part ++ underscore :: dec pid ++ underscore :: dec c)) as [pre Hp].
  exists pre. rewrite Hp. f_equal. rewrite <- !app_assoc. cbn [app]. reflexivity.
Qed.

(* two calls that return the same path read the same count, whatever their name parts, the process id
   and the temporary directory *)
Lemma temp_path_count_inj : forall dir1 dir2 part1 part2 pid1 pid2 c1 c2 s,
  temp_path dir1 part1 pid1 c1 = Some s -> temp_path dir2 part2 pid2 c2 = Some s -> c1 = c2.
Proof.
  intros dir1 dir2 part1 part2 pid1 pid2 c1 c2 s H1 H2.
  destruct (temp_path_shape dir1 part1 pid1 c1) as [p1 E1].
  destruct (temp_path_shape dir2 part2 pid2 c2) as [p2 E2].
  rewrite E1 in H1. rewrite E2 in H2. injection H1 as H1. injection H2 as H2. rewrite <- H2 in H1.
  apply last_sep in H1; try apply underscore_not_in_dec.
  apply dec_inj. apply H1.
Qed.

Lemma temp_name_count_inj : forall part1 part2 pid1 pid2 c1 c2 s,
  temp_name part1 pid1 c1 = Some s -> temp_name part2 pid2 c2 = Some s -> c1 = c2.
Proof.
  intros part1 part2 pid1 pid2 c1 c2 s H1 H2. rewrite temp_name_eq in H1, H2.
  injection H1 as H1. injection H2 as H2. rewrite <- H2 in H1.
  change (part1 ++ underscore :: dec pid1 ++ underscore :: dec c1)
    with (part1 ++ (underscore :: dec pid1) ++ underscore :: dec c1) in H1.
  change (part2 ++ underscore :: dec pid2 ++ underscore :: dec c2)
    with (part2 ++ (underscore :: dec pid2) ++ underscore :: dec c2) in H1.
  rewrite !app_assoc in H1.
  apply last_sep in H1; try apply underscore_not_in_dec.
  apply dec_inj. apply H1.
Qed.

Lemma temp_path_total : forall dir part pid c, exists s, temp_path dir part pid c = Some s.
Proof. intros. destruct (temp_path_shape dir part pid c) as [pre E]. eexists. exact E. Qed.

(* the name starts with the name part; the path contains it *)
Lemma temp_name_prefix : forall part pid c s,
  temp_name part pid c = Some s -> exists rest, s = part ++ rest.
Proof. intros part pid c s H. rewrite temp_name_eq in H. injection H as <-. eexists. reflexivity. Qed.

Lemma temp_path_contains : forall dir part pid c s,
  temp_path dir part pid c = Some s -> exists pre post, s = pre ++ part ++ post.
Proof.
  intros dir part pid c s H. destruct (temp_path_shape dir part pid c) as [pre E].
  rewrite E in H. injection H as <-. exists pre. eexists.
  rewrite <- !app_assoc. reflexivity.
Qed.

(* paths attached to pairwise distinct counts are pairwise distinct, whatever name part each call used *)
Lemma NoDup_map_by_key {A B K} (f : A -> B) (key : A -> K) : forall l,
  (forall x y, f x = f y -> key x = key y) -> NoDup (map key l) -> NoDup (map f l).
Proof.
  induction l as [|a l IH]; intros Hk Hnd; cbn [map] in *; [constructor|].
  inversion Hnd as [|? ? Hna Hnd']; subst. constructor; [|apply IH; assumption].
  intro Hin. apply in_map_iff in Hin. destruct Hin as [b [Hfb Hb]].
  apply Hna. rewrite <- (Hk _ _ Hfb). apply in_map. exact Hb.
Qed.

Lemma NoDup_snd_combine {A B} : forall (l1 : list A) (l2 : list B), NoDup l2 -> NoDup (map snd (combine l1 l2)).
Proof.
  induction l1 as [|a l1 IH]; intros l2 Hnd; destruct l2 as [|b l2]; cbn [combine map]; try constructor.
  - inversion Hnd as [|? ? Hnb Hnd']; subst. intro Hin. apply Hnb.
    apply in_map_iff in Hin. destruct Hin as [[x y] [Hy Hxy]]. cbn [snd] in Hy. subst.
    eapply in_combine_r. exact Hxy.
  - inversion Hnd; subst. apply IH. assumption.
Qed.

Lemma paths_nodup : forall dir pid (parts : list (list ascii)) (counts : list N),
  NoDup counts ->
  NoDup (map (fun pc => temp_path dir (fst pc) pid (snd pc)) (combine parts counts)).
Proof.
  intros dir pid parts counts Hnd.
  apply (NoDup_map_by_key _ (@snd (list ascii) N)); [|apply NoDup_snd_combine; exact Hnd].
  intros [p1 c1] [p2 c2]. cbn [fst snd]. intro He.
  destruct (temp_path_total dir p1 pid c1) as [s Hs].
  eapply temp_path_count_inj; [exact Hs|]. rewrite <- He. exact Hs.
Qed.
