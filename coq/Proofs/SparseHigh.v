(* The contract of the Elias-Fano high part, discharged: BitVector::from(raw) followed by enable_select and
   enable_select_zero succeeds on every well-formed raw vector (length below 2^64) and the result answers
   get / select / select_zero as the stored bit list, on both in-word select paths and in both overflow modes
   (Proofs/BVFull.v, the composition of the C01 proofs). With it the main theorems of C02 / C15 hold without
   any assumption about the embedded bitvector. *)
From Coq Require Import NArith List Lia ZArith Bool.
Require Import SDS.Model.Mach SDS.Model.Bits SDS.Model.Raw SDS.Model.IntVec SDS.Model.BitVec SDS.Model.Sparse.
Require Import SDS.Spec.BitSeq SDS.Spec.ValSeq SDS.Proofs.BitsProof SDS.Proofs.BVCommon SDS.Proofs.RankProof SDS.Proofs.SelectProof SDS.Proofs.BVFull.
Require Import SDS.Proofs.SparseSeq SDS.Proofs.SparseProof SDS.Proofs.SparseBuild SDS.Proofs.SparseLow SDS.Proofs.SparseMain.
Import ListNotations.
Open Scope N_scope.

Theorem high_contract_holds : forall sp md, high_contract sp md.
Proof.
  intros sp md r Hwf.
  pose proof (bv_from_raw_repr r Hwf) as Hrep.
  destruct (bv_enable_selects_ok sp md (bv_from_raw r) _ Hrep eq_refl eq_refl)
    as (b1 & b' & E1 & E2 & _ & _ & _ & _ & _ & Hok).
  exists b1, b'. split; [exact E1|]. split; [exact E2|]. exact (Hok sp md).
Qed.

(* ... and the vector built on one select path / mode answers on every other one as well *)
Theorem high_contract_any : forall sp md r, raw_wf r ->
  exists b1 b, bv_enable_select_t sp md Identity (bv_from_raw r) = Ok b1 /\
               bv_enable_select_t sp md Complement b1 = Ok b /\
               bv_repr b (bits_of (rlen r) (rdata r)) /\ bv_same (bv_from_raw r) b /\
               select_ok sp md Identity b (bits_of (rlen r) (rdata r)) /\
               select_ok sp md Complement b (bits_of (rlen r) (rdata r)) /\
               forall sp' md', bv_select_ok sp' md' b (bits_of (rlen r) (rdata r)).
Proof.
  intros sp md r Hwf.
  pose proof (bv_from_raw_repr r Hwf) as Hrep.
  destruct (bv_enable_selects_ok sp md (bv_from_raw r) _ Hrep eq_refl eq_refl)
    as (b1 & b' & E1 & E2 & Hr & Hs & _ & S1 & S0 & Hok).
  exists b1, b'. auto 10.
Qed.

Definition sparse_set_exact_closed sp md w' n P := sparse_set_exact sp md w' n P (high_contract_holds sp md).
Definition sparse_multiset_exact_closed sp md w' n Vs := sparse_multiset_exact sp md w' n Vs (high_contract_holds sp md).
Definition sparse_try_from_iter_accepts_closed sp md w' Vs :=
  sparse_try_from_iter_accepts sp md w' Vs (high_contract_holds sp md).

(* the builders produce a well-formed vector [sv_ok] (the representation invariant every query theorem of
   Proofs/SparseProof.v starts from), without any contract left *)
Theorem build_set_ok_closed sp md w' n Vs : n < 2 ^ 64 -> 1 <= w' <= 63 ->
  increasing Vs = true -> all_below n Vs = true ->
  let w := eff_width w' n (lenN Vs) in
  lenN Vs + buckets_of n w < 2 ^ 64 ->
  exists sv H, sv_build_set sp md w' n Vs = Ok (inl sv) /\ sv_ok sp md sv n w Vs H.
Proof.
  destruct SparseLow.low_contract_holds as [R [Rnew [Rset Rget]]].
  exact (build_set_ok sp md (high_contract_holds sp md) R Rnew Rset Rget w' n Vs).
Qed.

Theorem build_multiset_ok_closed sp md w' n Vs : n < 2 ^ 64 -> 1 <= w' <= 63 ->
  nondecreasing Vs = true -> all_below n Vs = true ->
  let w := eff_width w' n (lenN Vs) in
  lenN Vs + buckets_of n w < 2 ^ 64 ->
  exists sv H, sv_build_multiset sp md w' n Vs = Ok (inl sv) /\ sv_ok sp md sv n w Vs H.
Proof.
  destruct SparseLow.low_contract_holds as [R [Rnew [Rset Rget]]].
  exact (build_multiset_ok sp md (high_contract_holds sp md) R Rnew Rset Rget w' n Vs).
Qed.
