(* C11: chains of conversions over the concrete models. Sources of type BitVector (OneIterProof) and RLVector
   (C03 through Proofs/ConvertSource.v) are handled unconditionally; for a SparseVector source (and for the
   success of building a SparseVector target) the facts of C02 are taken as the explicit premise [sparse_side]. *)
From Coq Require Import NArith List Lia ZArith Bool.
Require Import SDS.Model.Mach SDS.Model.Raw SDS.Model.BitVec SDS.Model.Convert SDS.Model.ConvertC.
Require SDS.Model.Sparse SDS.Model.RL.
Require Import SDS.Spec.BitSeq SDS.Spec.BuilderSpec.
Require Import SDS.Proofs.BVCommon SDS.Proofs.ConvertProof.
Require SDS.Proofs.ConvertSource.
Import ListNotations.
Open Scope N_scope.

(* x is the concrete structure of its type for B: a BitVector (any supports) that stores B; the SparseVector /
   RLVector that copy_bit_vec builds from (|B|, ones B), which by C11_canonical_sparse / C11_canonical_rl is
   also what the type's own builder builds *)
Definition crepr (sp : selpath) (m : mode) (w : N) (x : cvec) (B : list bool) : Prop :=
  match x with
  | CB b => bv_repr b B
  | CS sv => Sparse.sv_copy sp m w (lenB B) (ones B) = Ok sv
  | CR v => RL.rl_copy_bit_vec m (ones B) (lenB B) = Ok v
  end.

(* REMAINING PREMISE (property C02, proved in its own package): for the low width w the crate chose, the sparse
   vector of B can be built and its len / count_ones / one_iter are those of B *)
Definition sparse_side (sp : selpath) (m : mode) (w : N) (B : list bool) : Prop :=
  exists sv, Sparse.sv_copy sp m w (lenB B) (ones B) = Ok sv /\ creads m (CS sv) (lenB B) (count B) (ones B).

(* the premise is needed only where a sparse vector occurs *)
Definition needs (sp : selpath) (m : mode) (w : N) (B : list bool) (t : vtype) : Prop :=
  match t with TSparse => sparse_side sp m w B | _ => True end.

(* ---- asking an iterator for more items than it has ---- *)

Lemma length_index_from {A} (l : list A) : forall i, length (index_from l i) = length l.
Proof. induction l as [|x t IH]; intros i; cbn [index_from length]; [reflexivity|]. rewrite IH. reflexivity. Qed.

Lemma oi_take_mono m v : forall n s l, RL.oi_take n m v s = Ok l -> (length l < n)%nat ->
  forall n', (n <= n')%nat -> RL.oi_take n' m v s = Ok l.
Proof.
  induction n as [|k IH]; intros s l E Hl n' Hn; [lia|].
  destruct n' as [|k']; [lia|]. cbn [RL.oi_take] in *.
  destruct (RL.oi_next m v s) as [[s' r]| |]; cbn [bind] in *; try discriminate.
  destruct r as [x|]; [|exact E].
  destruct (RL.oi_take k m v s') as [t| |] eqn:Et; cbn [bind] in E; try discriminate.
  injection E as <-. cbn [length] in Hl. rewrite (IH s' t Et ltac:(lia) k' ltac:(lia)). reflexivity.
Qed.

Lemma sv_collect_mono m sv : forall n it l, sv_collect m sv n it = Ok l -> (length l < n)%nat ->
  forall n', (n <= n')%nat -> sv_collect m sv n' it = Ok l.
Proof.
  induction n as [|k IH]; intros it l E Hl n' Hn; [lia|].
  destruct n' as [|k']; [lia|]. cbn [sv_collect] in *.
  destruct (Sparse.it_next_f m sv it) as [[it' r]| |]; cbn [bind] in *; try discriminate.
  destruct r as [x|]; [|exact E].
  destruct (sv_collect m sv k it') as [t| |] eqn:Et; cbn [bind] in E; try discriminate.
  injection E as <-. cbn [length] in Hl. rewrite (IH it' t Et ltac:(lia) k' ltac:(lia)). reflexivity.
Qed.

(* an exhausted iterator determines the list of positions *)
Lemma exhausted_unique (f : nat -> res (list (N * N))) (ps ps' : list N) :
  (forall n l, f n = Ok l -> (length l < n)%nat -> forall n', (n <= n')%nat -> f n' = Ok l) ->
  f (S (length ps)) = Ok (index_from ps 0) -> f (S (length ps')) = Ok (index_from ps' 0) -> ps = ps'.
Proof.
  intros Hmono E1 E2.
  assert (Hgen : forall a b : list N, (length a <= length b)%nat ->
            f (S (length a)) = Ok (index_from a 0) -> f (S (length b)) = Ok (index_from b 0) -> a = b).
  { intros a b0 Hle Ea Eb.
    pose proof (Hmono _ _ Ea ltac:(rewrite length_index_from; lia) (S (length b0)) ltac:(lia)) as Ea'.
    rewrite Ea' in Eb. injection Eb as Eb. rewrite <- (map_snd_index_from a 0), <- (map_snd_index_from b0 0), Eb.
    reflexivity. }
  destruct (Nat.le_ge_cases (length ps) (length ps')) as [H|H]; [apply Hgen; assumption|].
  symmetry. apply Hgen; assumption.
Qed.

(* ---- sources ---- *)

Lemma creads_of_crepr sp m w B x : lenB B < 2 ^ 64 -> lenN (runs_of_bits B) < 2 ^ 56 ->
  needs sp m w B (ctype_of x) -> crepr sp m w x B -> creads m x (lenB B) (count B) (ones B).
Proof.
  intros Hlen Hruns Hn Hrep. destruct x as [b|sv|v]; cbn [crepr creads ctype_of needs] in *.
  - destruct (bv_source_content b B Hrep) as (H1 & H2 & H3). auto.
  - destruct Hn as (sv' & E & R). assert (sv' = sv) by congruence. subst sv'. exact R.
  - destruct (ConvertSource.rl_source_content m B Hlen Hruns) as (v' & E & H1 & H2 & H3).
    assert (v' = v) by congruence. subst v'. auto.
Qed.

Lemma creads_unique m x n o ps n' o' ps' : creads m x n o ps -> creads m x n' o' ps' ->
  n = n' /\ o = o' /\ ps = ps'.
Proof.
  destruct x as [b|sv|v]; cbn [creads]; intros (A1 & A2 & A3) (B1 & B2 & B3).
  - split; [congruence|]. split; congruence.
  - split; [congruence|]. split; [congruence|].
    apply (exhausted_unique (fun k => sv_collect m sv k (Sparse.sv_one_iter sv))); [|exact A3|exact B3].
    intros k l. apply sv_collect_mono.
  - split; [congruence|]. split; [congruence|].
    destruct (RL.rl_one_iter v) as [s| |]; cbn [bind] in A3, B3; try discriminate.
    apply (exhausted_unique (fun k => RL.oi_take k m v s)); [|exact A3|exact B3].
    intros k l. apply oi_take_mono.
Qed.

(* ---- targets ---- *)

Lemma ccopy_crepr sp m w B t y : lenB B < 2 ^ 64 ->
  ccopy_to sp m w t (lenB B) (count B) (ones B) = Ok y -> crepr sp m w y B /\ ctype_of y = t.
Proof.
  intros Hlen E. destruct t; cbn [ccopy_to] in E.
  - destruct (bv_copy_repr B Hlen) as (b & Eb & Hr & _). rewrite Eb in E. cbn [rmap bind] in E.
    injection E as <-. split; [exact Hr|reflexivity].
  - destruct (Sparse.sv_copy sp m w (lenB B) (ones B)) as [sv| |] eqn:Es; cbn [rmap bind] in E; try discriminate.
    injection E as <-. split; [exact Es|reflexivity].
  - destruct (RL.rl_copy_bit_vec m (ones B) (lenB B)) as [v| |] eqn:Ev; cbn [rmap bind] in E; try discriminate.
    injection E as <-. split; [exact Ev|reflexivity].
Qed.

Lemma ccopy_exists sp m w B t : lenB B < 2 ^ 64 -> lenN (runs_of_bits B) < 2 ^ 56 -> needs sp m w B t ->
  exists y, ccopy_to sp m w t (lenB B) (count B) (ones B) = Ok y.
Proof.
  intros Hlen Hruns Hn. destruct t; cbn [ccopy_to needs] in *.
  - destruct (bv_copy_repr B Hlen) as (b & Eb & _). rewrite Eb. eexists. reflexivity.
  - destruct Hn as (sv & E & _). rewrite E. eexists. reflexivity.
  - destruct (ConvertSource.rl_source_content m B Hlen Hruns) as (v & E & _). rewrite E. eexists. reflexivity.
Qed.

(* one step *)
Lemma cconverts_step sp m w B t x : lenB B < 2 ^ 64 -> lenN (runs_of_bits B) < 2 ^ 56 ->
  needs sp m w B (ctype_of x) -> crepr sp m w x B ->
  (needs sp m w B t -> exists y, cconverts sp m w t x y) /\
  (forall y, cconverts sp m w t x y ->
     ccopy_to sp m w t (lenB B) (count B) (ones B) = Ok y /\ crepr sp m w y B /\ ctype_of y = t).
Proof.
  intros Hlen Hruns Hn Hrep. pose proof (creads_of_crepr sp m w B x Hlen Hruns Hn Hrep) as Hr. split.
  - intros Ht. destruct (ccopy_exists sp m w B t Hlen Hruns Ht) as (y & E).
    exists y, (lenB B), (count B), (ones B). split; assumption.
  - intros y (n & o & ps & Hr' & E). destruct (creads_unique m x _ _ _ _ _ _ Hr Hr') as (<- & <- & <-).
    split; [exact E|]. exact (ccopy_crepr sp m w B t y Hlen E).
Qed.

(* ---- chains ---- *)

(* C11 over the concrete models. [needs] is True for BitVector and RLVector and the premise [sparse_side] for
   SparseVector; it is asked of the source and of every target of the chain. *)
Theorem cchain_preserves : forall (sp : selpath) (m : mode) (w : N) (B : list bool) (ts : list vtype) (x : cvec),
  lenB B < 2 ^ 64 -> lenN (runs_of_bits B) < 2 ^ 56 ->
  needs sp m w B (ctype_of x) -> Forall (needs sp m w B) ts -> crepr sp m w x B ->
  (exists y, cchain sp m w ts x y) /\
  (forall y, cchain sp m w ts x y ->
     crepr sp m w y B /\ creads m y (lenB B) (count B) (ones B) /\
     match rev ts with
     | [] => y = x
     | t :: _ => ccopy_to sp m w t (lenB B) (count B) (ones B) = Ok y /\ ctype_of y = t
     end).
Proof.
  intros sp m w B ts. induction ts as [|t ts IH]; intros x Hlen Hruns Hn Hts Hrep.
  - split; [exists x; constructor|]. intros y Hc. inversion Hc; subst.
    split; [exact Hrep|]. split; [exact (creads_of_crepr sp m w B _ Hlen Hruns Hn Hrep)|reflexivity].
  - apply Forall_tail in Hts. destruct Hts as [Ht Hts].
    destruct (cconverts_step sp m w B t x Hlen Hruns Hn Hrep) as [Hex Hall]. split.
    + destruct (Hex Ht) as (y1 & C1). destruct (Hall y1 C1) as (_ & R1 & T1).
      rewrite <- T1 in Ht. destruct (IH y1 Hlen Hruns Ht Hts R1) as [(z & Cz) _]. exists z. econstructor; eassumption.
    + intros z Hc. inversion Hc as [|t' ts' x' y z' Hcv Hrest]; subst.
      destruct (Hall y Hcv) as (E1 & R1 & T1). pose proof Ht as Ht'. rewrite <- T1 in Ht'.
      destruct (proj2 (IH y Hlen Hruns Ht' Hts R1) z Hrest) as (Rz & Dz & Lz).
      split; [exact Rz|]. split; [exact Dz|]. cbn [rev].
      destruct (rev ts) as [|t1 r1] eqn:Er; cbn [app].
      * subst z. split; [exact E1|exact T1].
      * exact Lz.
Qed.

(* chains in which no sparse vector occurs: unconditional *)
Definition not_sparse (t : vtype) : Prop := t <> TSparse.

Lemma needs_not_sparse sp m w B t : not_sparse t -> needs sp m w B t.
Proof. destruct t; cbn [needs]; intros H; [exact I|exfalso; apply H; reflexivity|exact I]. Qed.

Theorem cchain_bv_rl : forall (sp : selpath) (m : mode) (w : N) (B : list bool) (ts : list vtype) (x : cvec),
  lenB B < 2 ^ 64 -> lenN (runs_of_bits B) < 2 ^ 56 ->
  not_sparse (ctype_of x) -> Forall not_sparse ts -> crepr sp m w x B ->
  (exists y, cchain sp m w ts x y) /\
  (forall y, cchain sp m w ts x y ->
     crepr sp m w y B /\ creads m y (lenB B) (count B) (ones B) /\
     match rev ts with
     | [] => y = x
     | t :: _ => ccopy_to sp m w t (lenB B) (count B) (ones B) = Ok y /\ ctype_of y = t
     end).
Proof.
  intros sp m w B ts x Hlen Hruns Hx Hts Hrep. apply cchain_preserves; try assumption.
  - apply needs_not_sparse. exact Hx.
  - eapply Forall_impl; [|exact Hts]. intros t. apply needs_not_sparse.
Qed.

(* a final conversion INTO a sparse vector from a chain without sparse sources: whatever it returns is the
   canonical sparse vector of B (its success and its own iterator are the sparse side) *)
Theorem cchain_into_sparse : forall (sp : selpath) (m : mode) (w : N) (B : list bool) (ts : list vtype) (x y : cvec),
  lenB B < 2 ^ 64 -> lenN (runs_of_bits B) < 2 ^ 56 ->
  not_sparse (ctype_of x) -> Forall not_sparse ts -> crepr sp m w x B ->
  cchain sp m w (ts ++ [TSparse]) x y ->
  exists sv, y = CS sv /\ Sparse.sv_copy sp m w (lenB B) (ones B) = Ok sv.
Proof.
  intros sp m w B ts. induction ts as [|t ts IH]; intros x y Hlen Hruns Hx Hts Hrep Hc.
  - cbn [app] in Hc. inversion Hc as [|t' ts' x' y1 z' Hcv Hrest]; subst. inversion Hrest; subst.
    destruct (cconverts_step sp m w B TSparse x Hlen Hruns (needs_not_sparse _ _ _ _ _ Hx) Hrep) as [_ Hall].
    destruct (Hall y Hcv) as (E & R & T). destruct y as [b|sv|v]; try discriminate. exists sv. split; [reflexivity|exact R].
  - apply Forall_tail in Hts. destruct Hts as [Ht Hts]. cbn [app] in Hc.
    inversion Hc as [|t' ts' x' y1 z' Hcv Hrest]; subst.
    destruct (cconverts_step sp m w B t x Hlen Hruns (needs_not_sparse _ _ _ _ _ Hx) Hrep) as [_ Hall].
    destruct (Hall y1 Hcv) as (_ & R1 & T1). apply (IH y1 y Hlen Hruns); try assumption. rewrite T1. exact Ht.
Qed.
