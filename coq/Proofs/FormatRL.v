(* The document codec round-trips on run-length encoded bitvectors (Spec/Format.v, S: Run-length encoded
   bitvector): greedy packing of whole runs into 64-unit blocks, padding only when the next run does not fit,
   no padding in the final block, one sample per block, minimal sample width. *)
From Coq Require Import NArith List Lia ZArith Bool.
Require Import SDS.Spec.BitSeq SDS.Spec.Runs SDS.Spec.Format SDS.Proofs.FormatProof.
Import ListNotations.
Open Scope N_scope.
Require Import ZifyBool ZifyN ZifyNat.
Ltac Zify.zify_post_hook ::= Z.div_mod_to_equations.
Arguments N.add : simpl never. Arguments N.sub : simpl never. Arguments N.mul : simpl never.
Arguments N.eqb : simpl never. Arguments N.ltb : simpl never. Arguments N.leb : simpl never.
Arguments N.pow : simpl never. Arguments N.shiftl : simpl never. Arguments N.shiftr : simpl never.
Arguments N.land : simpl never. Arguments N.lor : simpl never. Arguments N.div : simpl never.
Arguments N.modulo : simpl never. Arguments N.ones : simpl never. Arguments N.testbit : simpl never.
Arguments N.min : simpl never. Arguments N.max : simpl never. Arguments N.log2 : simpl never.
Arguments Nat.sub : simpl never.

(* ------------------------------------------------------------------ code units *)

Lemma small_cases u : u < 8 -> u = 0 \/ u = 1 \/ u = 2 \/ u = 3 \/ u = 4 \/ u = 5 \/ u = 6 \/ u = 7.
Proof. lia. Qed.

Lemma unit_last u : u < 8 -> N.testbit u 3 = false /\ N.land u 7 = u.
Proof. intros H. destruct (small_cases u H) as [->|[->|[->|[->|[->|[->|[->| ->]]]]]]]; split; reflexivity. Qed.

Lemma unit_cont u : u < 8 -> N.testbit (u + 8) 3 = true /\ N.land (u + 8) 7 = u.
Proof. intros H. destruct (small_cases u H) as [->|[->|[->|[->|[->|[->|[->| ->]]]]]]]; split; reflexivity. Qed.

Lemma dec_enc_varint fuel : forall x shift acc rest,
  x < 8 ^ (N.of_nat fuel + 1) -> (1 <= x \/ shift = 0) -> acc + x * 2 ^ shift < 2 ^ 64 ->
  dec_varint (enc_varint fuel x ++ rest) shift acc = Some (acc + x * 2 ^ shift, rest).
Proof.
  induction fuel as [|k IH]; intros x shift acc rest Hx Hc Hb.
  - change (8 ^ (N.of_nat 0 + 1)) with 8 in Hx. cbn [enc_varint app dec_varint].
    rewrite N.mod_small by exact Hx. destruct (unit_last x Hx) as [E1 E2]. rewrite E1, E2, N.shiftl_mul_pow2.
    replace ((x =? 0) && negb (shift =? 0)) with false by (destruct Hc; lia).
    replace (acc + x * 2 ^ shift <? 2 ^ 64) with true by lia. reflexivity.
  - cbn [enc_varint]. destruct (N.ltb_spec x 8) as [Hs|Hs].
    + cbn [app dec_varint]. destruct (unit_last x Hs) as [E1 E2]. rewrite E1, E2, N.shiftl_mul_pow2.
      replace ((x =? 0) && negb (shift =? 0)) with false by (destruct Hc; lia).
      replace (acc + x * 2 ^ shift <? 2 ^ 64) with true by lia. reflexivity.
    + cbn [app dec_varint]. assert (Hm : x mod 8 < 8) by (apply N.mod_lt; lia).
      destruct (unit_cont (x mod 8) Hm) as [E1 E2]. rewrite E1, E2, N.shiftl_mul_pow2.
      assert (Hp : 2 ^ (shift + 3) = 8 * 2 ^ shift) by (rewrite N.pow_add_r; change (2 ^ 3) with 8; lia).
      assert (Hd : x = 8 * (x / 8) + x mod 8) by (apply N.div_mod; lia).
      assert (Heq : acc + x mod 8 * 2 ^ shift + x / 8 * 2 ^ (shift + 3) = acc + x * 2 ^ shift) by (rewrite Hp; nia).
      rewrite IH.
      * rewrite Heq. reflexivity.
      * replace (N.of_nat (S k) + 1) with (N.succ (N.of_nat k + 1)) in Hx by lia. rewrite N.pow_succ_r' in Hx.
        apply N.div_lt_upper_bound; lia.
      * left. assert (8 * 1 <= x) by lia. apply N.div_le_lower_bound; lia.
      * rewrite Heq. exact Hb.
Qed.

Lemma dec_varint_ok x rest : x < 2 ^ 64 -> dec_varint (varint x ++ rest) 0 0 = Some (x, rest).
Proof.
  intros Hx. unfold varint. rewrite dec_enc_varint.
  - f_equal. f_equal. change (2 ^ 0) with 1. lia.
  - change (8 ^ (N.of_nat 22 + 1)) with (2 ^ 69). assert (2 ^ 64 < 2 ^ 69) by (apply N.pow_lt_mono_r; lia). lia.
  - right. reflexivity.
  - change (2 ^ 0) with 1. lia.
Qed.

Lemma enc_varint_units fuel : forall x, Forall (fun u => u < 16) (enc_varint fuel x).
Proof.
  induction fuel as [|k IH]; intros x; cbn [enc_varint].
  - constructor; [|constructor]. pose proof (N.mod_lt x 8). lia.
  - destruct (N.ltb_spec x 8); [constructor; [lia|constructor]|].
    constructor; [pose proof (N.mod_lt x 8); lia|apply IH].
Qed.

Lemma enc_varint_len fuel : forall x, (1 <= length (enc_varint fuel x) <= S fuel)%nat.
Proof.
  induction fuel as [|k IH]; intros x; cbn [enc_varint]; [cbn [length]; lia|].
  destruct (x <? 8); cbn [length]; [lia|]. specialize (IH (x / 8)). lia.
Qed.

Lemma enc_varint_hd fuel x : 1 <= x -> x < 8 ^ (N.of_nat fuel + 1) -> exists u t, enc_varint fuel x = u :: t /\ u <> 0.
Proof.
  intros Hx Hb. destruct fuel as [|k]; cbn [enc_varint].
  - change (8 ^ (N.of_nat 0 + 1)) with 8 in Hb. exists (x mod 8), []. split; [reflexivity|]. rewrite N.mod_small; lia.
  - destruct (N.ltb_spec x 8); [exists x, []; split; [reflexivity|lia]|].
    exists (x mod 8 + 8), (enc_varint k (x / 8)). split; [reflexivity|lia].
Qed.

Lemma varint_hd x : 1 <= x -> x < 2 ^ 64 -> exists u t, varint x = u :: t /\ u <> 0.
Proof.
  intros H1 H2. apply enc_varint_hd; [exact H1|]. change (8 ^ (N.of_nat 22 + 1)) with (2 ^ 69).
  assert (2 ^ 64 < 2 ^ 69) by (apply N.pow_lt_mono_r; lia). lia.
Qed.

Lemma varint_cons x : exists u t, varint x = u :: t.
Proof. unfold varint. pose proof (enc_varint_len 22 x). destruct (enc_varint 22 x) as [|u t]; [cbn [length] in *; lia|eauto]. Qed.

(* ------------------------------------------------------------------ runs and blocks *)

(* a run (n0, n1) as the document encodes it *)
Definition run_wf (r : N * N) : Prop := fst r < 2 ^ 64 /\ 1 <= snd r <= 2 ^ 64.
Definition codes (rs : list (N * N)) : list N := flat_map run_code rs.

Lemma run_code_len r : (2 <= length (run_code r) <= 46)%nat.
Proof.
  unfold run_code, varint. rewrite app_length.
  pose proof (enc_varint_len 22 (fst r)). pose proof (enc_varint_len 22 (snd r - 1)). lia.
Qed.

Lemma codes_len rs : (2 * length rs <= length (codes rs))%nat.
Proof.
  induction rs as [|r t IH]; [cbn; lia|]. unfold codes in *. cbn [flat_map length]. rewrite app_length.
  pose proof (run_code_len r). lia.
Qed.

Lemma codes_app a b : codes (a ++ b) = codes a ++ codes b.
Proof. unfold codes. apply flat_map_app. Qed.

Lemma run_code_units r : Forall (fun u => u < 16) (run_code r).
Proof. unfold run_code, varint. apply Forall_app. split; apply enc_varint_units. Qed.

Lemma codes_units rs : Forall (fun u => u < 16) (codes rs).
Proof. induction rs as [|r t IH]; [constructor|]. unfold codes in *. cbn [flat_map]. apply Forall_app. split; [apply run_code_units|exact IH]. Qed.

(* one run at the head of a block *)
Lemma dec_run r rest : run_wf r ->
  exists u t, run_code r ++ rest = u :: t /\
  dec_varint (run_code r ++ rest) 0 0 = Some (fst r, varint (snd r - 1) ++ rest) /\
  dec_varint (varint (snd r - 1) ++ rest) 0 0 = Some (snd r - 1, rest).
Proof.
  intros [H0 H1]. destruct (varint_cons (fst r)) as (u & t & E).
  exists u, (t ++ varint (snd r - 1) ++ rest). unfold run_code. rewrite <- !app_assoc. split; [rewrite E; reflexivity|].
  split; apply dec_varint_ok; lia.
Qed.

Lemma dec_block_rest rs : forall fuel p,
  (length rs < fuel)%nat -> Forall run_wf rs -> Forall (fun r => 1 <= fst r) rs ->
  dec_block fuel (codes rs ++ repeat 0 p) false = Some (rs, repeat 0 p).
Proof.
  induction rs as [|r t IH]; intros fuel p Hf Hw Hg.
  - destruct fuel as [|k]; [cbn [length] in Hf; lia|]. cbn [codes flat_map app dec_block].
    destruct p as [|p]; [reflexivity|]. cbn [repeat]. reflexivity.
  - destruct fuel as [|k]; [cbn [length] in Hf; lia|].
    inversion Hw as [|? ? Hr Ht]; subst. inversion Hg as [|? ? Hr1 Ht1]; subst.
    unfold codes. cbn [flat_map]. fold (codes t). rewrite <- app_assoc.
    destruct (dec_run r (codes t ++ repeat 0 p) Hr) as (u & tl & E & D1 & D2).
    destruct Hr as [Hr0 Hr2].
    assert (Hu : u <> 0).
    { destruct (varint_hd (fst r) Hr1 Hr0) as (u' & t' & E' & Hu'). unfold run_code in E. rewrite E' in E.
      cbn [app] in E. inversion E; subst. exact Hu'. }
    cbn [dec_block]. rewrite E. cbn [negb andb]. replace (u =? 0) with false by lia. rewrite <- E, D1, D2.
    rewrite IH by (try assumption; cbn [length] in Hf; lia).
    replace (snd r - 1 + 1) with (snd r) by lia. destruct r; reflexivity.
Qed.

Lemma dec_block_start r rs fuel p :
  (length (r :: rs) < fuel)%nat -> Forall run_wf (r :: rs) -> Forall (fun r => 1 <= fst r) rs ->
  dec_block fuel (codes (r :: rs) ++ repeat 0 p) true = Some (r :: rs, repeat 0 p).
Proof.
  intros Hf Hw Hg. destruct fuel as [|k]; [cbn [length] in Hf; lia|].
  inversion Hw as [|? ? Hr Ht]; subst.
  unfold codes. cbn [flat_map]. fold (codes rs). rewrite <- app_assoc.
  destruct (dec_run r (codes rs ++ repeat 0 p) Hr) as (u & tl & E & D1 & D2). destruct Hr as [Hr0 Hr2].
  cbn [dec_block]. rewrite E. cbn [negb andb]. rewrite <- E, D1, D2.
  rewrite dec_block_rest by (try assumption; cbn [length] in Hf; lia).
  replace (snd r - 1 + 1) with (snd r) by lia. destruct r; reflexivity.
Qed.

(* ------------------------------------------------------------------ the walk over blocks *)

Lemma walk_blocks_step blk rest first ones bits r0 rs pad rs' ss' :
  dec_block 64 blk true = Some (r0 :: rs, pad) ->
  (first = true \/ 1 <= fst r0) -> Forall (fun r => 1 <= fst r) rs ->
  forallb (N.eqb 0) pad = true ->
  match rest with
  | [] => pad = []
  | nxt :: _ => lenN blk = 64 /\ exists r q pd, dec_block 64 nxt true = Some (r :: q, pd) /\ lenN pad < lenN (run_code r)
  end ->
  walk_blocks rest false (ones + run_ones (r0 :: rs)) (bits + run_bits (r0 :: rs)) = Some (rs', ss') ->
  walk_blocks (blk :: rest) first ones bits = Some ((r0 :: rs) ++ rs', ones :: bits :: ss').
Proof.
  intros Hd Hf Hg Hp Hfill Hw. cbn [walk_blocks]. rewrite Hd.
  assert (E1 : (first || (1 <=? fst r0)) && forallb (fun r : N * N => 1 <=? fst r) rs = true).
  { apply andb_true_intro. split; [destruct Hf as [->|Hf]; [reflexivity|]; apply orb_true_iff; right; lia|].
    apply (Forall_forallb _ (fun r : N * N => 1 <= fst r)); [intros x Hx; lia|exact Hg]. }
  rewrite E1, Hp. cbn [andb].
  assert (E2 : match rest with
               | [] => match pad with [] => true | _ :: _ => false end
               | nxt :: _ => (lenN blk =? 64) && match dec_block 64 nxt true with
                                                  | Some (r :: _, _) => lenN pad <? lenN (run_code r)
                                                  | _ => false end
               end = true).
  { destruct rest as [|nxt rest'].
    - rewrite Hfill. reflexivity.
    - destruct Hfill as (Hl & r & q & pd & Hn & Hlt). rewrite Hn. apply andb_true_intro. split; lia. }
  rewrite E2, Hw. reflexivity.
Qed.

Lemma walk_blocks_head blocks first ones bits r t ss :
  walk_blocks blocks first ones bits = Some (r :: t, ss) ->
  exists nxt rest runs pad, blocks = nxt :: rest /\ dec_block 64 nxt true = Some (r :: runs, pad).
Proof.
  destruct blocks as [|nxt rest]; cbn [walk_blocks]; [discriminate|].
  destruct (dec_block 64 nxt true) as [[runs pad]|] eqn:Hd; [|discriminate].
  destruct runs as [|r0 runs']; [cbn [andb]; discriminate|].
  destruct (_ && _ && _); [|discriminate].
  destruct (walk_blocks rest false _ _) as [[rs'' smp]|]; [|discriminate].
  intros H. cbn [app] in H. inversion H; subst. exists nxt, rest, runs', pad. split; [reflexivity|exact Hd].
Qed.

Lemma split_blocks_nil fuel : split_blocks fuel [] = [].
Proof. destruct fuel; reflexivity. Qed.

Lemma split_blocks_one fuel us : (0 < length us <= 64)%nat -> (1 <= fuel)%nat -> split_blocks fuel us = [us].
Proof.
  intros Hl Hf. destruct fuel as [|k]; [lia|]. destruct us as [|u t] eqn:E; [cbn [length] in Hl; lia|].
  rewrite <- E in *. assert (Hs : split_blocks (S k) us = firstn 64 us :: split_blocks k (skipn 64 us)) by (subst us; reflexivity).
  rewrite Hs, firstn_all2, skipn_all2, split_blocks_nil by lia. reflexivity.
Qed.

Lemma split_blocks_cons fuel blk us : length blk = 64%nat ->
  split_blocks (S fuel) (blk ++ us) = blk :: split_blocks fuel us.
Proof.
  intros Hl. destruct blk as [|b blk'] eqn:E; [cbn [length] in Hl; lia|]. rewrite <- E in *.
  assert (Hs : split_blocks (S fuel) (blk ++ us) = firstn 64 (blk ++ us) :: split_blocks fuel (skipn 64 (blk ++ us))) by (subst blk; reflexivity).
  rewrite Hs, <- Hl, firstn_app_exact, skipn_app_exact. reflexivity.
Qed.

Lemma run_ones_app a b : run_ones (a ++ b) = run_ones a + run_ones b.
Proof. unfold run_ones. induction a as [|x t IH]; cbn [app fold_right]; [lia|]. rewrite IH. lia. Qed.
Lemma run_bits_app a b : run_bits (a ++ b) = run_bits a + run_bits b.
Proof. unfold run_bits. induction a as [|x t IH]; cbn [app fold_right]; [lia|]. rewrite IH. lia. Qed.

Definition gaps_ok (first : bool) (l : list (N * N)) : Prop :=
  match l with
  | [] => True
  | r0 :: t => (first = true \/ 1 <= fst r0) /\ Forall (fun r => 1 <= fst r) t
  end.

Lemma pack_runs_spec rs : forall pre ones bits first us ss fuel,
  Forall run_wf (pre ++ rs) -> gaps_ok first (pre ++ rs) -> (length (codes pre) <= 64)%nat ->
  pack_runs rs (codes pre) ones bits (run_ones pre) (run_bits pre) = (us, ss) ->
  (length us <= fuel)%nat ->
  walk_blocks (split_blocks fuel us) first ones bits = Some (pre ++ rs, ss).
Proof.
  induction rs as [|r t IH]; intros pre ones bits first us ss fuel Hw Hg Hlen Hp Hfuel.
  - cbn [pack_runs] in Hp. rewrite app_nil_r in *. destruct pre as [|r0 pre'].
    + cbn [codes flat_map] in Hp. inversion Hp; subst. rewrite split_blocks_nil. reflexivity.
    + pose proof (codes_len (r0 :: pre')) as Hcl. cbn [length] in Hcl.
      pose proof (dec_block_start r0 pre' 64 0) as Hdb. cbn [repeat] in Hdb. rewrite app_nil_r in Hdb.
      set (cur := codes (r0 :: pre')) in *.
      assert (Em : match cur with [] => [] | _ :: _ => [ones; bits] end = [ones; bits])
        by (destruct cur; [cbn [length] in Hcl; lia|reflexivity]).
      rewrite Em in Hp. inversion Hp; subst us ss. clear Hp Em.
      rewrite split_blocks_one by lia.
      rewrite <- (app_nil_r (r0 :: pre')) at 1.
      destruct Hg as [Hg0 Hg1].
      apply walk_blocks_step with (pad := []); try assumption; try reflexivity.
      apply Hdb; [cbn [length] in *; lia|exact Hw|exact Hg1].
  - cbn [pack_runs] in Hp.
    destruct (N.leb_spec (lenN (codes pre) + lenN (run_code r)) 64) as [Hfit|Hnofit].
    + replace (codes pre ++ run_code r) with (codes (pre ++ [r])) in Hp
        by (rewrite codes_app; unfold codes at 2; cbn [flat_map]; rewrite app_nil_r; reflexivity).
      replace (run_ones pre + snd r) with (run_ones (pre ++ [r])) in Hp by (rewrite run_ones_app; unfold run_ones at 2; cbn [fold_right]; lia).
      replace (run_bits pre + fst r + snd r) with (run_bits (pre ++ [r])) in Hp by (rewrite run_bits_app; unfold run_bits at 2; cbn [fold_right]; lia).
      replace (pre ++ r :: t) with ((pre ++ [r]) ++ t) in * by (rewrite <- app_assoc; reflexivity).
      apply (IH (pre ++ [r]) ones bits first us ss fuel); try assumption.
      rewrite codes_app. unfold codes at 2. cbn [flat_map]. rewrite app_nil_r, app_length. unfold lenN in Hfit. lia.
    + destruct (pack_runs t (run_code r) (ones + run_ones pre) (bits + run_bits pre) (snd r) (fst r + snd r)) as [us' ss'] eqn:E.
      pose proof (f_equal fst Hp) as Hus. pose proof (f_equal snd Hp) as Hss. cbn [fst snd] in Hus, Hss.
      subst us ss. clear Hp.
      destruct pre as [|r0 pre'].
      { exfalso. cbn [codes flat_map] in Hnofit. pose proof (run_code_len r). unfold lenN in Hnofit. cbn [length] in Hnofit. lia. }
      assert (Hw' : Forall run_wf ([r] ++ t)) by (apply Forall_app in Hw; apply Hw).
      assert (Hwp : Forall run_wf (r0 :: pre')) by (apply Forall_app in Hw; apply Hw).
      destruct Hg as [Hg0 Hg1].
      apply Forall_app in Hg1. destruct Hg1 as [Hgp Hgt]. inversion Hgt as [|? ? Hgr Hgt']; subst.
      assert (IH' : forall fuel', (length us' <= fuel')%nat ->
                 walk_blocks (split_blocks fuel' us') false (ones + run_ones (r0 :: pre')) (bits + run_bits (r0 :: pre')) = Some ([r] ++ t, ss')).
      { intros fuel' Hf'. apply IH; try assumption.
        - split; [right; exact Hgr|exact Hgt'].
        - unfold codes. cbn [flat_map]. rewrite app_nil_r. pose proof (run_code_len r). lia.
        - unfold codes. cbn [flat_map]. rewrite app_nil_r.
          replace (run_ones [r]) with (snd r) by (unfold run_ones; cbn [fold_right]; lia).
          replace (run_bits [r]) with (fst r + snd r) by (unfold run_bits; cbn [fold_right]; lia). exact E. }
      set (cur := codes (r0 :: pre')) in *.
      rewrite app_assoc. rewrite !app_length, repeat_length in Hfuel.
      destruct fuel as [|k]; [pose proof (codes_len (r0 :: pre')); cbn [length] in *; fold cur in H; lia|].
      rewrite split_blocks_cons by (rewrite app_length, repeat_length; lia).
      specialize (IH' k ltac:(lia)).
      destruct (walk_blocks_head _ _ _ _ _ _ _ IH') as (nxt & rest & runs & pad' & Es & Hdn).
      apply walk_blocks_step with (pad := repeat 0 (64 - length cur)).
      * apply dec_block_start; [pose proof (codes_len (r0 :: pre')); fold cur in H; cbn [length] in *; lia|exact Hwp|exact Hgp].
      * exact Hg0.
      * exact Hgp.
      * apply forallb_zero_repeat.
      * rewrite Es. split; [unfold lenN; rewrite app_length, repeat_length; lia|].
        exists r, runs, pad'. split; [exact Hdn|]. unfold lenN in *. rewrite repeat_length. lia.
      * exact IH'.
Qed.

(* ------------------------------------------------------------------ units, samples, widths *)

Lemma pack_runs_units rs : forall cur ones bits co cb,
  Forall (fun u => u < 16) cur -> Forall (fun u => u < 16) (fst (pack_runs rs cur ones bits co cb)).
Proof.
  induction rs as [|r t IH]; intros cur ones bits co cb Hc; cbn [pack_runs]; [exact Hc|].
  destruct (_ <=? _).
  - apply IH. apply Forall_app. split; [exact Hc|apply run_code_units].
  - specialize (IH (run_code r) (ones + co) (bits + cb) (snd r) (fst r + snd r) (run_code_units r)).
    destruct (pack_runs t (run_code r) _ _ _ _) as [us' ss']. cbn [fst] in *.
    apply Forall_app. split; [exact Hc|]. apply Forall_app. split; [|exact IH].
    clear. induction (64 - length cur)%nat; cbn [repeat]; constructor; [lia|assumption].
Qed.

Lemma pack_runs_samples rs : forall cur ones bits co cb,
  Forall (fun s => s <= N.max (ones + co + run_ones rs) (bits + cb + run_bits rs)) (snd (pack_runs rs cur ones bits co cb)).
Proof.
  induction rs as [|r t IH]; intros cur ones bits co cb; cbn [pack_runs].
  - cbn [snd]. destruct cur; [constructor|]. unfold run_ones, run_bits. cbn [fold_right].
    constructor; [lia|constructor; [lia|constructor]].
  - assert (Eo : run_ones (r :: t) = snd r + run_ones t) by reflexivity.
    assert (Eb : run_bits (r :: t) = fst r + snd r + run_bits t) by reflexivity.
    destruct (_ <=? _).
    + specialize (IH (cur ++ run_code r) ones bits (co + snd r) (cb + fst r + snd r)).
      eapply Forall_impl; [|exact IH]. cbv beta. intros s Hs. rewrite Eo, Eb. lia.
    + specialize (IH (run_code r) (ones + co) (bits + cb) (snd r) (fst r + snd r)).
      destruct (pack_runs t (run_code r) _ _ _ _) as [us' ss']. cbn [snd] in *. rewrite Eo, Eb.
      constructor; [lia|]. constructor; [lia|]. eapply Forall_impl; [|exact IH]. cbv beta. intros s Hs. lia.
Qed.

Lemma list_max_ge l x : In x l -> x <= list_max l.
Proof.
  unfold list_max. induction l as [|y t IH]; intros H; [destruct H|]. cbn [fold_right]. destruct H as [->|H]; [lia|].
  specialize (IH H). lia.
Qed.

Lemma list_max_bound l M : Forall (fun x => x <= M) l -> list_max l <= M.
Proof. unfold list_max. induction 1 as [|y t Hy Ht IH]; cbn [fold_right]; lia. Qed.

Lemma lt_pow_bitlen m : m < 2 ^ bitlen m.
Proof.
  unfold bitlen. destruct (N.eqb_spec m 0) as [->|Hm]; [cbn; lia|].
  pose proof (N.log2_spec m ltac:(lia)) as [_ H]. rewrite <- N.add_1_r in H. exact H.
Qed.

Lemma bitlen_range m : m < 2 ^ 64 -> 1 <= bitlen m <= 64.
Proof.
  intros H. unfold bitlen. destruct (N.eqb_spec m 0) as [->|Hm]; [lia|].
  assert (N.log2 m < 64) by (apply N.log2_lt_pow2; lia). lia.
Qed.

Lemma fits_min_width l : Forall (fun x => x < 2 ^ min_width l) l.
Proof.
  apply Forall_forall. intros x Hx. unfold min_width. pose proof (list_max_ge l x Hx). pose proof (lt_pow_bitlen (list_max l)).
  lia.
Qed.

Lemma nlist_eq_refl l : nlist_eq l l = true.
Proof. induction l as [|x t IH]; [reflexivity|]. cbn [nlist_eq]. rewrite IH. replace (x =? x) with true by lia. reflexivity. Qed.

(* ------------------------------------------------------------------ runs (start, length) <-> (n0, n1) *)

Definition end_from (pos : N) (runs : list (N * N)) : N :=
  match runs with [] => pos | _ => runs_end runs end.

Lemma runs_end_cons r t : runs_end (r :: t) = end_from (run_end r) t.
Proof. unfold runs_end, end_from. destruct t; [reflexivity|]. reflexivity. Qed.

Lemma gaps_spec runs : forall first pos, runs_maximal first pos runs ->
  run_starts pos (run_gaps pos runs) = runs /\
  gaps_ok first (run_gaps pos runs) /\
  (first = false -> Forall (fun r => 1 <= fst r) (run_gaps pos runs)) /\
  pos + run_bits (run_gaps pos runs) = end_from pos runs /\
  Forall (fun r => fst r <= end_from pos runs /\ 1 <= snd r <= end_from pos runs) (run_gaps pos runs).
Proof.
  induction runs as [|[s l] t IH]; intros first pos Hm.
  - cbn [run_gaps run_starts end_from]. unfold run_bits. cbn [fold_right]. repeat split; try constructor; lia.
  - cbn [runs_maximal] in Hm. destruct Hm as (H1 & H2 & H3).
    destruct (IH false (s + l) H3) as (I1 & I2 & I3 & I4 & I5). specialize (I3 eq_refl).
    assert (Hps : pos <= s) by (destruct first; lia).
    assert (Eend : end_from pos ((s, l) :: t) = end_from (s + l) t).
    { unfold end_from at 1. rewrite runs_end_cons. reflexivity. }
    assert (Hmono : s + l <= end_from (s + l) t) by (rewrite <- I4; lia).
    cbn [run_gaps run_starts]. replace (pos + (s - pos)) with s by lia. rewrite I1.
    repeat split.
    + destruct first; [left; reflexivity|right; cbn [fst]; lia].
    + exact I3.
    + intros ->. constructor; [cbn [fst]; lia|exact I3].
    + rewrite Eend, <- I4. unfold run_bits. cbn [fold_right fst snd]. lia.
    + rewrite Eend. constructor; [cbn [fst snd]; lia|exact I5].
Qed.

(* ------------------------------------------------------------------ the round trip *)

Lemma Forall_le_lt l M B : Forall (fun x : N => x <= M) l -> M < B -> Forall (fun x => x < B) l.
Proof. intros H HB. eapply Forall_impl; [|exact H]. cbv beta. intros x Hx. lia. Qed.

Lemma pack_runs_lengths rs : forall cur ones bits co cb, (length cur <= 64)%nat ->
  (length (fst (pack_runs rs cur ones bits co cb)) <= 64 * length rs + 64)%nat /\
  (length (snd (pack_runs rs cur ones bits co cb)) <= 2 * length rs + 2)%nat.
Proof.
  induction rs as [|r t IH]; intros cur ones bits co cb Hc; cbn [pack_runs].
  - cbn [fst snd length]. split; [lia|]. destruct cur; cbn [length]; lia.
  - destruct (N.leb_spec (lenN cur + lenN (run_code r)) 64) as [Hfit|Hno].
    + destruct (IH (cur ++ run_code r) ones bits (co + snd r) (cb + fst r + snd r)) as [I1 I2].
      { rewrite app_length. unfold lenN in Hfit. lia. }
      cbn [length]. lia.
    + destruct (IH (run_code r) (ones + co) (bits + cb) (snd r) (fst r + snd r)) as [I1 I2].
      { pose proof (run_code_len r). lia. }
      destruct (pack_runs t (run_code r) _ _ _ _) as [us' ss']. cbn [fst snd length] in *.
      rewrite !app_length, repeat_length. lia.
Qed.

Lemma run_gaps_length runs : forall pos, length (run_gaps pos runs) = length runs.
Proof. induction runs as [|[s l] t IH]; intros pos; [reflexivity|]. cbn [run_gaps length]. rewrite IH. reflexivity. Qed.

Lemma reads_rl len runs : runs_maximal true 0 runs -> runs_end runs <= len -> len < 2 ^ 64 -> lenN runs < 2 ^ 55 ->
  reads p_rl (doc_encode_rl (len, runs)) (len, runs) /\ file_ok (doc_encode_rl (len, runs)) = true.
Proof.
  intros Hm He Hl Hn. destruct (gaps_spec runs true 0 Hm) as (G1 & G2 & _ & G4 & G5).
  assert (Hend : end_from 0 runs <= len) by (unfold end_from; destruct runs; [lia|exact He]).
  set (gaps := run_gaps 0 runs) in *.
  assert (Hwf : Forall run_wf gaps).
  { eapply Forall_impl; [|exact G5]. cbv beta. intros r [Ha Hb]. unfold run_wf. lia. }
  unfold doc_encode_rl. fold gaps.
  destruct (pack_runs gaps [] 0 0 0 0) as [units samples] eqn:Ep.
  assert (Hwalk : walk_blocks (split_blocks (length units) units) true 0 0 = Some (gaps, samples)).
  { apply (pack_runs_spec gaps [] 0 0 true units samples (length units)); try assumption; try reflexivity. cbn. lia. }
  assert (Hunits : Forall (fun u => u < 2 ^ 4) units).
  { pose proof (pack_runs_units gaps [] 0 0 0 0 (Forall_nil _)) as H. rewrite Ep in H. exact H. }
  assert (Hsm : Forall (fun s => s <= len) samples).
  { pose proof (pack_runs_samples gaps [] 0 0 0 0) as H. rewrite Ep in H. cbn [snd] in H.
    eapply Forall_impl; [|exact H]. cbv beta. intros s Hs.
    assert (run_ones gaps <= run_bits gaps).
    { clear. unfold run_ones, run_bits. induction gaps as [|r t IH]; cbn [fold_right]; lia. }
    lia. }
  assert (Hmw : 1 <= min_width samples <= 64).
  { unfold min_width. apply bitlen_range. pose proof (list_max_bound samples len Hsm). lia. }
  assert (Hones : run_ones gaps <= len).
  { assert (run_ones gaps <= run_bits gaps) by (clear; unfold run_ones, run_bits; induction gaps as [|r t IH]; cbn [fold_right]; lia). lia. }
  (* lengths: a block has at most 64 units per sample pair, but a crude bound is enough *)
  split.
  - unfold p_rl. change (len :: run_ones gaps :: ?b) with ([len] ++ [run_ones gaps] ++ b).
    eapply reads_bind; [apply reads_elem|]. eapply reads_bind; [apply reads_elem|].
    eapply reads_bind; [apply reads_int; [exact Hmw|apply fits_min_width]|].
    rewrite <- (app_nil_r (doc_encode_int 4 units)).
    eapply reads_bind; [apply reads_int; [lia|exact Hunits]|].
    cbv beta iota zeta. apply reads_must; [reflexivity|]. rewrite Hwalk.
    apply reads_must; [apply nlist_eq_refl|]. apply reads_must; [lia|].
    apply reads_must; [apply andb_true_intro; split; lia|]. rewrite G1. apply reads_ret.
  - rewrite !file_ok_cons, file_ok_app, !elem_ok_lt by lia. cbn [andb].
    assert (Hlu : lenN units * 4 < 2 ^ 64 /\ lenN samples * 64 < 2 ^ 64).
    { pose proof (pack_runs_lengths gaps [] 0 0 0 0 ltac:(cbn [length]; lia)) as [L1 L2]. rewrite Ep in L1, L2.
      cbn [fst snd] in L1, L2. unfold gaps in L1, L2. rewrite run_gaps_length in L1, L2. unfold lenN in *.
      clear -L1 L2 Hn. lia. }
    destruct Hlu as [Hlu Hls].
    rewrite !file_ok_int; try reflexivity; try lia. nia.
Qed.

Theorem roundtrip_rl len runs :
  runs_maximal true 0 runs -> runs_end runs <= len -> len < 2 ^ 64 -> lenN runs < 2 ^ 55 ->
  doc_valid_rl (doc_encode_rl (len, runs)) = true /\ doc_content_rl (doc_encode_rl (len, runs)) = Some (len, runs).
Proof.
  intros Hm He Hl Hn. destruct (reads_rl len runs Hm He Hl Hn) as [Hr Hf]. apply roundtrip_of; assumption.
Qed.
