(* select, select_zero, predecessor, successor of RLVector on a vector satisfying [rl_ok]. *)
From Coq Require Import NArith List Lia ZArith Bool.
Require Import SDS.Model.Mach SDS.Model.Bits SDS.Model.Raw SDS.Model.IntVec SDS.Model.RL SDS.gen.Consts SDS.gen.Funs.
Require Import SDS.Spec.Runs.
Require Import SDS.Proofs.BitsProof SDS.Proofs.RLIntVec SDS.Proofs.RLVarint SDS.Proofs.RLIndex SDS.Proofs.RLRep
               SDS.Proofs.RunsLemmas SDS.Proofs.RLIter SDS.Proofs.RLQuery.
Import ListNotations.
Open Scope N_scope.
Require Import ZifyBool ZifyN ZifyNat.
Ltac Zify.zify_post_hook ::= Z.div_mod_to_equations.
Arguments N.add : simpl never. Arguments N.sub : simpl never. Arguments N.mul : simpl never.
Arguments N.eqb : simpl never. Arguments N.ltb : simpl never. Arguments N.leb : simpl never.
Arguments N.pow : simpl never. Arguments N.shiftl : simpl never. Arguments N.shiftr : simpl never.
Arguments N.land : simpl never. Arguments N.lor : simpl never. Arguments N.div : simpl never.
Arguments N.modulo : simpl never. Arguments N.ones : simpl never. Arguments N.testbit : simpl never.
Arguments N.min : simpl never.

(* ---- more facts about the specification ---- *)

Lemma sz_none : forall R first prev L k,
  runs_ok first prev R -> runs_end_from prev R <= L -> L - prev - rones R <= k ->
  runs_select_zero_from prev R L k = None.
Proof.
  induction R as [|r R IH]; intros first prev L k Hok Hend Hk.
  - cbn [runs_select_zero_from rones runs_end_from] in *. replace (k <? L - prev) with false by lia. reflexivity.
  - cbn [runs_ok runs_end_from rones] in *. destruct Hok as (H0 & H1 & H2).
    pose proof (rones_le_end _ _ _ H2). pose proof (runs_ok_end _ _ _ H2).
    assert (prev <= fst r) by (destruct first; lia).
    rewrite sz_cons. replace (k <? fst r - prev) with false by lia.
    apply (IH false); try assumption. lia.
Qed.

Lemma rones_pos first from R : runs_ok first from R -> R <> [] -> 1 <= rones R.
Proof. destruct R as [|r t]; [congruence|]. cbn [runs_ok rones]. intros (_ & H & _) _. lia. Qed.

Lemma runs_pred_none first from R x :
  runs_ok first from R -> match R with [] => True | r :: _ => x < fst r end -> runs_pred R x = None.
Proof.
  intros Hok Hx. unfold runs_pred.
  assert (E : runs_rank R (x + 1) = 0).
  { destruct R as [|r t]; [reflexivity|]. cbn [runs_ok] in Hok. destruct Hok as (H0 & H1 & H2).
    cbn [runs_rank]. rewrite (runs_rank_below false (fst r + snd r) t) by (try assumption; lia).
    unfold overlap. lia. }
  rewrite E. reflexivity.
Qed.

Lemma runs_pred_char pre r rest x :
  runs_ok true 0 (pre ++ r :: rest) -> fst r <= x ->
  match rest with [] => True | r' :: _ => x < fst r' end ->
  runs_pred (pre ++ r :: rest) x =
  Some (rones pre + (N.min (x + 1) (fst r + snd r) - fst r) - 1,
        fst r + (N.min (x + 1) (fst r + snd r) - fst r) - 1).
Proof.
  intros Hok Hr Hrest. apply runs_ok_app in Hok. destruct Hok as [Hpre Hrr].
  cbn [runs_ok] in Hrr. destruct Hrr as (H0 & H1 & H2).
  assert (Hpe : runs_end_from 0 pre <= fst r) by (destruct pre; lia).
  unfold runs_pred. rewrite runs_rank_app. cbn [runs_rank].
  rewrite (runs_rank_above _ _ _ _ Hpre) by lia.
  assert (E : runs_rank rest (x + 1) = 0).
  { destruct rest as [|r' t]; [reflexivity|]. cbn [runs_ok] in H2. destruct H2 as (G0 & G1 & G2).
    cbn [runs_rank]. rewrite (runs_rank_below false (fst r' + snd r') t) by (try assumption; lia).
    unfold overlap. lia. }
  rewrite E. unfold overlap. replace (N.min (x + 1) (fst r)) with (fst r) by lia.
  set (c := N.min (x + 1) (fst r + snd r) - fst r).
  assert (Hc : 1 <= c <= snd r) by (subst c; lia).
  replace (rones pre + (c + 0) =? 0) with false by lia.
  rewrite runs_select_app_r by lia.
  replace (rones pre + (c + 0) - 1 - rones pre) with (c - 1) by lia.
  rewrite runs_select_head by lia. f_equal. f_equal; lia.
Qed.

Lemma list_last_case {A} (l : list A) : l = [] \/ exists l' a, l = l' ++ [a].
Proof.
  destruct l as [|x t]; [left; reflexivity|right].
  destruct (@exists_last A (x :: t)) as (l' & a & E); [discriminate|]. eauto.
Qed.

Section Query2.
  Variable m : mode.
  Variable v : rlvec.
  Variable BS : list (list run).
  Variable L : N.
  Hypothesis Hok : rl_ok v BS L.

  Let F := concat BS.
  Notation Abs := (RLIter.Abs BS).

  Local Notation F_ok := (F_ok v BS L Hok).
  Local Notation abs_ok := (abs_ok v BS L Hok).
  Local Notation fuel_ok := (fuel_ok v BS L Hok).

  (* ---- select ---- *)

  Lemma skip_loop_spec rank : forall todo fuel it dn,
    Abs it dn todo -> (length todo < fuel)%nat -> rones dn <= rank -> rank < rones dn + rones todo ->
    exists it' dn' r todo',
      rl_skip_loop fuel m v it rank false = Ok it' /\ Abs it' (dn' ++ [r]) todo' /\
      F = dn' ++ r :: todo' /\ rones dn' <= rank < rones dn' + snd r.
  Proof.
    induction todo as [|r t IH]; intros fuel it dn Ha Hf Hlo Hhi; [cbn [rones] in Hhi; lia|].
    destruct fuel as [|k]; [cbn [length] in Hf; lia|]. cbn [rl_skip_loop].
    destruct (abs_ok _ _ _ Ha) as (HF & Hr & _). rewrite Hr. replace (rones dn <=? rank) with true by lia.
    destruct (next_spec m v BS L Hok it dn (r :: t) Ha) as (it' & Ha' & Hn). rewrite Hn. cbn [bind].
    cbn [rones] in Hhi. cbn [length] in Hf.
    destruct (N.lt_ge_cases rank (rones dn + snd r)) as [Hin|Hout].
    - destruct k as [|k']; [lia|]. cbn [rl_skip_loop].
      destruct (abs_ok _ _ _ Ha') as (_ & Hr' & _). rewrite Hr', rones_app. cbn [rones].
      replace (rones dn + (snd r + 0) <=? rank) with false by lia.
      exists it', dn, r, t. split; [reflexivity|]. split; [exact Ha'|]. split; [exact HF|lia].
    - apply (IH k it' (dn ++ [r]) Ha'); [lia| |]; rewrite rones_app; cbn [rones]; lia.
  Qed.

  Lemma select_spec rank : rl_select m v rank = Ok (runs_select F rank).
  Proof.
    unfold rl_select. rewrite (ones_F v BS L Hok). fold F.
    destruct (N.leb_spec (rones F) rank) as [Hge|Hlt].
    - rewrite runs_select_none by assumption. reflexivity.
    - destruct (iter_for_one_spec m v BS L Hok rank Hlt) as (it & dn & todo & Hit & Ha & Hd).
      rewrite Hit. cbn [bind].
      destruct (abs_ok _ _ _ Ha) as (HF & _).
      destruct (skip_loop_spec rank todo _ it dn Ha (fuel_ok _ _ _ Ha) Hd) as (it' & dn' & r & todo' & Hs & Ha' & HF' & Hr).
      { fold F in HF. rewrite HF, rones_app in Hlt. lia. }
      rewrite Hs. cbn [bind]. destruct (abs_ok _ _ _ Ha') as (_ & Hr' & Ho' & _).
      unfold ri_offset_for. rewrite Hr', Ho', rones_app, runs_end_from_app. cbn [rones runs_end_from].
      rewrite HF', runs_select_app_r by lia. rewrite runs_select_head by lia. f_equal. f_equal. lia.
  Qed.

  (* ---- select_zero ---- *)

  Lemma sz_loop_spec rank : forall todo fuel it dn,
    Abs it dn todo -> (length todo < fuel)%nat ->
    runs_end_from 0 dn - rones dn <= rank -> rank < L - rones F ->
    exists it' gn ones,
      rl_sz_loop fuel m v it (rones dn) rank = Ok (it', gn, ones) /\
      runs_select_zero_from (runs_end_from 0 dn) todo L (rank - (runs_end_from 0 dn - rones dn)) = Some (rank + ones) /\
      rank + ones < L.
  Proof.
    induction todo as [|r t IH]; intros fuel it dn Ha Hf Hz Hrk; (destruct fuel as [|k]; [cbn [length] in Hf; lia|]).
    - cbn [rl_sz_loop]. rewrite (next_spec m v BS L Hok it dn [] Ha). cbn [bind].
      destruct (abs_ok _ _ _ Ha) as (HF & _ & _ & Hdn & _). rewrite app_nil_r in HF. fold F in HF.
      pose proof (F_end v BS L Hok) as He. fold F in He. rewrite HF in He, Hrk.
      pose proof (rones_le_end _ _ _ Hdn).
      exists it, true, (rones dn). split; [reflexivity|]. cbn [runs_select_zero_from].
      replace (rank - (runs_end_from 0 dn - rones dn) <? L - runs_end_from 0 dn) with true by lia.
      split; [f_equal; lia|lia].
    - cbn [rl_sz_loop]. destruct (next_spec m v BS L Hok it dn (r :: t) Ha) as (it' & Ha' & Hn).
      rewrite Hn. cbn [bind].
      destruct (abs_ok _ _ _ Ha) as (HF & _ & _ & Hdn & Hrt).
      destruct (abs_ok _ _ _ Ha') as (_ & Hr' & Ho' & Hdn' & _).
      rewrite runs_end_from_app in Ho'. cbn [runs_end_from] in Ho'. rewrite rones_app in Hr'. cbn [rones] in Hr'.
      cbn [runs_ok] in Hrt. destruct Hrt as (Hs & Hl & Ht).
      pose proof (rones_le_end _ _ _ Hdn) as Hle.
      assert (Hge : runs_end_from 0 dn <= fst r) by (destruct dn; lia).
      unfold ri_rank_zero. rewrite Hr', Ho'. rewrite sz_cons.
      destruct (N.ltb_spec rank (fst r + snd r - (rones dn + (snd r + 0)))) as [Hin|Hout].
      + exists it', false, (rones dn). split; [reflexivity|].
        replace (rank - (runs_end_from 0 dn - rones dn) <? fst r - runs_end_from 0 dn) with true by lia.
        pose proof (runs_bound v BS L Hok dn r t) as Hb. fold F in HF. unfold F in HF. specialize (Hb HF).
        split; [f_equal; lia|lia].
      + replace (rank - (runs_end_from 0 dn - rones dn) <? fst r - runs_end_from 0 dn) with false by lia.
        cbn [length] in Hf.
        destruct (IH k it' (dn ++ [r]) Ha') as (it2 & gn & ones & Hl2 & Hs2 & Hb2); [lia| |assumption|].
        { rewrite runs_end_from_app, rones_app. cbn [runs_end_from rones]. lia. }
        rewrite rones_app in Hl2. cbn [rones] in Hl2. rewrite Hl2.
        exists it2, gn, ones. split; [reflexivity|]. split; [|assumption].
        rewrite runs_end_from_app, rones_app in Hs2. cbn [runs_end_from rones] in Hs2.
        rewrite <- Hs2. f_equal. lia.
  Qed.

  Lemma select_zero_spec rank : rl_select_zero m v rank = Ok (runs_select_zero F L rank).
  Proof.
    unfold rl_select_zero, rl_count_zeros. rewrite (ones_F v BS L Hok), (len_L v BS L Hok). fold F.
    pose proof (F_end v BS L Hok) as He. fold F in He.
    destruct (N.leb_spec (L - rones F) rank) as [Hge|Hlt].
    - unfold runs_select_zero. rewrite (sz_none F true 0 L rank F_ok) by (try assumption; lia). reflexivity.
    - destruct (iter_for_zero_spec m v BS L Hok rank Hlt) as (it & dn & todo & Hit & Ha & Hd).
      rewrite Hit. cbn [bind].
      destruct (abs_ok _ _ _ Ha) as (HF & Hr & _ & Hdn & _).
      destruct (sz_loop_spec rank todo _ it dn Ha (fuel_ok _ _ _ Ha) Hd Hlt) as (it' & gn & ones & Hl & Hs & Hb).
      rewrite Hr, Hl. cbn [bind]. pose proof (L_lt v BS L Hok).
      rewrite uadd_ok by lia. cbn [bind]. unfold runs_select_zero. fold F in HF. rewrite HF.
      rewrite (sz_app dn true 0 todo L rank Hdn) by lia.
      replace (runs_end_from 0 dn - 0 - rones dn) with (runs_end_from 0 dn - rones dn) by lia.
      rewrite Hs. reflexivity.
  Qed.

  (* ---- successor ---- *)

  Definition succ_result (r : option (runiter * N)) : res oneiter :=
    match r with None => Ok (oi_empty v) | Some (it', rank) => Ok (mkoi it' false rank) end.

  Lemma oi_first_empty : oi_first m v (Ok (oi_empty v)) = Ok None.
  Proof. reflexivity. Qed.

  (* a OneIter positioned inside the run just consumed *)
  Lemma oi_first_inside it dn r todo rank :
    Abs it (dn ++ [r]) todo -> rones dn <= rank < rones dn + snd r ->
    oi_first m v (Ok (mkoi it false rank)) = Ok (Some (rank, fst r + (rank - rones dn))).
  Proof.
    intros Ha Hr. destruct (abs_ok _ _ _ Ha) as (_ & Hk & Ho & _).
    rewrite rones_app in Hk. rewrite runs_end_from_app in Ho. cbn [rones runs_end_from] in Hk, Ho.
    unfold oi_first, oi_next. cbn [bind oi_got_none oi_iter oi_rank negb andb].
    rewrite Hk. replace (rones dn + (snd r + 0) <=? rank) with false by lia. cbn [bind oi_got_none oi_iter oi_rank].
    unfold ri_offset_for. rewrite Hk, Ho. f_equal. f_equal. f_equal. lia.
  Qed.

  Lemma succ_loop_spec value : forall todo fuel it dn,
    Abs it dn todo -> (length todo < fuel)%nat -> runs_end_from 0 dn <= value ->
    exists res, rl_succ_loop fuel m v it value = Ok res /\
      oi_first m v (succ_result res) =
      Ok (match runs_select todo (runs_rank todo value) with
          | Some p => Some (rones dn + runs_rank todo value, p)
          | None => None
          end).
  Proof.
    induction todo as [|r t IH]; intros fuel it dn Ha Hf Hd; (destruct fuel as [|k]; [cbn [length] in Hf; lia|]).
    - cbn [rl_succ_loop]. rewrite (next_spec m v BS L Hok it dn [] Ha). cbn [bind].
      exists None. split; reflexivity.
    - cbn [rl_succ_loop]. destruct (next_spec m v BS L Hok it dn (r :: t) Ha) as (it' & Ha' & Hn).
      rewrite Hn. cbn [bind].
      destruct (abs_ok _ _ _ Ha) as (_ & _ & _ & _ & Hrt).
      destruct (abs_ok _ _ _ Ha') as (_ & Hr' & Ho' & _ & Ht').
      rewrite runs_end_from_app in Ho', Ht'. cbn [runs_end_from] in Ho', Ht'. rewrite rones_app in Hr'. cbn [rones] in Hr'.
      replace (match dn ++ [r] with [] => true | _ :: _ => false end) with false in Ht' by (destruct dn; reflexivity).
      cbn [runs_ok] in Hrt. destruct Hrt as (Hs & Hl & _).
      assert (Hge : runs_end_from 0 dn <= fst r) by (destruct dn; lia).
      cbn [runs_rank]. unfold overlap. unfold ri_rank_at. rewrite Hr', Ho'.
      destruct r as [s l]. cbn [fst snd] in *.
      destruct (N.ltb_spec value s) as [Hlt|Hge2].
      + eexists. split; [reflexivity|]. cbn [succ_result].
        rewrite (runs_rank_below _ _ _ _ Ht') by lia.
        rewrite (oi_first_inside it' dn (s, l) t _ Ha') by (cbn [snd]; lia). cbn [fst snd].
        replace (N.min value (s + l) - N.min value s + 0) with 0 by lia.
        rewrite (runs_select_head (s, l) t 0) by (cbn [snd]; lia). cbn [fst]. f_equal. f_equal. f_equal; lia.
      + destruct (N.ltb_spec value (s + l)) as [Hin|Hout].
        * eexists. split; [reflexivity|]. cbn [succ_result].
          rewrite (runs_rank_below _ _ _ _ Ht') by lia.
          rewrite (oi_first_inside it' dn (s, l) t _ Ha') by (cbn [snd]; lia). cbn [fst snd].
          replace (N.min value (s + l) - N.min value s + 0) with (value - s) by lia.
          rewrite (runs_select_head (s, l) t (value - s)) by (cbn [snd]; lia). cbn [fst]. f_equal. f_equal. f_equal; lia.
        * cbn [length] in Hf.
          destruct (IH k it' (dn ++ [(s, l)]) Ha') as (res & Hl2 & Hf2); [lia| |].
          { rewrite runs_end_from_app. cbn [runs_end_from fst snd]. lia. }
          exists res. split; [exact Hl2|]. rewrite Hf2. rewrite rones_app. cbn [rones snd].
          replace (N.min value (s + l) - N.min value s) with l by lia.
          rewrite (runs_select_tail (s, l) t) by (cbn [snd]; lia). cbn [snd].
          replace (l + runs_rank t value - l) with (runs_rank t value) by lia.
          destruct (runs_select t (runs_rank t value)); [|reflexivity]. f_equal. f_equal. f_equal. lia.
  Qed.

  Lemma successor_spec value : oi_first m v (rl_successor m v value) = Ok (runs_succ F value).
  Proof.
    unfold rl_successor. rewrite (len_L v BS L Hok). pose proof (F_end v BS L Hok) as He. fold F in He.
    destruct (N.leb_spec L value) as [Hge|Hlt].
    - rewrite oi_first_empty. unfold runs_succ.
      rewrite (runs_rank_above _ _ _ _ F_ok) by (fold F; lia). fold F.
      rewrite runs_select_none by lia. reflexivity.
    - destruct (iter_for_bit_spec m v BS L Hok value Hlt) as (it & dn & todo & Hit & Ha & Hd).
      rewrite Hit. cbn [bind].
      destruct (succ_loop_spec value todo _ it dn Ha (fuel_ok _ _ _ Ha) Hd) as (res & Hl & Hf).
      rewrite Hl. cbn [bind]. fold (succ_result res). rewrite Hf.
      destruct (abs_ok _ _ _ Ha) as (HF & _ & _ & Hdn & _). fold F in HF.
      unfold runs_succ. rewrite HF, runs_rank_app. rewrite (runs_rank_above _ _ _ _ Hdn Hd).
      rewrite runs_select_app_r by lia.
      replace (rones dn + runs_rank todo value - rones dn) with (runs_rank todo value) by lia. reflexivity.
  Qed.

  (* ---- predecessor ---- *)

  Lemma pred_adv_some x r : pred_adv x (Some r) = (fst r <=? x).
  Proof. destruct r. reflexivity. Qed.

  Lemma pred_loop_spec x : forall todo fuel it dn,
    Abs it dn todo -> (length todo < fuel)%nat ->
    exists it' taken rest,
      rl_pred_loop fuel m v it x = Ok it' /\ todo = taken ++ rest /\ Abs it' (dn ++ taken) rest /\
      Forall (fun r => fst r <= x) taken /\ match rest with [] => True | r :: _ => x < fst r end.
  Proof.
    induction todo as [|r t IH]; intros fuel it dn Ha Hf; (destruct fuel as [|k]; [cbn [length] in Hf; lia|]).
    - cbn [rl_pred_loop]. rewrite (advance_spec m v BS L Hok it dn [] (pred_adv x) Ha). cbn [bind pred_adv].
      exists it, [], []. split; [reflexivity|]. split; [reflexivity|]. split; [rewrite app_nil_r; exact Ha|].
      split; [constructor|exact I].
    - cbn [rl_pred_loop].
      destruct (advance_spec m v BS L Hok it dn (r :: t) (pred_adv x) Ha) as (it' & Ha' & Hn).
      rewrite Hn. cbn [bind]. rewrite pred_adv_some.
      destruct (N.leb_spec (fst r) x) as [Hle|Hgt].
      + cbn [length] in Hf. destruct (IH k it' (dn ++ [r]) Ha') as (it2 & taken & rest & Hl & Ht & Ha2 & Hall & Hrest); [lia|].
        exists it2, (r :: taken), rest. split; [exact Hl|]. split; [rewrite Ht; reflexivity|].
        split; [rewrite <- app_assoc in Ha2; exact Ha2|]. split; [constructor; assumption|exact Hrest].
      + exists it, [], (r :: t). split; [reflexivity|]. split; [reflexivity|]. split; [rewrite app_nil_r; exact Ha|].
        split; [constructor|lia].
  Qed.

  Lemma predecessor_spec value : oi_first m v (rl_predecessor m v value) = Ok (runs_pred F value).
  Proof.
    unfold rl_predecessor. rewrite (len_L v BS L Hok).
    pose proof (F_end v BS L Hok) as He. fold F in He. pose proof F_ok as HFok. fold F in HFok.
    destruct (N.eqb_spec L 0) as [HL0|HL0].
    - rewrite oi_first_empty. symmetry. f_equal.
      assert (F = []).
      { destruct F as [|r t] eqn:EF; [reflexivity|]. cbn [runs_ok runs_end_from] in *.
        destruct HFok as (_ & H1 & H2). pose proof (runs_ok_end _ _ _ H2). lia. }
      rewrite H. reflexivity.
    - set (x := N.min value (L - 1)).
      assert (Hx : x < L) by (subst x; lia).
      (* the specification does not see the clamping *)
      assert (Hclamp : runs_pred F value = runs_pred F x).
      { subst x. destruct (N.le_gt_cases value (L - 1)) as [Hv|Hv].
        - replace (N.min value (L - 1)) with value by lia. reflexivity.
        - replace (N.min value (L - 1)) with (L - 1) by lia. unfold runs_pred.
          rewrite !(runs_rank_above _ _ _ _ HFok) by lia. reflexivity. }
      rewrite Hclamp.
      destruct (iter_for_bit_spec m v BS L Hok x Hx) as (it & dn & todo & Hit & Ha & Hd).
      rewrite Hit. cbn [bind].
      destruct (pred_loop_spec x todo _ it dn Ha (fuel_ok _ _ _ Ha)) as (it' & taken & rest & Hl & Ht & Ha' & Hall & Hrest).
      rewrite Hl. cbn [bind].
      destruct (abs_ok _ _ _ Ha') as (HF & Hr' & Ho' & Hdn' & Hrst). fold F in HF.
      destruct (abs_ok _ _ _ Ha) as (_ & _ & _ & Hdn & _).
      rewrite Hr'.
      destruct (list_last_case (dn ++ taken)) as [Hnil|(pre & r & Hlast)].
      + rewrite Hnil in *. cbn [rones]. change (0 =? 0) with true. cbn iota. rewrite oi_first_empty.
        cbn [app] in HF. rewrite HF. symmetry. f_equal. eapply runs_pred_none; eauto.
      + rewrite Hlast in *.
        assert (Hpos : 1 <= snd r).
        { apply runs_ok_app in Hdn'. destruct Hdn' as [_ Hq]. cbn [runs_ok] in Hq. lia. }
        rewrite rones_app in *. cbn [rones] in *.
        replace (rones pre + (snd r + 0) =? 0) with false by lia.
        rewrite runs_end_from_app in Ho'. cbn [runs_end_from] in Ho'.
        (* the last run taken starts at or before x *)
        assert (Hrx : fst r <= x).
        { destruct (list_last_case taken) as [Htn|(tk & r2 & Htk)].
          - rewrite Htn, app_nil_r in Hlast. rewrite Hlast in Hd, Hdn.
            rewrite runs_end_from_app in Hd. cbn [runs_end_from] in Hd. lia.
          - rewrite Htk, app_assoc in Hlast. apply app_inj_tail in Hlast. destruct Hlast as [_ <-].
            rewrite Htk in Hall. apply Forall_app in Hall. destruct Hall as [_ Hall].
            inversion Hall; subst. assumption. }
        rewrite <- app_assoc in HF. cbn [app] in HF.
        rewrite HF, (runs_pred_char pre r rest x) by (try assumption; rewrite <- HF; exact HFok).
        unfold ri_rank_at. rewrite Ho', Hr'.
        destruct (N.ltb_spec x (fst r + snd r)) as [Hin|Hout].
        * rewrite (oi_first_inside it' pre r rest _ Ha') by lia.
          replace (N.min (x + 1) (fst r + snd r)) with (x + 1) by lia. f_equal. f_equal. f_equal; lia.
        * rewrite (oi_first_inside it' pre r rest _ Ha') by lia.
          replace (N.min (x + 1) (fst r + snd r)) with (fst r + snd r) by lia. f_equal. f_equal. f_equal; lia.
  Qed.
End Query2.
