(* Shared definitions for the proofs about Model/BitVec.v: when a model bitvector represents a bit
   sequence B, and word-level views of B. *)
From Coq Require Import NArith List Lia ZArith Bool.
Require Import SDS.Model.Mach SDS.Model.Bits SDS.Model.Raw SDS.Model.IntVec SDS.Model.BitVec.
Require Import SDS.Spec.BitSeq SDS.Proofs.BitsProof.
Import ListNotations.
Open Scope N_scope.
Require Import ZifyBool ZifyN ZifyNat.
Ltac Zify.zify_post_hook ::= Z.div_mod_to_equations.

(* the raw-vector invariant: exact word count, 64-bit words, unused bits of the last word are zero *)
Definition raw_wf (r : raw) : Prop :=
  lenN (rdata r) = (rlen r + 63) / 64 /\
  wf (rdata r) /\
  (forall p, rlen r <= p -> bit (rdata r) p = false) /\
  rlen r < 2 ^ 64.

(* b (with whatever supports it has) stores the bit sequence B *)
Definition bv_repr (b : bitvec) (B : list bool) : Prop :=
  raw_wf (bv_data b) /\
  B = bits_of (bv_len b) (rdata (bv_data b)) /\
  bv_ones b = count B.

(* bit p of the sequence, as a boolean (false beyond the end) *)
Definition bitB (B : list bool) (p : N) : bool := match getb B p with Some x => x | None => false end.

(* the transformed sequence seen by OneIter<T> / SelectSupport<T> *)
Definition t_bits (t : transf) (B : list bool) : list bool :=
  match t with Identity => B | Complement => map negb B end.

(* Interface used by the structures that EMBED plain bitvectors (sparse vector, wavelet matrix):
   b stores B and answers every query of the plain bitvector exactly. Established by the C01 theorems
   for `bv_enable_all` (and for loaded vectors whose supports are rebuilt); the composite proofs take it
   as their only assumption about the embedded vector. *)
Definition bv_queries_ok (sp : selpath) (m : mode) (b : bitvec) (B : list bool) : Prop :=
  bv_repr b B /\
  (forall i, i < bv_len b -> exists x, bv_get b i = Ok x /\ getb B i = Some x) /\
  (forall i, i < 2 ^ 64 -> bv_rank_q b i = Ok (rank1 B i)) /\
  (forall r, r < 2 ^ 64 -> bv_select_t sp m Identity b r = Ok (select1 B r)) /\
  (forall r, r < 2 ^ 64 -> bv_select_t sp m Complement b r = Ok (select0 B r)).

(* weaker interface of the Elias-Fano high part: only select and select_zero are enabled there *)
Definition bv_select_ok (sp : selpath) (m : mode) (b : bitvec) (B : list bool) : Prop :=
  bv_repr b B /\
  (forall i, i < bv_len b -> exists x, bv_get b i = Ok x /\ getb B i = Some x) /\
  (forall r, r < 2 ^ 64 -> bv_select_t sp m Identity b r = Ok (select1 B r)) /\
  (forall r, r < 2 ^ 64 -> bv_select_t sp m Complement b r = Ok (select0 B r)).
