(* Shared definitions for the proofs about Model/BitVec.v: when a model bitvector represents a bit
   sequence B, and word-level views of B. *)
From Coq Require Import NArith List Lia ZArith Bool.
Require Import SDS.Model.Mach SDS.Model.Bits SDS.Model.Raw SDS.Model.IntVec SDS.Model.BitVec.
Require Import SDS.Spec.BitSeq SDS.Proofs.BitsProof.
Import ListNotations.
Open Scope N_scope.
Require Import ZifyBool ZifyN ZifyNat.
Ltac Zify.zify_post_hook ::= Z.div_mod_to_equations.

(* the raw-vector invariant: exact word count, 64-bit words, unused bits of the last word are zero *)
Definition raw_wf (r : raw) : Prop :=
  lenN (rdata r) = (rlen r + 63) / 64 /\
  wf (rdata r) /\
  (forall p, rlen r <= p -> bit (rdata r) p = false) /\
  rlen r < 2 ^ 64.

(* b (with whatever supports it has) stores the bit sequence B *)
Definition bv_repr (b : bitvec) (B : list bool) : Prop :=
  raw_wf (bv_data b) /\
  B = bits_of (bv_len b) (rdata (bv_data b)) /\
  bv_ones b = count B.

(* bit p of the sequence, as a boolean (false beyond the end) *)
Definition bitB (B : list bool) (p : N) : bool := match getb B p with Some x => x | None => false end.

(* the transformed sequence seen by OneIter<T> / SelectSupport<T> *)
Definition t_bits (t : transf) (B : list bool) : list bool :=
  match t with Identity => B | Complement => map negb B end.
