(* C07, write direction for RLVector: the element list [rl_serialize v] that the model of the crate writes for a
   built run-length vector is accepted by the reader written from SERIALIZATION.md (Spec/Format.v, p_rl) and
   decodes to (length, maximal runs). Bridges between the C03 description of a built vector ([rl_ok]: blocks of whole
   runs, zero padding, samples; plus [Gr]: greedy packing, RLGreedy.v) and the document's own codec (greedy
   [pack_runs], [walk_blocks]; proved to round-trip in FormatRL.v). *)
From Coq Require Import NArith List Lia ZArith Bool.
Require Import SDS.Model.Mach SDS.Model.Bits SDS.Model.Raw SDS.Model.IntVec SDS.Model.RL SDS.gen.Consts SDS.gen.Funs.
Require Import SDS.Spec.SeqSpec SDS.Spec.Runs.
Require Import SDS.Proofs.BitsProof SDS.Proofs.RawProof SDS.Proofs.IntVecProof.
Require Import SDS.Proofs.RLIntVec SDS.Proofs.RLVarint SDS.Proofs.RLIndex SDS.Proofs.RLRep SDS.Proofs.RunsLemmas
               SDS.Proofs.RLBuild SDS.Proofs.RLGreedy.
Require SDS.Spec.Format SDS.Proofs.FormatProof SDS.Proofs.FormatRL SDS.Proofs.FormatConform SDS.Proofs.SerRL.
Require SDS.Model.Ser SDS.Proofs.SerTypes SDS.Proofs.RLQuery SDS.Proofs.RLProof.
Import ListNotations.
Open Scope N_scope.
Require Import ZifyBool ZifyN ZifyNat.
Ltac Zify.zify_post_hook ::= Z.div_mod_to_equations.
Arguments N.add : simpl never. Arguments N.sub : simpl never. Arguments N.mul : simpl never.
Arguments N.eqb : simpl never. Arguments N.ltb : simpl never. Arguments N.leb : simpl never.
Arguments N.pow : simpl never. Arguments N.shiftl : simpl never. Arguments N.shiftr : simpl never.
Arguments N.land : simpl never. Arguments N.lor : simpl never. Arguments N.div : simpl never.
Arguments N.modulo : simpl never. Arguments N.ones : simpl never. Arguments N.testbit : simpl never.
Arguments N.min : simpl never. Arguments N.max : simpl never. Arguments N.log2 : simpl never.

Module F := SDS.Spec.Format.
Module FP := SDS.Proofs.FormatProof.
Module FR := SDS.Proofs.FormatRL.

(* ================================================================ 1. small bridges *)

(* the code units of a value: the model's encoder and the document's are the same function below 8^22 *)
Lemma enc_fuel_varint : forall k x, x < 8 ^ N.of_nat (S k) -> enc_fuel (S k) x = F.enc_varint (S k) x.
Proof.
  induction k as [|k IH]; intros x Hx.
  - change (8 ^ N.of_nat 1) with 8 in Hx. cbn [enc_fuel F.enc_varint].
    replace (7 <? x) with false by lia. replace (x <? 8) with true by lia. reflexivity.
  - rewrite pow8_S in Hx. cbn [enc_fuel F.enc_varint]. fold (enc_fuel (S k)). fold (F.enc_varint (S k)).
    destruct (N.ltb_spec 7 x) as [H|H].
    + replace (x <? 8) with false by lia. f_equal. apply IH. lia.
    + replace (x <? 8) with true by lia. reflexivity.
Qed.

Lemma enc_varint x : x < 2 ^ 64 -> enc x = F.varint x.
Proof.
  intros Hx. unfold enc, F.varint. apply (enc_fuel_varint 21).
  assert (2 ^ 64 < 8 ^ N.of_nat 22) by reflexivity. lia.
Qed.

(* the items of an IntVector that represents l are l *)
Lemma abs_iv_of_rep v w l : iv_inv v -> iv_rep v w l -> abs_iv v = l.
Proof.
  intros Hi Hr. destruct (iv_repr v Hi) as (_ & Hlen & _). pose proof (iv_rep_ilen _ _ _ Hr) as Hl.
  apply (nth_ext _ _ 0 0).
  - unfold lenL in Hlen. unfold lenN in Hl. lia.
  - intros n Hn. assert (Hlt : N.of_nat n < ilen v) by (unfold lenL in Hlen; lia).
    pose proof (iv_get_ok v (N.of_nat n) Hi Hlt) as G1. unfold nthn in G1. rewrite Nat2N.id in G1.
    destruct (nth_error l n) as [x|] eqn:E.
    + assert (G2 : iv_get v (N.of_nat n) = Ok x).
      { apply (iv_get_rep v w l); [exact Hr|]. rewrite nthN_nth_error, Nat2N.id. exact E. }
      rewrite G1 in G2. inversion G2 as [G3]. rewrite G3. symmetry. apply nth_error_nth. exact E.
    + apply nth_error_None in E. unfold lenN in Hl. lia.
Qed.

(* the width of the samples: bit_len of the last tail = the document's minimal width of all sample values *)
Lemma bitlen_same x : x < 2 ^ 64 -> bit_len x = F.bitlen x.
Proof. intros H. rewrite bit_len_spec by exact H. reflexivity. Qed.

Lemma list_max_flat_samples AB T :
  Forall (fun x => ab_ones x <= ab_tail x) AB -> nondec (map ab_tail AB) -> T = last (map ab_tail AB) 0 ->
  F.list_max (flat_samples AB) = T.
Proof.
  intros Hot Hnd HT.
  assert (Hle : F.list_max (flat_samples AB) <= T).
  { apply FR.list_max_bound. unfold flat_samples. apply Forall_forall. intros y Hy.
    apply in_flat_map in Hy. destruct Hy as (x & Hx & Hy).
    assert (Hxt : ab_tail x <= T) by (subst T; apply nondec_le_last; [assumption|apply in_map; assumption]).
    rewrite Forall_forall in Hot. specialize (Hot x Hx).
    destruct Hy as [<-|[<-|[]]]; lia. }
  destruct (RLBuild.list_snoc_case AB) as [->|(AB' & a & ->)].
  - cbn in *. lia.
  - assert (T = ab_tail a) by (subst T; rewrite map_app; cbn [map]; apply last_last).
    assert (In (ab_tail a) (flat_samples (AB' ++ [a]))).
    { unfold flat_samples. apply in_flat_map. exists a. split; [apply in_or_app; right; left; reflexivity|].
      right. left. reflexivity. }
    pose proof (FR.list_max_ge _ _ H0). lia.
Qed.

(* ================================================================ 2. the builder's blocks are the document's packing *)

Definition bounded (r : N * N) : Prop := fst r < 2 ^ 64 /\ snd r < 2 ^ 64.

Lemma repeatN_repeat' {A} (x : A) n : repeatN x n = repeat x n.
Proof. induction n as [|n IH]; [reflexivity|]. cbn [repeatN repeat]. rewrite IH. reflexivity. Qed.

Lemma pad64_repeat u : pad64 u = u ++ repeat 0 (64 - length u).
Proof.
  unfold pad64. rewrite repeatN_repeat'. f_equal. f_equal. unfold lenN. lia.
Qed.

Lemma gaps_cons p r C : F.run_gaps p (r :: C) = (fst r - p, snd r) :: F.run_gaps (fst r + snd r) C.
Proof. destruct r. reflexivity. Qed.
Lemma gaps_app_cons p r A C : F.run_gaps p ((r :: A) ++ C) = (fst r - p, snd r) :: F.run_gaps (fst r + snd r) (A ++ C).
Proof. cbn [app]. apply gaps_cons. Qed.

Lemma run_code_enc g l : g < 2 ^ 64 -> l - 1 < 2 ^ 64 -> F.run_code (g, l) = enc g ++ enc (l - 1).
Proof. intros H1 H2. unfold F.run_code. cbn [fst snd]. rewrite !enc_varint by assumption. reflexivity. Qed.

Lemma enc_runs_nonempty t rs : rs <> [] -> enc_runs t rs <> [].
Proof.
  intros H E. pose proof (enc_runs_len_lower t rs) as Hl. rewrite E in Hl.
  destruct rs; [congruence|]. rewrite lenN_cons in Hl. unfold lenN in Hl. cbn [length] in Hl. lia.
Qed.

(* [done] of the open block is packed (its units are [cur]), [todo] of it and the blocks [BSrest] are to come *)
Lemma pack_blocks : forall BSrest todo done first t o,
  done ++ todo <> [] ->
  lenN (enc_runs t (done ++ todo)) <= 64 ->
  Gr_from t ((done ++ todo) :: BSrest) ->
  Forall (fun bl : list run => bl <> []) BSrest ->
  Forall (fun x => lenN (ab_units x) <= 64) (annot (o + rones (done ++ todo)) (runs_end_from t (done ++ todo)) BSrest) ->
  runs_ok first t ((done ++ todo) ++ concat BSrest) ->
  Forall bounded ((done ++ todo) ++ concat BSrest) ->
  F.pack_runs (F.run_gaps (runs_end_from t done) (todo ++ concat BSrest)) (enc_runs t done) o t
              (rones done) (runs_end_from t done - t)
  = (layout (enc_runs t (done ++ todo) ::
             map ab_units (annot (o + rones (done ++ todo)) (runs_end_from t (done ++ todo)) BSrest)),
     o :: t :: flat_samples (annot (o + rones (done ++ todo)) (runs_end_from t (done ++ todo)) BSrest)).
Proof.
  induction BSrest as [|bl2 BSrest IHo].
  - (* the last block *)
    induction todo as [|r todo IHi]; intros done first t o Hne Hlen HG Hnb Hu Hok Hbd.
    + rewrite app_nil_r in Hne. cbn [concat app]. rewrite !app_nil_r.
      cbn [F.run_gaps F.pack_runs annot map flat_samples flat_map layout].
      pose proof (enc_runs_nonempty t done Hne). destruct (enc_runs t done); [congruence|reflexivity].
    + cbn [concat] in *. rewrite app_nil_r in *. rewrite gaps_cons. cbn [F.pack_runs].
      assert (Hr : runs_ok first t done /\ runs_end_from t done <= fst r /\ bounded r).
      { apply runs_ok_app in Hok. destruct Hok as [Hd Hr]. cbn [runs_ok] in Hr. destruct Hr as (H0 & _).
        apply Forall_app in Hbd. destruct Hbd as [_ Hbd]. split; [exact Hd|]. split; [destruct done, first; lia|].
        exact (Forall_inv Hbd). }
      destruct Hr as (Hd & Hp & Hbr & Hbl).
      pose proof (runs_ok_end _ _ _ Hd) as Hte.
      rewrite run_code_enc by lia.
      assert (Ecur : enc_runs t (done ++ [r]) = enc_runs t done ++ enc (fst r - runs_end_from t done) ++ enc (snd r - 1)).
      { rewrite enc_runs_app. cbn [enc_runs]. rewrite app_nil_r. reflexivity. }
      assert (Hfit : lenN (enc_runs t done) + lenN (enc (fst r - runs_end_from t done) ++ enc (snd r - 1)) <= 64).
      { replace (done ++ r :: todo) with ((done ++ [r]) ++ todo) in Hlen by (rewrite <- app_assoc; reflexivity).
        rewrite enc_runs_app, Ecur, !lenN_app in Hlen. rewrite lenN_app. lia. }
      change (@F.lenN N) with (@lenN N). replace (_ <=? 64) with true by lia.
      replace (done ++ r :: todo) with ((done ++ [r]) ++ todo) in * by (rewrite <- app_assoc; reflexivity).
      assert (E1 : runs_end_from t (done ++ [r]) = fst r + snd r) by (rewrite runs_end_from_app; reflexivity).
      assert (E2 : rones (done ++ [r]) = rones done + snd r) by (rewrite rones_app; cbn [rones]; lia).
      cbn [fst snd]. rewrite <- E1, <- Ecur, <- E2.
      replace (runs_end_from t done - t + (fst r - runs_end_from t done) + snd r) with (runs_end_from t (done ++ [r]) - t)
        by (rewrite E1; lia).
      apply (IHi (done ++ [r]) first t o); try assumption; cbn [concat]; rewrite app_nil_r; assumption.
  - (* a block follows *)
    induction todo as [|r todo IHi]; intros done first t o Hne Hlen HG Hnb Hu Hok Hbd.
    + rewrite app_nil_r in Hne, Hlen, HG, Hu, Hok, Hbd. cbn [app]. rewrite !app_nil_r.
      inversion Hnb as [|? ? Hne2 Hnb']; subst. destruct bl2 as [|r2 bl2']; [congruence|].
      cbn [concat app]. rewrite gaps_cons. cbn [F.pack_runs]. cbn [fst snd].
      apply runs_ok_app in Hok. destruct Hok as [Hd Hr].
      replace (match done with [] => first | _ :: _ => false end) with false in Hr by (destruct done; [congruence|reflexivity]).
      pose proof (runs_ok_end _ _ _ Hd) as Hte.
      cbn [concat app] in Hr, Hbd. pose proof Hr as Hr'. cbn [runs_ok] in Hr'. destruct Hr' as (Hp & _).
      apply Forall_app in Hbd. destruct Hbd as [Hbd1 Hbd2]. pose proof (Forall_inv Hbd2) as (Hb1 & Hb2).
      rewrite run_code_enc by lia.
      cbn [Gr_from next_too_long] in HG. destruct HG as [Hlong HG].
      change (@F.lenN N) with (@lenN N). rewrite lenN_app. replace (_ <=? 64) with false by lia.
      cbn [annot] in Hu. inversion Hu as [|? ? Hu2 Hu']; subst. unfold ab_units, ab_tail, ab_runs in Hu2. cbn [fst snd] in Hu2.
      set (p := runs_end_from t done) in *.
      pose proof (IHo bl2' [r2] false p (o + rones done)) as E. cbn [app] in E.
      specialize (E ltac:(discriminate) Hu2 HG Hnb' Hu' Hr Hbd2).
      match goal with |- context [F.pack_runs ?a ?b ?c ?d ?e ?f] =>
        replace (F.pack_runs a b c d e f) with
          (layout (enc_runs p (r2 :: bl2') ::
                   map ab_units (annot (o + rones done + rones (r2 :: bl2')) (runs_end_from p (r2 :: bl2')) BSrest)),
           (o + rones done) :: p :: flat_samples (annot (o + rones done + rones (r2 :: bl2')) (runs_end_from p (r2 :: bl2')) BSrest))
      end.
      2:{ rewrite <- E. f_equal.
          - cbn [enc_runs]. rewrite app_nil_r. reflexivity.
          - lia.
          - cbn [rones]. lia.
          - cbn [runs_end_from]. lia. }
      cbv beta iota. cbn [annot map flat_samples flat_map app].
      unfold ab_units at 1, ab_ones at 1, ab_tail at 1 2, ab_runs at 1. cbn [fst snd].
      rewrite layout_cons2, pad64_repeat, <- app_assoc. reflexivity.
    + replace (done ++ r :: todo) with ((done ++ [r]) ++ todo) in * by (rewrite <- app_assoc; reflexivity).
      rewrite gaps_app_cons. cbn [F.pack_runs].
      assert (Hr : runs_ok first t done /\ runs_end_from t done <= fst r /\ bounded r).
      { rewrite <- !app_assoc in Hok, Hbd. cbn [app] in Hok, Hbd.
        apply runs_ok_app in Hok. destruct Hok as [Hd Hr]. cbn [runs_ok] in Hr. destruct Hr as (H0 & _).
        apply Forall_app in Hbd. destruct Hbd as [_ Hbd]. split; [exact Hd|]. split; [destruct done, first; lia|].
        exact (Forall_inv Hbd). }
      destruct Hr as (Hd & Hp & Hbr & Hbl).
      pose proof (runs_ok_end _ _ _ Hd) as Hte.
      rewrite run_code_enc by lia.
      assert (Ecur : enc_runs t (done ++ [r]) = enc_runs t done ++ enc (fst r - runs_end_from t done) ++ enc (snd r - 1)).
      { rewrite enc_runs_app. cbn [enc_runs]. rewrite app_nil_r. reflexivity. }
      assert (Hfit : lenN (enc_runs t done) + lenN (enc (fst r - runs_end_from t done) ++ enc (snd r - 1)) <= 64).
      { rewrite enc_runs_app, Ecur, !lenN_app in Hlen. rewrite lenN_app. lia. }
      change (@F.lenN N) with (@lenN N). replace (_ <=? 64) with true by lia.
      assert (E1 : runs_end_from t (done ++ [r]) = fst r + snd r) by (rewrite runs_end_from_app; reflexivity).
      assert (E2 : rones (done ++ [r]) = rones done + snd r) by (rewrite rones_app; cbn [rones]; lia).
      cbn [fst snd]. rewrite <- E1, <- Ecur, <- E2.
      replace (runs_end_from t done - t + (fst r - runs_end_from t done) + snd r) with (runs_end_from t (done ++ [r]) - t)
        by (rewrite E1; lia).
      apply (IHi (done ++ [r]) first t o); assumption.
Qed.

(* all blocks: the document's greedy packing of the gaps of the maximal runs is [data] and [samples] of the vector *)
Lemma pack_all BS first :
  Forall (fun bl : list run => bl <> []) BS ->
  Forall (fun x => lenN (ab_units x) <= 64) (annot 0 0 BS) ->
  Gr BS -> runs_ok first 0 (concat BS) -> Forall bounded (concat BS) ->
  F.pack_runs (F.run_gaps 0 (concat BS)) [] 0 0 0 0 = (data_of BS, flat_samples (annot 0 0 BS)).
Proof.
  intros Hne Hu HG Hok Hbd. destruct BS as [|bl rest]; [reflexivity|].
  inversion Hne as [|? ? Hne1 Hne']; subst. cbn [annot] in Hu. inversion Hu as [|? ? Hu1 Hu']; subst.
  unfold ab_units, ab_tail, ab_runs in Hu1. cbn [fst snd] in Hu1.
  pose proof (pack_blocks rest bl [] first 0 0) as E. cbn [app] in E.
  specialize (E Hne1 Hu1 HG Hne' Hu' Hok Hbd).
  cbn [enc_runs rones runs_end_from] in E. change (0 - 0) with 0 in E.
  cbn [concat]. rewrite E. reflexivity.
Qed.

Lemma run_ones_gaps : forall runs p, F.run_ones (F.run_gaps p runs) = rones runs.
Proof.
  induction runs as [|[s l] t IH]; intros p; [reflexivity|].
  cbn [F.run_gaps]. unfold F.run_ones in *. cbn [fold_right snd rones]. rewrite IH. reflexivity.
Qed.

Lemma end_from_0 runs : FR.end_from 0 runs = runs_end_from 0 runs.
Proof. unfold FR.end_from. rewrite <- runs_end_spec. destruct runs; reflexivity. Qed.

Lemma tails_le_end : forall BS first o t, runs_ok first t (concat BS) ->
  Forall (fun y => y <= runs_end_from t (concat BS)) (map ab_tail (annot o t BS)).
Proof.
  induction BS as [|b0 BS0 IH]; intros first o t Hk; [constructor|].
  cbn [annot map concat] in *. apply runs_ok_app in Hk. destruct Hk as [Hb0 Hrest0].
  rewrite runs_end_from_app. constructor.
  - unfold ab_tail. cbn [fst snd]. pose proof (runs_ok_end _ _ _ Hb0). pose proof (runs_ok_end _ _ _ Hrest0). lia.
  - eapply IH. exact Hrest0.
Qed.

(* ================================================================ 3. the theorem *)

Theorem rl_conform m R L :
  runs_sorted 0 R -> runs_end R <= L -> L <= 2 ^ 64 - 1 -> lenN R < 2 ^ 55 ->
  exists v,
    rl_build m (RLProof.rl_ops R L) = Ok (v, map (fun _ => true) R ++ [true]) /\
    FP.reads F.p_rl (rl_serialize v) (L, maximal R) /\ F.file_ok (rl_serialize v) = true.
Proof.
  intros Hs He HL Hn.
  destruct (SerRL.rl_built_wf m R L Hs He HL Hn) as (v0 & Hb0 & Hwf).
  pose proof (RLProof.maximal_spec R Hs) as (Hmax & Hmend & _).
  apply runs_srt_sorted in Hs. rewrite runs_end_spec in He.
  assert (H56 : lenN R < 2 ^ 56) by (assert (2 ^ 55 < 2 ^ 56) by reflexivity; lia).
  destruct (rl_build_g m R L Hs He ltac:(lia) H56) as (v & BS & Hb & Hok & HG & Hw & HF).
  assert (v0 = v) by (rewrite RLProof.rl_ops_build in Hb0; rewrite Hb in Hb0; inversion Hb0; reflexivity). subst v0.
  exists v. split; [exact Hb|].
  destruct (SerRL.rl_build_inv m _ v _ Hb) as [Hsi Hdi].
  destruct Hwf as [Hfw _]. cbn [Ser.c_wf Ser.seq_codec fst snd Ser.usize_codec Ser.u64_codec Ser.iv_codec Ser.with_wf] in Hfw.
  destruct Hfw as (Hl64 & Ho64 & Hsok & Hdok).
  (* the contents of the two integer vectors *)
  destruct (ok_samples _ _ _ Hok) as (w & Hrep).
  pose proof (abs_iv_of_rep _ _ _ Hsi Hrep) as Esam.
  pose proof (abs_iv_of_rep _ _ _ Hdi (ok_data _ _ _ Hok)) as Edat.
  pose proof (ok_data _ _ _ Hok) as (Hdw & _).
  (* the runs *)
  pose proof (ok_runs _ _ _ Hok) as HFok. pose proof (ok_end _ _ _ Hok) as HFend. pose proof (ok_L _ _ _ Hok) as HL64.
  set (runs := maximal R) in *. set (gaps := F.run_gaps 0 runs).
  destruct (FR.gaps_spec runs true 0 Hmax) as (G1 & G2 & _ & G4 & G5). fold gaps in G1, G2, G4, G5.
  rewrite end_from_0, N.add_0_l in G4. rewrite end_from_0 in G5. rewrite HF in HFok, HFend.
  assert (Hwf : Forall FR.run_wf gaps).
  { eapply Forall_impl; [|exact G5]. cbv beta. intros r [Ha Hb']. unfold FR.run_wf. lia. }
  assert (Hbd : Forall bounded runs).
  { clear - HFok HFend HL64. revert HFok HFend. generalize true as first. generalize 0 as from.
    induction runs as [|r t IH]; intros from first Hk Hend; [constructor|].
    cbn [runs_ok runs_end_from] in *. destruct Hk as (H0 & H1 & H2). pose proof (runs_ok_end _ _ _ H2).
    constructor; [unfold bounded; lia|]. eapply IH; eauto. }
  pose proof (pack_all BS true (ok_nonempty _ _ _ Hok) (ok_units _ _ _ Hok) HG) as Hpack.
  rewrite HF in Hpack. specialize (Hpack HFok Hbd). fold gaps in Hpack.
  assert (Hwalk : F.walk_blocks (F.split_blocks (length (data_of BS)) (data_of BS)) true 0 0 = Some (gaps, flat_samples (annot 0 0 BS))).
  { apply (FR.pack_runs_spec gaps [] 0 0 true (data_of BS) (flat_samples (annot 0 0 BS)) (length (data_of BS)));
      try assumption; try reflexivity. cbn. lia. }
  (* the width of the samples *)
  assert (Hmw : iwidth (rl_samples v) = F.min_width (flat_samples (annot 0 0 BS))).
  { rewrite Hw. unfold F.min_width.
    pose proof (rones_le_end _ _ _ (ok_runs _ _ _ Hok)) as Hro.
    assert (Hnd_t : nondec (map ab_tail (annot 0 0 BS))).
    { apply (annot_nondec (fun o t => t)) with (first := true); [|lia|exact (ok_runs _ _ _ Hok)].
      intros o t bl first _ Hb'. eapply runs_ok_end; eauto. }
    assert (Hot : Forall (fun x => ab_ones x <= ab_tail x) (annot 0 0 BS)).
    { apply annot_ones_le_tail with (first := true); [lia|exact (ok_runs _ _ _ Hok)]. }
    rewrite (list_max_flat_samples _ _ Hot Hnd_t eq_refl).
    apply bitlen_same.
    (* the last tail is a position of the vector *)
    destruct Hsok as (_ & Hiw & _). destruct Hsi as (Hw1 & _).
    destruct (N.lt_ge_cases (last (map ab_tail (annot 0 0 BS)) 0) (2 ^ 64)) as [Hlt|Hge]; [exact Hlt|].
    exfalso.
    pose proof (tails_le_end BS true 0 0 (ok_runs _ _ _ Hok)) as Hall.
    assert (last (map ab_tail (annot 0 0 BS)) 0 <= runs_end_from 0 (concat BS)).
    { apply last_Forall; [|lia]. exact Hall. }
    pose proof (ok_end _ _ _ Hok). lia. }
  split.
  - unfold rl_serialize, F.p_rl.
    change ([rl_len v; rl_ones v] ++ ?b) with ([rl_len v] ++ [rl_ones v] ++ b).
    eapply FP.reads_bind; [apply FP.reads_elem|]. eapply FP.reads_bind; [apply FP.reads_elem|].
    eapply FP.reads_bind; [apply FormatConform.reads_int_model; exact Hsi|].
    rewrite <- (app_nil_r (iv_serialize (rl_data v))).
    eapply FP.reads_bind; [apply FormatConform.reads_int_model; exact Hdi|].
    unfold abs_is. rewrite Esam, Edat, Hdw. cbv beta iota zeta.
    apply FP.reads_must; [reflexivity|]. rewrite Hwalk.
    apply FP.reads_must; [apply FR.nlist_eq_refl|].
    apply FP.reads_must; [rewrite Hmw; apply N.eqb_refl|].
    apply FP.reads_must.
    { apply andb_true_intro. split.
      - unfold gaps. rewrite run_ones_gaps, (RLQuery.ones_F v BS L Hok), HF. apply N.eqb_refl.
      - rewrite (RLQuery.len_L v BS L Hok). apply N.leb_le. lia. }
    rewrite G1, (RLQuery.len_L v BS L Hok). apply FP.reads_ret.
  - unfold rl_serialize. rewrite FP.file_ok_app, FP.file_ok_app.
    rewrite !FormatConform.file_ok_iv_model by assumption.
    cbn [F.file_ok forallb]. rewrite !FP.elem_ok_lt by assumption. reflexivity.
Qed.

Theorem rl_conform_doc m R L :
  runs_sorted 0 R -> runs_end R <= L -> L <= 2 ^ 64 - 1 -> lenN R < 2 ^ 55 ->
  exists v,
    rl_build m (RLProof.rl_ops R L) = Ok (v, map (fun _ => true) R ++ [true]) /\
    F.doc_valid_rl (rl_serialize v) = true /\ F.doc_content_rl (rl_serialize v) = Some (L, maximal R).
Proof.
  intros Hs He HL Hn. destruct (rl_conform m R L Hs He HL Hn) as (v & Hb & Hr & Hf).
  exists v. split; [exact Hb|]. apply FP.roundtrip_of; assumption.
Qed.

(* ... and the bytes written are the 8-byte little-endian elements of that list *)
Theorem rl_conform_bytes m R L :
  runs_sorted 0 R -> runs_end R <= L -> L <= 2 ^ 64 - 1 -> lenN R < 2 ^ 55 ->
  exists v,
    rl_build m (RLProof.rl_ops R L) = Ok (v, map (fun _ => true) R ++ [true]) /\
    F.elems_of_bytes (Ser.c_enc (Ser.rl_codec m) v) = Some (rl_serialize v) /\
    F.doc_valid_rl (rl_serialize v) = true /\ F.doc_content_rl (rl_serialize v) = Some (L, maximal R).
Proof.
  intros Hs He HL Hn. destruct (rl_conform m R L Hs He HL Hn) as (v & Hb & Hr & Hf).
  exists v. split; [exact Hb|]. split.
  - rewrite SerTypes.rl_enc_elems. apply FormatConform.elems_of_le64. apply FormatConform.Forall_of_file_ok. exact Hf.
  - apply FP.roundtrip_of; assumption.
Qed.
