(* The wavelet-matrix theorems of Proofs/WMProof.v (Sections Core and WMat) for a core of ANY sufficient width:
   [width] in 1..64 with every item below 2^width, the levels answering the queries of the bit columns
   level_columns width of V. WMProof.v fixes width = bit_len (max V) (what From<Vec<T>> chooses); a file written from
   the format document may use a wider core (SERIALIZATION.md only asks first[] to be minimal), whose leading levels
   are all-zero columns. The list-level machinery of Proofs/WMLevels.v (colsk, downk, upk, sortk, reordered_sortk)
   is already parameterised by the number of levels and "values small"; this file re-runs the two sections over
   it with [width] a variable. The proof scripts are those of WMProof.v with the three width facts
   (core_width_range, core_values_small, core_columns) re-proved from the hypotheses. *)
From Coq Require Import NArith List Lia ZArith Bool Permutation Sorted.
Require Import SDS.Model.Mach SDS.Model.Bits SDS.Model.Raw SDS.Model.IntVec SDS.Model.BitVec SDS.Model.WM.
Require Import SDS.Spec.BitSeq SDS.Spec.Seq.
Require Import SDS.Proofs.BitsProof SDS.Proofs.BVCommon SDS.Proofs.WMSeq SDS.Proofs.WMLevels SDS.Proofs.WMSpec SDS.Proofs.WMOffsets.
Require Import SDS.Proofs.WMProof.
Import ListNotations.
Open Scope N_scope.
Require Import ZifyBool ZifyN ZifyNat.
Ltac Zify.zify_post_hook ::= Z.div_mod_to_equations.
Local Opaque reverse_bits revkey.

Section Wide.
Variables (sp : selpath) (m : mode) (V : list N) (levels : list bitvec) (width : N).
Hypothesis HV : Forall (fun x => x < 2 ^ 64) V.
Hypothesis Hn : lenN V < 2 ^ 64.
Hypothesis Hwd : 1 <= width <= 64.
Hypothesis Hsmall : Forall (fun x => x < 2 ^ width) V.
Hypothesis Hlv : Forall2 (bv_queries_ok sp m) levels (level_columns (N.to_nat width) width 0 V).

Let w := N.to_nat width.
Let L0 := index_from V 0.
Let core := mkcore levels.

Lemma core_width_range : 1 <= width <= 64 /\ N.of_nat w = width /\ (1 <= w <= 64)%nat.
Proof. unfold w. lia. Qed.

Lemma core_values_small : Forall (fun x => x < 2 ^ N.of_nat w) V.
Proof.
  destruct core_width_range as (_ & -> & _). exact Hsmall.
Qed.

Lemma core_columns : level_columns (N.to_nat width) width 0 V = colsk snd w L0.
Proof.
  fold w. rewrite level_columns_colsk by (destruct core_width_range; lia).
  rewrite (colsk_map_val snd). unfold L0. rewrite index_from_snd. reflexivity.
Qed.

Lemma core_levels_ok : Forall2 (bv_queries_ok sp m) levels (colsk snd w L0).
Proof. rewrite <- core_columns. exact Hlv. Qed.

Lemma core_width : wc_width core = width.
Proof.
  unfold wc_width, core, lenN. cbn [wc_levels]. rewrite (Forall2_len _ _ _ core_levels_ok), colsk_length.
  destruct core_width_range; lia.
Qed.

Lemma L0_length : N.of_nat (length L0) = lenN V.
Proof. unfold L0, lenN. rewrite index_from_length. reflexivity. Qed.

Lemma core_len : wc_len core = Ok (lenN V).
Proof.
  pose proof core_levels_ok as H. destruct core_width_range as (_ & _ & Hw). destruct w as [|j] eqn:Ew; [lia|].
  cbn [colsk] in H. inversion H as [|b B ls cols Hb Hrest E1 E2]; subst.
  unfold wc_len, core. cbn [wc_levels]. unfold idx. cbn [nthN]. change (0 =? 0) with true. cbn [bind].
  f_equal. destruct (lvl_len sp m b _ Hb) as [-> _]. rewrite lenB_map. apply L0_length.
Qed.

Lemma L0_nth i x : nth_opt V i = Some x -> nth_opt L0 i = Some (i, x).
Proof. intros H. unfold L0. rewrite index_from_nth, H. cbn [option_map]. f_equal. Qed.

Lemma L0_nth_inv i a : nth_opt L0 i = Some a -> a = (i, snd a) /\ nth_opt V i = Some (snd a).
Proof.
  unfold L0. rewrite index_from_nth. destruct (nth_opt V i) as [x|]; cbn [option_map]; [|discriminate].
  intros H. injection H as <-. cbn [snd]. split; [f_equal|reflexivity].
Qed.

(* the model functions evaluate to the list-level maps *)
Lemma eval_down_with i v : i < 2 ^ 64 ->
  wc_map_down_with m core i v = Ok (downk snd w L0 v (N.min i (lenN V))).
Proof.
  intros Hi. unfold wc_map_down_with. rewrite core_len. cbn [bind]. rewrite core_width, downk_cdown.
  apply (loop_down_with sp m width w levels); [exact core_levels_ok|apply colsk_length|destruct core_width_range; lia|lia].
Qed.

Lemma eval_down_two i1 i2 v : i1 < 2 ^ 64 -> i2 < 2 ^ 64 ->
  wc_map_down_with_two m core i1 i2 v =
  Ok (downk snd w L0 v (N.min i1 (lenN V)), downk snd w L0 v (N.min i2 (lenN V))).
Proof.
  intros H1 H2. unfold wc_map_down_with_two. rewrite core_len. cbn [bind]. rewrite core_width, !downk_cdown.
  apply (loop_down_two sp m width w levels); [exact core_levels_ok|apply colsk_length|destruct core_width_range; lia|lia|lia].
Qed.

Lemma eval_up j v : j < 2 ^ 64 -> wc_map_up_with sp m core j v = Ok (upk snd w L0 v j).
Proof.
  intros Hj. unfold wc_map_up_with. rewrite core_width, upk_cup. unfold core. cbn [wc_levels].
  apply (loop_up sp m width w levels (colsk snd w L0) 0); [exact core_levels_ok|apply colsk_length|destruct core_width_range; lia|exact Hj].
Qed.

Lemma eval_down i : i < 2 ^ 64 ->
  wc_map_down m core i =
  Ok (match nth_opt V i with Some x => Some (downk snd w L0 x i, x) | None => None end).
Proof.
  intros Hi. unfold wc_map_down. rewrite core_len. cbn [bind].
  destruct (nth_opt V i) as [x|] eqn:Ex.
  - pose proof (nth_opt_Some_lt _ _ _ Ex) as Hlt. unfold lenN. replace (N.of_nat (length V) <=? i) with false by lia.
    rewrite core_width. unfold core. cbn [wc_levels].
    rewrite (loop_down sp m width w levels (colsk snd w L0) 0 i 0 (downk snd w L0 x i, x));
      [reflexivity|exact core_levels_ok|apply colsk_length|destruct core_width_range; lia|exact Hi|].
    rewrite <- mdk_cmd, (mdk_spec snd w L0 i 0 (i, x) (L0_nth i x Ex)). cbn [snd]. f_equal. f_equal.
    pose proof core_values_small as Hs. rewrite Forall_forall in Hs. rewrite N.mod_small; [lia|].
    apply Hs. eapply nth_opt_in. exact Ex.
  - apply nth_opt_None in Ex. unfold lenN. replace (N.of_nat (length V) <=? i) with true by lia. reflexivity.
Qed.

(* ---- the list-level maps against the specification *)

Lemma reordered_levels : reordered V = sortk snd w L0.
Proof. apply reordered_sortk; [destruct core_width_range; lia|exact core_values_small]. Qed.

Lemma mod_width v : v mod 2 ^ N.of_nat w < 2 ^ N.of_nat w.
Proof. apply N.mod_upper_bound. apply N.pow_nonzero. discriminate. Qed.

Lemma downk_spec v i : i <= lenN V -> downk snd w L0 v i = map_down_with_v V i (v mod 2 ^ width).
Proof.
  intros Hi. destruct core_width_range as (_ & Hww & Hw64). rewrite <- Hww.
  rewrite downk_count by (rewrite L0_length; exact Hi). unfold map_down_with_v. f_equal.
  - rewrite less_v_cnt. unfold L0. rewrite <- (index_from_snd V 0) at 2. rewrite cnt_map.
    apply cnt_ext_in. intros [p x] Hx. cbn [snd]. apply index_from_in in Hx. destruct Hx as [_ Hx].
    pose proof core_values_small as Hs. rewrite Forall_forall in Hs. specialize (Hs x (nth_opt_in _ _ _ Hx)).
    rewrite (revkey_lt_small w) by (try lia; try exact Hs; apply mod_width). rewrite krev_mod. reflexivity.
  - rewrite rank_v_cnt.
    replace (firstn (N.to_nat i) V) with (map snd (firstn (N.to_nat i) L0))
      by (rewrite <- firstn_map; unfold L0; rewrite index_from_snd; reflexivity).
    rewrite cnt_map.
    apply cnt_ext_in. intros [p x] Hx. cbn [snd].
    assert (Hin : In (p, x) L0) by (rewrite <- (firstn_skipn (N.to_nat i) L0); apply in_or_app; left; exact Hx).
    apply index_from_in in Hin. destruct Hin as [_ Hin].
    pose proof core_values_small as Hs. rewrite Forall_forall in Hs. specialize (Hs x (nth_opt_in _ _ _ Hin)).
    rewrite (N.mod_small x) by exact Hs. reflexivity.
Qed.

Lemma L0_fst_nodup : NoDup (map fst L0).
Proof. apply index_from_fst_nodup. Qed.

Lemma reordered_fst_nodup : NoDup (map fst (reordered V)).
Proof.
  eapply Permutation_NoDup; [apply Permutation_map; apply Permutation_sym; apply reordered_perm|]. exact L0_fst_nodup.
Qed.

Lemma find_pos_nth (l : list (N * N)) j e s :
  NoDup (map fst l) -> nth_opt l j = Some e -> find_pos l (fst e) s = Some (s + j).
Proof.
  revert j s. induction l as [|y t IH]; intros j s HN He; [discriminate|]. cbn [nth_opt] in He. cbn [find_pos].
  cbn [map] in HN. inversion HN as [|? ? Hny HNt]; subst.
  destruct (N.eqb_spec j 0) as [->|Hj].
  - injection He as ->. rewrite N.eqb_refl. f_equal. lia.
  - destruct (N.eqb_spec (fst y) (fst e)) as [E|_].
    + exfalso. apply Hny. rewrite E. apply in_map. eapply nth_opt_in. exact He.
    + rewrite (IH (j - 1) (s + 1) HNt He). f_equal. lia.
Qed.

Lemma nodup_nth_inj {A} (l : list A) i j e : NoDup l -> nth_opt l i = Some e -> nth_opt l j = Some e -> i = j.
Proof.
  intros HN Hi Hj. pose proof (nth_opt_Some_lt _ _ _ Hi). rewrite nth_opt_nth_error in Hi, Hj.
  assert (N.to_nat i = N.to_nat j); [|lia]. apply (NoDup_nth_error l); [exact HN|lia|congruence].
Qed.

Lemma reordered_nodup : NoDup (reordered V).
Proof. eapply NoDup_map_inv. exact reordered_fst_nodup. Qed.

(* map down: the position in the reordered vector *)
Lemma down_spec i x : nth_opt V i = Some x -> map_down_v V i = Some (downk snd w L0 x i, x).
Proof.
  intros Hx. unfold map_down_v. rewrite Hx.
  pose proof (downk_nth snd w L0 i (i, x) (L0_nth i x Hx)) as Hn'. cbn [snd] in Hn'. rewrite <- reordered_levels in Hn'.
  pose proof (find_pos_nth (reordered V) _ (i, x) 0 reordered_fst_nodup Hn') as Hf. cbn [fst] in Hf. rewrite Hf.
  reflexivity.
Qed.

(* map up: the original position of a reordered item, provided it carries the value *)
Lemma up_spec j v : upk snd w L0 v j = map_up_v V j (v mod 2 ^ width).
Proof.
  destruct core_width_range as (_ & Hww & Hw64). rewrite <- Hww.
  pose proof core_values_small as Hs. rewrite Forall_forall in Hs.
  unfold map_up_v. destruct (upk snd w L0 v j) as [i|] eqn:Eu.
  - apply upk_sound in Eu; [|lia]. destruct Eu as (a & Ha & Hm & Hd).
    apply L0_nth_inv in Ha. destruct Ha as [Ea Hv]. destruct a as [p x]. cbn [snd] in *. injection Ea as ->.
    assert (Hx : x < 2 ^ N.of_nat w) by (apply Hs; eapply nth_opt_in; exact Hv).
    rewrite N.mod_small in Hm by exact Hx.
    pose proof (downk_nth snd w L0 i (i, x) (L0_nth i x Hv)) as Hn'. cbn [snd] in Hn'.
    rewrite (downk_mod snd w L0 x v i) in Hn' by (rewrite N.mod_small by exact Hx; exact Hm).
    rewrite Hd, <- reordered_levels in Hn'. rewrite Hn'. rewrite <- Hm, N.eqb_refl. reflexivity.
  - destruct (nth_opt (reordered V) j) as [[p x]|] eqn:Er; [|reflexivity].
    destruct (N.eqb_spec x (v mod 2 ^ N.of_nat w)) as [Hxv|]; [|reflexivity]. exfalso.
    assert (Hin : In (p, x) L0).
    { eapply Permutation_in; [apply reordered_perm|]. eapply nth_opt_in. exact Er. }
    apply index_from_in in Hin. destruct Hin as [_ Hp]. replace (p - 0) with p in Hp by lia.
    assert (Hx : x < 2 ^ N.of_nat w) by (apply Hs; eapply nth_opt_in; exact Hp).
    assert (Hm : snd (p, x) mod 2 ^ N.of_nat w = v mod 2 ^ N.of_nat w) by (cbn [snd]; rewrite N.mod_small by exact Hx; exact Hxv).
    pose proof (upk_complete snd w L0 v p (p, x) (L0_nth p x Hp) Hm) as Hc.
    pose proof (downk_nth snd w L0 p (p, x) (L0_nth p x Hp)) as Hn'. cbn [snd] in Hn'.
    rewrite (downk_mod snd w L0 x v p) in Hn' by (rewrite N.mod_small by exact Hx; exact Hxv).
    rewrite <- reordered_levels in Hn'.
    assert (j = downk snd w L0 v p) by (eapply nodup_nth_inj; [exact reordered_nodup|exact Er|exact Hn']).
    subst j. congruence.
Qed.

(* pure corollaries used by the matrix-level proofs *)
Lemma map_down_v_pos i x : nth_opt V i = Some x -> map_down_v V i = Some (less_v V x + rank_v V i x, x).
Proof.
  intros Hx. rewrite (down_spec i x Hx). pose proof (nth_opt_Some_lt _ _ _ Hx) as Hlt.
  rewrite downk_spec by (unfold lenN; lia). unfold map_down_with_v.
  destruct core_width_range as (_ & Hww & _). pose proof core_values_small as Hs. rewrite Forall_forall in Hs.
  rewrite <- Hww, N.mod_small by (apply Hs; eapply nth_opt_in; exact Hx). reflexivity.
Qed.

Lemma map_up_v_select r v : v < 2 ^ width -> map_up_v V (less_v V v + r) v = select_v V r v.
Proof.
  intros Hv. destruct core_width_range as (_ & Hww & _).
  assert (Hvm : v mod 2 ^ width = v) by (apply N.mod_small; exact Hv).
  rewrite <- Hvm at 2. rewrite <- up_spec.
  destruct (upk snd w L0 v (less_v V v + r)) as [p|] eqn:Eu.
  - apply upk_sound in Eu; [|destruct core_width_range; lia]. destruct Eu as (a & Ha & Hm & Hd).
    apply L0_nth_inv in Ha. destruct Ha as [Ea Hp]. destruct a as [q x]. cbn [snd] in *. injection Ea as ->.
    pose proof core_values_small as Hs. rewrite Forall_forall in Hs.
    rewrite Hww, N.mod_small in Hm by (rewrite <- Hww; apply Hs; eapply nth_opt_in; exact Hp). rewrite Hvm in Hm. subst x.
    pose proof (nth_opt_Some_lt _ _ _ Hp) as Hlt.
    rewrite downk_spec in Hd by (unfold lenN; lia). rewrite Hvm in Hd. unfold map_down_with_v in Hd.
    assert (rank_v V p v = r) by lia. subst r. symmetry. apply select_v_complete. exact Hp.
  - destruct (select_v V r v) as [p|] eqn:Es; [|reflexivity]. exfalso.
    apply select_v_sound in Es. destruct Es as [Hp Hr]. pose proof (nth_opt_Some_lt _ _ _ Hp) as Hlt.
    assert (Hm : snd (p, v) mod 2 ^ N.of_nat w = v mod 2 ^ N.of_nat w) by reflexivity.
    pose proof (upk_complete snd w L0 v p (p, v) (L0_nth p v Hp) Hm) as Hc.
    rewrite downk_spec in Hc by (unfold lenN; lia). rewrite Hvm in Hc. unfold map_down_with_v in Hc. rewrite Hr in Hc. congruence.
Qed.

(* ---- the core theorems *)

Theorem core_len_width : wc_len core = Ok (lenS V) /\ wc_width core = width.
Proof. split; [exact core_len|]. exact core_width. Qed.

Theorem core_map_down i : i < 2 ^ 64 -> wc_map_down m core i = Ok (map_down_v V i).
Proof.
  intros Hi. rewrite (eval_down i Hi). f_equal. destruct (nth_opt V i) as [x|] eqn:Ex.
  - symmetry. apply down_spec. exact Ex.
  - unfold map_down_v. rewrite Ex. reflexivity.
Qed.

Theorem core_map_down_with i v : i < 2 ^ 64 ->
  wc_map_down_with m core i v = Ok (map_down_with_v V i (v mod 2 ^ width)).
Proof.
  intros Hi. rewrite (eval_down_with i v Hi). f_equal. rewrite downk_spec by lia.
  unfold map_down_with_v. f_equal.
  change (lenN V) with (lenS V). apply rank_v_min.
Qed.

Theorem core_map_down_two i1 i2 v : i1 < 2 ^ 64 -> i2 < 2 ^ 64 ->
  wc_map_down_with_two m core i1 i2 v =
  Ok (map_down_with_v V i1 (v mod 2 ^ width), map_down_with_v V i2 (v mod 2 ^ width)).
Proof.
  intros H1 H2. rewrite (eval_down_two i1 i2 v H1 H2). rewrite !downk_spec by lia.
  unfold map_down_with_v. change (lenN V) with (lenS V). rewrite !rank_v_min. reflexivity.
Qed.

Theorem core_map_up_with j v : j < 2 ^ 64 ->
  wc_map_up_with sp m core j v = Ok (map_up_v V j (v mod 2 ^ width)).
Proof. intros Hj. rewrite (eval_up j v Hj), up_spec. reflexivity. Qed.

(* mapping up inverts mapping down *)
Theorem core_round_trip i x : nth_opt V i = Some x ->
  exists j, wc_map_down m core i = Ok (Some (j, x)) /\ wc_map_down_with m core i x = Ok j /\
            wc_map_up_with sp m core j x = Ok (Some i) /\ j < lenS V.
Proof.
  intros Hx. pose proof (nth_opt_Some_lt _ _ _ Hx) as Hlt. unfold lenN in Hn.
  exists (downk snd w L0 x i).
  assert (Hj : downk snd w L0 x i < lenS V).
  { pose proof (downk_nth snd w L0 i (i, x) (L0_nth i x Hx)) as Hn'. cbn [snd] in Hn'.
    apply nth_opt_Some_lt in Hn'. rewrite sortk_length in Hn'. unfold L0 in Hn'. rewrite index_from_length in Hn'. exact Hn'. }
  split; [rewrite eval_down by lia; rewrite Hx; reflexivity|]. split.
  - rewrite eval_down_with by lia. unfold lenN. rewrite N.min_l by lia. reflexivity.
  - split; [|exact Hj]. rewrite eval_up by (unfold lenS in Hj; lia). f_equal.
    apply (upk_complete snd w L0 x i (i, x)); [apply L0_nth; exact Hx|reflexivity].
Qed.


(* ---------------------------------------------------------------- WaveletMatrix *)

Variables (first : intvec) (F : list N).
Hypothesis Hmax : list_max V + 1 < 2 ^ 64.
Hypothesis HF : first_offsets m V (lenN V) (list_max V) = Ok F.
Hypothesis Hfirst : first_ok first F.

Let wm := mkwm (lenN V) (mkcore levels) first.

Lemma F_spec : lenN F = list_max V + 1 /\
  forall v, v <= list_max V -> nthN F v = Some (if contains_v V v then less_v V v else lenN V).
Proof.
  destruct (first_offsets_ok m V HV Hmax) as (F' & H1 & H2 & H3). rewrite HF in H1. injection H1 as ->. tauto.
Qed.

Lemma start_ok v : v <= list_max V -> wm_start wm v = Ok (if contains_v V v then less_v V v else lenN V).
Proof. intros Hv. unfold wm_start, wm. cbn [wm_first]. apply Hfirst. apply F_spec. exact Hv. Qed.

Lemma absent_above v : list_max V < v -> contains_v V v = false.
Proof.
  intros Hv. destruct (contains_v V v) eqn:E; [|reflexivity]. apply contains_v_in in E. apply list_max_ge in E. lia.
Qed.

Lemma contains_ok v : wm_contains wm v = Ok (contains_v V v).
Proof.
  unfold wm_contains. change (ilen (wm_first wm)) with (ilen first). destruct Hfirst as [-> _]. destruct F_spec as [-> _].
  destruct (N.ltb_spec v (list_max V + 1)) as [Hv|Hv].
  - rewrite start_ok by lia. cbn [bind]. f_equal. change (wm_len wm) with (lenN V).
    destruct (contains_v V v) eqn:E.
    + apply contains_v_in in E. apply less_v_lt in E. unfold lenS, lenN in *. lia.
    + lia.
  - rewrite absent_above by lia. reflexivity.
Qed.

Lemma value_small v : v <= list_max V -> v < 2 ^ width.
Proof.
  intros Hv. assert (Hm : list_max V < 2 ^ width) by (apply list_max_lt; [apply N.neq_0_lt_0, N.pow_nonzero; lia|exact Hsmall]). lia.
Qed.

Lemma present_le v : contains_v V v = true -> v <= list_max V.
Proof. intros H. apply contains_v_in in H. apply list_max_ge. exact H. Qed.

Theorem wm_rank_ok i v : i < 2 ^ 64 -> wm_rank m wm i v = Ok (rank_v V i v).
Proof.
  intros Hi. unfold wm_rank. rewrite contains_ok. cbn [bind]. destruct (contains_v V v) eqn:Ec; cbn [negb].
  - change (wm_data wm) with core. rewrite (core_map_down_with i v Hi). cbn [bind].
    rewrite start_ok by (apply present_le; exact Ec). rewrite Ec. cbn [bind].
    rewrite N.mod_small by (apply value_small, present_le; exact Ec).
    unfold map_down_with_v, usub. replace (less_v V v <=? less_v V v + rank_v V i v) with true by lia. f_equal. lia.
  - rewrite rank_v_absent by exact Ec. reflexivity.
Qed.

Theorem wm_inverse_select_ok i : i < 2 ^ 64 -> wm_inverse_select m wm i = Ok (inverse_select_v V i).
Proof.
  intros Hi. unfold wm_inverse_select. change (wm_data wm) with core.
  rewrite (core_map_down i Hi). cbn [bind]. unfold inverse_select_v.
  destruct (nth_opt V i) as [x|] eqn:Ex.
  - rewrite (map_down_v_pos i x Ex).
    assert (Hc : contains_v V x = true) by (apply contains_v_in; eapply nth_opt_in; exact Ex).
    rewrite start_ok by (apply present_le; exact Hc). rewrite Hc. cbn [bind]. unfold usub.
    replace (less_v V x <=? less_v V x + rank_v V i x) with true by lia. cbn [bind]. f_equal. f_equal. f_equal. lia.
  - unfold map_down_v. rewrite Ex. reflexivity.
Qed.

Theorem wm_get_ok i : i < 2 ^ 64 ->
  wm_get m wm i = match get_v V i with Some x => Ok x | None => Panic PUnwrap end.
Proof.
  intros Hi. unfold wm_get. rewrite (wm_inverse_select_ok i Hi). cbn [bind]. unfold inverse_select_v, get_v.
  destruct (nth_opt V i); reflexivity.
Qed.

Theorem wm_select_ok r v : r < 2 ^ 64 -> wm_select sp m wm r v = Ok (select_v V r v).
Proof.
  intros Hr. unfold wm_select. rewrite contains_ok. cbn [bind]. destruct (contains_v V v) eqn:Ec; cbn [negb].
  - rewrite start_ok by (apply present_le; exact Ec). rewrite Ec. cbn [bind].
    assert (Hs : less_v V v < lenS V) by (apply less_v_lt, contains_v_in; exact Ec).
    destruct (N.ltb_spec (less_v V v + r) (2 ^ 64)) as [Hlt|Hge].
    + change (wm_data wm) with core. rewrite (core_map_up_with _ v Hlt). f_equal.
      rewrite N.mod_small by (apply value_small, present_le; exact Ec).
      apply map_up_v_select. apply value_small, present_le. exact Ec.
    + f_equal. destruct (select_v V r v) as [p|] eqn:Es; [|reflexivity]. exfalso.
      apply select_v_sound in Es. destruct Es as [_ Es]. pose proof (less_rank_le V p v). unfold lenS, lenN in *. lia.
  - rewrite select_v_absent by exact Ec. reflexivity.
Qed.

Lemma select_iter_unfold r v :
  select_iter_v V r v = match select_v V r v with Some p => (r, p) :: select_iter_v V (r + 1) v | None => [] end.
Proof.
  unfold select_iter_v, value_iter_v. rewrite skipN_index_from, nth_opt_occ.
  destruct (select_v V r v); [f_equal; f_equal; lia|reflexivity].
Qed.

Lemma select_v_beyond r v : lenS V <= r -> select_v V r v = None.
Proof.
  intros Hr. destruct (select_v V r v) as [p|] eqn:Es; [|reflexivity]. exfalso.
  apply select_v_sound in Es. destruct Es as [Hp Es]. apply nth_opt_Some_lt in Hp. pose proof (rank_v_le V p v). unfold lenS in Hr. lia.
Qed.

Lemma vi_collect_ok fuel r v :
  r < 2 ^ 64 -> lenN V - r < N.of_nat fuel ->
  vi_collect sp m wm fuel (mkvi v r) = Ok (select_iter_v V r v).
Proof.
  revert r. induction fuel as [|k IH]; intros r Hr Hf; [lia|]. cbn [vi_collect]. unfold vi_next. cbn [vi_rank vi_value].
  change (wm_len wm) with (lenN V). rewrite select_iter_unfold.
  destruct (N.leb_spec (lenN V) r) as [Hge|Hlt].
  - cbn [bind]. rewrite select_v_beyond by exact Hge. reflexivity.
  - rewrite (wm_select_ok r v Hr). cbn [bind]. destruct (select_v V r v) as [p|]; cbn [bind]; [|reflexivity].
    rewrite IH by lia. reflexivity.
Qed.

(* value_iter / select_iter: everything the iterator yields *)
Theorem wm_iter_items_ok r v : r < 2 ^ 64 -> vi_items sp m wm (wm_select_iter r v) = Ok (select_iter_v V r v).
Proof.
  intros Hr. unfold vi_items, wm_select_iter. apply vi_collect_ok; [exact Hr|]. unfold vi_fuel. change (wm_len wm) with (lenN V). lia.
Qed.

Theorem wm_value_iter_ok v : vi_items sp m wm (wm_value_iter v) = Ok (value_iter_v V v).
Proof.
  change (wm_value_iter v) with (wm_select_iter 0 v). rewrite wm_iter_items_ok by lia.
  unfold select_iter_v. rewrite skipN_0. reflexivity.
Qed.

Lemma rank_v_sat i v : i < 2 ^ 64 -> rank_v V (sat_add1 i) v = rank_v V (i + 1) v.
Proof.
  intros Hi. unfold sat_add1. destruct (N.ltb_spec (i + 1) (2 ^ 64)); [reflexivity|].
  rewrite <- (rank_v_min V (2 ^ 64 - 1)), <- (rank_v_min V (i + 1)). unfold lenS, lenN in *. rewrite !N.min_r by lia. reflexivity.
Qed.

Theorem wm_predecessor_ok i v : i < 2 ^ 64 ->
  (let* it := wm_predecessor m wm i v in vi_items sp m wm it) = Ok (pred_v V i v).
Proof.
  intros Hi. unfold wm_predecessor. rewrite wm_rank_ok by (unfold sat_add1; destruct (i + 1 <? 2 ^ 64) eqn:E; lia).
  cbn [bind]. rewrite rank_v_sat by exact Hi. change (wm_len wm) with (lenN V).
  unfold pred_v, value_iter_v. rewrite (pred_suffix_sorted _ 0 i [] (occ_sorted V v)).
  rewrite (cnt_ext (fun p => p <=? i) (fun p => p <? i + 1)) by (intros p; lia). rewrite occ_cnt.
  pose proof (rank_v_le V (i + 1) v) as Hle.
  assert (Hrn : rank_v V (i + 1) v <= lenN V).
  { rewrite <- rank_v_min. etransitivity; [apply rank_v_le|]. unfold lenS, lenN. lia. }
  destruct (N.ltb_spec 0 (rank_v V (i + 1) v)) as [Hpos|Hz].
  - replace (rank_v V (i + 1) v =? 0) with false by lia. rewrite wm_iter_items_ok by lia. reflexivity.
  - replace (rank_v V (i + 1) v =? 0) with true by lia. rewrite wm_iter_items_ok by exact Hn. f_equal.
    rewrite select_iter_unfold, select_v_beyond by (unfold lenS, lenN; lia). reflexivity.
Qed.

Theorem wm_successor_ok i v : i < 2 ^ 64 ->
  (let* it := wm_successor m wm i v in vi_items sp m wm it) = Ok (succ_v V i v).
Proof.
  intros Hi. unfold wm_successor. rewrite wm_rank_ok by exact Hi. cbn [bind].
  pose proof (rank_v_le V i v). rewrite wm_iter_items_ok by lia. f_equal.
  unfold succ_v, select_iter_v, value_iter_v. rewrite (drop_below_sorted _ 0 i (occ_sorted V v)), occ_cnt. reflexivity.
Qed.

Lemma iter_collect_ok fuel i :
  lenN V - i < N.of_nat fuel -> i <= lenN V -> wm_iter_collect m wm fuel i = Ok (skipn (N.to_nat i) V).
Proof.
  revert i. induction fuel as [|k IH]; intros i Hf Hi; [lia|]. cbn [wm_iter_collect]. change (wm_len wm) with (lenN V).
  destruct (N.leb_spec (lenN V) i) as [Hge|Hlt].
  - rewrite skipn_all2 by (unfold lenN in *; lia). reflexivity.
  - rewrite wm_get_ok by lia. unfold get_v. destruct (nth_opt_lt_Some V i Hlt) as [x Hx]. rewrite Hx. cbn [bind].
    rewrite IH by lia. cbn [bind]. f_equal. rewrite nth_opt_nth_error in Hx. rewrite (skipn_nth _ _ _ Hx).
    replace (N.to_nat (i + 1)) with (S (N.to_nat i)) by lia. reflexivity.
Qed.

Theorem wm_into_iter_ok : wm_into_iter m wm = Ok V.
Proof. unfold wm_into_iter. rewrite iter_collect_ok; [reflexivity|change (wm_len wm) with (lenN V); lia|lia]. Qed.

Theorem wm_len_width_ok : wm_len wm = lenS V /\ wm_width wm = width.
Proof.
  split; [reflexivity|]. pose proof core_len_width as [_ H]. unfold wm_width. change (wm_data wm) with core. exact H.
Qed.


End Wide.

(* ---------------------------------------------------------------- summary statements *)

Theorem core_mapping_wide sp m V levels width :
  Forall (fun x => x < 2 ^ 64) V -> lenN V < 2 ^ 64 -> 1 <= width <= 64 -> Forall (fun x => x < 2 ^ width) V ->
  Forall2 (bv_queries_ok sp m) levels (level_columns (N.to_nat width) width 0 V) ->
  let core := mkcore levels in
  wc_len core = Ok (lenS V) /\ wc_width core = width /\
  (forall i, i < 2 ^ 64 -> wc_map_down m core i = Ok (map_down_v V i)) /\
  (forall i v, i < 2 ^ 64 -> wc_map_down_with m core i v = Ok (map_down_with_v V i (v mod 2 ^ width))) /\
  (forall i1 i2 v, i1 < 2 ^ 64 -> i2 < 2 ^ 64 ->
     wc_map_down_with_two m core i1 i2 v =
     Ok (map_down_with_v V i1 (v mod 2 ^ width), map_down_with_v V i2 (v mod 2 ^ width))) /\
  (forall j v, j < 2 ^ 64 -> wc_map_up_with sp m core j v = Ok (map_up_v V j (v mod 2 ^ width))) /\
  (forall i x, nth_opt V i = Some x ->
     exists j, j < lenS V /\ wc_map_down m core i = Ok (Some (j, x)) /\
               wc_map_down_with m core i x = Ok j /\ wc_map_up_with sp m core j x = Ok (Some i)).
Proof.
  intros HV Hn Hwd Hsmall Hlv core. assert (H12 : wc_len core = Ok (lenS V) /\ wc_width core = width) by (eapply core_len_width; eassumption). destruct H12 as [H1 H2].
  split; [exact H1|]. split; [exact H2|].
  split; [intros i Hi; eapply core_map_down; eassumption|].
  split; [intros i v Hi; eapply core_map_down_with; eassumption|].
  split; [intros i1 i2 v Hi1 Hi2; eapply core_map_down_two; eassumption|].
  split; [intros j v Hj; eapply core_map_up_with; eassumption|].
  intros i x Hx. assert (Hrt : exists j, wc_map_down m core i = Ok (Some (j, x)) /\ wc_map_down_with m core i x = Ok j /\ wc_map_up_with sp m core j x = Ok (Some i) /\ j < lenS V) by (eapply core_round_trip; eassumption). destruct Hrt as (j & Ha & Hb & Hc & Hd).
  exists j. tauto.
Qed.

Theorem wm_exact_wide sp m V levels width first F :
  Forall (fun x => x < 2 ^ 64) V -> lenN V < 2 ^ 64 -> list_max V + 1 < 2 ^ 64 ->
  1 <= width <= 64 -> Forall (fun x => x < 2 ^ width) V ->
  Forall2 (bv_queries_ok sp m) levels (level_columns (N.to_nat width) width 0 V) ->
  first_offsets m V (lenN V) (list_max V) = Ok F -> first_ok first F ->
  let wm := mkwm (lenN V) (mkcore levels) first in
  wm_len wm = lenS V /\ wm_width wm = width /\
  (forall i, i < 2 ^ 64 -> wm_get m wm i = match get_v V i with Some x => Ok x | None => Panic PUnwrap end) /\
  (forall i v, i < 2 ^ 64 -> wm_rank m wm i v = Ok (rank_v V i v)) /\
  (forall r v, r < 2 ^ 64 -> wm_select sp m wm r v = Ok (select_v V r v)) /\
  (forall i, i < 2 ^ 64 -> wm_inverse_select m wm i = Ok (inverse_select_v V i)) /\
  (forall v, wm_contains wm v = Ok (contains_v V v)) /\
  (forall v, vi_items sp m wm (wm_value_iter v) = Ok (value_iter_v V v) /\ wm_value_of (wm_value_iter v) = v) /\
  (forall r v, r < 2 ^ 64 -> vi_items sp m wm (wm_select_iter r v) = Ok (select_iter_v V r v)) /\
  (forall i v, i < 2 ^ 64 -> (let* it := wm_predecessor m wm i v in vi_items sp m wm it) = Ok (pred_v V i v)) /\
  (forall i v, i < 2 ^ 64 -> (let* it := wm_successor m wm i v in vi_items sp m wm it) = Ok (succ_v V i v)) /\
  wm_into_iter m wm = Ok V.
Proof.
  intros HV Hn Hmax Hwd Hsmall Hlv HF Hfirst wm. subst wm.
  assert (H12 : wm_len (mkwm (lenN V) (mkcore levels) first) = lenS V /\ wm_width (mkwm (lenN V) (mkcore levels) first) = width) by (eapply wm_len_width_ok; eassumption). destruct H12 as (H1 & H2).
  split; [exact H1|]. split; [exact H2|].
  split; [intros i Hi; eapply wm_get_ok; eassumption|].
  split; [intros i v Hi; eapply wm_rank_ok; eassumption|].
  split; [intros r v Hr; eapply wm_select_ok; eassumption|].
  split; [intros i Hi; eapply wm_inverse_select_ok; eassumption|].
  split; [intros v; eapply contains_ok; eassumption|].
  split; [intros v; split; [eapply wm_value_iter_ok; eassumption|reflexivity]|].
  split; [intros r v Hr; eapply wm_iter_items_ok; eassumption|].
  split; [intros i v Hi; eapply wm_predecessor_ok; eassumption|].
  split; [intros i v Hi; eapply wm_successor_ok; eassumption|].
  eapply wm_into_iter_ok; eassumption.
Qed.
