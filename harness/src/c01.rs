// C01: plain bitvector answers every rank/select/pred/succ query exactly.
use crate::bvgen::*;
use crate::common::*;
use simple_sds::bit_vector::rank_support::RankSupport;
use simple_sds::bit_vector::select_support::SelectSupport;
use simple_sds::bit_vector::{BitVector, Complement, Identity};
use simple_sds::ops::*;
use simple_sds::raw_vector::{PushRaw, RawVector};
use std::convert::TryFrom;
use std::fmt::Write;

const DBG: bool = cfg!(debug_assertions);
const PATH: u64 = if cfg!(all(target_arch = "x86_64", target_feature = "bmi2")) { 0 } else { 1 };

fn build_routes(bits: &[bool], sup: u64) -> (BitVector, bool) {
    // route 1: raw vector
    let mut raw = RawVector::with_capacity(bits.len());
    let mut left = bits.len();
    // pieces of varying width (so that most of them straddle a word boundary); the bits of the pushed value above
    // the width are garbage, which push_int must ignore
    let mut pos = 0usize;
    let mut salt = 0x9E37_79B9_7F4A_7C15u64 ^ (bits.len() as u64);
    while left > 0 {
        salt = salt.wrapping_mul(6364136223846793005).wrapping_add(1442695040888963407);
        let k = std::cmp::min(left, 1 + (salt >> 58) as usize + if salt & 1 == 0 { 0 } else { 1 });
        let k = std::cmp::min(k, 64);
        let mut v = 0u64;
        for j in 0..k {
            if bits[pos + j] {
                v |= 1u64 << j;
            }
        }
        if k < 64 {
            v |= (salt | 1) << k;
        }
        unsafe { raw.push_int(v, k); }
        pos += k;
        left -= k;
    }
    let mut a = BitVector::from(raw);
    // route 2: bool iterator
    let mut b: BitVector = bits.iter().cloned().collect();
    // route 3: conversion - directly, or through a sparse vector, a multiset with every position twice, or a
    // run-length vector (whatever the source caches, the result must describe its own bits)
    let mut c = match bits.len() % 4 {
        0 => BitVector::copy_bit_vec(&a),
        1 => BitVector::from(simple_sds::sparse_vector::SparseVector::copy_bit_vec(&a)),
        2 => {
            let pos: Vec<usize> = (0..bits.len()).filter(|i| bits[*i]).collect();
            let mut sb = simple_sds::sparse_vector::SparseBuilder::multiset(bits.len(), 2 * pos.len());
            for p in pos.iter() {
                sb.set(*p);
                sb.set(*p);
            }
            BitVector::copy_bit_vec(&simple_sds::sparse_vector::SparseVector::try_from(sb).unwrap())
        }
        _ => BitVector::from(simple_sds::rl_vector::RLVector::copy_bit_vec(&a)),
    };
    let mut same = a == b && a == c && serialize_elems(&a) == serialize_elems(&b) && serialize_elems(&a) == serialize_elems(&c);
    // the supports are enabled in a different order on each route (rank, select, select_zero / the reverse / a
    // rotation that depends on the length); the results must be equal whatever the order
    let orders: [[u64; 3]; 3] = [[1, 2, 4], [4, 2, 1], [[2, 4, 1], [4, 1, 2], [2, 1, 4]][bits.len() % 3]];
    let mut vs = [&mut a, &mut b, &mut c];
    for (i, v) in vs.iter_mut().enumerate() {
        for s in orders[i].iter() {
            if sup & *s == 0 {
                continue;
            }
            match *s {
                1 => v.enable_rank(),
                2 => v.enable_select(),
                _ => v.enable_select_zero(),
            }
        }
    }
    same = same && a.supports_rank() == (sup & 1 != 0) && a.supports_select() == (sup & 2 != 0) && a.supports_select_zero() == (sup & 4 != 0)
        && b.supports_select() == (sup & 2 != 0) && c.supports_select() == (sup & 2 != 0)
        && b.supports_select_zero() == (sup & 4 != 0) && c.supports_select_zero() == (sup & 4 != 0);
    same = same && a == b && a == c && serialize_elems(&a) == serialize_elems(&b) && serialize_elems(&a) == serialize_elems(&c);
    (a, same)
}

fn emit(out: &mut Out, kind: &str, bits: &[bool], all_queries: bool, nq: usize, rng: &mut Rng, sup: u64) {
    // the implementation must answer every query; a panic anywhere is reported as a crashing case
    let mut rng2 = rng.clone();
    rng.next();
    let r = catch(|| {
        let mut tmp = Out::collector("C01");
        emit_inner(&mut tmp, kind, bits, all_queries, nq, &mut rng2, sup);
        tmp
    });
    match r {
        Res::Ok(tmp) => out.absorb(tmp),
        Res::Panic(k, msg) => {
            let words = to_words(bits);
            out.case("crash", format!("CCrash {} {} {}", bits.len(), nlist(&words), k),
                format!("{{\"len\":{},\"kind\":\"{}\",\"panic\":{:?},\"sup\":{},\"words\":{:?}}}", bits.len(), kind, msg, sup, if words.len() <= 64 { words.clone() } else { words[..64].to_vec() }), true);
        }
    }
}

fn emit_inner(out: &mut Out, kind: &str, bits: &[bool], all_queries: bool, nq: usize, rng: &mut Rng, sup: u64) {
    let len = bits.len();
    let (bv, same) = build_routes(bits, sup);
    let ser = serialize_elems(&bv);
    let ones = bv.count_ones();
    let zeros = bv.count_zeros();
    let mut q = String::from("[");
    let mut first = true;
    let mut push = |s: String, q: &mut String| {
        if !first {
            q.push_str("; ");
        }
        first = false;
        q.push_str(&s);
    };
    let mut idxs: Vec<usize> = Vec::new();
    let mut ranks: Vec<usize> = Vec::new();
    let mut zranks: Vec<usize> = Vec::new();
    if all_queries {
        idxs.extend(0..=len + 1);
        ranks.extend(0..=ones + 1);
        zranks.extend(0..=zeros + 1);
    } else {
        for _ in 0..nq {
            idxs.push(rng.below(len as u64 + 1) as usize);
            if ones > 0 {
                ranks.push(rng.below(ones as u64) as usize);
            }
            if zeros > 0 {
                zranks.push(rng.below(zeros as u64) as usize);
            }
        }
        for base in [0usize, 63, 64, 511, 512, 4095, 4096, 8191, 8192] {
            for d in [0usize, 1, 2] {
                idxs.push(std::cmp::min(len, base + d));
                if ones > 0 {
                    ranks.push(std::cmp::min(ones - 1, base + d));
                }
                if zeros > 0 {
                    zranks.push(std::cmp::min(zeros - 1, base + d));
                }
            }
        }
        ranks.push(ones.saturating_sub(1));
        zranks.push(zeros.saturating_sub(1));
    }
    idxs.extend(extremes(len));
    ranks.extend(extremes(ones));
    zranks.extend(extremes(zeros));
    // the public support objects themselves (the checked RankSupport::rank / SelectSupport::select, which BitVector
    // does not call): same answers inside their documented domain
    let rs = if sup & 1 != 0 { Some(RankSupport::new(&bv)) } else { None };
    let ss1 = if sup & 2 != 0 { Some(SelectSupport::<Identity>::new(&bv)) } else { None };
    let ss0 = if sup & 4 != 0 { Some(SelectSupport::<Complement>::new(&bv)) } else { None };
    for i in idxs.iter() {
        if *i < len {
            push(format!("QGet {} {}", i, b(bv.get(*i))), &mut q);
            if let Some(rs) = rs.as_ref() {
                push(format!("QRank {} {}", i, rs.rank(&bv, *i)), &mut q);
                out.stat("c01.q.rank_support_object");
            }
        }
        if sup & 1 != 0 {
            push(format!("QRank {} {}", i, bv.rank(*i)), &mut q);
            if *i <= len {
                push(format!("QRank0 {} {}", i, bv.rank_zero(*i)), &mut q);
            }
        }
        if sup & 3 == 3 {
            push(format!("QPred {} {}", i, opt(&bv.predecessor(*i).next(), |p| format!("({}, {})", p.0, p.1))), &mut q);
            push(format!("QSucc {} {}", i, opt(&bv.successor(*i).next(), |p| format!("({}, {})", p.0, p.1))), &mut q);
        }
    }
    if sup & 2 != 0 {
        for r in ranks.iter() {
            push(format!("QSel {} {}", r, opt(&bv.select(*r), |p| nu(*p))), &mut q);
            if *r < ones {
                push(format!("QSel {} (Some {})", r, nu(ss1.as_ref().unwrap().select(&bv, *r))), &mut q);
                out.stat("c01.q.select_support_object");
            }
        }
    }
    if sup & 4 != 0 {
        for r in zranks.iter() {
            push(format!("QSel0 {} {}", r, opt(&bv.select_zero(*r), |p| nu(*p))), &mut q);
            if *r < zeros {
                push(format!("QSel0 {} (Some {})", r, nu(ss0.as_ref().unwrap().select(&bv, *r))), &mut q);
                out.stat("c01.q.select_zero_support_object");
            }
        }
    }
    q.push(']');
    // which regimes did the select supports use? (long superblocks are the branch the tests never reach)
    let words = to_words(bits);
    let mut term = String::new();
    let _ = write!(term, "CBV {} {} {} {} {} {} {} {} {} {} {}", PATH, b(DBG), sup, len, nlist(&words), nlist(&ser), b(same), bv.len(), ones, zeros, q);
    let nontrivial = len > 0;
    out.stat(&format!("c01.{}", kind));
    out.case(kind, term, format!("{{\"len\":{},\"ones\":{},\"kind\":\"{}\",\"words\":{:?}}}", len, ones, kind, if words.len() <= 64 { words.clone() } else { words[..64].to_vec() }), nontrivial);
}

pub fn run(rng: &mut Rng, out: &mut Out, thorough: bool, variant: &str) {
    // the expensive long-superblock vectors run on one build in the quick tier
    let full = thorough || variant == "native_dev";
    // exhaustive small scope
    let max_small = if thorough { 10 } else { 7 };
    for len in 0..=max_small {
        for pat in 0..(1u32 << len) {
            let bits: Vec<bool> = (0..len).map(|i| (pat >> i) & 1 == 1).collect();
            emit(out, "exhaustive", &bits, true, 0, rng, 7);
        }
    }
    // boundary lengths x styles
    let reps = if thorough { 6 } else { 1 };
    for len in BOUNDARY_LENS.iter() {
        for _ in 0..reps {
            let style = pick_style(rng);
            let bits = gen_bits(rng, *len, style);
            let all = *len <= 600;
            emit(out, "boundary", &bits, all, 60, rng, 7);
        }
    }
    // random lengths
    for _ in 0..(if thorough { 300 } else { 40 }) {
        let len = match rng.below(4) {
            0 => rng.below(200),
            1 => rng.below(2000),
            2 => rng.below(20000),
            _ => 4000 + rng.below(9000),
        } as usize;
        let style = pick_style(rng);
        let bits = gen_bits(rng, len, style);
        emit(out, "random", &bits, len <= 300, 50, rng, 7);
    }
    // long superblocks: span >= bit_len(len)^4 needs len >= 83521 (17^4). To keep the Coq evaluation cheap the
    // support on the populous side is not enabled: sparse ones -> rank + select, sparse zeros -> rank + select_zero.
    let long_lens: Vec<usize> = if !full { vec![83521] } else if thorough { vec![83520, 83521, 83522, 100_000, 131_071, 131_072, 200_000, 262_143, 400_000] } else { vec![83521, 131_072] };
    let nq = if thorough { 300 } else { 50 };
    for len in long_lens {
        // few ones spread out: the single (partial) superblock is long
        let mut v = vec![false; len];
        for _ in 0..(5 + rng.below(40)) {
            v[rng.below(len as u64) as usize] = true;
        }
        v[len - 1] = true;
        emit(out, "long", &v, false, nq, rng, 3);
        // few zeros in a sea of ones: long superblock for select_zero
        let mut v = vec![true; len];
        for _ in 0..(5 + rng.below(40)) {
            v[rng.below(len as u64) as usize] = false;
        }
        emit(out, "long", &v, false, nq, rng, 5);
        // a full long superblock followed by a short partial one
        emit(out, "long", &gen_bits(rng, len, Style::Sparse(40)), false, nq, rng, 3);
        if thorough {
            emit(out, "long", &gen_bits(rng, len, Style::Dense(40)), false, nq, rng, 5);
            // a dense prefix then a sparse tail: short superblocks then long ones, all supports
            let mut v = gen_bits(rng, len, Style::Sparse(60));
            for i in 0..20000 {
                v[i] = rng.below(2) == 0;
            }
            emit(out, "long", &v, false, nq, rng, 7);
        }
    }
    // several long superblocks in one vector (pointer arithmetic into the `long` array beyond the first one):
    // 4096 ones must span >= 18^4 = 104976 positions, i.e. density below 1/25.6 at lengths 131072..262143
    // block samples of SHORT superblocks that need more than 17 bits: len >= 2^19 with a superblock spanning
    // close to bit_len(len)^4 positions (heavy for the Coq model: thorough tier, or when the code of the
    // anchor files changed - check.py then sets VERIF_ESCALATED)
    let heavy = thorough || std::env::var("VERIF_ESCALATED").is_ok();
    if heavy && full {
        emit(out, "long3", &gen_bits(rng, 600_000, Style::Sparse(36)), false, nq, rng, 3);
        emit(out, "long3", &gen_bits(rng, 600_000, Style::Dense(36)), false, nq, rng, 5);
    }
    let long2: Vec<(usize, u64)> = if thorough { vec![(250_000, 30), (262_143, 27)] } else if full { vec![(215_000, 26)] } else { vec![] };
    for (len, k) in long2 {
        emit(out, "long2", &gen_bits(rng, len, Style::Sparse(k)), false, nq, rng, 3);
        emit(out, "long2", &gen_bits(rng, len, Style::Dense(k)), false, nq, rng, 5);
    }
}
