// C03: run-length vector built through the RLBuilder API; runs, serialized elements and every query.
use crate::bvgen::serialize_elems;
use crate::common::*;
use simple_sds::int_vector::IntVector;
use simple_sds::ops::*;
use simple_sds::rl_vector::{RLBuilder, RLVector};
use simple_sds::serialize::Serialize;
use std::fmt::Write;

const DBG: bool = cfg!(debug_assertions);
const MAX: usize = usize::MAX;

#[derive(Clone, Debug)]
enum Op {
    TrySet(usize, usize),
    SetLen(usize),
    SetBit(usize),
}

fn op_term(o: &Op) -> String {
    match o {
        Op::TrySet(s, l) => format!("STrySet {} {}", s, l),
        Op::SetLen(l) => format!("SSetLen {}", l),
        Op::SetBit(i) => format!("SSetBit {}", i),
    }
}
fn op_json(o: &Op) -> String {
    match o {
        Op::TrySet(s, l) => format!("[\"try_set\",{},{}]", s, l),
        Op::SetLen(l) => format!("[\"set_len\",{}]", l),
        Op::SetBit(i) => format!("[\"set_bit\",{}]", i),
    }
}

fn construct(ops: &[Op]) -> Res<(Vec<bool>, RLVector)> {
    catch(|| {
        let mut b = RLBuilder::new();
        let mut oks = Vec::new();
        for op in ops {
            match op {
                Op::TrySet(s, l) => oks.push(b.try_set(*s, *l).is_ok()),
                Op::SetLen(l) => {
                    b.set_len(*l);
                    oks.push(true)
                }
                Op::SetBit(i) => {
                    unsafe { b.set_bit_unchecked(*i) };
                    oks.push(true)
                }
            }
        }
        (oks, RLVector::from(b))
    })
}

fn list<T, F: Fn(&T) -> String>(xs: &[T], f: F) -> String {
    let mut s = String::from("[");
    for (i, x) in xs.iter().enumerate() {
        if i > 0 {
            s.push_str("; ");
        }
        s.push_str(&f(x));
    }
    s.push(']');
    s
}
fn pp(p: &(usize, usize)) -> String {
    format!("({}, {})", p.0, p.1)
}
fn opair(x: &Option<(usize, usize)>) -> String {
    opt(x, pp)
}
fn items_n(x: &(Vec<(usize, usize)>, usize)) -> String {
    format!("({}, {})", plist(&x.0), x.1)
}
fn bits_n(x: &(Vec<bool>, usize)) -> String {
    format!("({}, {})", blist(&x.0), x.1)
}

// how much to ask
#[derive(Clone, Copy)]
struct Plan {
    all_args: bool,   // every argument 0..=len+1 (small vectors)
    max_runs: usize,  // number of runs whose boundaries become arguments
    iter_n: usize,    // items taken from one_iter / zero_iter / iter
    sel_iter_n: usize, // items taken from select_iter / select_zero_iter
}

fn push_sorted(v: &mut Vec<usize>) {
    v.sort();
    v.dedup();
}

fn emit(out: &mut Out, kind: &str, ops: &[Op], plan: Plan, rng: &mut Rng) {
    let ops_t = list(ops, op_term);
    let ops_j = list(ops, op_json).replace("; ", ",");
    let built = construct(ops);
    let (oks, v) = match built {
        Res::Panic(k, msg) => {
            out.stat("c03.construct_panic");
            out.case(kind, format!("CRL {} {} (IPanic {}) 0 0 0 [] [] []", b(DBG), ops_t, k),
                format!("{{\"kind\":\"{}\",\"ops\":{},\"construct_panic\":{:?}}}", kind, ops_j, msg), true);
            return;
        }
        Res::Ok(x) => x,
    };
    let len = v.len();
    let ones = v.count_ones();
    let zeros = v.count_zeros();
    // runs with (offset, rank) after each item
    let runs: Res<Vec<((usize, usize), (usize, usize))>> = catch(|| {
        let mut it = v.run_iter();
        let mut r = Vec::new();
        while let Some(run) = it.next() {
            r.push((run, (it.offset(), it.rank())));
            if r.len() > 1_000_000 {
                panic!("run_iter does not terminate");
            }
        }
        r
    });
    let runs = match runs {
        Res::Ok(r) => r,
        Res::Panic(k, msg) => {
            out.stat("c03.run_iter_panic");
            out.case(kind, format!("CRL {} {} (IPanic {}) 0 0 0 [] [] []", b(DBG), ops_t, k),
                format!("{{\"kind\":\"{}\",\"ops\":{},\"run_iter_panic\":{:?}}}", kind, ops_j, msg), true);
            return;
        }
    };
    let ser = serialize_elems(&v);
    // block boundaries from the serialized samples
    let mut buf: Vec<u8> = Vec::new();
    v.serialize(&mut buf).unwrap();
    let samples = IntVector::load(&mut &buf[16..]).unwrap();
    let blocks = samples.len() / 2;
    out.stat(&format!("c03.blocks.{}", match blocks { 0 => "0", 1 => "1", 2..=7 => "2-7", 8 => "8", 9 => "9", 10..=63 => "10-63", _ => "64+" }));
    out.stat(&format!("c03.runs.{}", match runs.len() { 0 => "0", 1 => "1", 2..=9 => "2-9", 10..=99 => "10-99", _ => "100+" }));
    if len > (1usize << 63) {
        out.stat("c03.len_above_2^63");
    }
    if len == MAX {
        out.stat("c03.len_max");
    }
    if runs.first().map(|r| (r.0).0 == 0).unwrap_or(false) {
        out.stat("c03.run_at_0");
    }
    if runs.last().map(|r| (r.1).0 < len).unwrap_or(len > 0) {
        out.stat("c03.trailing_zeros");
    }

    // ---- arguments
    let mut pos_args: Vec<usize> = vec![0, 1, len.wrapping_sub(1), len, len.wrapping_add(1), 1usize << 63, MAX - 1, MAX];
    let mut rank_args: Vec<usize> = vec![0, 1, ones.wrapping_sub(1), ones, ones.wrapping_add(1), 1usize << 63, MAX - 1, MAX];
    let mut zrank_args: Vec<usize> = vec![0, 1, zeros.wrapping_sub(1), zeros, zeros.wrapping_add(1), 1usize << 63, MAX - 1, MAX];
    if plan.all_args {
        pos_args.extend(0..=len.saturating_add(1).min(64));
        rank_args.extend(0..=ones.saturating_add(1).min(64));
        zrank_args.extend(0..=zeros.saturating_add(1).min(64));
    }
    // runs whose boundaries are used
    let mut chosen: Vec<usize> = Vec::new();
    if runs.len() <= plan.max_runs {
        chosen.extend(0..runs.len());
    } else {
        for i in 0..3 {
            chosen.push(i);
            chosen.push(runs.len() - 1 - i);
        }
        // first run of a block and the run before it: cumulative ones before the run equals a sample
        let mut starts: Vec<usize> = Vec::new();
        let mut bi = 1;
        for (i, r) in runs.iter().enumerate() {
            if bi >= blocks {
                break;
            }
            let before = (r.1).1 - (r.0).1;
            if before == samples.get(2 * bi) as usize {
                starts.push(i);
                bi += 1;
            }
        }
        while starts.len() > plan.max_runs / 3 {
            let k = rng.below(starts.len() as u64) as usize;
            starts.swap_remove(k);
        }
        for i in starts {
            chosen.push(i);
            if i > 0 {
                chosen.push(i - 1);
            }
        }
        while chosen.len() < plan.max_runs {
            chosen.push(rng.below(runs.len() as u64) as usize);
        }
    }
    push_sorted(&mut chosen);
    for i in chosen.iter() {
        let ((s, l), (e, r1)) = runs[*i];
        let r0 = r1 - l;
        for p in [s.wrapping_sub(1), s, s.wrapping_add(1), e.wrapping_sub(1), e, e.wrapping_add(1)] {
            pos_args.push(p);
        }
        for r in [r0.wrapping_sub(1), r0, r0.wrapping_add(1), r1.wrapping_sub(1), r1] {
            rank_args.push(r);
        }
        let z0 = s - r0; // zeros before the run
        for z in [z0.wrapping_sub(1), z0, z0.wrapping_add(1)] {
            zrank_args.push(z);
        }
    }
    // sample values themselves (block boundaries in all three coordinates)
    let mut bsel: Vec<usize> = (0..blocks).collect();
    while bsel.len() > 12 {
        let k = rng.below(bsel.len() as u64) as usize;
        bsel.swap_remove(k);
    }
    for bl in bsel {
        let o = samples.get(2 * bl) as usize;
        let bt = samples.get(2 * bl + 1) as usize;
        for d in [0usize, 1] {
            pos_args.push(bt.wrapping_sub(d));
            rank_args.push(o.wrapping_sub(d));
            zrank_args.push((bt - o).wrapping_sub(d));
        }
        pos_args.push(bt.wrapping_add(1));
    }
    push_sorted(&mut pos_args);
    push_sorted(&mut rank_args);
    push_sorted(&mut zrank_args);

    // ---- queries
    let mut qs: Vec<String> = Vec::new();
    let mut panics = 0u64;
    let mut note = |r: bool| {
        if r {
            panics += 1;
        }
    };
    fn is_panic<T>(r: &Res<T>) -> bool {
        matches!(r, Res::Panic(_, _))
    }
    for p in pos_args.iter() {
        let p = *p;
        if p < len {
            let r = catch(|| v.get(p));
            note(is_panic(&r));
            qs.push(format!("QGet {} {}", p, ires(&r, |x| b(*x))));
        }
        let r = catch(|| v.rank(p));
        note(is_panic(&r));
        qs.push(format!("QRank {} {}", p, ires(&r, |x| nu(*x))));
        if p <= len {
            let r = catch(|| v.rank_zero(p));
            note(is_panic(&r));
            qs.push(format!("QRank0 {} {}", p, ires(&r, |x| nu(*x))));
        }
        let r = catch(|| v.predecessor(p).next());
        note(is_panic(&r));
        qs.push(format!("QPred {} {}", p, ires(&r, opair)));
        let r = catch(|| v.successor(p).next());
        note(is_panic(&r));
        qs.push(format!("QSucc {} {}", p, ires(&r, opair)));
    }
    let n_si = plan.sel_iter_n;
    for (k, r0) in rank_args.iter().enumerate() {
        let r0 = *r0;
        let r = catch(|| v.select(r0));
        note(is_panic(&r));
        qs.push(format!("QSel {} {}", r0, ires(&r, |x| opt(x, |p| nu(*p)))));
        if plan.all_args || k % 3 == 0 || r0 >= ones.saturating_sub(2) {
            let r = catch(|| {
                let mut it = v.select_iter(r0);
                let mut l = Vec::new();
                for _ in 0..n_si {
                    match it.next() {
                        Some(x) => l.push(x),
                        None => break,
                    }
                }
                (l, it.size_hint().0)
            });
            note(is_panic(&r));
            qs.push(format!("QSelIter {} {} {}", r0, n_si, ires(&r, items_n)));
        }
    }
    for (k, r0) in zrank_args.iter().enumerate() {
        let r0 = *r0;
        let r = catch(|| v.select_zero(r0));
        note(is_panic(&r));
        qs.push(format!("QSel0 {} {}", r0, ires(&r, |x| opt(x, |p| nu(*p)))));
        if plan.all_args || k % 3 == 0 || r0 >= zeros.saturating_sub(2) {
            let r = catch(|| {
                let mut it = v.select_zero_iter(r0);
                let mut l = Vec::new();
                for _ in 0..n_si {
                    match it.next() {
                        Some(x) => l.push(x),
                        None => break,
                    }
                }
                (l, it.size_hint().0)
            });
            note(is_panic(&r));
            qs.push(format!("QSel0Iter {} {} {}", r0, n_si, ires(&r, items_n)));
        }
    }
    let n_it = plan.iter_n;
    let r = catch(|| {
        let mut it = v.one_iter();
        let mut l = Vec::new();
        for _ in 0..n_it {
            match it.next() {
                Some(x) => l.push(x),
                None => break,
            }
        }
        (l, it.size_hint().0)
    });
    note(is_panic(&r));
    qs.push(format!("QOneIter {} {}", n_it, ires(&r, items_n)));
    let r = catch(|| {
        let mut it = v.zero_iter();
        let mut l = Vec::new();
        for _ in 0..n_it {
            match it.next() {
                Some(x) => l.push(x),
                None => break,
            }
        }
        (l, it.size_hint().0)
    });
    note(is_panic(&r));
    qs.push(format!("QZeroIter {} {}", n_it, ires(&r, items_n)));
    let r = catch(|| {
        let mut it = v.iter();
        let mut l = Vec::new();
        for _ in 0..n_it {
            match it.next() {
                Some(x) => l.push(x),
                None => break,
            }
        }
        (l, it.size_hint().0)
    });
    note(is_panic(&r));
    qs.push(format!("QIter {} {}", n_it, ires(&r, bits_n)));
    if panics > 0 {
        out.stat_n("c03.query_panics", panics);
    }
    out.stat_n("c03.queries", qs.len() as u64);

    let mut term = String::new();
    let _ = write!(term, "CRL {} {} (IOk {}) {} {} {} {} {} [{}]", b(DBG), ops_t, blist(&oks), len, ones, zeros,
        list(&runs, |r| format!("({}, {}, ({}, {}))", (r.0).0, (r.0).1, (r.1).0, (r.1).1)), nlist(&ser), qs.join("; "));
    let short_ops = if ops.len() <= 64 { ops_j.clone() } else { format!("\"{} calls\"", ops.len()) };
    out.stat(&format!("c03.{}", kind));
    out.case(kind, term, format!("{{\"kind\":\"{}\",\"len\":{},\"ones\":{},\"runs\":{},\"blocks\":{},\"ops\":{}}}", kind, len, ones, runs.len(), blocks, short_ops), len > 0);
}

// ---------------------------------------------------------------- generators

fn code_len(v: usize) -> usize {
    let bl = 64 - ((v as u64) | 1).leading_zeros() as usize;
    (bl + 2) / 3
}

const SMALL: [usize; 8] = [1, 2, 7, 8, 9, 63, 64, 65];

#[derive(Clone, Copy, PartialEq)]
enum Profile {
    Tiny,   // 1..=7: two code units per run, 32 runs per block
    Small,  // the SMALL pool
    Medium, // 2^k-1, 2^k, 2^k+1, k = 3..=20
    Big,    // k = 20..=44: blocks are closed early
    Huge,   // k up to 63 while the length allows
    Mix,
}

fn value(rng: &mut Rng, p: Profile, budget: usize) -> usize {
    let pow = |rng: &mut Rng, lo: u64, hi: u64| -> usize {
        let k = rng.range(lo, hi);
        let base = 1usize << k;
        match rng.below(3) {
            0 => base - 1,
            1 => base,
            _ => base.wrapping_add(1),
        }
    };
    let v = match p {
        Profile::Tiny => rng.range(1, 7) as usize,
        Profile::Small => *rng.pick(&SMALL),
        Profile::Medium => pow(rng, 3, 20),
        Profile::Big => pow(rng, 20, 44),
        Profile::Huge => pow(rng, 40, 63),
        Profile::Mix => match rng.below(6) {
            0 => rng.range(1, 7) as usize,
            1 => *rng.pick(&SMALL),
            2 => pow(rng, 3, 20),
            3 => pow(rng, 20, 44),
            4 => pow(rng, 3, 63),
            _ => rng.range(1, 300) as usize,
        },
    };
    if v == 0 || v > budget {
        // fall back to something that fits
        if budget == 0 {
            0
        } else {
            1 + (rng.below(7) as usize).min(budget - 1)
        }
    } else {
        v
    }
}

// a history of valid calls producing about `target_blocks` blocks; returns the calls and the final length
struct GenOpts {
    profile: Profile,
    target_blocks: usize,
    run_at_0: bool,
    adjacent_pct: u64,    // chance (in %) to split a run into two adjacent try_set calls
    noise: bool,          // rejected calls, empty runs, set_len in the middle
    trailing: u64,        // 0 = none, 1 = small, 2 = up to MAX, 3 = exactly MAX
}

fn gen_history(rng: &mut Rng, o: &GenOpts) -> Vec<Op> {
    let mut ops: Vec<Op> = Vec::new();
    let mut pos: usize = 0; // current length
    let mut blocks = 0usize;
    let mut units = 0usize;
    let mut first = true;
    let mut guard = 0;
    while blocks < o.target_blocks || (blocks == o.target_blocks && units < 40 && rng.chance(9, 10)) {
        guard += 1;
        if guard > 40_000 {
            break;
        }
        let budget = MAX - pos;
        if budget < 4 {
            break;
        }
        let gap = if first && o.run_at_0 { 0 } else { value(rng, o.profile, budget / 2) };
        let len = value(rng, o.profile, budget - gap - 1);
        if len == 0 || (gap == 0 && !first) {
            break;
        }
        let need = code_len(gap) + code_len(len - 1);
        if blocks == 0 || units + need > 64 {
            blocks += 1;
            units = need;
        } else {
            units += need;
        }
        if blocks > o.target_blocks && o.target_blocks > 0 {
            // do not start another block
            break;
        }
        let start = pos + gap;
        if o.noise && rng.chance(1, 6) {
            match rng.below(5) {
                0 => if pos > 0 { ops.push(Op::TrySet(rng.below(pos as u64) as usize, 1 + rng.below(5) as usize)) },
                1 => ops.push(Op::TrySet(if rng.chance(1, 2) { start } else { start.saturating_add(len).saturating_add(1 + rng.below(40) as usize) }, 0)),
                2 => ops.push(Op::TrySet(MAX - rng.below(3) as usize, 4)),
                3 => ops.push(Op::SetLen(rng.below(pos as u64 + 1) as usize)),
                _ => if gap > 0 { ops.push(Op::SetLen(start)) },   // then the run starts exactly at the new length
            }
        }
        if len >= 2 && rng.below(100) < o.adjacent_pct {
            let l1 = 1 + rng.below(len as u64 - 1) as usize;
            ops.push(Op::TrySet(start, l1));
            if o.noise && rng.chance(1, 3) {
                // between two adjacent pieces: set_len with exactly the current length (documented: no effect)
                ops.push(Op::SetLen(start + l1));
            }
            if len - l1 >= 2 && rng.chance(1, 3) {
                ops.push(Op::TrySet(start + l1, 1));
                ops.push(Op::TrySet(start + l1 + 1, len - l1 - 1));
            } else {
                ops.push(Op::TrySet(start + l1, len - l1));
            }
        } else if len <= 3 && rng.chance(1, 4) {
            for i in 0..len {
                ops.push(Op::SetBit(start + i));
            }
        } else {
            ops.push(Op::TrySet(start, len));
        }
        pos = start + len;
        first = false;
        if o.target_blocks == 0 {
            break;
        }
    }
    match o.trailing {
        0 => {}
        1 => ops.push(Op::SetLen(pos.saturating_add(*rng.pick(&SMALL)))),
        2 => {
            let extra = value(rng, Profile::Mix, MAX - pos);
            ops.push(Op::SetLen(pos + extra));
        }
        _ => ops.push(Op::SetLen(MAX)),
    }
    ops
}

fn ops_of_bits(bits: &[bool], bit_by_bit: bool) -> Vec<Op> {
    let mut ops = Vec::new();
    let mut i = 0;
    while i < bits.len() {
        if bits[i] {
            let mut j = i;
            while j < bits.len() && bits[j] {
                j += 1;
            }
            if bit_by_bit {
                for k in i..j {
                    ops.push(Op::SetBit(k));
                }
            } else {
                ops.push(Op::TrySet(i, j - i));
            }
            i = j;
        } else {
            i += 1;
        }
    }
    ops.push(Op::SetLen(bits.len()));
    ops
}

pub fn run(rng: &mut Rng, out: &mut Out, thorough: bool) {
    let small = Plan { all_args: true, max_runs: 40, iter_n: 12, sel_iter_n: 4 };
    let light = Plan { all_args: false, max_runs: 3, iter_n: 12, sel_iter_n: 2 };
    let normal = Plan { all_args: false, max_runs: 24, iter_n: 50, sel_iter_n: 5 };
    let large = Plan { all_args: false, max_runs: 30, iter_n: 50, sel_iter_n: 3 };

    // ---- exhaustive small scope: every bit sequence of length <= 9 (quick: <= 8 + a sample of 9), as maximal runs and bit by bit
    let max_small = if thorough { 10 } else { 9 };
    for len in 0..=max_small {
        for pat in 0..(1u32 << len) {
            if !thorough && len == 9 && pat % 8 != 1 {
                continue;
            }
            if !thorough && len == 8 && pat % 2 != 1 {
                continue;
            }
            if thorough && len == 10 && pat % 4 != 3 {
                continue;
            }
            let bits: Vec<bool> = (0..len).map(|i| (pat >> i) & 1 == 1).collect();
            emit(out, "exhaustive", &ops_of_bits(&bits, false), small, rng);
            if len <= 7 || (thorough && len <= 8) {
                emit(out, "exhaustive_bits", &ops_of_bits(&bits, true), light, rng);
            }
        }
    }

    // ---- fixed histories: degenerate ones, the documentation example, the former defects as regression inputs
    let p63 = 1usize << 63;
    let p60 = 1usize << 60;
    let mut fixed: Vec<Vec<Op>> = vec![
        vec![],
        vec![Op::SetLen(1)],
        vec![Op::SetLen(MAX)],
        vec![Op::TrySet(0, 1)],
        vec![Op::TrySet(0, MAX)],
        vec![Op::TrySet(MAX - 1, 1)],
        vec![Op::TrySet(MAX - 1, 1), Op::SetLen(MAX)],
        vec![Op::TrySet(MAX, 0)],
        vec![Op::TrySet(MAX, 1)],
        vec![Op::TrySet(1, MAX)],
        vec![Op::TrySet(1, MAX - 1)],
        vec![Op::TrySet(5, 3), Op::SetLen(MAX)],                       // F8a
        vec![Op::TrySet(5, 3), Op::SetLen(MAX - 1)],
        vec![Op::SetLen(10), Op::TrySet(10, 5)],                       // F5
        vec![Op::TrySet(2, 3), Op::SetLen(10), Op::TrySet(10, 5)],     // F5
        vec![Op::TrySet(2, 3), Op::SetLen(4), Op::TrySet(5, 5)],
        vec![Op::TrySet(18, 22), Op::TrySet(95, 15), Op::TrySet(110, 10), Op::TrySet(100, 1), Op::TrySet(140, 12), Op::SetLen(200)],
        vec![Op::TrySet(0, p63 + 1), Op::TrySet(p63 + 1 + p60, p60 + 1)],
        vec![Op::TrySet(0, p63 + 1), Op::TrySet(p63 + 1 + p60, p60 + 1), Op::SetLen(MAX)],
        vec![Op::TrySet(p63, p63 - 1)],
        vec![Op::TrySet(p63 + 5, 7), Op::SetLen(MAX)],
    ];
    // F8b: two blocks with 0 zeros before them, followed by >= 8 (and exactly 7, 6) more blocks of small runs
    for more_blocks in [6usize, 7, 8, 9, 16] {
        let mut ops = vec![Op::TrySet(0, p63 + 1), Op::TrySet(p63 + 1 + p60, p60 + 1)];
        let mut pos = p63 + 1 + p60 + p60 + 1;
        for _ in 0..(32 * more_blocks) {
            let gap = 1 + rng.below(7) as usize;
            let len = 1 + rng.below(7) as usize;
            ops.push(Op::TrySet(pos + gap, len));
            pos += gap + len;
        }
        if more_blocks % 2 == 0 {
            ops.push(Op::SetLen(MAX));
        }
        fixed.push(ops);
    }
    // every code length 1..22 for the gap and for the length
    for k in 0..=63u32 {
        let g = 1usize << k;
        if k <= 62 {
            fixed.push(vec![Op::TrySet(g, g + 1)]);
            fixed.push(vec![Op::TrySet(g - 1, g), Op::SetLen((g - 1 + g).saturating_add(g))]);
        } else {
            fixed.push(vec![Op::TrySet(g, g - 1)]);
            fixed.push(vec![Op::TrySet(g - 1, g)]);
        }
        // two runs of that size when they fit, then small ones
        if k <= 61 {
            fixed.push(vec![Op::TrySet(g, g), Op::TrySet(3 * g, g), Op::TrySet(4 * g + 1, 1), Op::SetLen(4 * g + 3)]);
        }
    }
    for ops in fixed.iter() {
        emit(out, "fixed", ops, normal, rng);
    }

    // ---- generated histories by number of blocks and value profile
    let reps = if thorough { 4 } else { 1 };
    let block_targets: Vec<usize> = vec![0, 1, 2, 7, 8, 9, 10, 16, 17];
    let profiles = [Profile::Tiny, Profile::Small, Profile::Medium, Profile::Big, Profile::Huge, Profile::Mix];
    for _ in 0..reps {
        for tb in block_targets.iter() {
            for p in profiles.iter() {
                if *p == Profile::Huge && *tb > 2 {
                    continue;
                }
                let o = GenOpts {
                    profile: *p,
                    target_blocks: *tb,
                    run_at_0: rng.chance(1, 3),
                    adjacent_pct: if rng.chance(1, 2) { 0 } else { 25 },
                    noise: rng.chance(1, 2),
                    trailing: rng.below(4),
                };
                let ops = gen_history(rng, &o);
                emit(out, "generated", &ops, normal, rng);
            }
        }
    }
    // the sample index changes shape at multiples of 8 values: 63..66 and more blocks
    let big_targets: Vec<usize> = if thorough { vec![24, 63, 64, 65, 66, 130] } else { vec![64, 65] };
    for tb in big_targets {
        for p in [Profile::Tiny, Profile::Mix, Profile::Medium] {
            if !thorough && p == Profile::Medium {
                continue;
            }
            let o = GenOpts { profile: p, target_blocks: tb, run_at_0: rng.chance(1, 2), adjacent_pct: 10, noise: false, trailing: rng.below(4) };
            let ops = gen_history(rng, &o);
            emit(out, "many_blocks", &ops, large, rng);
        }
    }
    // long first run at 0 (a block without zeros), then blocks of all profiles
    for _ in 0..(if thorough { 20 } else { 6 }) {
        let k = rng.range(50, 62);
        let first = (1usize << k) + rng.below(3) as usize;
        let mut ops = vec![Op::TrySet(0, first)];
        let o = GenOpts { profile: *rng.pick(&profiles), target_blocks: rng.range(1, 12) as usize, run_at_0: false, adjacent_pct: 10, noise: false, trailing: rng.below(4) };
        let mut rest = gen_history(rng, &o);
        // shift the rest behind the first run (drop what no longer fits)
        let shift = first + (1usize << rng.range(40, 60)) + 1;
        let mut ok = true;
        for op in rest.iter_mut() {
            match op {
                Op::TrySet(s, l) => {
                    if let Some(ns) = s.checked_add(shift) {
                        if ns.checked_add(*l).is_some() { *s = ns; } else { ok = false; }
                    } else { ok = false; }
                }
                Op::SetLen(l) => *l = l.saturating_add(shift),
                Op::SetBit(i) => {
                    if let Some(ni) = i.checked_add(shift) { if ni < MAX { *i = ni; } else { ok = false; } } else { ok = false; }
                }
            }
        }
        if ok {
            ops.extend(rest);
            emit(out, "zero_free_block", &ops, normal, rng);
        }
    }
    // the block-filling rule at its edges: a run whose gap (or length - 1) sits at a value where the number of code
    // units changes arrives when the block has one unit too few / exactly enough / one to spare
    let edge = Plan { all_args: false, max_runs: 8, iter_n: 80, sel_iter_n: 2 };
    for v in rl_unit_boundaries(20) {
        for in_len in [false, true] {
            for slack in [-1i64, 0, 1] {
                if !thorough && slack == 1 && !rng.chance(1, 4) {
                    continue;
                }
                let lead = if rng.chance(1, 4) { 1 } else { 0 };
                let after = 1 + rng.below(6) as usize;
                let (len, runs) = rl_directed(rng, v, in_len, slack, lead, after);
                let mut ops: Vec<Op> = runs.iter().map(|(s, l)| Op::TrySet(*s, *l)).collect();
                ops.push(Op::SetLen(len));
                emit(out, "block_edge", &ops, edge, rng);
            }
        }
    }
    // the position stored in the last block sample is exactly a power of two (the width of the packed samples)
    for _ in 0..(if thorough { 12 } else { 4 }) {
        match rl_pow2_tail(rng, 40) {
            Some((len, runs)) => {
                let mut ops: Vec<Op> = runs.iter().map(|(s, l)| Op::TrySet(*s, *l)).collect();
                ops.push(Op::SetLen(len));
                out.stat("c03.pow2_tail.reached");
                emit(out, "pow2_tail", &ops, normal, rng);
            }
            None => out.stat("c03.pow2_tail.not_reached"),
        }
    }
    // copy_bit_vec route: positions one by one, then set_len
    for _ in 0..(if thorough { 30 } else { 10 }) {
        let n = rng.range(0, 400) as usize;
        let mut ops = Vec::new();
        let mut pos = 0usize;
        for _ in 0..n {
            pos += if rng.chance(2, 3) { 0 } else { 1 + rng.below(20) as usize };
            ops.push(Op::SetBit(pos));
            pos += 1;
        }
        ops.push(Op::SetLen(pos + rng.below(3) as usize * 17));
        emit(out, "bit_by_bit", &ops, normal, rng);
    }
}
