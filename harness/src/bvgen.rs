// Generators of bit sequences shared by the bitvector properties.
use crate::common::*;

#[derive(Clone, Copy, Debug)]
pub enum Style {
    Zeros,
    Ones,
    Half,
    Sparse(u64),  // one in k
    Dense(u64),   // one zero in k
    Runs(u64),    // alternating runs with mean length k
    Clusters,
    Edge,         // bits set only at the first / last positions and word boundaries
}

pub fn gen_bits(rng: &mut Rng, len: usize, style: Style) -> Vec<bool> {
    let mut v = vec![false; len];
    match style {
        Style::Zeros => {}
        Style::Ones => {
            for b in v.iter_mut() {
                *b = true;
            }
        }
        Style::Half => {
            for b in v.iter_mut() {
                *b = rng.next() & 1 == 1;
            }
        }
        Style::Sparse(k) => {
            for b in v.iter_mut() {
                *b = rng.below(k) == 0;
            }
        }
        Style::Dense(k) => {
            for b in v.iter_mut() {
                *b = rng.below(k) != 0;
            }
        }
        Style::Runs(k) => {
            let mut cur = rng.next() & 1 == 1;
            let mut i = 0;
            while i < len {
                let l = 1 + rng.below(2 * k) as usize;
                for j in i..std::cmp::min(len, i + l) {
                    v[j] = cur;
                }
                i += l;
                cur = !cur;
            }
        }
        Style::Clusters => {
            let n = 1 + rng.below(6);
            for _ in 0..n {
                if len == 0 {
                    break;
                }
                let c = rng.below(len as u64) as usize;
                let w = 1 + rng.below(200) as usize;
                for j in c..std::cmp::min(len, c + w) {
                    v[j] = rng.below(4) != 0;
                }
            }
        }
        Style::Edge => {
            for p in [0usize, 1, 62, 63, 64, 65, 127, 128, 511, 512, 513, 4095, 4096, 4097] {
                if p < len && rng.below(2) == 0 {
                    v[p] = true;
                }
            }
            if len > 0 {
                v[len - 1] = rng.below(4) != 0;
            }
            if len > 1 {
                v[len - 2] = rng.below(2) == 0;
            }
        }
    }
    v
}

pub fn to_words(bits: &[bool]) -> Vec<u64> {
    let mut w = vec![0u64; (bits.len() + 63) / 64];
    for (i, b) in bits.iter().enumerate() {
        if *b {
            w[i / 64] |= 1u64 << (i % 64);
        }
    }
    w
}

pub fn pick_style(rng: &mut Rng) -> Style {
    match rng.below(12) {
        0 => Style::Zeros,
        1 => Style::Ones,
        2 | 3 => Style::Half,
        4 => Style::Sparse(50),
        5 => Style::Sparse(3000),
        6 => Style::Dense(50),
        7 => Style::Runs(20),
        8 => Style::Runs(300),
        9 => Style::Clusters,
        10 => Style::Edge,
        _ => Style::Sparse(7),
    }
}

pub const BOUNDARY_LENS: [usize; 30] = [0, 1, 2, 62, 63, 64, 65, 66, 127, 128, 129, 510, 511, 512, 513, 514, 1023, 1024, 1025,
    4094, 4095, 4096, 4097, 4098, 8191, 8192, 8193, 32767, 32768, 32769];

pub fn extremes(len: usize) -> Vec<usize> {
    let mut v = vec![0usize, 1, len.wrapping_sub(1), len, len.wrapping_add(1), len.wrapping_mul(2), 1usize << 63, usize::MAX - 1, usize::MAX];
    v.sort();
    v.dedup();
    v
}

pub fn serialize_elems<T: simple_sds::serialize::Serialize>(x: &T) -> Vec<u64> {
    let mut buf: Vec<u8> = Vec::new();
    x.serialize(&mut buf).unwrap();
    assert!(buf.len() % 8 == 0);
    buf.chunks(8).map(|c| u64::from_le_bytes([c[0], c[1], c[2], c[3], c[4], c[5], c[6], c[7]])).collect()
}
