// C09: queries are total on out-of-range and extreme arguments.
// For every structure and every public query with a numeric argument the real crate is called (inside `catch`)
// with every argument of {0,1,len-1,len,len+1,2len,2^63,usize::MAX-1,usize::MAX} (counts likewise) and the result or
// the panic class is recorded; the three bitvector types are probed on the same content and recorded in one query.
use crate::common::*;
use simple_sds::bit_vector::{self, BitVector, Complement, Identity};
use simple_sds::int_vector::{IntVector, IntVectorWriter};
use simple_sds::ops::*;
use simple_sds::raw_vector::{PushRaw, RawVector};
use simple_sds::rl_vector::{self, RLBuilder, RLVector};
use simple_sds::sparse_vector::{self, SparseBuilder, SparseVector};
use simple_sds::wavelet_matrix::wm_core::WMCore;
use simple_sds::wavelet_matrix::WaveletMatrix;
use std::convert::TryFrom;
use std::fmt::Write;

const DBG: bool = cfg!(debug_assertions);
const PATH: u64 = if cfg!(all(target_arch = "x86_64", target_feature = "bmi2")) { 0 } else { 1 };
const MAXU: usize = usize::MAX;
const HALF: usize = 1usize << 63;
// default (std) implementations of nth walk item by item: only call them where the walk is short
const WALK_LIMIT: usize = 4096;
const CHUNK: usize = 100;

fn extremes(len: usize) -> Vec<usize> {
    let mut v = vec![0usize, 1, len.wrapping_sub(1), len, len.saturating_add(1), len.saturating_mul(2), HALF, MAXU - 1, MAXU];
    v.sort();
    v.dedup();
    v
}

fn sorted(mut v: Vec<usize>) -> Vec<usize> {
    v.sort();
    v.dedup();
    v
}

// ---------------------------------------------------------------- iterators with or without a back end

pub trait MaybeBack: Iterator {
    const BACK: bool = false;
    fn nth_back_opt(&mut self, _n: usize) -> Option<Option<Self::Item>> {
        None
    }
    fn next_back_opt(&mut self) -> Option<Option<Self::Item>> {
        None
    }
}
macro_rules! has_back {
    ($t:ty) => {
        impl<'a> MaybeBack for $t {
            const BACK: bool = true;
            fn nth_back_opt(&mut self, n: usize) -> Option<Option<Self::Item>> {
                Some(self.nth_back(n))
            }
            fn next_back_opt(&mut self) -> Option<Option<Self::Item>> {
                Some(self.next_back())
            }
        }
    };
}
macro_rules! no_back {
    ($t:ty) => {
        impl<'a> MaybeBack for $t {}
    };
}
has_back!(bit_vector::OneIter<'a, Identity>);
has_back!(bit_vector::OneIter<'a, Complement>);
has_back!(bit_vector::Iter<'a>);
has_back!(sparse_vector::OneIter<'a>);
no_back!(sparse_vector::ZeroIter<'a>);
has_back!(sparse_vector::Iter<'a>);
no_back!(rl_vector::OneIter<'a>);
no_back!(rl_vector::ZeroIter<'a>);
no_back!(rl_vector::Iter<'a>);

// ---------------------------------------------------------------- queries on the bitvector types

#[derive(Clone, Copy, Debug)]
enum Q {
    Counts,
    Get(usize),
    Rank(usize),
    Rank0(usize),
    Sel(bool, usize),
    SelIter(bool, usize),
    Pred(usize),
    Succ(usize),
    Nth(bool, bool, usize, usize), // zero?, back?, consumed, n
    BitNth(bool, usize, usize),    // back?, consumed, n
    NthJ(bool, usize, usize, usize), // zero?, taken from the back first, consumed from the front, n
}

fn pp(p: &(usize, usize)) -> String {
    format!("({}, {})", p.0, p.1)
}
fn opp(p: &Option<(usize, usize)>) -> String {
    opt(p, pp)
}

// one probe: the Coq term of the result (an `ires`), a readable form, and whether it panicked
struct Probe {
    term: String,
    text: String,
    panicked: bool,
}
fn mk<T, F: Fn(&T) -> String>(r: Res<T>, f: F) -> Probe {
    let term = ires(&r, &f);
    match &r {
        Res::Ok(v) => Probe { term, text: f(v), panicked: false },
        Res::Panic(k, m) => Probe { term, text: format!("PANIC class {} ({})", k, m), panicked: true },
    }
}

// walk limits for the item-by-item default implementations
#[derive(Clone, Copy)]
struct Caps {
    zero_queries: bool, // rank_zero / select_zero / zero_iter / iter are defined for this content (not for multisets)
    walk_ones: bool,
    walk_bits: bool,
}

fn probe<'a, T>(v: &'a T, q: Q, caps: Caps) -> Option<Probe>
where
    T: BitVec<'a> + Rank<'a> + Select<'a> + SelectZero<'a> + PredSucc<'a>,
    <T as Select<'a>>::OneIter: MaybeBack,
    <T as SelectZero<'a>>::ZeroIter: MaybeBack,
    <T as BitVec<'a>>::Iter: MaybeBack,
{
    match q {
        Q::Counts => Some(mk(catch(|| (v.len(), v.count_ones(), v.count_zeros())), |x| format!("({}, {}, {})", x.0, x.1, x.2))),
        Q::Get(i) => Some(mk(catch(|| v.get(i)), |x| b(*x))),
        Q::Rank(i) => Some(mk(catch(|| v.rank(i)), |x| nu(*x))),
        Q::Rank0(i) => {
            if !caps.zero_queries {
                return None;
            }
            Some(mk(catch(|| v.rank_zero(i)), |x| nu(*x)))
        }
        Q::Sel(false, r) => Some(mk(catch(|| v.select(r)), |x| opt(x, |p| nu(*p)))),
        Q::Sel(true, r) => {
            if !caps.zero_queries {
                return None;
            }
            Some(mk(catch(|| v.select_zero(r)), |x| opt(x, |p| nu(*p))))
        }
        Q::SelIter(false, r) => Some(mk(catch(|| {
            let mut it = v.select_iter(r);
            let l = it.len();
            (it.next(), l)
        }), |x| format!("({}, {})", opp(&x.0), x.1))),
        Q::SelIter(true, r) => {
            if !caps.zero_queries {
                return None;
            }
            Some(mk(catch(|| {
                let mut it = v.select_zero_iter(r);
                let l = it.len();
                (it.next(), l)
            }), |x| format!("({}, {})", opp(&x.0), x.1)))
        }
        Q::Pred(i) => Some(mk(catch(|| v.predecessor(i).next()), opp)),
        Q::Succ(i) => Some(mk(catch(|| v.successor(i).next()), opp)),
        Q::Nth(false, back, k, n) => {
            if !caps.walk_ones {
                return None;
            }
            if back && !<<T as Select<'a>>::OneIter as MaybeBack>::BACK {
                return None;
            }
            nth_probe_fresh(|| v.one_iter(), back, k, n, pp)
        }
        Q::Nth(true, back, k, n) => {
            if !caps.zero_queries || !caps.walk_bits {
                return None;
            }
            if back && !<<T as SelectZero<'a>>::ZeroIter as MaybeBack>::BACK {
                return None;
            }
            nth_probe_fresh(|| v.zero_iter(), back, k, n, pp)
        }
        Q::NthJ(z, j, k, n) => {
            if !caps.walk_ones || (z && (!caps.zero_queries || !caps.walk_bits)) {
                return None;
            }
            if z {
                if !<<T as SelectZero<'a>>::ZeroIter as MaybeBack>::BACK {
                    return None;
                }
                nth_probe_back_first(|| v.zero_iter(), j, k, n, pp)
            } else {
                if !<<T as Select<'a>>::OneIter as MaybeBack>::BACK {
                    return None;
                }
                nth_probe_back_first(|| v.one_iter(), j, k, n, pp)
            }
        }
        Q::BitNth(back, k, n) => {
            if !caps.zero_queries || !caps.walk_bits {
                return None;
            }
            if back && !<<T as BitVec<'a>>::Iter as MaybeBack>::BACK {
                return None;
            }
            nth_probe_fresh(|| v.iter(), back, k, n, |x: &bool| b(*x))
        }
    }
}

fn nth_probe_fresh<I: MaybeBack + ExactSizeIterator, M: FnOnce() -> I, F: Fn(&I::Item) -> String>(make: M, back: bool, k: usize, n: usize, f: F) -> Option<Probe> {
    let r = catch(move || {
        let mut it = make();
        for _ in 0..k {
            it.next();
        }
        let (a1, a2) = if back {
            let a1 = it.nth_back_opt(n).unwrap();
            let a2 = it.next_back_opt().unwrap();
            (a1, a2)
        } else {
            let a1 = it.nth(n);
            let a2 = it.next();
            (a1, a2)
        };
        (a1, a2, it.len())
    });
    Some(mk(r, |x| format!("({}, {}, {})", opt(&x.0, &f), opt(&x.1, &f), x.2)))
}

// j x next_back(), k x next(), then nth(n), next(), len(): the remainder nth has to respect is the iterator's own
fn nth_probe_back_first<I: MaybeBack + ExactSizeIterator, M: FnOnce() -> I, F: Fn(&I::Item) -> String>(make: M, j: usize, k: usize, n: usize, f: F) -> Option<Probe> {
    let r = catch(move || {
        let mut it = make();
        for _ in 0..j {
            it.next_back_opt().unwrap();
        }
        for _ in 0..k {
            it.next();
        }
        let a1 = it.nth(n);
        let a2 = it.next();
        (a1, a2, it.len())
    });
    Some(mk(r, |x| format!("({}, {}, {})", opt(&x.0, &f), opt(&x.1, &f), x.2)))
}

fn q_head(q: Q) -> (String, String) {
    match q {
        Q::Counts => ("QCounts".into(), "(len, count_ones, count_zeros)".into()),
        Q::Get(i) => (format!("QGet {}", i), format!("get({})", i)),
        Q::Rank(i) => (format!("QRank {}", i), format!("rank({})", i)),
        Q::Rank0(i) => (format!("QRank0 {}", i), format!("rank_zero({})", i)),
        Q::Sel(z, r) => (format!("QSel {} {}", b(z), r), format!("select{}({})", if z { "_zero" } else { "" }, r)),
        Q::SelIter(z, r) => (format!("QSelIter {} {}", b(z), r), format!("select{}_iter({}): (next(), len())", if z { "_zero" } else { "" }, r)),
        Q::Pred(i) => (format!("QPred {}", i), format!("predecessor({}).next()", i)),
        Q::Succ(i) => (format!("QSucc {}", i), format!("successor({}).next()", i)),
        Q::Nth(z, back, k, n) => (format!("QNth {} {} {} {}", b(z), b(back), k, n),
            format!("{}(); {} x next(); {}({}); {}(); len()", if z { "zero_iter" } else { "one_iter" }, k, if back { "nth_back" } else { "nth" }, n, if back { "next_back" } else { "next" })),
        Q::NthJ(z, j, k, n) => (format!("QNthJ {} {} {} {}", b(z), j, k, n),
            format!("{}(); {} x next_back(); {} x next(); nth({}); next(); len()", if z { "zero_iter" } else { "one_iter" }, j, k, n)),
        Q::BitNth(back, k, n) => (format!("QBitNth {} {} {}", b(back), k, n),
            format!("iter(); {} x next(); {}({}); {}(); len()", k, if back { "nth_back" } else { "nth" }, n, if back { "next_back" } else { "next" })),
    }
}

#[derive(Clone, Debug)]
enum Content {
    Bits(Vec<bool>),
    Runs(usize, Vec<(usize, usize)>),
    Multi(usize, Vec<usize>),
}

fn words_of(bits: &[bool]) -> Vec<u64> {
    let mut w = vec![0u64; (bits.len() + 63) / 64];
    for (i, x) in bits.iter().enumerate() {
        if *x {
            w[i / 64] |= 1u64 << (i % 64);
        }
    }
    w
}

fn runs_of(bits: &[bool]) -> Vec<(usize, usize)> {
    let mut r: Vec<(usize, usize)> = Vec::new();
    let mut i = 0;
    while i < bits.len() {
        if bits[i] {
            let s = i;
            while i < bits.len() && bits[i] {
                i += 1;
            }
            r.push((s, i - s));
        } else {
            i += 1;
        }
    }
    r
}

fn content_term(c: &Content) -> String {
    match c {
        Content::Bits(bits) => format!("(Bits {} {})", bits.len(), nlist(&words_of(bits))),
        Content::Runs(len, runs) => format!("(Runs {} {})", len, plist(runs)),
        Content::Multi(len, vals) => format!("(Multi {} {})", len, ulist(vals)),
    }
}
fn content_json(c: &Content) -> String {
    match c {
        Content::Bits(bits) => format!("{{\"bits_len\":{},\"words\":{:?}}}", bits.len(), words_of(bits)),
        Content::Runs(len, runs) => format!("{{\"len\":{},\"runs\":{:?}}}", len, runs.iter().map(|r| vec![r.0, r.1]).collect::<Vec<_>>()),
        Content::Multi(len, vals) => format!("{{\"universe\":{},\"multiset_values\":{:?}}}", len, vals),
    }
}

fn build_bv(bits: &[bool]) -> BitVector {
    let words = words_of(bits);
    let mut raw = RawVector::with_capacity(bits.len());
    let mut left = bits.len();
    for w in words.iter() {
        let k = std::cmp::min(64, left);
        unsafe {
            raw.push_int(*w, k);
        }
        left -= k;
    }
    let mut bv = BitVector::from(raw);
    bv.enable_rank();
    bv.enable_select();
    bv.enable_select_zero();
    bv
}

fn build_sparse(len: usize, positions: &[usize], multiset: bool) -> SparseVector {
    let mut bld = if multiset { SparseBuilder::multiset(len, positions.len()) } else { SparseBuilder::new(len, positions.len()).unwrap() };
    for p in positions {
        bld.try_set(*p).unwrap();
    }
    SparseVector::try_from(bld).unwrap()
}

// low.width of a SparseVector, read from its serialized elements:
// [len] ++ bitvector(ones, raw(len, nwords, words), 3 options) ++ intvector(len, width, ..)
fn sparse_width(sv: &SparseVector) -> u64 {
    let ser = crate::bvgen::serialize_elems(sv);
    let mut p = 3; // len, ones, raw len
    let nwords = ser[p] as usize;
    p += 1 + nwords;
    for _ in 0..3 {
        let sz = ser[p] as usize;
        p += 1 + sz;
    }
    ser[p + 1]
}

fn build_rl(len: usize, runs: &[(usize, usize)]) -> RLVector {
    let mut bld = RLBuilder::new();
    for (s, l) in runs {
        bld.try_set(*s, *l).unwrap();
    }
    bld.set_len(len);
    RLVector::from(bld)
}

// the query list for a content with the given length and counts
fn seq_queries(len: usize, ones: usize, zeros: usize, boundaries: &[usize], multiset: bool) -> Vec<Q> {
    let mut qs = vec![Q::Counts];
    let mut idxs = extremes(len);
    idxs.extend_from_slice(boundaries);
    let idxs = sorted(idxs);
    for i in idxs.iter() {
        if *i < len {
            qs.push(Q::Get(*i));
        }
        qs.push(Q::Rank(*i));
        if *i <= len && !multiset {
            qs.push(Q::Rank0(*i));
        }
        qs.push(Q::Pred(*i));
        qs.push(Q::Succ(*i));
    }
    for r in extremes(ones) {
        qs.push(Q::Sel(false, r));
        qs.push(Q::SelIter(false, r));
    }
    if !multiset {
        for r in sorted([extremes(zeros), extremes(ones)].concat()) {
            qs.push(Q::Sel(true, r));
            qs.push(Q::SelIter(true, r));
        }
    }
    for r in extremes(len) {
        qs.push(Q::Sel(false, r));
    }
    // iterators: consume 0, 1 or all but one items, then nth / nth_back with an extreme n, then next / next_back
    if ones <= WALK_LIMIT {
        for k in sorted(vec![0, 1, ones.saturating_sub(1)]) {
            for n in sorted([extremes(ones), extremes(ones.saturating_sub(k))].concat()) {
                qs.push(Q::Nth(false, false, k, n));
                qs.push(Q::Nth(false, true, k, n));
            }
        }
    }
    // after j items were taken from the BACK: nth(n) around the new remainder (n = rem - 1, rem, ..., rem + j)
    if ones <= WALK_LIMIT {
        for (j, k) in [(1usize, 0usize), (2, 1), (ones / 2, 0), (ones.saturating_sub(1), 0), (ones, 0), (ones + 1, 0)] {
            let rem = ones.saturating_sub(j).saturating_sub(k);
            for n in sorted(vec![rem.saturating_sub(1), rem, rem + 1, rem + j.saturating_sub(1), rem + j, ones, MAXU]) {
                qs.push(Q::NthJ(false, j, k, n));
            }
        }
    }
    if len <= WALK_LIMIT && !multiset {
        for (j, k) in [(1usize, 0usize), (2, 1), (zeros / 2, 0), (zeros, 0)] {
            let rem = zeros.saturating_sub(j).saturating_sub(k);
            for n in sorted(vec![rem.saturating_sub(1), rem, rem + 1, rem + j.saturating_sub(1), rem + j, MAXU]) {
                qs.push(Q::NthJ(true, j, k, n));
            }
        }
    }
    if len <= WALK_LIMIT && !multiset {
        for k in sorted(vec![0, 1, zeros.saturating_sub(1)]) {
            for n in sorted([extremes(zeros), extremes(zeros.saturating_sub(k))].concat()) {
                qs.push(Q::Nth(true, false, k, n));
                qs.push(Q::Nth(true, true, k, n));
            }
        }
        for k in sorted(vec![0, 1, len.saturating_sub(1)]) {
            for n in sorted([extremes(len), extremes(len.saturating_sub(k))].concat()) {
                qs.push(Q::BitNth(false, k, n));
                qs.push(Q::BitNth(true, k, n));
            }
        }
    }
    qs
}

struct Built {
    bv: Option<BitVector>,
    sv: Option<SparseVector>,
    rl: Option<RLVector>,
}

fn emit_seq(out: &mut Out, kind: &str, c: &Content, skip_risky: bool) {
    // build (a panic while building is itself a violation)
    let cc = c.clone();
    let built = catch(move || match &cc {
        Content::Bits(bits) => {
            let positions: Vec<usize> = bits.iter().enumerate().filter(|x| *x.1).map(|x| x.0).collect();
            Built { bv: Some(build_bv(bits)), sv: Some(build_sparse(bits.len(), &positions, false)), rl: Some(build_rl(bits.len(), &runs_of(bits))) }
        }
        Content::Runs(len, runs) => {
            let ones: u128 = runs.iter().map(|r| r.1 as u128).sum();
            let sv = if ones <= 512 && ones > 0 || (*len <= (1usize << 20)) {
                let mut positions: Vec<usize> = Vec::new();
                for (s, l) in runs {
                    for j in 0..*l {
                        positions.push(s + j);
                    }
                }
                Some(build_sparse(*len, &positions, false))
            } else {
                None
            };
            Built { bv: None, sv, rl: Some(build_rl(*len, runs)) }
        }
        Content::Multi(len, vals) => Built { bv: None, sv: Some(build_sparse(*len, vals, true)), rl: None },
    });
    let built = match built {
        Res::Ok(x) => x,
        Res::Panic(k, msg) => {
            out.case("crash", format!("CCrash {}", k), format!("{{\"what\":\"building the structures panicked\",\"content\":{},\"panic\":{:?}}}", content_json(c), msg), true);
            return;
        }
    };
    let (len, ones, zeros, boundaries, multiset): (usize, usize, usize, Vec<usize>, bool) = match c {
        Content::Bits(bits) => {
            let o = bits.iter().filter(|x| **x).count();
            (bits.len(), o, bits.len() - o, vec![62, 63, 64, 65, 127, 128], false)
        }
        Content::Runs(len, runs) => {
            let o: u128 = runs.iter().map(|r| r.1 as u128).sum();
            let o = o as usize;
            let mut bd = Vec::new();
            for (s, l) in runs {
                bd.extend_from_slice(&[s.wrapping_sub(1), *s, s + l - 1, s + l]);
            }
            (*len, o, len - o, bd, false)
        }
        Content::Multi(len, vals) => {
            let mut bd = Vec::new();
            for v in vals {
                bd.extend_from_slice(&[v.wrapping_sub(1), *v, v + 1]);
            }
            (*len, vals.len(), if vals.len() >= *len { 0 } else { len - vals.len() }, bd, true)
        }
    };
    let caps = Caps { zero_queries: !multiset, walk_ones: ones <= WALK_LIMIT, walk_bits: len <= WALK_LIMIT };
    let qs = seq_queries(len, ones, zeros, &boundaries, multiset);
    out.stat(&format!("c09.seq.{}", kind));
    let cterm = content_term(c);
    let cjson = content_json(c);
    // the low width the crate chose for the sparse vector (the model's oracle argument)
    let sw: Option<u64> = match built.sv.as_ref() {
        Some(sv) => match catch(|| sparse_width(sv)) {
            Res::Ok(w) => Some(w),
            Res::Panic(_, _) => None,
        },
        None => None,
    };
    if let Some(w) = sw {
        out.stat(&format!("c09.sparse_width.{:02}", w));
    }
    for chunk in qs.chunks(CHUNK) {
        let mut term = match sw {
            Some(w) => format!("CSeqS {} {} {} {} [", w, PATH, b(DBG), cterm),
            None => format!("CSeq {} {} {} [", PATH, b(DBG), cterm),
        };
        let mut calls = String::from("[");
        let mut panics = String::from("[");
        let mut npan = 0;
        for (j, q) in chunk.iter().enumerate() {
            let (head, text) = q_head(*q);
            let risky = skip_risky && matches!(q, Q::Nth(_, false, _, _));
            let p1 = if risky { None } else { built.bv.as_ref().and_then(|v| probe(v, *q, caps)) };
            let p2 = built.sv.as_ref().and_then(|v| probe(v, *q, caps));
            let p3 = built.rl.as_ref().and_then(|v| probe(v, *q, caps));
            if j > 0 {
                term.push_str("; ");
                calls.push(',');
            }
            let f = |p: &Option<Probe>| match p {
                Some(x) => format!("Some {}", x.term),
                None => "None".to_string(),
            };
            let _ = write!(term, "{} ({}, {}, {})", head, f(&p1), f(&p2), f(&p3));
            let g = |p: &Option<Probe>| match p {
                Some(x) => x.text.clone(),
                None => "-".to_string(),
            };
            let line = format!("#{} {} => BitVector: {} | SparseVector: {} | RLVector: {}", j, text, g(&p1), g(&p2), g(&p3));
            let _ = write!(calls, "{:?}", line);
            for (name, p) in [("BitVector", &p1), ("SparseVector", &p2), ("RLVector", &p3)] {
                if let Some(x) = p {
                    out.stat("c09.calls");
                    if x.panicked {
                        if npan > 0 {
                            panics.push(',');
                        }
                        npan += 1;
                        let _ = write!(panics, "{:?}", format!("{}::{} => {}", name, text, x.text));
                        out.stat("c09.panics_observed");
                    }
                }
            }
        }
        term.push(']');
        calls.push(']');
        panics.push(']');
        out.case(kind, term, format!("{{\"content\":{},\"build\":\"{}\",\"panics\":{},\"calls\":{}}}", cjson, if DBG { "dev" } else { "release" }, panics, calls), len > 0);
    }
}

// ---------------------------------------------------------------- wavelet matrix and its core

fn emit_wm(out: &mut Out, kind: &str, vals: &[u64]) {
    let v1 = vals.to_vec();
    let max = vals.iter().cloned().max().unwrap_or(0);
    let has_wm = max <= 4096;
    let built = catch(move || {
        let core = WMCore::from(v1.clone());
        let wm = if has_wm { Some(WaveletMatrix::from(v1.clone())) } else { None };
        (core, wm)
    });
    let (core, wm) = match built {
        Res::Ok(x) => x,
        Res::Panic(k, msg) => {
            out.case("crash", format!("CCrash {}", k), format!("{{\"what\":\"building the wavelet matrix panicked\",\"values\":{:?},\"panic\":{:?}}}", vals, msg), true);
            return;
        }
    };
    let len = vals.len();
    let width = core.width();
    // values: present, absent, max + 1, 2^width, 2^63, u64::MAX
    let mut values: Vec<u64> = Vec::new();
    if len > 0 {
        values.push(vals[0]);
        values.push(vals[len / 2]);
        values.push(max);
    }
    let absent = (0..=max).find(|x| !vals.contains(x));
    if let Some(a) = absent {
        values.push(a);
    }
    values.push(0);
    values.push(max.wrapping_add(1));
    values.push(if width >= 64 { 0 } else { 1u64 << width });
    values.push(if width >= 64 { 1 } else { (1u64 << width) + (if len > 0 { vals[0] } else { 1 }) });
    values.push(1u64 << 63);
    values.push(u64::MAX);
    values.sort();
    values.dedup();
    let idxs = extremes(len);
    enum W {
        Rank(usize, u64),
        Sel(usize, u64),
        SelIter(usize, u64),
        Inv(usize),
        Contains(u64),
        Pred(usize, u64),
        Succ(usize, u64),
        ValNth(u64, usize),
        GetOr(usize, u64),
        IterNth(bool, usize, usize),
        Down(usize),
        DownWith(usize, u64),
        Down2(usize, usize, u64),
        UpWith(usize, u64),
    }
    let mut qs: Vec<W> = Vec::new();
    for v in values.iter() {
        let cnt = vals.iter().filter(|x| *x == v).count();
        let ranks = sorted([extremes(cnt), extremes(len)].concat());
        if wm.is_some() {
            qs.push(W::Contains(*v));
            for i in idxs.iter() {
                qs.push(W::Rank(*i, *v));
                qs.push(W::Pred(*i, *v));
                qs.push(W::Succ(*i, *v));
            }
            for r in ranks.iter() {
                qs.push(W::Sel(*r, *v));
                qs.push(W::SelIter(*r, *v));
                qs.push(W::ValNth(*v, *r));
            }
        }
        for (a, i) in idxs.iter().enumerate() {
            qs.push(W::DownWith(*i, *v));
            qs.push(W::UpWith(*i, *v));
            qs.push(W::Down2(*i, idxs[(a + 3) % idxs.len()], *v));
        }
        // reordered positions of this value and its neighbours
        let start = match catch(|| core.map_down_with(0, *v)) { Res::Ok(x) => x, _ => 0 };
        for r in [start.wrapping_sub(1), start, start.saturating_add(cnt).wrapping_sub(1), start.saturating_add(cnt)] {
            qs.push(W::UpWith(r, *v));
        }
    }
    for i in idxs.iter() {
        qs.push(W::Down(*i));
        if wm.is_some() {
            qs.push(W::Inv(*i));
            qs.push(W::GetOr(*i, 77));
            qs.push(W::GetOr(*i, u64::MAX));
        }
    }
    if wm.is_some() {
        for k in sorted(vec![0, 1, len.saturating_sub(1)]) {
            for n in sorted([extremes(len), extremes(len.saturating_sub(k))].concat()) {
                qs.push(W::IterNth(false, k, n));
                qs.push(W::IterNth(true, k, n));
            }
        }
    }
    out.stat(&format!("c09.wm.{}", kind));
    let vjson = format!("{:?}", vals);
    for chunk in qs.chunks(CHUNK) {
        let mut term = format!("CWM {} {} {} {} {} {} [", PATH, b(DBG), b(has_wm), nlist(vals), core.len(), width);
        let mut calls = String::from("[");
        let mut panics = String::from("[");
        let mut npan = 0;
        for (j, q) in chunk.iter().enumerate() {
            let w = wm.as_ref();
            let (head, text, p): (String, String, Probe) = match q {
                W::Rank(i, v) => (format!("WRank {} {}", i, v), format!("WaveletMatrix::rank({}, {})", i, v), mk(catch(|| w.unwrap().rank(*i, *v)), |x| nu(*x))),
                W::Sel(r, v) => (format!("WSel {} {}", r, v), format!("WaveletMatrix::select({}, {})", r, v), mk(catch(|| w.unwrap().select(*r, *v)), |x| opt(x, |p| nu(*p)))),
                W::SelIter(r, v) => (format!("WSelIter {} {}", r, v), format!("WaveletMatrix::select_iter({}, {}).next()", r, v), mk(catch(|| w.unwrap().select_iter(*r, *v).next()), opp)),
                W::Inv(i) => (format!("WInv {}", i), format!("WaveletMatrix::inverse_select({})", i), mk(catch(|| w.unwrap().inverse_select(*i)), |x| opt(x, |p| format!("({}, {})", p.0, p.1)))),
                W::Contains(v) => (format!("WContains {}", v), format!("WaveletMatrix::contains({})", v), mk(catch(|| w.unwrap().contains(*v)), |x| b(*x))),
                W::Pred(i, v) => (format!("WPred {} {}", i, v), format!("WaveletMatrix::predecessor({}, {}).next()", i, v), mk(catch(|| w.unwrap().predecessor(*i, *v).next()), opp)),
                W::Succ(i, v) => (format!("WSucc {} {}", i, v), format!("WaveletMatrix::successor({}, {}).next()", i, v), mk(catch(|| w.unwrap().successor(*i, *v).next()), opp)),
                W::ValNth(v, n) => (format!("WValNth {} {}", v, n), format!("WaveletMatrix::value_iter({}): nth({}); next()", v, n), mk(catch(|| {
                    let mut it = w.unwrap().value_iter(*v);
                    let a1 = it.nth(*n);
                    let a2 = it.next();
                    (a1, a2)
                }), |x| format!("({}, {})", opp(&x.0), opp(&x.1)))),
                W::GetOr(i, d) => (format!("WGetOr {} {}", i, d), format!("WaveletMatrix::get_or({}, {})", i, d), mk(catch(|| w.unwrap().get_or(*i, *d)), |x| n(*x))),
                W::IterNth(back, k, nn) => (format!("WIterNth {} {} {}", b(*back), k, nn),
                    format!("WaveletMatrix::iter(); {} x next(); {}({}); {}(); len()", k, if *back { "nth_back" } else { "nth" }, nn, if *back { "next_back" } else { "next" }),
                    mk(catch(|| {
                        let mut it = w.unwrap().iter();
                        for _ in 0..*k {
                            it.next();
                        }
                        let (a1, a2) = if *back { let a1 = it.nth_back(*nn); (a1, it.next_back()) } else { let a1 = it.nth(*nn); (a1, it.next()) };
                        (a1, a2, it.len())
                    }), |x| format!("({}, {}, {})", opt(&x.0, |p| n(*p)), opt(&x.1, |p| n(*p)), x.2))),
                W::Down(i) => (format!("MDown {}", i), format!("WMCore::map_down({})", i), mk(catch(|| core.map_down(*i)), |x| opt(x, |p| format!("({}, {})", p.0, p.1)))),
                W::DownWith(i, v) => (format!("MDownWith {} {}", i, v), format!("WMCore::map_down_with({}, {})", i, v), mk(catch(|| core.map_down_with(*i, *v)), |x| nu(*x))),
                W::Down2(i, i2, v) => (format!("MDown2 {} {} {}", i, i2, v), format!("WMCore::map_down_with_two_positions({}, {}, {})", i, i2, v), mk(catch(|| core.map_down_with_two_positions(*i, *i2, *v)), pp)),
                W::UpWith(i, v) => (format!("MUpWith {} {}", i, v), format!("WMCore::map_up_with({}, {})", i, v), mk(catch(|| core.map_up_with(*i, *v)), |x| opt(x, |p| nu(*p)))),
            };
            if j > 0 {
                term.push_str("; ");
                calls.push(',');
            }
            let _ = write!(term, "{} {}", head, p.term);
            let _ = write!(calls, "{:?}", format!("#{} {} => {}", j, text, p.text));
            out.stat("c09.calls");
            if p.panicked {
                if npan > 0 {
                    panics.push(',');
                }
                npan += 1;
                let _ = write!(panics, "{:?}", format!("{} => {}", text, p.text));
                out.stat("c09.panics_observed");
            }
        }
        term.push(']');
        calls.push(']');
        panics.push(']');
        out.case(kind, term, format!("{{\"values\":{},\"build\":\"{}\",\"panics\":{},\"calls\":{}}}", vjson, if DBG { "dev" } else { "release" }, panics, calls), len > 0);
    }
}

// ---------------------------------------------------------------- integer vectors and constructors

fn emit_iv(out: &mut Out, width: usize, vals: &[u64]) {
    let mut iv = IntVector::new(width).unwrap();
    for v in vals {
        iv.push(*v);
    }
    let len = vals.len();
    let mut term = format!("CIV {} {} {} [", b(DBG), width, nlist(vals));
    let mut calls = String::from("[");
    let mut panics = String::from("[");
    let mut npan = 0;
    let mut first = true;
    let mut add = |head: String, text: String, p: Probe, out: &mut Out| {
        if !first {
            term.push_str("; ");
            calls.push(',');
        }
        first = false;
        let _ = write!(term, "{} {}", head, p.term);
        let _ = write!(calls, "{:?}", format!("{} => {}", text, p.text));
        out.stat("c09.calls");
        if p.panicked {
            if npan > 0 {
                panics.push(',');
            }
            npan += 1;
            let _ = write!(panics, "{:?}", format!("{} => {}", text, p.text));
            out.stat("c09.panics_observed");
        }
    };
    for i in extremes(len) {
        for d in [0u64, u64::MAX] {
            add(format!("IGetOr {} {}", i, d), format!("IntVector::get_or({}, {})", i, d), mk(catch(|| iv.get_or(i, d)), |x| n(*x)), out);
        }
    }
    for k in sorted(vec![0, 1, len.saturating_sub(1)]) {
        for nn in sorted([extremes(len), extremes(len.saturating_sub(k))].concat()) {
            for back in [false, true] {
                add(format!("IIterNth {} {} {}", b(back), k, nn),
                    format!("IntVector::iter(); {} x next(); {}({}); {}(); len()", k, if back { "nth_back" } else { "nth" }, nn, if back { "next_back" } else { "next" }),
                    mk(catch(|| {
                        let mut it = iv.iter();
                        for _ in 0..k {
                            it.next();
                        }
                        let (a1, a2) = if back { let a1 = it.nth_back(nn); (a1, it.next_back()) } else { let a1 = it.nth(nn); (a1, it.next()) };
                        (a1, a2, it.len())
                    }), |x| format!("({}, {}, {})", opt(&x.0, |p| n(*p)), opt(&x.1, |p| n(*p)), x.2)), out);
            }
        }
    }
    term.push(']');
    calls.push(']');
    panics.push(']');
    out.case("intvec", term, format!("{{\"width\":{},\"values\":{:?},\"panics\":{},\"calls\":{}}}", width, vals, panics, calls), len > 0);
}

fn emit_ctors(out: &mut Out) {
    let dir = std::env::var("VERIF_RUNDIR").unwrap_or_else(|_| std::env::temp_dir().to_string_lossy().to_string());
    let widths = [0usize, 1, 2, 63, 64, 65, 66, 128, HALF, MAXU - 1, MAXU];
    let ctor = |kind: u64, a: usize, bb: usize, text: String, r: Res<bool>, out: &mut Out| {
        let p = mk(r, |x| b(*x));
        out.stat("c09.calls");
        if p.panicked {
            out.stat("c09.panics_observed");
        }
        out.case("ctor", format!("CCtor {} {} {} {} {}", b(DBG), kind, a, bb, p.term),
            format!("{{\"call\":{:?},\"result\":{:?},\"build\":\"{}\",\"panics\":{}}}", text, if p.panicked { p.text.clone() } else { (if p.text == "true" { "Ok" } else { "Err" }).to_string() }, if DBG { "dev" } else { "release" },
                if p.panicked { format!("[{:?}]", format!("{} => {}", text, p.text)) } else { "[]".to_string() }), true);
    };
    for w in widths.iter() {
        let w = *w;
        ctor(0, w, 0, format!("IntVector::new({})", w), catch(|| IntVector::new(w).is_ok()), out);
        for len in [0usize, 1, 5] {
            ctor(1, len, w, format!("IntVector::with_len({}, {}, 1)", len, w), catch(|| IntVector::with_len(len, w, 1).is_ok()), out);
            ctor(2, len, w, format!("IntVector::with_capacity({}, {})", len, w), catch(|| IntVector::with_capacity(len, w).is_ok()), out);
        }
        // a huge length / capacity with an invalid width must still be the width error (the check comes first)
        if w == 0 || w > 64 {
            ctor(1, MAXU, w, format!("IntVector::with_len({}, {}, 1)", MAXU, w), catch(|| IntVector::with_len(MAXU, w, 1).is_ok()), out);
            ctor(2, MAXU, w, format!("IntVector::with_capacity({}, {})", MAXU, w), catch(|| IntVector::with_capacity(MAXU, w).is_ok()), out);
        }
        let f1 = format!("{}/c09_writer_{}_{}.tmp", dir, std::process::id(), w);
        ctor(3, w, 0, format!("IntVectorWriter::new(file, {})", w), catch(|| {
            let r = IntVectorWriter::new(&f1, w);
            let ok = r.is_ok();
            drop(r);
            ok
        }), out);
        let _ = std::fs::remove_file(&f1);
        for buf in [0usize, 1, 1024] {
            ctor(4, w, buf, format!("IntVectorWriter::with_buf_len(file, {}, {})", w, buf), catch(|| {
                let r = IntVectorWriter::with_buf_len(&f1, w, buf);
                let ok = r.is_ok();
                drop(r);
                ok
            }), out);
            let _ = std::fs::remove_file(&f1);
        }
        if w == 0 || w > 64 {
            ctor(4, w, MAXU, format!("IntVectorWriter::with_buf_len(file, {}, {})", w, MAXU), catch(|| IntVectorWriter::with_buf_len(&f1, w, MAXU).is_ok()), out);
            let _ = std::fs::remove_file(&f1);
        }
    }
    // SparseBuilder::new(universe, ones): Err iff ones > universe (accepted cases are kept small in memory)
    for (u, o) in [(0usize, 0usize), (0, 1), (0, MAXU), (1, 0), (1, 1), (1, 2), (5, 5), (5, 6), (10, MAXU), (10, HALF), (300, 7), (HALF, 3), (HALF, HALF + 1), (MAXU, 2),
        (MAXU - 1, MAXU), (MAXU - 1, 1), (HALF - 1, HALF), (HALF, MAXU)] {
        ctor(5, u, o, format!("SparseBuilder::new({}, {})", u, o), catch(|| SparseBuilder::new(u, o).is_ok()), out);
    }
    // RLBuilder::try_set(start, len) on a fresh builder: Err iff start + len > usize::MAX
    for (s, l) in [(0usize, 0usize), (0, 1), (0, MAXU), (1, MAXU), (1, MAXU - 1), (MAXU, 0), (MAXU, 1), (MAXU - 1, 1), (MAXU - 1, 2), (HALF, HALF), (HALF, HALF - 1), (HALF - 1, HALF), (HALF + 1, HALF),
        (MAXU, MAXU), (7, 3), (2, MAXU - 1), (2, MAXU - 2)] {
        ctor(6, s, l, format!("RLBuilder::new().try_set({}, {})", s, l), catch(|| RLBuilder::new().try_set(s, l).is_ok()), out);
        // ... and after a first run (10, 5): also Err for start < 15
        ctor(7, s, l, format!("RLBuilder: try_set(10, 5); try_set({}, {})", s, l), catch(|| {
            let mut bld = RLBuilder::new();
            bld.try_set(10, 5).unwrap();
            bld.try_set(s, l).is_ok()
        }), out);
    }
    for (s, l) in [(15usize, 1usize), (14, 1), (15, MAXU - 15), (15, MAXU - 14), (16, MAXU - 15), (20, 0)] {
        ctor(7, s, l, format!("RLBuilder: try_set(10, 5); try_set({}, {})", s, l), catch(|| {
            let mut bld = RLBuilder::new();
            bld.try_set(10, 5).unwrap();
            bld.try_set(s, l).is_ok()
        }), out);
    }
}

// ---------------------------------------------------------------- inputs

fn pattern(rng: &mut Rng, len: usize, pat: &str) -> Vec<bool> {
    let mut v = vec![false; len];
    match pat {
        "zeros" => {}
        "ones" => v.iter_mut().for_each(|x| *x = true),
        "alt" => v.iter_mut().enumerate().for_each(|(i, x)| *x = i % 2 == 0),
        "half" => v.iter_mut().for_each(|x| *x = rng.next() & 1 == 1),
        "sparse" => v.iter_mut().for_each(|x| *x = rng.below(17) == 0),
        "dense" => v.iter_mut().for_each(|x| *x = rng.below(17) != 0),
        "edge" => {
            if len > 0 {
                v[0] = true;
                v[len - 1] = true;
            }
            for p in [63usize, 64, 127, 128] {
                if p < len {
                    v[p] = true;
                }
            }
        }
        "edge0" => {
            v.iter_mut().for_each(|x| *x = true);
            if len > 0 {
                v[0] = false;
                v[len - 1] = false;
            }
            for p in [63usize, 64, 127, 128] {
                if p < len {
                    v[p] = false;
                }
            }
        }
        "runs" => {
            let mut cur = rng.next() & 1 == 1;
            let mut i = 0;
            while i < len {
                let l = 1 + rng.below(40) as usize;
                for j in i..std::cmp::min(len, i + l) {
                    v[j] = cur;
                }
                i += l;
                cur = !cur;
            }
        }
        "last" => {
            if len > 0 {
                v[len - 1] = true;
            }
        }
        _ => {}
    }
    v
}

fn seq_inputs(rng: &mut Rng, thorough: bool) -> Vec<(String, Content)> {
    let mut v: Vec<(String, Content)> = Vec::new();
    // exhaustive up to 2 bits
    for len in 0..=2usize {
        for pat in 0..(1u32 << len) {
            v.push(("tiny".into(), Content::Bits((0..len).map(|i| (pat >> i) & 1 == 1).collect())));
        }
    }
    for len in [63usize, 64, 65, 128, 129] {
        for pat in ["zeros", "ones", "half"] {
            v.push((format!("word.{}", pat), Content::Bits(pattern(rng, len, pat))));
        }
    }
    for len in [127usize, 192, 256, 300] {
        for pat in ["edge", "edge0", "sparse", "runs"] {
            v.push((format!("mid.{}", pat), Content::Bits(pattern(rng, len, pat))));
        }
    }
    v.push(("mid.alt".into(), Content::Bits(pattern(rng, 300, "alt"))));
    v.push(("mid.last".into(), Content::Bits(pattern(rng, 257, "last"))));
    v.push(("mid.dense".into(), Content::Bits(pattern(rng, 200, "dense"))));
    if thorough {
        for _ in 0..120 {
            let len = rng.below(700) as usize;
            let pat = *rng.pick(&["zeros", "ones", "alt", "half", "sparse", "dense", "edge", "edge0", "runs", "last"]);
            v.push((format!("rand.{}", pat), Content::Bits(pattern(rng, len, pat))));
        }
        // select superblock boundary (4096 ones) and rank block boundaries
        for len in [4095usize, 4096, 4097, 8200] {
            v.push(("big.ones".into(), Content::Bits(pattern(rng, len, "ones"))));
        }
    }
    // universes near 2^63 and usize::MAX with few ones (sparse + RL), built through the builders
    for (len, runs) in [
        (HALF, vec![(5usize, 1usize)]),
        (HALF, vec![(0, 1), (HALF - 1, 1)]),
        (HALF, vec![(1usize << 62, 3), (HALF - 2, 2)]),
        (HALF + 1, vec![(HALF, 1)]),
        (HALF + 7, vec![(3, 2), (HALF - 1, 3), (HALF + 5, 2)]),
        (MAXU, vec![(MAXU - 1, 1)]),
        (MAXU, vec![(0, 1)]),
        (MAXU, vec![(3, 2), (HALF, 1), (MAXU - 2, 2)]),
        (MAXU, vec![(0, 1), (2, 1), (1usize << 20, 1), (1usize << 40, 5), (HALF - 1, 2), (MAXU - 9, 1), (MAXU - 1, 1)]),
        (MAXU - 1, vec![(MAXU - 2, 1)]),
        (MAXU - 1, vec![(7, 1), (MAXU - 3, 2)]),
    ] {
        v.push(("huge.few".into(), Content::Runs(len, runs)));
    }
    // a few dozen ones spread over the whole universe (several buckets / RL blocks)
    for len in [HALF, MAXU] {
        let k = 70;
        let step = len / k;
        let runs: Vec<(usize, usize)> = (0..k).map(|j| (j * step + (rng.below(1000) as usize), 1 + (j % 3))).collect();
        v.push(("huge.spread".into(), Content::Runs(len, runs)));
    }
    // huge runs: only the run-length vector can hold them
    for (len, runs) in [
        (MAXU, vec![(0usize, MAXU)]),
        (MAXU, vec![(1, MAXU - 1)]),
        (MAXU, vec![(0, MAXU - 1)]),
        (MAXU, vec![(5, 3)]),
        (MAXU, vec![]),
        (HALF, vec![]),
        (HALF + 5, vec![(0, HALF)]),
        (MAXU, vec![(HALF, HALF - 1)]),
        (MAXU, vec![(0, HALF), (HALF + 1, HALF - 2)]),
        (MAXU, vec![(0, 1), (2, HALF), (HALF + 10, 1usize << 62), (MAXU - 5, 5)]),
        (MAXU - 1, vec![(0, 1usize << 62), ((1usize << 62) + 1, 1usize << 62), (HALF + 2, HALF - 4)]),
    ] {
        v.push(("huge.runs".into(), Content::Runs(len, runs)));
    }
    // multisets (sparse vector only)
    for (len, vals) in [
        (10usize, vec![3usize, 3, 3]),
        (1, vec![0, 0]),
        (5, vec![0, 0, 4, 4, 4, 4, 4, 4]),
        (300, vec![0, 0, 1, 63, 64, 64, 64, 128, 255, 256, 299, 299]),
        (HALF, vec![7, 7, HALF - 1, HALF - 1]),
        (MAXU, vec![MAXU - 1, MAXU - 1]),
        (MAXU, vec![0, 0, 0, HALF, HALF, MAXU - 2, MAXU - 1, MAXU - 1]),
    ] {
        v.push(("multi".into(), Content::Multi(len, vals)));
    }
    v
}

fn wm_inputs(rng: &mut Rng, thorough: bool) -> Vec<(String, Vec<u64>)> {
    let mut v: Vec<(String, Vec<u64>)> = Vec::new();
    for x in [vec![], vec![0u64], vec![1], vec![0, 0, 0], vec![5], vec![1, 2, 1, 3], vec![0, 255], vec![255, 0], vec![7; 64], vec![7; 65], vec![1, 0, 3, 1, 1, 2, 4, 5, 1, 2, 1, 7, 0, 1]] {
        v.push(("small".into(), x));
    }
    for (len, w) in [(63usize, 1u64), (64, 1), (65, 2), (128, 1), (129, 3), (200, 2), (300, 3), (300, 5), (256, 8), (100, 10)] {
        v.push(("rand".into(), (0..len).map(|_| rng.below(1u64 << w)).collect()));
    }
    // gaps in the alphabet (absent values below the maximum), sorted and reversed inputs
    v.push(("gaps".into(), (0..150).map(|_| 2 * rng.below(8)).collect()));
    v.push(("gaps".into(), (0..130).map(|_| *rng.pick(&[1u64, 16, 17, 1000])).collect()));
    v.push(("sorted".into(), (0..129u64).map(|i| i / 10).collect()));
    v.push(("sorted".into(), (0..129u64).rev().map(|i| i / 10).collect()));
    v.push(("runs".into(), (0..300u64).map(|i| (i / 64) % 3).collect()));
    v.push(("one-absent-zero".into(), vec![4, 4, 2, 6, 2, 4, 6, 6, 6]));
    // gaps in the alphabet in vectors whose length is an exact power of two (the offset table stores the length for an
    // absent value)
    for k in [1u32, 2, 4, 6, 8] {
        let len = 1usize << k;
        v.push(("gaps-pow2".into(), (0..len).map(|i| if i % 3 == 0 { 0 } else { 2 + 3 * rng.below(3) }).collect()));
    }
    v.push(("max4096".into(), vec![4096, 0, 4096, 1, 2048]));
    // wide items: the core only (a WaveletMatrix needs an array of alphabet size)
    v.push(("wide".into(), vec![u64::MAX, 0, 1u64 << 63, 1, u64::MAX]));
    v.push(("wide".into(), vec![u64::MAX]));
    v.push(("wide".into(), vec![1u64 << 63]));
    v.push(("wide".into(), vec![1u64 << 32, 5, (1u64 << 32) + 5, 5]));
    v.push(("wide".into(), (0..70).map(|_| rng.next()).collect()));
    v.push(("wide".into(), (0..65).map(|_| rng.next() >> 1).collect()));
    v.push(("wide".into(), vec![(1u64 << 63) - 1; 3]));
    v.push(("wide".into(), vec![5000, 4999, 5000]));
    if thorough {
        for _ in 0..60 {
            let len = rng.below(500) as usize;
            let w = 1 + rng.below(10);
            v.push(("rand".into(), (0..len).map(|_| rng.below(1u64 << w)).collect()));
        }
        for _ in 0..20 {
            let len = rng.below(100) as usize;
            let w = 11 + rng.below(53);
            v.push(("wide".into(), (0..len).map(|_| rng.next() >> (64 - w)).collect()));
        }
    }
    v
}

// ---------------------------------------------------------------- the child process for probes that can kill the process

// OneIter::nth with a huge n after consuming items: with the guard `next.0 + n >= limit.0` (finding F1) a release build
// without the bounds hooks walks off the buffer and dies with SIGSEGV. The probes run first in a child process; when it
// dies the parent records the last call and skips the same probes in-process, so that everything else is still checked.
fn child_main(progress: &str) {
    let mut rng = Rng::new(7);
    for (len, pat) in [(1usize, "ones"), (2, "ones"), (65, "half"), (200, "edge"), (300, "alt"), (300, "edge0")] {
        let bits = pattern(&mut rng, len, pat);
        let bv = build_bv(&bits);
        let ones = bv.count_ones();
        let zeros = bv.count_zeros();
        for zero in [false, true] {
            let cnt = if zero { zeros } else { ones };
            for k in sorted(vec![0, 1, cnt.saturating_sub(1)]) {
                for n in extremes(cnt) {
                    let _ = std::fs::write(progress, format!("BitVector(len {}, pattern {}): {}(); {} x next(); nth({})", len, pat, if zero { "zero_iter" } else { "one_iter" }, k, n));
                    let _ = catch(|| {
                        if zero {
                            let mut it = bv.zero_iter();
                            for _ in 0..k {
                                it.next();
                            }
                            let _ = it.nth(n);
                            let _ = it.next();
                        } else {
                            let mut it = bv.one_iter();
                            for _ in 0..k {
                                it.next();
                            }
                            let _ = it.nth(n);
                            let _ = it.next();
                        }
                    });
                }
            }
        }
    }
    let _ = std::fs::write(progress, "done");
}

fn preflight(out: &mut Out) -> bool {
    let dir = std::env::var("VERIF_RUNDIR").unwrap_or_else(|_| std::env::temp_dir().to_string_lossy().to_string());
    let progress = format!("{}/c09_child_{}.txt", dir, std::process::id());
    let exe = match std::env::current_exe() {
        Ok(e) => e,
        Err(_) => return false,
    };
    let args: Vec<String> = std::env::args().skip(1).collect();
    let st = std::process::Command::new(exe).args(&args).env("VERIF_C09_CHILD", &progress).stdout(std::process::Stdio::null()).stderr(std::process::Stdio::null()).status();
    let last = std::fs::read_to_string(&progress).unwrap_or_default();
    let _ = std::fs::remove_file(&progress);
    match st {
        Ok(s) if s.success() && last == "done" => {
            out.stat("c09.child.ok");
            false
        }
        Ok(s) => {
            use std::os::unix::process::ExitStatusExt;
            let sig = s.signal().unwrap_or(0);
            out.stat("c09.child.died");
            out.case("died", format!("CDied {}", sig),
                format!("{{\"what\":\"the process running the OneIter::nth probes died\",\"signal\":{},\"exit\":\"{:?}\",\"last_call\":{:?},\"build\":\"{}\",\"panics\":[{:?}]}}", sig, s.code(), last, if DBG { "dev" } else { "release" },
                    format!("{} => process killed by signal {}", last, sig)), true);
            true
        }
        Err(_) => false,
    }
}

pub fn run(rng: &mut Rng, out: &mut Out, thorough: bool, _variant: &str) {
    if let Ok(progress) = std::env::var("VERIF_C09_CHILD") {
        child_main(&progress);
        std::process::exit(0);
    }
    let skip_risky = preflight(out);
    emit_ctors(out);
    for (w, vals) in [(1usize, vec![]), (1, vec![1u64, 0, 1]), (64, vec![u64::MAX, 0, 5]), (7, (0..65u64).collect::<Vec<u64>>()), (13, (0..130u64).map(|i| i * 63).collect::<Vec<u64>>())] {
        emit_iv(out, w, &vals);
    }
    for (kind, vals) in wm_inputs(rng, thorough) {
        emit_wm(out, &kind, &vals);
    }
    for (kind, c) in seq_inputs(rng, thorough) {
        emit_seq(out, &kind, &c, skip_risky);
    }
}
