// C12: buffered file writers (RawVectorWriter / IntVectorWriter) on real files, against the serialization of
// the vector built in memory by the same pushes.
use crate::common::*;
use simple_sds::int_vector::{IntVector, IntVectorWriter};
use simple_sds::ops::{Push, Vector};
use simple_sds::raw_vector::{PushRaw, RawVector, RawVectorWriter};
use simple_sds::serialize::Serialize;
use std::fmt::Write as FmtWrite;
use std::fs;
use std::path::{Path, PathBuf};

const DBG: bool = cfg!(debug_assertions);
const BUF_LENS: [usize; 11] = [0, 1, 2, 3, 63, 64, 65, 127, 128, 129, 200];

#[derive(Clone, Copy)]
enum Op {
    Bit(bool),
    Int(u64, usize),
}

impl Op {
    fn bits(&self) -> usize {
        match self {
            Op::Bit(_) => 1,
            Op::Int(_, w) => *w,
        }
    }
}

fn elems(bytes: &[u8]) -> Vec<u64> {
    let mut v: Vec<u64> = bytes
        .chunks(8)
        .map(|c| {
            let mut b = [0u8; 8];
            b[..c.len()].copy_from_slice(c);
            u64::from_le_bytes(b)
        })
        .collect();
    if bytes.len() % 8 != 0 {
        // not a whole number of elements: can never match
        v.push(0xBAD0_BAD0_BAD0_BAD0);
    }
    v
}

fn read_elems(path: &Path) -> Vec<u64> {
    match fs::read(path) {
        Ok(bytes) => elems(&bytes),
        Err(_) => vec![0xBAD1_BAD1_BAD1_BAD1],
    }
}

fn serialized<T: Serialize>(x: &T) -> Vec<u64> {
    let mut bytes: Vec<u8> = Vec::new();
    x.serialize(&mut bytes).unwrap();
    elems(&bytes)
}

fn apply<T: PushRaw>(t: &mut T, op: &Op) {
    match op {
        Op::Bit(b) => t.push_bit(*b),
        Op::Int(v, w) => unsafe { t.push_int(*v, *w) },
    }
}

// the flush threshold the writer ends up with
fn actual_buf(bits: usize) -> usize {
    std::cmp::max((bits + 63) / 64 * 64, 64)
}

// regime statistics: how many safe flushes hit the threshold exactly / carried an overflow; buffer empty at close
fn regimes(out: &mut Out, kind: &str, actual: usize, pushes: &[usize]) {
    let mut cur = 0usize;
    let (mut exact, mut over) = (0u64, 0u64);
    for k in pushes {
        if *k == 0 {
            continue;
        }
        cur += k;
        if cur >= actual {
            if cur > actual {
                over += 1;
            } else {
                exact += 1;
            }
            cur -= actual;
        }
    }
    out.stat_n(&format!("{}.flush_exact", kind), exact);
    out.stat_n(&format!("{}.flush_overflow", kind), over);
    if exact + over == 0 {
        out.stat(&format!("{}.never_flushed_before_close", kind));
    }
    if cur == 0 && !pushes.is_empty() && exact > 0 {
        out.stat(&format!("{}.buffer_exactly_full_at_last_push", kind));
    }
}

// Coq number literals: hexadecimal for large values (decimal 64-bit literals parse slowly)
fn hx(x: u64) -> String {
    if x < 1000 { format!("{}", x) } else { format!("{:#x}", x) }
}

fn hlist(xs: &[u64]) -> String {
    let mut s = String::from("[");
    for (i, x) in xs.iter().enumerate() {
        if i > 0 {
            s.push_str("; ");
        }
        s.push_str(&hx(*x));
    }
    s.push(']');
    s
}

fn how_name(how: u64) -> &'static str {
    match how {
        0 => "close",
        1 => "close_twice",
        2 => "drop_open",
        _ => "push_after_close",
    }
}

fn ops_term(ops: &[Op]) -> String {
    let mut s = String::from("[");
    for (i, op) in ops.iter().enumerate() {
        if i > 0 {
            s.push_str("; ");
        }
        match op {
            Op::Bit(b) => {
                let _ = write!(s, "OB {}", if *b { "true" } else { "false" });
            }
            Op::Int(v, w) => {
                let _ = write!(s, "OI {} {}", hx(*v), w);
            }
        }
    }
    s.push(']');
    s
}

fn ops_json(ops: &[Op]) -> String {
    let mut s = String::from("[");
    for (i, op) in ops.iter().enumerate() {
        if i > 0 {
            s.push(',');
        }
        match op {
            Op::Bit(b) => {
                let _ = write!(s, "[\"b\",{}]", *b as u8);
            }
            Op::Int(v, w) => {
                let _ = write!(s, "[\"i\",{},{}]", v, w);
            }
        }
    }
    s.push(']');
    s
}

fn optn(x: Option<usize>) -> String {
    match x {
        Some(v) => format!("(Some {})", v),
        None => "None".to_string(),
    }
}

fn out_term(r: &Res<(Vec<u64>, usize)>) -> String {
    ires(r, |(f, l)| format!("({}, {})", hlist(f), l))
}

fn out_json(r: &Res<(Vec<u64>, usize)>) -> String {
    jres(r, |(f, l)| format!("{{\"file\":{:?},\"len\":{}}}", f, l))
}

// ---------------------------------------------------------------- one raw-writer case

#[allow(clippy::too_many_arguments)]
fn raw_case(out: &mut Out, path: &Path, bl: Option<usize>, h0: &[u64], h1: &[u64], ops: &[Op], how: u64, extra: &[Op]) {
    let _ = fs::remove_file(path);
    // "If the file already exists, it will be overwritten": every third case starts from a longer stale file
    if (ops.len() + h0.len() + how as usize) % 3 == 0 {
        let _ = fs::write(path, vec![0xA5u8; 4096 + 8 * ops.len()]);
        out.stat("raw.preexisting_file");
    }
    let r = catch(|| {
        let mut hdr0 = h0.to_vec();
        let mut w = match bl {
            Some(n) => RawVectorWriter::with_buf_len(path, &mut hdr0, n).unwrap(),
            None => RawVectorWriter::new(path, &mut hdr0).unwrap(),
        };
        for op in ops {
            apply(&mut w, op);
        }
        if how != 2 {
            if h1.is_empty() {
                w.close().unwrap();
            } else {
                let mut hdr1 = h1.to_vec();
                w.close_with_header(&mut hdr1).unwrap();
            }
        }
        if how == 1 {
            w.close().unwrap();
        }
        if how == 3 {
            for op in extra {
                apply(&mut w, op);
            }
        }
        // is_empty() must agree with len() (reported as an impossible length if it does not)
        let len = if w.is_empty() != (w.len() == 0) { usize::MAX } else { w.len() };
        drop(w);
        len
    });
    let res = match r {
        Res::Ok(len) => Res::Ok((read_elems(path), len)),
        Res::Panic(k, m) => Res::Panic(k, m),
    };
    let _ = fs::remove_file(path);
    let mut v = RawVector::new();
    for op in ops {
        apply(&mut v, op);
    }
    let mem = serialized(&v);
    out.stat(&format!("raw.how.{}", how_name(how)));
    if let Res::Panic(..) = res {
        out.stat("raw.creation_panicked");
    }
    if let Some(n) = bl {
        if n < (1usize << 40) {
            let pushes: Vec<usize> = ops.iter().map(|o| o.bits()).collect();
            regimes(out, "raw", actual_buf(n), &pushes);
        }
    }
    let term = format!(
        "CRaw {} {} {} {} {} {} {} {} {}",
        b(DBG), optn(bl), hlist(h0), hlist(h1), ops_term(ops), how, ops_term(extra), hlist(&mem), out_term(&res)
    );
    let json = format!(
        "{{\"dbg\":{},\"buf_len\":{},\"h0\":{:?},\"h1\":{:?},\"ops\":{},\"how\":\"{}\",\"extra\":{},\"mem\":{:?},\"out\":{}}}",
        DBG,
        match bl { Some(n) => n.to_string(), None => "null".to_string() },
        h0, h1, ops_json(ops), how_name(how), ops_json(extra), mem, out_json(&res)
    );
    out.case("raw", term, json, !ops.is_empty());
}

// ---------------------------------------------------------------- one int-writer case

#[allow(clippy::too_many_arguments)]
fn int_case(out: &mut Out, path: &Path, bl: Option<usize>, width: usize, xs: &[u64], how: u64, extra: &[u64], split: usize) {
    let _ = fs::remove_file(path);
    if (xs.len() + width + how as usize) % 3 == 0 {
        let _ = fs::write(path, vec![0x5Au8; 4096 + 8 * xs.len()]);
        out.stat("int.preexisting_file");
    }
    let r = catch(|| {
        let mut w = match bl {
            Some(n) => IntVectorWriter::with_buf_len(path, width, n).unwrap(),
            None => IntVectorWriter::new(path, width).unwrap(),
        };
        // the first [split] items one by one, the rest through Extend
        for x in &xs[..split] {
            w.push(*x);
        }
        // iterators of different shapes: exact size_hint, lower bound 0, a wrong-looking lower bound, narrower item types
        let rest: Vec<u64> = xs[split..].to_vec();
        let shape = (xs.len() + 3 * split + width) % 6;
        let fits = |bits: u32| rest.iter().all(|x| bits >= 64 || *x < (1u64 << bits));
        match shape {
            1 => w.extend(rest.iter().cloned().filter(|_| true)),
            2 => {
                let mut it = rest.iter().cloned();
                w.extend(std::iter::from_fn(move || it.next()));
            }
            3 => w.extend(rest.chunks(3).flat_map(|c| c.iter().cloned())),
            4 if fits(8) => w.extend(rest.iter().map(|x| *x as u8).collect::<Vec<u8>>()),
            4 if fits(16) => w.extend(rest.iter().map(|x| *x as u16).take_while(|_| true)),
            4 if fits(32) => w.extend(rest.iter().map(|x| *x as u32).skip_while(|_| false)),
            5 => w.extend(rest.iter().map(|x| *x as usize).scan(0usize, |_, x| Some(x))),
            _ => w.extend(rest.iter().cloned()),
        }
        if how != 2 {
            w.close().unwrap();
        }
        if how == 1 {
            w.close().unwrap();
        }
        if how == 3 {
            for x in extra {
                w.push(*x);
            }
        }
        // is_empty() must agree with len() (reported as an impossible length if it does not)
        let len = if w.is_empty() != (w.len() == 0) { usize::MAX } else { w.len() };
        drop(w);
        len
    });
    let res = match r {
        Res::Ok(len) => Res::Ok((read_elems(path), len)),
        Res::Panic(k, m) => Res::Panic(k, m),
    };
    let _ = fs::remove_file(path);
    let mut v = IntVector::new(width).unwrap();
    for x in xs {
        v.push(*x);
    }
    let mem = serialized(&v);
    out.stat(&format!("int.how.{}", how_name(how)));
    if let Res::Panic(..) = res {
        out.stat("int.creation_panicked");
    }
    if let Some(n) = bl {
        if let Some(bits) = n.checked_mul(width) {
            if bits < (1usize << 40) {
                let pushes: Vec<usize> = xs.iter().map(|_| width).collect();
                regimes(out, "int", actual_buf(bits), &pushes);
                if bits < width {
                    out.stat("int.buffer_request_below_one_item");
                }
                if bits % 64 != 0 {
                    out.stat("int.buffer_request_not_multiple_of_64");
                }
            }
        }
    }
    let term = format!(
        "CInt {} {} {} {} {} {} {} {}",
        b(DBG), optn(bl), width, hlist(xs), how, hlist(extra), hlist(&mem), out_term(&res)
    );
    let json = format!(
        "{{\"dbg\":{},\"buf_len\":{},\"width\":{},\"xs\":{:?},\"how\":\"{}\",\"extra\":{:?},\"mem\":{:?},\"out\":{}}}",
        DBG,
        match bl { Some(n) => n.to_string(), None => "null".to_string() },
        width, xs, how_name(how), extra, mem, out_json(&res)
    );
    out.case("int", term, json, !xs.is_empty());
}

// ---------------------------------------------------------------- generators

fn gcd(a: usize, b: usize) -> usize {
    if b == 0 { a } else { gcd(b, a % b) }
}

fn item_count(rng: &mut Rng) -> usize {
    match rng.below(20) {
        0 => 0,
        1 => 1,
        2..=5 => rng.range(2, 10) as usize,
        6..=12 => rng.range(11, 100) as usize,
        _ => rng.range(101, 300) as usize,
    }
}

fn value(rng: &mut Rng, width: usize) -> u64 {
    let mask = if width >= 64 { !0u64 } else { (1u64 << width) - 1 };
    match rng.below(6) {
        0 => rng.word(),          // usually wider than the item
        1 => mask,
        2 => 0,
        3 => !0u64,
        _ => rng.next() & mask,
    }
}

fn pick_how(rng: &mut Rng) -> u64 {
    match rng.below(10) {
        0..=3 => 0,
        4..=5 => 1,
        6..=8 => 2,
        _ => 3,
    }
}

fn push_width(rng: &mut Rng) -> usize {
    match rng.below(12) {
        0 => 0,
        1 => 1,
        2 => 63,
        3 => 64,
        _ => rng.range(0, 64) as usize,
    }
}

fn gen_ops(rng: &mut Rng, n: usize) -> Vec<Op> {
    let regime = rng.below(20);
    let fixed = rng.range(1, 64) as usize;
    (0..n)
        .map(|_| {
            if regime < 3 {
                Op::Bit(rng.chance(1, 2))
            } else if regime < 6 {
                Op::Int(value(rng, fixed), fixed)
            } else if rng.chance(2, 5) {
                Op::Bit(rng.chance(1, 2))
            } else {
                let w = push_width(rng);
                Op::Int(value(rng, w), w)
            }
        })
        .collect()
}

pub fn run(rng: &mut Rng, out: &mut Out, thorough: bool, variant: &str) {
    let dir: PathBuf = match std::env::var("VERIF_RUNDIR") {
        Ok(d) if !d.is_empty() => PathBuf::from(d),
        _ => std::env::temp_dir(),
    };
    let _ = fs::create_dir_all(&dir);
    if thorough {
        // smaller case files: a coqc process needs ~1.5 GB per MB of case terms, and 16 of them run in parallel
        let stats = out.stats.clone();
        *out = Out::new("C12", 96);
        out.stats = stats;
    }
    let path = dir.join(format!("c12_{}_{}.bin", variant, std::process::id()));
    let path = path.as_path();

    // ---- IntVectorWriter: every width x buffer sizes (in items) x item counts x ways of finishing
    let reps = if thorough { 2 } else { 1 };
    for width in 1..=64usize {
        for _ in 0..reps {
            let mut bls: Vec<usize> = Vec::new();
            if thorough {
                bls.extend_from_slice(&BUF_LENS);
                for _ in 0..3 {
                    bls.push(rng.below(1000) as usize);
                }
            } else {
                for _ in 0..4 {
                    bls.push(*rng.pick(&BUF_LENS));
                }
                bls.push(rng.below(1000) as usize);
            }
            for bl in bls {
                let n = item_count(rng);
                let xs: Vec<u64> = (0..n).map(|_| value(rng, width)).collect();
                let how = pick_how(rng);
                let extra: Vec<u64> = if how == 3 { (0..rng.range(1, 20)).map(|_| value(rng, width)).collect() } else { vec![] };
                let split = rng.below(n as u64 + 1) as usize;
                int_case(out, path, Some(bl), width, &xs, how, &extra, split);
            }
            // exact fit: the buffer is exactly full at the last push (n * width is a multiple of the threshold)
            for _ in 0..(if thorough { 3 } else { 1 }) {
                let bl = *rng.pick(&[0usize, 1, 2, 3, 5, 8, 64]);
                let actual = actual_buf(bl * width);
                let unit = actual / gcd(actual, width);
                let j = std::cmp::max(1, rng.below((400 / unit) as u64 + 1) as usize);
                let n = unit * j;
                let xs: Vec<u64> = (0..n).map(|_| value(rng, width)).collect();
                out.stat("int.exact_fit_case");
                int_case(out, path, Some(bl), width, &xs, pick_how(rng) % 3, &[], rng.below(n as u64 + 1) as usize);
            }
        }
    }

    // ---- RawVectorWriter: mixed bit / integer pushes
    let raw_cases = if thorough { 2000 } else { 340 };
    for _ in 0..raw_cases {
        let bl = match rng.below(10) {
            0..=5 => *rng.pick(&BUF_LENS),
            6..=7 => rng.below(600) as usize,
            8 => 1000,
            _ => 4096,
        };
        let n = item_count(rng);
        let mut ops = gen_ops(rng, n);
        let actual = actual_buf(bl);
        if actual <= 1024 && rng.chance(1, 4) {
            // pad so that the last push fills the buffer exactly
            let mut total: usize = ops.iter().map(|o| o.bits()).sum();
            while total % actual != 0 || total == 0 {
                let room = actual - total % actual;
                let w = std::cmp::min(room, 64);
                if w > 1 && rng.chance(1, 2) {
                    ops.push(Op::Int(rng.word(), w));
                    total += w;
                } else {
                    ops.push(Op::Bit(rng.chance(1, 2)));
                    total += 1;
                }
            }
            out.stat("raw.exact_fit_case");
        }
        let mut how = pick_how(rng);
        let (h0, h1): (Vec<u64>, Vec<u64>) = if rng.chance(1, 5) {
            // a parent header, as IntVectorWriter uses it (placeholder at creation, final values at close)
            if how == 2 {
                how = 0;
            }
            let k = rng.range(1, 3) as usize;
            ((0..k).map(|_| rng.below(3)).collect(), (0..k).map(|_| rng.next()).collect())
        } else {
            (vec![], vec![])
        };
        let k = rng.range(1, 20) as usize;
        let extra = if how == 3 { gen_ops(rng, k) } else { vec![] };
        raw_case(out, path, Some(bl), &h0, &h1, &ops, how, &extra);
    }

    // ---- default buffer size (new)
    for _ in 0..(if thorough { 20 } else { 4 }) {
        let width = rng.range(1, 64) as usize;
        let n = item_count(rng);
        let xs: Vec<u64> = (0..n).map(|_| value(rng, width)).collect();
        int_case(out, path, None, width, &xs, pick_how(rng) % 3, &[], rng.below(n as u64 + 1) as usize);
        let k = item_count(rng);
        let ops = gen_ops(rng, k);
        raw_case(out, path, None, &[], &[], &ops, pick_how(rng) % 3, &[]);
    }

    // ---- extreme buffer sizes: the rounding overflows (panics with overflow checks on; wraps to a small or an
    // unreachable threshold with checks off). Sizes between 2^40 and 2^64-128 would only exhaust memory: not run.
    let m = usize::MAX;
    for bl in [m, m - 1, m - 62, m - 63, m - 64, m - 126] {
        let k = rng.range(1, 40) as usize;
        let ops = gen_ops(rng, k);
        raw_case(out, path, Some(bl), &[], &[], &ops, pick_how(rng) % 3, &[]);
        out.stat("raw.extreme_buf_len");
    }
    for (bl, width) in [(1usize << 58, 64usize), ((1usize << 58) + 1, 64), (1usize << 63, 2), ((1usize << 63) + 1, 2), (m, 1), (m, 2), (m / 3 + 1, 3)] {
        let xs: Vec<u64> = (0..rng.range(1, 40)).map(|_| value(rng, width)).collect();
        int_case(out, path, Some(bl), width, &xs, pick_how(rng) % 3, &[], 0);
        out.stat("int.extreme_buf_len");
    }
    let _ = fs::remove_file(path);
}
