// C08: the safe API never touches memory outside a structure's buffers.
// Every structure's batch of calls runs in a forked child process, so that a crash (SIGSEGV, sanitizer abort,
// runaway loop killed by the alarm) is attributed to the batch and recorded as a case instead of taking the
// harness down. Every call is wrapped in `catch`; what is recorded per call is: returned / panicked with class
// (class 9 = the `VERIF-OOB` bounds hook inside an unchecked accessor). For the plain bitvector, RawVector,
// IntVector and the mask functions the call and its result are emitted as Coq terms and replayed on the model.
// Memory-mapped views: real files made of library-serialized values are mapped and every view type is requested at
// every offset (one forked child per file); a view that `new` returned is asked for its extent and touched at its
// first and last element, so that a view beyond the mapping shows up in the range test or kills the child.
// Objects (CObj): the safe entry points of Transformation (Identity / Complement), RankSupport and SelectSupport<T> are
// called directly on a parent bitvector, with supports built by `new` from the parent itself and from ANOTHER bitvector
// (shorter, longer, empty, all ones, all zeros, word-aligned or not), with extreme and boundary arguments.
// Histories: random sequences of safe RawVector / IntVector calls (refused calls run on a clone and are dropped), then
// the final length and backing words, the safe conversions into a BitVector and its iterators (CHistR / CHistI).
use crate::bvgen::*;
use crate::common::*;
use simple_sds::bit_vector::rank_support::RankSupport;
use simple_sds::bit_vector::select_support::SelectSupport;
use simple_sds::bit_vector::{BitVector, Complement, Identity, Transformation};
use simple_sds::bits;
use simple_sds::int_vector::{IntVector, IntVectorMapper};
use simple_sds::ops::*;
use simple_sds::raw_vector::{AccessRaw, PopRaw, PushRaw, RawVector, RawVectorMapper};
use simple_sds::rl_vector::index::SampleIndex;
use simple_sds::rl_vector::{RLBuilder, RLVector};
use simple_sds::serialize::{MappedBytes, MappedOption, MappedSlice, MappedStr, MappingMode, MemoryMap, MemoryMapped, Serialize};
use simple_sds::sparse_vector::{SparseBuilder, SparseVector};
use simple_sds::wavelet_matrix::wm_core::WMCore;
use simple_sds::wavelet_matrix::WaveletMatrix;
use std::convert::TryFrom;
use std::fmt::Write as FmtWrite;
use std::fs;
use std::io::Write as IoWrite;
use std::path::PathBuf;

const DBG: bool = cfg!(debug_assertions);
const PATH: u64 = if cfg!(all(target_arch = "x86_64", target_feature = "bmi2")) { 0 } else { 1 };
const MAX: usize = usize::MAX;

// numeric argument as a Coq term: the three huge extremes by the names defined in coq/Check/C08.v
fn nz(x: usize) -> String {
    if x == MAX {
        "MX".to_string()
    } else if x == MAX - 1 {
        "MX1".to_string()
    } else if x == 1usize << 63 {
        "H63".to_string()
    } else {
        format!("{}", x)
    }
}

// kinds of the unmodelled batches (COther / CDied)
const K_BV: u64 = 0;
const K_SPARSE: u64 = 1;
const K_RL: u64 = 2;
const K_WM: u64 = 3;
const K_WMCORE: u64 = 4;
const K_IV: u64 = 5;
const K_RAW: u64 = 6;
const K_BUILDERS: u64 = 7;
const K_MASKS: u64 = 8;
const K_MAPPED: u64 = 9;

// ---------------------------------------------------------------- child processes

// a small shared mapping in which the child names the call it is about to make, so that the parent can
// report the last call of a batch whose process died
static mut MARK: *mut u8 = std::ptr::null_mut();
const MARK_LEN: usize = 512;

fn mark_init() {
    unsafe {
        let p = libc::mmap(std::ptr::null_mut(), MARK_LEN, libc::PROT_READ | libc::PROT_WRITE, libc::MAP_SHARED | libc::MAP_ANONYMOUS, -1, 0);
        if p != libc::MAP_FAILED {
            MARK = p as *mut u8;
            *MARK = 0;
        }
    }
}
fn mark(s: &str) {
    unsafe {
        if !MARK.is_null() {
            let bytes = s.as_bytes();
            let k = std::cmp::min(bytes.len(), MARK_LEN - 1);
            std::ptr::copy_nonoverlapping(bytes.as_ptr(), MARK, k);
            *MARK.add(k) = 0;
        }
    }
}
fn mark_read() -> String {
    unsafe {
        if MARK.is_null() {
            return String::new();
        }
        let mut v = Vec::new();
        let mut i = 0;
        while i < MARK_LEN && *MARK.add(i) != 0 {
            v.push(*MARK.add(i));
            i += 1;
        }
        String::from_utf8_lossy(&v).to_string()
    }
}

fn rundir() -> PathBuf {
    let d = match std::env::var("VERIF_RUNDIR") {
        Ok(d) if !d.is_empty() => PathBuf::from(d),
        _ => std::env::temp_dir(),
    };
    let _ = fs::create_dir_all(&d);
    d
}

struct Batches {
    n: usize,
    dir: PathBuf,
}

impl Batches {
    // run `f` in a forked child; its cases come back through a file. If the child does not finish normally the
    // batch itself becomes a failing case (CDied).
    fn run<F: FnOnce(&mut Out)>(&mut self, out: &mut Out, kind: u64, label: &str, seed: u64, f: F) {
        self.n += 1;
        let path = self.dir.join(format!("c08_batch_{}_{}.txt", std::process::id(), self.n));
        let _ = std::io::stdout().flush();
        let _ = std::io::stderr().flush();
        mark(&format!("{} (before the first marked call)", label));
        let pid = unsafe { libc::fork() };
        if pid < 0 {
            // cannot fork: run in this process
            let mut tmp = Out::collector("C08");
            f(&mut tmp);
            out.absorb(tmp);
            out.stat("batch.inline");
            return;
        }
        if pid == 0 {
            unsafe {
                libc::alarm(300);
            }
            let mut tmp = Out::collector("C08");
            let r = catch(|| f(&mut tmp));
            let mut s = String::new();
            for (k, v) in tmp.stats.iter() {
                let _ = writeln!(s, "S\t{}\t{}", k, v);
            }
            for p in tmp.pending.iter() {
                let _ = writeln!(s, "C\t{}\t{}\t{}\t{}", p.0, p.3 as u8, p.1, p.2);
            }
            if let Res::Panic(k, m) = r {
                let _ = writeln!(s, "P\t{}\t{:?}", k, m);
            }
            s.push_str("END\n");
            let _ = fs::write(&path, s);
            unsafe { libc::_exit(0) };
        }
        let mut status: libc::c_int = 0;
        unsafe {
            libc::waitpid(pid, &mut status, 0);
        }
        let text = fs::read_to_string(&path).unwrap_or_default();
        let _ = fs::remove_file(&path);
        let died: Option<u64> = if libc::WIFSIGNALED(status) {
            Some(libc::WTERMSIG(status) as u64)
        } else if libc::WIFEXITED(status) && libc::WEXITSTATUS(status) != 0 {
            Some(1000 + libc::WEXITSTATUS(status) as u64)
        } else if !text.ends_with("END\n") {
            Some(2000)
        } else {
            None
        };
        if let Some(st) = died {
            out.stat("batch.died");
            out.case("died", format!("CDied {} {}", kind, st),
                format!("{{\"outcome\":\"signal\",\"batch\":{:?},\"kind\":{},\"status\":{},\"last_call\":{:?},\"batch_seed\":{},\"variant_dbg\":{}}}", label, kind, st, mark_read(), seed, DBG), true);
            return;
        }
        out.stat("batch.ok");
        for line in text.lines() {
            let f: Vec<&str> = line.splitn(5, '\t').collect();
            match f[0] {
                "S" if f.len() >= 3 => out.stat_n(f[1], f[2].parse().unwrap_or(0)),
                "C" if f.len() >= 5 => out.case(f[1], f[3].to_string(), f[4].to_string(), f[2] == "1"),
                "P" if f.len() >= 3 => {
                    // a panic that escaped the per-call catches (construction of the structure)
                    let k: u64 = f[1].parse().unwrap_or(5);
                    out.stat("batch.escaped_panic");
                    out.case("other", format!("COther {} [{}]", kind, k),
                        format!("{{\"struct\":{:?},\"escaped_panic\":{},\"class\":{}}}", label, f[2], k), true);
                }
                _ => {}
            }
        }
    }
}

// ---------------------------------------------------------------- call logs for unmodelled structures

struct Log {
    kind: u64,
    label: String,
    descs: Vec<String>,
    classes: Vec<u64>,
}

fn class_of<T>(r: &Res<T>) -> u64 {
    match r {
        Res::Ok(_) => 0,
        Res::Panic(k, _) => *k,
    }
}

impl Log {
    fn new(kind: u64, label: String) -> Log {
        Log { kind, label, descs: Vec::new(), classes: Vec::new() }
    }
    fn add<T>(&mut self, desc: String, r: &Res<T>) {
        self.descs.push(desc);
        self.classes.push(class_of(r));
    }
    fn add_seq(&mut self, name: &str, opened: &Res<()>, steps: &[(u8, usize, Res<String>)]) {
        self.add(format!("{}", name), opened);
        for (op, n, r) in steps.iter() {
            self.add(format!("{}.{}", name, op_name(*op, *n)), r);
        }
    }
    fn emit(self, out: &mut Out) {
        let mut i = 0;
        while i < self.classes.len() {
            let j = std::cmp::min(self.classes.len(), i + 120);
            let mut js = String::new();
            for k in i..j {
                if k > i {
                    js.push(',');
                }
                let _ = write!(js, "{:?}", format!("{}={}", self.descs[k], self.classes[k]));
            }
            let any9 = self.classes[i..j].iter().any(|c| *c == 9);
            out.stat_n("calls.unmodelled", (j - i) as u64);
            out.stat_n(&format!("calls.kind{}", self.kind), (j - i) as u64);
            out.stat_n("calls.panicked", self.classes[i..j].iter().filter(|c| **c != 0).count() as u64);
            out.case("other", format!("COther {} {}", self.kind, nlist(&self.classes[i..j])),
                format!("{{\"struct\":{:?},\"oob\":{},\"calls\":[{}]}}", self.label, any9, js), true);
            i = j;
        }
    }
}

// ---------------------------------------------------------------- iterator call sequences

type Op = (u8, usize); // 0 next, 1 next_back, 2 nth(n), 3 nth_back(n)

fn op_name(op: u8, n: usize) -> String {
    match op {
        0 => "next".to_string(),
        1 => "next_back".to_string(),
        2 => format!("nth({})", n),
        _ => format!("nth_back({})", n),
    }
}

fn alphabet(rem: usize, de: bool) -> Vec<Op> {
    let mut ns = vec![0usize, 1, rem.wrapping_sub(1), rem, rem.wrapping_add(1), 1usize << 63, MAX - 1, MAX];
    ns.sort();
    ns.dedup();
    let mut a: Vec<Op> = vec![(0, 0)];
    if de {
        a.push((1, 0));
    }
    for n in ns.iter() {
        a.push((2, *n));
        if de {
            a.push((3, *n));
        }
    }
    a
}

// all sequences of length 1 (and 2 when `pairs`), plus `nrandom` random ones of length 2..=4
fn sequences(rng: &mut Rng, rem: usize, de: bool, pairs: bool, nrandom: usize) -> Vec<Vec<Op>> {
    sequences_m(rng, rem, de, true, pairs, nrandom)
}
// only random sequences (length 1..=4)
fn sequences_r(rng: &mut Rng, rem: usize, de: bool, nrandom: usize) -> Vec<Vec<Op>> {
    sequences_m(rng, rem, de, false, false, nrandom)
}
fn sequences_m(rng: &mut Rng, rem: usize, de: bool, singles: bool, pairs: bool, nrandom: usize) -> Vec<Vec<Op>> {
    let a = alphabet(rem, de);
    let mut v: Vec<Vec<Op>> = Vec::new();
    if singles {
        for x in a.iter() {
            v.push(vec![*x]);
        }
    }
    if pairs {
        for x in a.iter() {
            for y in a.iter() {
                v.push(vec![*x, *y]);
            }
        }
    }
    for _ in 0..nrandom {
        let l = rng.range(if singles { 2 } else { 1 }, 4) as usize;
        let mut s = Vec::new();
        for _ in 0..l {
            // bias towards the plain steps so that the iterator is partly consumed before an extreme nth
            let x = if rng.below(3) == 0 { a[rng.below(std::cmp::min(2, a.len()) as u64) as usize] } else { *rng.pick(&a) };
            s.push(x);
        }
        v.push(s);
    }
    v
}

fn step_fwd<I: Iterator>(it: &mut I, op: u8, n: usize) -> Option<I::Item> {
    match op {
        0 => it.next(),
        _ => it.nth(n),
    }
}
fn step_de<I: DoubleEndedIterator>(it: &mut I, op: u8, n: usize) -> Option<I::Item> {
    match op {
        0 => it.next(),
        1 => it.next_back(),
        2 => it.nth(n),
        _ => it.nth_back(n),
    }
}

// obtain an iterator and apply the steps; stops at the first panic
fn drive<I: Iterator, M: FnOnce() -> I, S: Fn(&mut I, u8, usize) -> Option<I::Item>, F: Fn(&Option<I::Item>) -> String>(
    mk: M, ops: &[Op], step: S, fmt: F) -> (Res<()>, Vec<(u8, usize, Res<String>)>) {
    let mut steps = Vec::new();
    match catch(mk) {
        Res::Panic(k, m) => (Res::Panic(k, m), steps),
        Res::Ok(mut it) => {
            for (op, n) in ops.iter() {
                let r = catch(|| fmt(&step(&mut it, *op, *n)));
                let stop = matches!(r, Res::Panic(..));
                steps.push((*op, *n, r));
                if stop {
                    break;
                }
            }
            (Res::Ok(()), steps)
        }
    }
}

fn dbgfmt<T: std::fmt::Debug>(x: &Option<T>) -> String {
    format!("{:?}", x)
}

macro_rules! seqs {
    ($log:expr, $name:expr, $mk:expr, $seqs:expr, $step:ident) => {
        for ops in $seqs.iter() {
            mark(&format!("{}:{}", $name, seq_desc(ops)));
            let (opened, steps) = drive(|| $mk, ops, $step, dbgfmt);
            $log.add_seq(&$name, &opened, &steps);
        }
    };
}

fn load_back<T: Serialize>(x: &T) -> T {
    let mut buf: Vec<u8> = Vec::new();
    x.serialize(&mut buf).unwrap();
    let mut rd: &[u8] = &buf[..];
    T::load(&mut rd).unwrap()
}

// ---------------------------------------------------------------- plain bitvector (modelled)

struct BvCalls {
    terms: Vec<String>,
    descs: Vec<String>,
    is9: Vec<bool>,
    oob: bool,
}

impl BvCalls {
    fn push(&mut self, term: String, desc: String, classes: &[u64]) {
        let hit = classes.iter().any(|c| *c == 9);
        if hit {
            self.oob = true;
        }
        self.is9.push(hit);
        self.terms.push(term);
        self.descs.push(desc);
    }
}

fn istep_terms(steps: &[(u8, usize, Res<String>)]) -> String {
    let mut s = String::from("[");
    for (i, (op, n, r)) in steps.iter().enumerate() {
        if i > 0 {
            s.push_str("; ");
        }
        let _ = write!(s, "({}, {}, {})", op, nz(*n), ires(r, |x| x.clone()));
    }
    s.push(']');
    s
}

fn onn(x: &Option<(usize, usize)>) -> String {
    opt(x, |p| pair(nu(p.0), nu(p.1)))
}
fn obool(x: &Option<bool>) -> String {
    opt(x, |v| b(*v))
}

fn seq_desc(ops: &[Op]) -> String {
    ops.iter().map(|(o, n)| op_name(*o, *n)).collect::<Vec<_>>().join(",")
}

fn bv_calls(rng: &mut Rng, bv: &BitVector, pairs: bool, nrandom: usize) -> BvCalls {
    let mut c = BvCalls { terms: Vec::new(), descs: Vec::new(), is9: Vec::new(), oob: false };
    let len = bv.len();
    let ones = bv.count_ones();
    let zeros = len.wrapping_sub(ones);
    for i in extremes(len) {
        mark(&format!("BitVector(len={}).get/rank/rank_zero({})", len, i));
        let r = catch(|| bv.get(i));
        c.push(format!("BGet {} {}", nz(i), ires(&r, |x| b(*x))), format!("get({})", i), &[class_of(&r)]);
        let r = catch(|| bv.rank(i));
        c.push(format!("BRank {} {}", nz(i), ires(&r, |x| nu(*x))), format!("rank({})", i), &[class_of(&r)]);
        let r = catch(|| bv.rank_zero(i));
        c.push(format!("BRank0 {} {}", nz(i), ires(&r, |x| nu(*x))), format!("rank_zero({})", i), &[class_of(&r)]);
    }
    for r0 in extremes(ones) {
        mark(&format!("BitVector(len={}).select({})", len, r0));
        let r = catch(|| bv.select(r0));
        c.push(format!("BSel false {} {}", nz(r0), ires(&r, |x| opt(x, |v| nu(*v)))), format!("select({})", r0), &[class_of(&r)]);
    }
    for r0 in extremes(zeros) {
        mark(&format!("BitVector(len={}).select_zero({})", len, r0));
        let r = catch(|| bv.select_zero(r0));
        c.push(format!("BSel true {} {}", nz(r0), ires(&r, |x| opt(x, |v| nu(*v)))), format!("select_zero({})", r0), &[class_of(&r)]);
    }
    // iterators over set / unset bits from the four sources
    let iter_case = |c: &mut BvCalls, src: u64, z: bool, arg: usize, ops: &[Op]| {
        let name = match (src, z) {
            (0, false) => "one_iter()".to_string(),
            (0, true) => "zero_iter()".to_string(),
            (1, false) => format!("select_iter({})", arg),
            (1, true) => format!("select_zero_iter({})", arg),
            (2, _) => format!("predecessor({})", arg),
            _ => format!("successor({})", arg),
        };
        mark(&format!("BitVector(len={}).{}:{}", len, name, seq_desc(ops)));
        let (opened, steps) = match (src, z) {
            (0, false) => drive(|| bv.one_iter(), ops, step_de, onn),
            (0, true) => drive(|| bv.zero_iter(), ops, step_de, onn),
            (1, false) => drive(|| bv.select_iter(arg), ops, step_de, onn),
            (1, true) => drive(|| bv.select_zero_iter(arg), ops, step_de, onn),
            (2, _) => drive(|| bv.predecessor(arg), ops, step_de, onn),
            _ => drive(|| bv.successor(arg), ops, step_de, onn),
        };
        let mut classes: Vec<u64> = vec![class_of(&opened)];
        classes.extend(steps.iter().map(|s| class_of(&s.2)));
        c.push(format!("BIter {} {} {} {} {}", src, b(z), nz(arg), ires(&opened, |_| "tt".to_string()), istep_terms(&steps)),
            format!("{}:{}", name, seq_desc(ops)), &classes);
    };
    for z in [false, true] {
        let cnt = if z { zeros } else { ones };
        for ops in sequences(rng, cnt, true, pairs, nrandom) {
            iter_case(&mut c, 0, z, 0, &ops);
        }
        for arg in extremes(cnt) {
            let rem = cnt.saturating_sub(arg);
            for ops in sequences_r(rng, rem, true, nrandom / 6 + 1) {
                iter_case(&mut c, 1, z, arg, &ops);
            }
        }
    }
    for arg in extremes(len) {
        for ops in sequences_r(rng, ones, true, nrandom / 6 + 1) {
            iter_case(&mut c, 2, false, arg, &ops);
        }
        for ops in sequences_r(rng, ones, true, nrandom / 6 + 1) {
            iter_case(&mut c, 3, false, arg, &ops);
        }
    }
    for ops in sequences(rng, len, true, pairs, nrandom) {
        mark(&format!("BitVector(len={}).iter():{}", len, seq_desc(&ops)));
        let (opened, steps) = drive(|| bv.iter(), &ops, step_de, obool);
        let mut classes: Vec<u64> = vec![class_of(&opened)];
        classes.extend(steps.iter().map(|s| class_of(&s.2)));
        c.push(format!("BBits {}", istep_terms(&steps)), format!("iter():{}", seq_desc(&ops)), &classes);
    }
    c
}

fn emit_bv(out: &mut Out, bits: &[bool], sup: u64, loaded: bool, c: BvCalls) {
    let words = to_words(bits);
    // small vectors: small cases (a failing case names few calls); large ones: one case, so that the model
    // builds the supports once
    let chunk = if bits.len() > 2048 { usize::MAX } else if bits.len() > 512 { 200 } else { 60 };
    let mut i = 0;
    while i < c.terms.len() {
        let j = std::cmp::min(c.terms.len(), i.saturating_add(chunk));
        let term = format!("CBV {} {} {} {} {} [{}]", PATH, b(DBG), sup, bits.len(), nlist(&words), c.terms[i..j].join("; "));
        let mut js = String::new();
        let mut hits = String::new();
        for k in i..j {
            if k > i {
                js.push(',');
            }
            let _ = write!(js, "{:?}", c.descs[k]);
            if c.is9[k] {
                if !hits.is_empty() {
                    hits.push(',');
                }
                let _ = write!(hits, "{:?}", c.descs[k]);
            }
        }
        out.stat_n("calls.bitvector", (j - i) as u64);
        out.case(if loaded { "bv_loaded" } else { "bv" }, term,
            format!("{{\"struct\":\"BitVector\",\"len\":{},\"sup\":{},\"loaded\":{},\"oob_calls\":[{}],\"words\":{:?},\"calls\":[{}]}}",
                bits.len(), sup, loaded, hits, if words.len() <= 40 { words.clone() } else { words[..40].to_vec() }, js), true);
        i = j;
    }
}

fn bv_batch(out: &mut Out, rng: &mut Rng, bits: &[bool], sup: u64, pairs: bool, nrandom: usize) {
    let mut bv: BitVector = bits.iter().cloned().collect();
    if sup & 1 != 0 {
        bv.enable_rank();
    }
    if sup & 2 != 0 {
        bv.enable_select();
    }
    if sup & 4 != 0 {
        bv.enable_select_zero();
    }
    let c = bv_calls(rng, &bv, pairs, nrandom);
    out.stat(if c.oob { "bv.oob" } else { "bv.clean" });
    emit_bv(out, bits, sup, false, c);
    // the same vector loaded back from the bytes the library wrote
    let bv2 = load_back(&bv);
    let c2 = bv_calls(rng, &bv2, false, nrandom / 2);
    emit_bv(out, bits, sup, true, c2);
}

// `assert!(bit_offset < self.len(), "RawVector::set_bit(): Bit offset is out of bounds")` is an assertion, whatever
// its message says
fn fix_set_bit<T>(r: Res<T>) -> Res<T> {
    match r {
        Res::Panic(_, msg) if msg.starts_with("RawVector::set_bit()") => Res::Panic(P_ASSERT, msg),
        other => other,
    }
}

// one_iter / zero_iter of a bitvector without supports, driven by random call sequences
fn bv_iter_only(rng: &mut Rng, bv: &BitVector, nrandom: usize) -> BvCalls {
    let mut c = BvCalls { terms: Vec::new(), descs: Vec::new(), is9: Vec::new(), oob: false };
    let len = bv.len();
    let ones = bv.count_ones();
    let zeros = len.wrapping_sub(ones);
    for z in [false, true] {
        let cnt = if z { zeros } else { ones };
        let mut seqs = vec![vec![(0u8, 0usize)], vec![(1u8, 0usize)]];
        seqs.extend(sequences_r(rng, cnt, true, nrandom));
        for ops in seqs.iter() {
            let name = if z { "zero_iter()" } else { "one_iter()" };
            mark(&format!("BitVector::from(raw vector of {} bits).{}:{}", len, name, seq_desc(ops)));
            let (opened, steps) = if z { drive(|| bv.zero_iter(), ops, step_de, onn) } else { drive(|| bv.one_iter(), ops, step_de, onn) };
            let mut classes: Vec<u64> = vec![class_of(&opened)];
            classes.extend(steps.iter().map(|s| class_of(&s.2)));
            c.push(format!("BIter 0 {} 0 {} {}", b(z), ires(&opened, |_| "tt".to_string()), istep_terms(&steps)),
                format!("{}:{}", name, seq_desc(ops)), &classes);
        }
    }
    c
}

// set_bit(i, v) on a copy with any offset - inside the vector, in the unused part of the last word, beyond the
// words - then BitVector::from of that same copy (unchanged if the call panicked) and its iterators
fn set_bit_then_iterate(out: &mut Out, rng: &mut Rng, rv: &RawVector, loaded: bool) {
    let len = rv.len();
    let words: Vec<u64> = { let w: &[u64] = rv.as_ref(); w.to_vec() };
    let cap = 64 * words.len();
    let mut offs: Vec<usize> = vec![0, len.saturating_sub(1), len, len + 1, (len + cap) / 2, cap.saturating_sub(1), cap, cap + 1, cap + 64, 1usize << 63, MAX - 1, MAX];
    offs.sort();
    offs.dedup();
    for i in offs.iter() {
        for v in [true, false] {
            if !v && *i != len && i.wrapping_add(1) != cap {
                continue;
            }
            let mut c = rv.clone();
            mark(&format!("RawVector(len={}).set_bit({},{})", len, i, v));
            let r = fix_set_bit(catch(|| { c.set_bit(*i, v); }));
            out.stat(if *i < len { "set_bit.inside" } else if *i < cap { "set_bit.unused_bits_of_last_word" } else { "set_bit.beyond_the_words" });
            out.stat(if matches!(r, Res::Ok(_)) { "set_bit.returned" } else { "set_bit.panicked" });
            let bv = BitVector::from(c);
            let calls = bv_iter_only(rng, &bv, 6);
            out.stat_n("calls.bitvector_after_set_bit", calls.terms.len() as u64);
            let hits: Vec<String> = calls.descs.iter().zip(calls.is9.iter()).filter(|(_, h)| **h).map(|(d, _)| format!("{:?}", d)).collect();
            let js: Vec<String> = calls.descs.iter().map(|d| format!("{:?}", d)).collect();
            out.case(if loaded { "raw_set_loaded" } else { "raw_set" },
                format!("CRawSet {} {} {} {} {} {} {} [{}]", PATH, b(DBG), len, nlist(&words), nz(*i), b(v), ires(&r, |_| "tt".to_string()), calls.terms.join("; ")),
                format!("{{\"struct\":\"RawVector -> BitVector\",\"len\":{},\"words\":{:?},\"loaded\":{},\"set_bit\":[{},{}],\"set_bit_class\":{},\"beyond_len\":{},\"oob_calls\":[{}],\"calls\":[{}]}}",
                    len, words, loaded, i, v, class_of(&r), *i >= len, hits.join(","), js.join(",")), true);
        }
    }
}

// ---------------------------------------------------------------- RawVector / IntVector (modelled, every call on a clone)

fn raw_batch(out: &mut Out, rng: &mut Rng, bits: &[bool]) {
    let mut raw = RawVector::new();
    for x in bits.iter() {
        raw.push_bit(*x);
    }
    for (which, rv) in [(false, raw.clone()), (true, load_back(&raw))] {
        let len = rv.len();
        let words: Vec<u64> = { let w: &[u64] = rv.as_ref(); w.to_vec() };
        let mut t: Vec<String> = Vec::new();
        let mut d: Vec<String> = Vec::new();
        let mut oob = false;
        let mut add = |term: String, desc: String, k: u64| {
            if k == 9 {
                oob = true;
            }
            t.push(term);
            d.push(desc);
        };
        for i in extremes(len) {
            let r = catch(|| rv.bit(i));
            add(format!("RBit {} {}", nz(i), ires(&r, |x| b(*x))), format!("bit({})", i), class_of(&r));
            for v in [false, true] {
                let r = fix_set_bit(catch(|| { let mut c = rv.clone(); c.set_bit(i, v); }));
                add(format!("RSetBit {} {} {}", nz(i), b(v), ires(&r, |_| "tt".to_string())), format!("set_bit({},{})", i, v), class_of(&r));
            }
            // the unsafe fns inside their documented precondition (width <= 64), at every offset
            for w in [1usize, 7, 63, 64] {
                let r = catch(|| unsafe { rv.int(i, w) });
                add(format!("RInt {} {} {}", nz(i), w, ires(&r, |x| n(*x))), format!("int({},{})", i, w), class_of(&r));
                let val = rng.next();
                let r = catch(|| { let mut c = rv.clone(); unsafe { c.set_int(i, val, w); } });
                add(format!("RSetInt {} {} {} {}", nz(i), val, w, ires(&r, |_| "tt".to_string())), format!("set_int({},{},{})", i, val, w), class_of(&r));
            }
        }
        for i in extremes(words.len()) {
            let r = catch(|| rv.word(i));
            add(format!("RWord {} {}", nz(i), ires(&r, |x| n(*x))), format!("word({})", i), class_of(&r));
        }
        for w in [0usize, 1, 13, 64] {
            let val = rng.next();
            let r = catch(|| { let mut c = rv.clone(); unsafe { c.push_int(val, w); } });
            add(format!("RPushInt {} {} {}", val, w, ires(&r, |_| "tt".to_string())), format!("push_int({},{})", val, w), class_of(&r));
            let r = catch(|| { let mut c = rv.clone(); unsafe { c.pop_int(w) } });
            add(format!("RPopInt {} {}", w, ires(&r, |x| opt(x, |v| n(*v)))), format!("pop_int({})", w), class_of(&r));
        }
        // beyond the precondition the writers are still guarded by the checked low_set (index panic first)
        for w in [65usize, 70, 128] {
            let r = catch(|| { let mut c = rv.clone(); unsafe { c.set_int(0, 1, w); } });
            add(format!("RSetInt 0 1 {} {}", w, ires(&r, |_| "tt".to_string())), format!("set_int(0,1,{})", w), class_of(&r));
            let r = catch(|| { let mut c = rv.clone(); unsafe { c.push_int(1, w); } });
            add(format!("RPushInt 1 {} {}", w, ires(&r, |_| "tt".to_string())), format!("push_int(1,{})", w), class_of(&r));
        }
        for v in [false, true] {
            let r = catch(|| { let mut c = rv.clone(); c.push_bit(v); });
            add(format!("RPushBit {} {}", b(v), ires(&r, |_| "tt".to_string())), format!("push_bit({})", v), class_of(&r));
            for nl in [0usize, 1, len.saturating_sub(1), len, len + 1, 2 * len, len + 64, len + 65] {
                let r = catch(|| { let mut c = rv.clone(); c.resize(nl, v); });
                add(format!("RResize {} {} {}", nl, b(v), ires(&r, |_| "tt".to_string())), format!("resize({},{})", nl, v), class_of(&r));
            }
        }
        let r = catch(|| { let mut c = rv.clone(); c.pop_bit() });
        add(format!("RPopBit {}", ires(&r, |x| opt(x, |v| b(*v)))), "pop_bit()".to_string(), class_of(&r));
        let mut js = String::new();
        for (k, x) in d.iter().enumerate() {
            if k > 0 {
                js.push(',');
            }
            let _ = write!(js, "{:?}", x);
        }
        out.stat_n("calls.rawvector", t.len() as u64);
        out.case(if which { "raw_loaded" } else { "raw" }, format!("CRaw {} {} {} [{}]", b(DBG), len, nlist(&words), t.join("; ")),
            format!("{{\"struct\":\"RawVector\",\"len\":{},\"loaded\":{},\"oob\":{},\"calls\":[{}]}}", len, which, oob, js), true);
        set_bit_then_iterate(out, rng, &rv, which);
    }
}

fn iv_batch(out: &mut Out, rng: &mut Rng, width: usize, nitems: usize) {
    let mut iv = IntVector::new(width).unwrap();
    for _ in 0..nitems {
        iv.push(rng.next() >> rng.below(64));
    }
    for (which, v) in [(false, iv.clone()), (true, load_back(&iv))] {
        let len = v.len();
        let raw: &RawVector = v.as_ref();
        let rawlen = raw.len();
        let words: Vec<u64> = { let w: &[u64] = raw.as_ref(); w.to_vec() };
        let mut t: Vec<String> = Vec::new();
        let mut d: Vec<String> = Vec::new();
        let mut oob = false;
        let mut add = |term: String, desc: String, k: u64| {
            if k == 9 {
                oob = true;
            }
            t.push(term);
            d.push(desc);
        };
        // `assert!(index < self.len(), "Index is out of bounds")` is an assertion, whatever its message says
        fn fix<T>(r: Res<T>) -> Res<T> {
            match r {
                Res::Panic(_, msg) if msg == "Index is out of bounds" => Res::Panic(P_ASSERT, msg),
                other => other,
            }
        }
        for i in extremes(len) {
            let r = fix(catch(|| v.get(i)));
            add(format!("IGet {} {}", nz(i), ires(&r, |x| n(*x))), format!("get({})", i), class_of(&r));
            let r = fix(catch(|| v.get_or(i, 77)));
            add(format!("IGetOr {} 77 {}", nz(i), ires(&r, |x| n(*x))), format!("get_or({},77)", i), class_of(&r));
            for val in [0u64, !0u64] {
                let r = fix(catch(|| { let mut c = v.clone(); c.set(i, val); }));
                add(format!("ISet {} {} {}", nz(i), val, ires(&r, |_| "tt".to_string())), format!("set({},{})", i, val), class_of(&r));
            }
        }
        for val in [0u64, 1, !0u64] {
            let r = fix(catch(|| { let mut c = v.clone(); c.push(val); }));
            add(format!("IPush {} {}", val, ires(&r, |_| "tt".to_string())), format!("push({})", val), class_of(&r));
        }
        let r = fix(catch(|| { let mut c = v.clone(); c.pop() }));
        add(format!("IPop {}", ires(&r, |x| opt(x, |y| n(*y)))), "pop()".to_string(), class_of(&r));
        for nl in [0usize, 1, len.saturating_sub(1), len, len + 1, 2 * len + 3] {
            let r = fix(catch(|| { let mut c = v.clone(); c.resize(nl, !0u64); }));
            add(format!("IResize {} {} {}", nl, !0u64, ires(&r, |_| "tt".to_string())), format!("resize({})", nl), class_of(&r));
        }
        let r = fix(catch(|| { let mut c = v.clone(); c.pack(); }));
        add(format!("IPack {}", ires(&r, |_| "tt".to_string())), "pack()".to_string(), class_of(&r));
        let mut js = String::new();
        for (k, x) in d.iter().enumerate() {
            if k > 0 {
                js.push(',');
            }
            let _ = write!(js, "{:?}", x);
        }
        out.stat_n("calls.intvector", t.len() as u64);
        out.case(if which { "iv_loaded" } else { "iv" },
            format!("CIV {} {} {} {} {} [{}]", b(DBG), len, v.width(), rawlen, nlist(&words), t.join("; ")),
            format!("{{\"struct\":\"IntVector\",\"len\":{},\"width\":{},\"loaded\":{},\"oob\":{},\"calls\":[{}]}}", len, v.width(), which, oob, js), true);
        // iterators (AccessIter: double-ended with its own nth/nth_back; IntoIter: forward)
        let mut log = Log::new(K_IV, format!("IntVector(len={},width={},loaded={})", len, v.width(), which));
        let ss = sequences(rng, len, true, len <= 40, 12);
        seqs!(log, "iter()", v.iter(), ss, step_de);
        let ss = sequences(rng, len, false, false, 6);
        seqs!(log, "into_iter()", v.clone().into_iter(), ss, step_fwd);
        log.emit(out);
    }
}

// ---------------------------------------------------------------- SparseVector / RLVector (class only)

fn sparse_calls(log: &mut Log, rng: &mut Rng, v: &SparseVector, small: bool, pairs: bool) {
    let len = v.len();
    let ones = v.count_ones();
    let r = catch(|| v.count_zeros());
    log.add("count_zeros()".to_string(), &r);
    let zeros = match r { Res::Ok(z) => z, _ => 0 };
    let r = catch(|| v.is_multiset());
    log.add("is_multiset()".to_string(), &r);
    for i in extremes(len) {
        log.add(format!("get({})", i), &catch(|| v.get(i)));
        log.add(format!("rank({})", i), &catch(|| v.rank(i)));
        log.add(format!("rank_zero({})", i), &catch(|| v.rank_zero(i)));
        log.add(format!("predecessor({}).next", i), &catch(|| v.predecessor(i).next()));
        log.add(format!("successor({}).next", i), &catch(|| v.successor(i).next()));
    }
    for r0 in extremes(ones) {
        log.add(format!("select({})", r0), &catch(|| v.select(r0)));
        log.add(format!("select_iter({}).next", r0), &catch(|| v.select_iter(r0).next()));
    }
    for r0 in extremes(zeros) {
        log.add(format!("select_zero({})", r0), &catch(|| v.select_zero(r0)));
        log.add(format!("select_zero_iter({}).next", r0), &catch(|| v.select_zero_iter(r0).next()));
    }
    if !small {
        return;
    }
    let nr = 10;
    let ss = sequences(rng, len, true, pairs, nr);
    seqs!(log, "iter()", v.iter(), ss, step_de);
    let ss = sequences(rng, ones, true, pairs, nr);
    seqs!(log, "one_iter()", v.one_iter(), ss, step_de);
    let ss = sequences(rng, zeros, false, pairs, nr);
    seqs!(log, "zero_iter()", v.zero_iter(), ss, step_fwd);
    for a in extremes(ones) {
        let ss = sequences(rng, ones.saturating_sub(a), true, false, 3);
        seqs!(log, format!("select_iter({})", a), v.select_iter(a), ss, step_de);
    }
    for a in extremes(zeros) {
        let ss = sequences(rng, zeros.saturating_sub(a), false, false, 3);
        seqs!(log, format!("select_zero_iter({})", a), v.select_zero_iter(a), ss, step_fwd);
    }
    for a in extremes(len) {
        let ss = sequences(rng, ones, true, false, 3);
        seqs!(log, format!("predecessor({})", a), v.predecessor(a), ss, step_de);
        let ss = sequences(rng, ones, true, false, 3);
        seqs!(log, format!("successor({})", a), v.successor(a), ss, step_de);
    }
}

fn rl_calls(log: &mut Log, rng: &mut Rng, v: &RLVector, small: bool, pairs: bool) {
    let len = v.len();
    let ones = v.count_ones();
    let zeros = len - ones;
    for i in extremes(len) {
        log.add(format!("get({})", i), &catch(|| v.get(i)));
        log.add(format!("rank({})", i), &catch(|| v.rank(i)));
        log.add(format!("rank_zero({})", i), &catch(|| v.rank_zero(i)));
        log.add(format!("predecessor({}).next", i), &catch(|| v.predecessor(i).next()));
        log.add(format!("successor({}).next", i), &catch(|| v.successor(i).next()));
    }
    for r0 in extremes(ones) {
        log.add(format!("select({})", r0), &catch(|| v.select(r0)));
        log.add(format!("select_iter({}).next", r0), &catch(|| v.select_iter(r0).next()));
    }
    for r0 in extremes(zeros) {
        log.add(format!("select_zero({})", r0), &catch(|| v.select_zero(r0)));
        log.add(format!("select_zero_iter({}).next", r0), &catch(|| v.select_zero_iter(r0).next()));
    }
    log.add("run_iter().count".to_string(), &catch(|| v.run_iter().count()));
    if !small {
        return;
    }
    let nr = 10;
    let ss = sequences(rng, len, false, pairs, nr);
    seqs!(log, "iter()", v.iter(), ss, step_fwd);
    let ss = sequences(rng, ones, false, pairs, nr);
    seqs!(log, "one_iter()", v.one_iter(), ss, step_fwd);
    let ss = sequences(rng, zeros, false, pairs, nr);
    seqs!(log, "zero_iter()", v.zero_iter(), ss, step_fwd);
    let ss = sequences(rng, ones, false, false, 6);
    seqs!(log, "run_iter()", v.run_iter(), ss, step_fwd);
    for a in extremes(ones) {
        let ss = sequences(rng, ones.saturating_sub(a), false, false, 3);
        seqs!(log, format!("select_iter({})", a), v.select_iter(a), ss, step_fwd);
    }
    for a in extremes(zeros) {
        let ss = sequences(rng, zeros.saturating_sub(a), false, false, 3);
        seqs!(log, format!("select_zero_iter({})", a), v.select_zero_iter(a), ss, step_fwd);
    }
    for a in extremes(len) {
        let ss = sequences(rng, ones, false, false, 3);
        seqs!(log, format!("predecessor({})", a), v.predecessor(a), ss, step_fwd);
        let ss = sequences(rng, ones, false, false, 3);
        seqs!(log, format!("successor({})", a), v.successor(a), ss, step_fwd);
    }
}

fn positions(bits: &[bool]) -> Vec<usize> {
    bits.iter().enumerate().filter(|(_, x)| **x).map(|(i, _)| i).collect()
}

fn sparse_batch(out: &mut Out, rng: &mut Rng, bits: &[bool], pairs: bool) {
    let bv: BitVector = bits.iter().cloned().collect();
    let sv = SparseVector::copy_bit_vec(&bv);
    let mut log = Log::new(K_SPARSE, format!("SparseVector(len={},ones={})", bits.len(), sv.count_ones()));
    sparse_calls(&mut log, rng, &sv, true, pairs);
    log.emit(out);
    let sv2 = load_back(&sv);
    let mut log = Log::new(K_SPARSE, format!("SparseVector(len={},ones={},loaded)", bits.len(), sv.count_ones()));
    sparse_calls(&mut log, rng, &sv2, true, false);
    log.emit(out);
    // multiset with repeated positions
    let pos = positions(bits);
    if !pos.is_empty() {
        let mut b = SparseBuilder::multiset(bits.len(), 2 * pos.len());
        for p in pos.iter() {
            b.set(*p);
            b.set(*p);
        }
        let ms = SparseVector::try_from(b).unwrap();
        let mut log = Log::new(K_SPARSE, format!("SparseVector(multiset,len={},ones={})", bits.len(), ms.count_ones()));
        sparse_calls(&mut log, rng, &ms, true, false);
        log.emit(out);
        let ms2 = load_back(&ms);
        let mut log = Log::new(K_SPARSE, format!("SparseVector(multiset,len={},loaded)", bits.len()));
        sparse_calls(&mut log, rng, &ms2, true, false);
        log.emit(out);
        // the safe conversions of the multiset (and of the set) into a plain bitvector: its bits are the distinct
        // positions, and everything BitVector caches must describe those bits, not the source's counts
        for (what, conv) in [("BitVector::from(multiset SparseVector)", catch(|| BitVector::from(ms.clone()))),
                             ("BitVector::copy_bit_vec(multiset SparseVector)", catch(|| BitVector::copy_bit_vec(&ms))),
                             ("BitVector::from(SparseVector)", catch(|| BitVector::from(sv.clone())))] {
            mark(what);
            match conv {
                Res::Ok(cb) => {
                    let c = bv_calls(rng, &cb, false, 8);
                    out.stat(if c.oob { "bv_converted.oob" } else { "bv_converted.clean" });
                    emit_bv(out, bits, 0, false, c);
                }
                Res::Panic(k, _) => out.case("other", format!("COther {} [{}]", K_SPARSE, k), format!("{{\"what\":{:?},\"panic_class\":{}}}", what, k), true),
            }
        }
    }
}

fn rl_batch(out: &mut Out, rng: &mut Rng, bits: &[bool], pairs: bool) {
    let bv: BitVector = bits.iter().cloned().collect();
    let rv = RLVector::copy_bit_vec(&bv);
    let mut log = Log::new(K_RL, format!("RLVector(len={},ones={})", bits.len(), rv.count_ones()));
    rl_calls(&mut log, rng, &rv, true, pairs);
    log.emit(out);
    let rv2 = load_back(&rv);
    let mut log = Log::new(K_RL, format!("RLVector(len={},ones={},loaded)", bits.len(), rv.count_ones()));
    rl_calls(&mut log, rng, &rv2, true, false);
    log.emit(out);
}

// structures over huge universes (point queries only: their iterators would run for 2^63 steps)
fn huge_batch(out: &mut Out, rng: &mut Rng) {
    for universe in [1usize << 40, 1usize << 63, MAX] {
        let k = 1 + rng.below(40) as usize;
        let mut pos: Vec<usize> = (0..k).map(|_| (rng.next() as usize) % universe).collect();
        pos.push(universe - 1);
        pos.push(0);
        pos.sort();
        pos.dedup();
        let mut b = SparseBuilder::new(universe, pos.len()).unwrap();
        for p in pos.iter() {
            b.set(*p);
        }
        let sv = SparseVector::try_from(b).unwrap();
        let mut log = Log::new(K_SPARSE, format!("SparseVector(universe={},ones={})", universe, pos.len()));
        sparse_calls(&mut log, rng, &sv, false, false);
        let ss = sequences(rng, pos.len(), true, false, 10);
        seqs!(log, "one_iter()", sv.one_iter(), ss, step_de);
        log.emit(out);
        let sv2 = load_back(&sv);
        let mut log = Log::new(K_SPARSE, format!("SparseVector(universe={},loaded)", universe));
        sparse_calls(&mut log, rng, &sv2, false, false);
        log.emit(out);
        // run-length vector with long runs reaching the end of the universe
        let mut rb = RLBuilder::new();
        let mut at = 0usize;
        for _ in 0..(3 + rng.below(30)) {
            let gap = (rng.next() as usize) % (universe / 64);
            let l = 1 + (rng.next() as usize) % (universe / 64);
            if at.checked_add(gap).and_then(|s| s.checked_add(l)).map(|e| e < universe).unwrap_or(false) {
                let _ = rb.try_set(at + gap, l);
                at = at + gap + l;
            }
        }
        rb.set_len(universe);
        let rv = RLVector::from(rb);
        let mut log = Log::new(K_RL, format!("RLVector(universe={},ones={})", universe, rv.count_ones()));
        rl_calls(&mut log, rng, &rv, false, false);
        let ss = sequences(rng, 5, false, false, 6);
        seqs!(log, "run_iter()", rv.run_iter(), ss, step_fwd);
        log.emit(out);
        let rv2 = load_back(&rv);
        let mut log = Log::new(K_RL, format!("RLVector(universe={},loaded)", universe));
        rl_calls(&mut log, rng, &rv2, false, false);
        log.emit(out);
    }
}

// ---------------------------------------------------------------- builders with extreme arguments

fn builders_batch(out: &mut Out, rng: &mut Rng) {
    let mut log = Log::new(K_BUILDERS, "builders".to_string());
    for universe in [0usize, 1, 2, 100, 1usize << 63, MAX - 1, MAX] {
        for ones in [0usize, 1, 2, 5] {
            for multi in [false, true] {
                // universe >> 1 bits of bucket space are allocated when ones == 0 (low width 1): an allocation
                // failure aborts the process, which is not what this property is about
                if ones == 0 && universe > (1usize << 32) {
                    continue;
                }
                let name = format!("SparseBuilder({},{},{})", universe, ones, multi);
                let made = catch(|| if multi { Ok(SparseBuilder::multiset(universe, ones)) } else { SparseBuilder::new(universe, ones) });
                log.add(format!("{}.new", name), &made);
                if let Res::Ok(Ok(mut bld)) = made {
                    for idx in extremes(universe) {
                        let r = catch(|| bld.try_set(idx).is_ok());
                        log.add(format!("{}.try_set({})", name, idx), &r);
                        let r = catch(|| { let mut c = bld.clone(); c.set(idx); });
                        log.add(format!("{}.set({})", name, idx), &r);
                    }
                    log.add(format!("{}.next_index", name), &catch(|| bld.next_index()));
                    let r = catch(|| SparseVector::try_from(bld.clone()).ok());
                    log.add(format!("{}.try_from", name), &r);
                    if let Res::Ok(Some(sv)) = r {
                        let mut l2 = Log::new(K_SPARSE, format!("{}.vector", name));
                        sparse_calls(&mut l2, rng, &sv, false, false);
                        l2.emit(out);
                    }
                }
            }
        }
    }
    let e = [0usize, 1, 2, 100, 1usize << 63, MAX - 1, MAX];
    for a in e.iter() {
        for l in e.iter() {
            for sl in [0usize, 100, 1usize << 63, MAX] {
                let name = format!("RLBuilder[try_set(3,4);try_set({},{});set_len({})]", a, l, sl);
                let mut bld = RLBuilder::new();
                let _ = bld.try_set(3, 4);
                let r = catch(|| bld.try_set(*a, *l).is_ok());
                log.add(format!("{}.try_set", name), &r);
                let r = catch(|| bld.set_len(sl));
                log.add(format!("{}.set_len", name), &r);
                log.add(format!("{}.len", name), &catch(|| (bld.len(), bld.count_ones(), bld.count_zeros())));
                let r = catch(|| RLVector::from(bld.clone()));
                log.add(format!("{}.from", name), &r);
                if let Res::Ok(rv) = r {
                    if rng.below(4) == 0 {
                        let mut l2 = Log::new(K_RL, format!("{}.vector", name));
                        rl_calls(&mut l2, rng, &rv, false, false);
                        l2.emit(out);
                    }
                }
            }
        }
    }
    // SampleIndex (public support structure of the run-length vector)
    for universe in [1usize, 64, 1000, 1usize << 40, MAX] {
        let k = 1 + rng.below(50) as usize;
        let mut v: Vec<usize> = (0..k).map(|_| (rng.next() as usize) % universe).collect();
        v.push(0);
        v.sort();
        v.dedup();
        let made = catch(|| SampleIndex::new(v.iter().cloned(), universe));
        log.add(format!("SampleIndex::new({} values,{})", v.len(), universe), &made);
        if let Res::Ok(idx) = made {
            for x in extremes(universe) {
                log.add(format!("SampleIndex({}).range({})", universe, x), &catch(|| idx.range(x)));
            }
        }
    }
    log.emit(out);
}

// ---------------------------------------------------------------- WaveletMatrix / WMCore (class only)

fn wm_calls(log: &mut Log, rng: &mut Rng, wm: &WaveletMatrix, maxv: u64, pairs: bool) {
    let len = wm.len();
    let width = wm.width();
    let mut vals: Vec<u64> = vec![0, 1, maxv, maxv.wrapping_add(1), bits::low_set(width), bits::low_set(width).wrapping_add(1), 1u64 << 63, !0u64];
    vals.sort();
    vals.dedup();
    for i in extremes(len) {
        log.add(format!("get({})", i), &catch(|| wm.get(i)));
        log.add(format!("get_or({},5)", i), &catch(|| wm.get_or(i, 5)));
        log.add(format!("inverse_select({})", i), &catch(|| wm.inverse_select(i)));
        for v in vals.iter() {
            log.add(format!("rank({},{})", i, v), &catch(|| wm.rank(i, *v)));
            log.add(format!("select({},{})", i, v), &catch(|| wm.select(i, *v)));
            log.add(format!("predecessor({},{}).next", i, v), &catch(|| wm.predecessor(i, *v).next()));
            log.add(format!("successor({},{}).next", i, v), &catch(|| wm.successor(i, *v).next()));
            let ss = sequences(rng, 3, false, false, 1);
            seqs!(log, format!("select_iter({},{})", i, v), wm.select_iter(i, *v), ss, step_fwd);
        }
    }
    for v in vals.iter() {
        log.add(format!("contains({})", v), &catch(|| wm.contains(*v)));
        let ss = sequences(rng, len, false, false, 3);
        seqs!(log, format!("value_iter({})", v), wm.value_iter(*v), ss, step_fwd);
    }
    let ss = sequences(rng, len, true, pairs, 10);
    seqs!(log, "iter()", wm.iter(), ss, step_de);
    let ss = sequences(rng, len, false, false, 6);
    seqs!(log, "into_iter()", wm.clone().into_iter(), ss, step_fwd);
}

fn wmcore_calls(log: &mut Log, core: &WMCore, maxv: u64) {
    let len = core.len();
    let width = core.width();
    let mut vals: Vec<u64> = vec![0, 1, maxv, maxv.wrapping_add(1), bits::low_set(width), bits::low_set(width).wrapping_add(1), !0u64];
    vals.sort();
    vals.dedup();
    let ex = extremes(len);
    for i in ex.iter() {
        log.add(format!("map_down({})", i), &catch(|| core.map_down(*i)));
        for v in vals.iter() {
            log.add(format!("map_down_with({},{})", i, v), &catch(|| core.map_down_with(*i, *v)));
            log.add(format!("map_up_with({},{})", i, v), &catch(|| core.map_up_with(*i, *v)));
            for j in ex.iter() {
                log.add(format!("map_down_with_two_positions({},{},{})", i, j, v), &catch(|| core.map_down_with_two_positions(*i, *j, *v)));
            }
        }
    }
}

fn wm_batch(out: &mut Out, rng: &mut Rng, len: usize, sigma: u64, pairs: bool) {
    let vals: Vec<u64> = (0..len).map(|_| if rng.below(5) == 0 { sigma - 1 } else { rng.below(sigma) }).collect();
    let maxv = vals.iter().cloned().max().unwrap_or(0);
    let wm = WaveletMatrix::from(vals.clone());
    let mut log = Log::new(K_WM, format!("WaveletMatrix(len={},sigma={})", len, sigma));
    wm_calls(&mut log, rng, &wm, maxv, pairs);
    log.emit(out);
    let wm2 = load_back(&wm);
    let mut log = Log::new(K_WM, format!("WaveletMatrix(len={},sigma={},loaded)", len, sigma));
    wm_calls(&mut log, rng, &wm2, maxv, false);
    log.emit(out);
    let core = WMCore::from(vals);
    let mut log = Log::new(K_WMCORE, format!("WMCore(len={},sigma={})", len, sigma));
    wmcore_calls(&mut log, &core, maxv);
    log.emit(out);
    let core2 = load_back(&core);
    let mut log = Log::new(K_WMCORE, format!("WMCore(len={},sigma={},loaded)", len, sigma));
    wmcore_calls(&mut log, &core2, maxv);
    log.emit(out);
}

// ---------------------------------------------------------------- memory-mapped views

type Touch = (u64, usize, Res<()>); // accessor (0 view[i], 1 word(i), 2 bit(i), 3 get(i)), index, outcome

// probes of IntVectorMapper::get on a view that `new` returned: (len, width, [(index < len, outcome)])
type Wide = (usize, usize, Vec<(usize, Res<()>)>);

fn m_within(offset: usize, elems: Option<usize>, maplen: usize) -> bool {
    match elems.and_then(|e| e.checked_add(offset)).and_then(|e| e.checked_add(1)) {
        Some(end) => end <= maplen,
        None => false,
    }
}

fn ends(len: usize) -> Vec<usize> {
    match len {
        0 => Vec::new(),
        1 => vec![0],
        _ => vec![0, len - 1],
    }
}

fn touch_at<F: Fn(usize)>(t: &mut Vec<Touch>, acc: u64, what: &str, idxs: &[usize], f: F) {
    for i in idxs.iter() {
        mark(&format!("{}({}) [touching a view that new() returned]", what, i));
        let r = catch(|| f(*i));
        t.push((acc, *i, r));
    }
}

// a view type the harness knows how to measure and touch
trait MView<'a>: MemoryMapped<'a> {
    // the data length the view claims: items, bytes, or words of a mapper
    fn claimed(&self) -> usize;
    // the claimed range lies inside the mapping, computed from the view's own map_offset() and length
    fn inside(&self, maplen: usize) -> bool;
    fn touch(&self, t: &mut Vec<Touch>);
    fn wide(&self) -> Option<Wide> {
        None
    }
}

impl<'a> MView<'a> for MappedSlice<'a, u64> {
    fn claimed(&self) -> usize {
        self.len()
    }
    fn inside(&self, maplen: usize) -> bool {
        m_within(self.map_offset(), Some(self.len()), maplen)
    }
    fn touch(&self, t: &mut Vec<Touch>) {
        touch_at(t, 0, "MappedSlice<u64>[]", &ends(self.len()), |i| { std::hint::black_box(self[i]); });
    }
}
impl<'a> MView<'a> for MappedSlice<'a, usize> {
    fn claimed(&self) -> usize {
        self.len()
    }
    fn inside(&self, maplen: usize) -> bool {
        m_within(self.map_offset(), Some(self.len()), maplen)
    }
    fn touch(&self, t: &mut Vec<Touch>) {
        touch_at(t, 0, "MappedSlice<usize>[]", &ends(self.len()), |i| { std::hint::black_box(self[i]); });
    }
}
impl<'a> MView<'a> for MappedSlice<'a, (u64, u64)> {
    fn claimed(&self) -> usize {
        self.len()
    }
    fn inside(&self, maplen: usize) -> bool {
        m_within(self.map_offset(), self.len().checked_mul(2), maplen)
    }
    fn touch(&self, t: &mut Vec<Touch>) {
        touch_at(t, 0, "MappedSlice<(u64,u64)>[]", &ends(self.len()), |i| { std::hint::black_box(self[i]); });
    }
}
impl<'a> MView<'a> for MappedBytes<'a> {
    fn claimed(&self) -> usize {
        self.len()
    }
    fn inside(&self, maplen: usize) -> bool {
        m_within(self.map_offset(), self.len().checked_add(7).map(|x| x / 8), maplen)
    }
    fn touch(&self, t: &mut Vec<Touch>) {
        touch_at(t, 0, "MappedBytes[]", &ends(self.len()), |i| { std::hint::black_box(self[i]); });
    }
}
impl<'a> MView<'a> for MappedStr<'a> {
    fn claimed(&self) -> usize {
        self.len()
    }
    fn inside(&self, maplen: usize) -> bool {
        m_within(self.map_offset(), self.len().checked_add(7).map(|x| x / 8), maplen)
    }
    fn touch(&self, t: &mut Vec<Touch>) {
        touch_at(t, 0, "MappedStr.as_bytes()[]", &ends(self.len()), |i| {
            let s: &str = self.as_ref();
            std::hint::black_box(s.as_bytes()[i]);
        });
    }
}
impl<'a> MView<'a> for RawVectorMapper<'a> {
    fn claimed(&self) -> usize {
        let data: &MappedSlice<'a, u64> = self.as_ref();
        data.len()
    }
    fn inside(&self, maplen: usize) -> bool {
        let data: &MappedSlice<'a, u64> = self.as_ref();
        data.inside(maplen)
    }
    fn touch(&self, t: &mut Vec<Touch>) {
        touch_at(t, 1, "RawVectorMapper.word", &ends(self.claimed()), |i| { std::hint::black_box(self.word(i)); });
        touch_at(t, 2, "RawVectorMapper.bit", &ends(self.len()), |i| { std::hint::black_box(self.bit(i)); });
    }
}
impl<'a> MView<'a> for IntVectorMapper<'a> {
    fn claimed(&self) -> usize {
        let raw: &RawVectorMapper<'a> = self.as_ref();
        raw.claimed()
    }
    fn inside(&self, maplen: usize) -> bool {
        let raw: &RawVectorMapper<'a> = self.as_ref();
        raw.inside(maplen)
    }
    fn touch(&self, t: &mut Vec<Touch>) {
        let raw: &RawVectorMapper<'a> = self.as_ref();
        touch_at(t, 1, "IntVectorMapper.as_ref().word", &ends(raw.claimed()), |i| { std::hint::black_box(raw.word(i)); });
        touch_at(t, 2, "IntVectorMapper.as_ref().bit", &ends(raw.len()), |i| { std::hint::black_box(raw.bit(i)); });
        // a width above 64 is refused by `new` since the repair of finding F14; should such a view exist, its get is
        // probed in the case of its own (CMGet)
        if self.width() <= 64 {
            touch_at(t, 3, &format!("IntVectorMapper(len={},width={}).get", self.len(), self.width()), &ends(self.len()), |i| { std::hint::black_box(self.get(i)); });
        }
    }
    fn wide(&self) -> Option<Wide> {
        let len = self.len();
        let mut idxs: Vec<usize> = vec![0, 1, 2, 63, 64, len / 2, 1usize << 63, len.wrapping_sub(65), len.wrapping_sub(2), len.wrapping_sub(1)];
        idxs.retain(|i| *i < len);
        idxs.sort();
        idxs.dedup();
        let mut gets = Vec::new();
        for i in idxs.iter() {
            mark(&format!("IntVectorMapper(len={},width={}).get({})", len, self.width(), i));
            let r = match catch(|| { std::hint::black_box(self.get(*i)); }) {
                Res::Panic(_, msg) if msg == "Index is out of bounds" => Res::Panic(P_ASSERT, msg),
                other => other,
            };
            gets.push((*i, r));
        }
        Some((len, self.width(), gets))
    }
}
impl<'a, T: MView<'a>> MView<'a> for MappedOption<'a, T> {
    fn claimed(&self) -> usize {
        match self.as_ref() {
            Some(v) => v.claimed(),
            None => 0,
        }
    }
    fn inside(&self, maplen: usize) -> bool {
        match self.as_ref() {
            Some(v) => v.inside(maplen),
            None => self.map_offset() < maplen,
        }
    }
    fn touch(&self, t: &mut Vec<Touch>) {
        if let Some(v) = self.as_ref() {
            v.touch(t);
        }
    }
    fn wide(&self) -> Option<Wide> {
        self.as_ref().and_then(|v| v.wide())
    }
}

enum MObs {
    Err(u64),
    Panic(u64),
    Ok { mo: Res<usize>, ml: Res<usize>, claimed: usize, inside: bool, touch: Vec<Touch> },
}

fn m_observe<'a, T: MView<'a>>(map: &'a MemoryMap, name: &str, offset: usize, wide: &mut Vec<(usize, Wide)>) -> MObs {
    mark(&format!("{}::new(&map of {} elements, {})", name, map.len(), offset));
    match catch(|| T::new(map, offset)) {
        Res::Panic(k, _) => MObs::Panic(k),
        Res::Ok(Err(e)) => MObs::Err(match e.kind() {
            std::io::ErrorKind::UnexpectedEof => 1,
            std::io::ErrorKind::InvalidData => 2,
            _ => 0,
        }),
        Res::Ok(Ok(v)) => {
            let mo = catch(|| v.map_offset());
            let ml = catch(|| v.map_len());
            let claimed = v.claimed();
            let inside = v.inside(map.len());
            let mut touch = Vec::new();
            v.touch(&mut touch);
            if let Some(w) = v.wide() {
                wide.push((offset, w));
            }
            MObs::Ok { mo, ml, claimed, inside, touch }
        }
    }
}

// (Coq view type, Rust name); index 12 is the IntVectorMapper inside a MappedOption
const MTYPES: [(&str, &str); 13] = [
    ("TyVec", "MappedSlice<u64>"), ("TyVec", "MappedSlice<usize>"), ("TyPairs", "MappedSlice<(u64,u64)>"), ("TyBytes", "MappedBytes"),
    ("TyStr", "MappedStr"), ("TyRaw", "RawVectorMapper"), ("TyInt", "IntVectorMapper"),
    ("(TyOpt TyVec)", "MappedOption<MappedSlice<u64>>"), ("(TyOpt TyPairs)", "MappedOption<MappedSlice<(u64,u64)>>"),
    ("(TyOpt TyBytes)", "MappedOption<MappedBytes>"), ("(TyOpt TyStr)", "MappedOption<MappedStr>"),
    ("(TyOpt TyRaw)", "MappedOption<RawVectorMapper>"), ("(TyOpt TyInt)", "MappedOption<IntVectorMapper>"),
];

fn m_observe_ty(map: &MemoryMap, ty: usize, offset: usize, wide: &mut Vec<(usize, Wide)>) -> MObs {
    let name = MTYPES[ty].1;
    match ty {
        0 => m_observe::<MappedSlice<u64>>(map, name, offset, wide),
        1 => m_observe::<MappedSlice<usize>>(map, name, offset, wide),
        2 => m_observe::<MappedSlice<(u64, u64)>>(map, name, offset, wide),
        3 => m_observe::<MappedBytes>(map, name, offset, wide),
        4 => m_observe::<MappedStr>(map, name, offset, wide),
        5 => m_observe::<RawVectorMapper>(map, name, offset, wide),
        6 => m_observe::<IntVectorMapper>(map, name, offset, wide),
        7 => m_observe::<MappedOption<MappedSlice<u64>>>(map, name, offset, wide),
        8 => m_observe::<MappedOption<MappedSlice<(u64, u64)>>>(map, name, offset, wide),
        9 => m_observe::<MappedOption<MappedBytes>>(map, name, offset, wide),
        10 => m_observe::<MappedOption<MappedStr>>(map, name, offset, wide),
        11 => m_observe::<MappedOption<RawVectorMapper>>(map, name, offset, wide),
        _ => m_observe::<MappedOption<IntVectorMapper>>(map, name, offset, wide),
    }
}

// values a file is made of, written by the library's own Serialize implementations
enum MVal {
    Vec(Vec<u64>),
    Pairs(Vec<(u64, u64)>),
    Bytes(Vec<u8>),
    Str(String),
    Raw(RawVector),
    Int(IntVector),
    OptVec(Option<Vec<u64>>),
    OptPairs(Option<Vec<(u64, u64)>>),
    OptStr(Option<String>),
    OptRaw(Option<RawVector>),
    OptInt(Option<IntVector>),
}

impl MVal {
    fn write(&self, w: &mut Vec<u8>) {
        let r = match self {
            MVal::Vec(v) => v.serialize(w),
            MVal::Pairs(v) => v.serialize(w),
            MVal::Bytes(v) => v.serialize(w),
            MVal::Str(v) => v.serialize(w),
            MVal::Raw(v) => v.serialize(w),
            MVal::Int(v) => v.serialize(w),
            MVal::OptVec(v) => v.serialize(w),
            MVal::OptPairs(v) => v.serialize(w),
            MVal::OptStr(v) => v.serialize(w),
            MVal::OptRaw(v) => v.serialize(w),
            MVal::OptInt(v) => v.serialize(w),
        };
        r.unwrap()
    }
    fn name(&self) -> String {
        match self {
            MVal::Vec(v) => format!("Vec<u64>({})", v.len()),
            MVal::Pairs(v) => format!("Vec<(u64,u64)>({})", v.len()),
            MVal::Bytes(v) => format!("Vec<u8>({})", v.len()),
            MVal::Str(v) => format!("String({})", v.len()),
            MVal::Raw(v) => format!("RawVector({})", v.len()),
            MVal::Int(v) => format!("IntVector({},w{})", v.len(), v.width()),
            MVal::OptVec(v) => format!("Option<Vec<u64>>({})", v.is_some()),
            MVal::OptPairs(v) => format!("Option<Vec<(u64,u64)>>({})", v.is_some()),
            MVal::OptStr(v) => format!("Option<String>({})", v.is_some()),
            MVal::OptRaw(v) => format!("Option<RawVector>({})", v.is_some()),
            MVal::OptInt(v) => format!("Option<IntVector>({})", v.is_some()),
        }
    }
}

fn m_raw(rng: &mut Rng, len: usize) -> RawVector {
    let mut r = RawVector::new();
    for _ in 0..len {
        r.push_bit(rng.below(3) != 0);
    }
    r
}
fn m_int(width: usize, items: &[u64]) -> IntVector {
    let mut v = IntVector::new(width).unwrap();
    for x in items.iter() {
        v.push(*x);
    }
    v
}

// element values that are huge when read as a length / bit length / width / option size
fn huge(rng: &mut Rng, total: u64) -> u64 {
    let m = !0u64;
    let hs = [m, m - 1, m - 2, m - 3, m - 7, m - 8, m - 62, m - 63, m - 64, 1 << 63, (1 << 63) + 1, (1 << 63) - 1, 1 << 62, 1 << 61, (1 << 61) - 1, (1 << 61) + 1,
        m - total, m - total + 1, m - total - 1, (m / 2) - total / 2 + 1, m / 8, m / 8 + 1];
    *rng.pick(&hs)
}
fn m_word(rng: &mut Rng, total: u64) -> u64 {
    match rng.below(10) {
        0 | 1 | 2 => rng.below(7),
        3 => total.saturating_sub(rng.below(4)),
        4 => rng.below(8 * total + 2),
        5 => rng.word(),
        _ => huge(rng, total),
    }
}

fn m_random_val(rng: &mut Rng, total: u64) -> MVal {
    let n = rng.range(0, 6) as usize;
    match rng.below(14) {
        0 | 1 | 2 | 3 => MVal::Vec((0..n).map(|_| m_word(rng, total)).collect()),
        4 | 5 => MVal::Pairs((0..n / 2 + 1).map(|_| (m_word(rng, total), m_word(rng, total))).collect()),
        6 => MVal::Bytes((0..rng.range(0, 20)).map(|_| if rng.chance(1, 2) { 0xFF } else { rng.next() as u8 }).collect()),
        7 => MVal::Str(["", "a", "h\u{e9}llo", "\u{10FFFF}\u{7FF}xyz", "eight ch", "nine char"][rng.below(6) as usize].to_string()),
        8 => {
            let l = [0usize, 1, 64, 65, 130][rng.below(5) as usize];
            MVal::Raw(m_raw(rng, l))
        }
        9 => MVal::Int(m_int(64, &(0..n).map(|_| m_word(rng, total)).collect::<Vec<u64>>())),
        10 => MVal::Int(m_int(rng.range(1, 63) as usize, &(0..n).map(|_| rng.below(2)).collect::<Vec<u64>>())),
        11 => MVal::OptVec(if rng.chance(1, 3) { None } else { Some((0..n).map(|_| m_word(rng, total)).collect()) }),
        12 => MVal::OptInt(if rng.chance(1, 3) { None } else { Some(m_int(64, &(0..n).map(|_| m_word(rng, total)).collect::<Vec<u64>>())) }),
        _ => MVal::OptPairs(if rng.chance(1, 3) { None } else { Some((0..n / 2 + 1).map(|_| (m_word(rng, total), m_word(rng, total))).collect()) }),
    }
}

fn mapped_files(rng: &mut Rng, thorough: bool) -> Vec<(String, Vec<MVal>)> {
    let m = !0u64;
    let mut fs: Vec<(String, Vec<MVal>)> = vec![
        // user data that is huge when read as a length: the file of finding F12
        ("huge items (F12)".to_string(), vec![MVal::Vec(vec![3, 2, m - 2, m - 2])]),
        // a length that fits in words but not in pairs
        ("pairs, wrong offset".to_string(), vec![MVal::Pairs(vec![(10, 11), (12, 13), (1, 99)])]),
        ("words read as pairs".to_string(), vec![MVal::Vec(vec![5, 6, 7, 8])]),
        // huge len and width elements in front of a valid raw vector (finding F14)
        ("huge len/width (F14)".to_string(), vec![MVal::Vec(vec![m, m, 0, 1, 5])]),
        ("huge len/width 2".to_string(), vec![MVal::Vec(vec![m - 3, m - 3, 0, 2, 9, 9]), MVal::Vec(vec![m - 62, m - 63, 64, 1, m])]),
        ("powers".to_string(), vec![MVal::Vec(vec![1 << 63, 1 << 61, (1 << 61) - 1, (1 << 63) + 1, 1, m - 8, m - 7, 0])]),
        ("huge pairs".to_string(), vec![MVal::Pairs(vec![(1 << 63, 1), (m - 2, m - 2), (1 << 61, 2), ((1 << 63) - 1, 3)])]),
        ("bytes FF".to_string(), vec![MVal::Bytes(vec![0xFF; 24]), MVal::Bytes(vec![0xFF; 3])]),
        ("strings and options".to_string(), vec![MVal::Str("h\u{e9}llo w\u{f6}rld, \u{fc}n\u{ef}code".to_string()), MVal::Bytes((1..=9).collect()),
            MVal::OptStr(Some("abc".to_string())), MVal::OptVec(None), MVal::OptStr(None)]),
        ("raw and int".to_string(), vec![MVal::Raw(m_raw(rng, 130)), MVal::Int(m_int(64, &[m - 2, 1 << 63, 3, m])),
            MVal::OptInt(Some(m_int(7, &[1, 127, 0, 5, 99]))), MVal::OptRaw(None), MVal::OptRaw(Some(m_raw(rng, 64)))]),
        ("empties".to_string(), vec![MVal::Int(m_int(13, &(0..40).map(|i| i * 199 % 8192).collect::<Vec<u64>>())), MVal::Raw(RawVector::new()),
            MVal::Vec(Vec::new()), MVal::Pairs(Vec::new()), MVal::Bytes(Vec::new()), MVal::Str(String::new())]),
        ("options of huge".to_string(), vec![MVal::OptVec(Some(vec![m - 2, 1 << 63, 2, 1])), MVal::OptPairs(Some(vec![(1, 2)])), MVal::OptInt(None), MVal::Vec(vec![1])]),
    ];
    for k in 0..(if thorough { 80 } else { 10 }) {
        let n = rng.range(1, 4) as usize;
        let total = 4 * n as u64 + rng.below(8);
        let vals: Vec<MVal> = (0..n).map(|_| m_random_val(rng, total)).collect();
        fs.push((format!("random {}", k), vals));
    }
    fs
}

fn m_elements(bytes: &[u8]) -> Vec<u64> {
    bytes.chunks(8).map(|c| { let mut a = [0u8; 8]; a[..c.len()].copy_from_slice(c); u64::from_le_bytes(a) }).collect()
}

// runs in a forked child: maps the file and requests every view type at every offset
fn mapped_batch(out: &mut Out, path: &std::path::Path, bytes: &[u8], desc: &str, starts: &[usize]) {
    fs::write(path, bytes).unwrap();
    let map = match MemoryMap::new(path, MappingMode::ReadOnly) {
        Ok(m) => m,
        Err(_) => {
            out.stat("mapped.map_refused");
            let _ = fs::remove_file(path);
            return;
        }
    };
    let file = m_elements(bytes);
    let total = file.len();
    let mut offsets: Vec<usize> = (0..total + 3).collect();
    offsets.extend_from_slice(&[1usize << 63, MAX - 1, MAX]);
    for (ty, (coq, name)) in MTYPES.iter().enumerate() {
        let mut wide: Vec<(usize, Wide)> = Vec::new();
        let mut terms: Vec<String> = Vec::new();
        let mut js: Vec<String> = Vec::new();
        let (mut outside, mut oob) = (false, false);
        for off in offsets.iter() {
            let o = m_observe_ty(&map, ty, *off, &mut wide);
            out.stat(if *off >= total { "mapped.offset.beyond_end" } else if starts.contains(off) { "mapped.offset.structure_start" } else { "mapped.offset.inside_a_structure" });
            if *off < total && file[*off] >= (1u64 << 61) {
                out.stat("mapped.length_element.huge");
            }
            match &o {
                MObs::Err(k) => {
                    out.stat(match k { 1 => "mapped.new.err_eof", 2 => "mapped.new.err_invalid", _ => "mapped.new.err_other" });
                    terms.push(format!("({}, MErr {})", nz(*off), k));
                }
                MObs::Panic(k) => {
                    out.stat("mapped.new.panic");
                    oob |= *k == 9;
                    terms.push(format!("({}, MPanic {})", nz(*off), k));
                    js.push(format!("{{\"offset\":{},\"new\":\"panic\",\"class\":{}}}", off, k));
                }
                MObs::Ok { mo, ml, claimed, inside, touch } => {
                    out.stat("mapped.new.ok");
                    out.stat_n("mapped.touches", touch.len() as u64);
                    if !*inside {
                        outside = true;
                        out.stat("mapped.new.ok_outside_the_map");
                    }
                    let hit = touch.iter().any(|t| class_of(&t.2) == 9);
                    oob |= hit;
                    let tt: Vec<String> = touch.iter().map(|(a, i, r)| format!("({}, {}, {})", a, nz(*i), ires(r, |_| "tt".to_string()))).collect();
                    terms.push(format!("({}, MOk {} {} {} {} [{}])", nz(*off), ires(mo, |x| nu(*x)), ires(ml, |x| nu(*x)), nu(*claimed), b(*inside), tt.join("; ")));
                    js.push(format!("{{\"offset\":{},\"new\":\"ok\",\"claimed_len\":{},\"inside_map\":{},\"touch_oob\":{}}}", off, claimed, inside, hit));
                }
            }
        }
        out.case("mapped", format!("CMapped {} {} {} [{}]", b(DBG), nlist(&file), coq, terms.join("; ")),
            format!("{{\"struct\":\"mapped views\",\"view\":{:?},\"file_of\":{:?},\"elements\":{:?},\"view_outside_map\":{},\"oob\":{},\"views\":[{}]}}",
                name, desc, file, outside, oob, js.join(",")), true);
        // get() at extreme indexes of every integer-vector view `new` returned (its len element is whatever the file
        // holds; its width element must be one the mask table covers)
        if !wide.is_empty() {
            let mut pt: Vec<String> = Vec::new();
            let mut pj: Vec<String> = Vec::new();
            let (mut hit, mut badw) = (false, false);
            for (off, (len, width, gets)) in wide.iter() {
                let h = gets.iter().any(|g| class_of(&g.1) == 9);
                hit |= h;
                badw |= *width == 0 || *width > 64;
                out.stat(if h { "mapped.get_probe.oob" } else { "mapped.get_probe.clean" });
                out.stat(if *len >= (1usize << 61) { "mapped.get_probe.huge_len_element" } else { "mapped.get_probe.small_len_element" });
                out.stat_n("mapped.get_probe.calls", gets.len() as u64);
                let gt: Vec<String> = gets.iter().map(|(i, r)| format!("({}, {})", nz(*i), ires(r, |_| "tt".to_string()))).collect();
                let gj: Vec<String> = gets.iter().map(|(i, r)| format!("{:?}", format!("get({})={}", i, class_of(r)))).collect();
                pt.push(format!("({}, {}, {}, [{}])", nz(*off), nu(*len), nu(*width), gt.join("; ")));
                pj.push(format!("{{\"offset\":{},\"len\":{},\"width\":{},\"gets\":[{}]}}", off, len, width, gj.join(",")));
            }
            out.case("mapped_get", format!("CMGet {} {} {} [{}]", b(DBG), nlist(&file), b(ty == 12), pt.join("; ")),
                format!("{{\"probe\":\"IntVectorMapper::get on every accepted view\",\"file_of\":{:?},\"elements\":{:?},\"through_option\":{},\"width_outside_1_64\":{},\"oob\":{},\"views\":[{}]}}",
                    desc, file, ty == 12, badw, hit, pj.join(",")), true);
        }
    }
    drop(map);
    let _ = fs::remove_file(path);
}

// ---------------------------------------------------------------- histories of safe calls (CHistR / CHistI)
//
// A random history of SAFE calls on a RawVector (from RawVector::new()) resp. an IntVector (from IntVector::new(w0)).
// Every call runs on a clone under `catch`; the clone replaces the vector only when the call returned, so the emitted
// history holds exactly the calls that returned (a refused call leaves no trace in a safe program that catches the
// panic). Then the final vector - for an IntVector the RawVector it converts into - is observed (len, backing words),
// converted with BitVector::from and its iterators are driven. The words of the final vector must satisfy the
// representation invariant (ceil(len / 64) words, no bit set at or beyond len): the unchecked scans rely on it.

const K_HISTR: u64 = 10;
const K_HISTI: u64 = 11;

#[derive(Clone, Debug)]
pub(crate) enum HR {
    WithLen(usize, bool),
    Resize(usize, bool),
    Clear,
    Reserve(usize),
    Complement,
    PushBit(bool),
    PopBit,
    SetBit(usize, bool),
    Bit(usize),
    CountOnes,
}

pub(crate) fn hr_term(o: &HR) -> String {
    match o {
        HR::WithLen(l, v) => format!("HWithLen {} {}", nz(*l), b(*v)),
        HR::Resize(l, v) => format!("HResize {} {}", nz(*l), b(*v)),
        HR::Clear => "HClear".to_string(),
        HR::Reserve(a) => format!("HReserve {}", nz(*a)),
        HR::Complement => "HCompl".to_string(),
        HR::PushBit(v) => format!("HPushBit {}", b(*v)),
        HR::PopBit => "HPopBit".to_string(),
        HR::SetBit(i, v) => format!("HSetBit {} {}", nz(*i), b(*v)),
        HR::Bit(i) => format!("HBit {}", nz(*i)),
        HR::CountOnes => "HCount".to_string(),
    }
}

fn hr_name(o: &HR) -> &'static str {
    match o {
        HR::WithLen(..) => "with_len",
        HR::Resize(..) => "resize",
        HR::Clear => "clear",
        HR::Reserve(..) => "reserve",
        HR::Complement => "complement",
        HR::PushBit(..) => "push_bit",
        HR::PopBit => "pop_bit",
        HR::SetBit(..) => "set_bit",
        HR::Bit(..) => "bit",
        HR::CountOnes => "count_ones",
    }
}

pub(crate) fn hr_apply(v: &mut RawVector, o: &HR) {
    match o {
        HR::WithLen(l, x) => *v = RawVector::with_len(*l, *x),
        HR::Resize(l, x) => v.resize(*l, *x),
        HR::Clear => v.clear(),
        HR::Reserve(a) => v.reserve(*a),
        HR::Complement => *v = v.complement(),
        HR::PushBit(x) => v.push_bit(*x),
        HR::PopBit => {
            std::hint::black_box(v.pop_bit());
        }
        HR::SetBit(i, x) => v.set_bit(*i, *x),
        HR::Bit(i) => {
            std::hint::black_box(v.bit(*i));
        }
        HR::CountOnes => {
            std::hint::black_box(v.count_ones());
        }
    }
}

const HIST_LENS: [usize; 14] = [1, 2, 63, 64, 65, 66, 127, 128, 129, 130, 191, 192, 193, 200];

// `ones`: the history prefers set bits (a vector full of ones is where one stray bit makes count_ones exceed len)
pub(crate) fn gen_hr(rng: &mut Rng, len: usize, nwords: usize, ones: bool) -> HR {
    let cap = 64 * nwords;
    loop {
        let k = if len > 300 { 25 + rng.below(35) } else { rng.below(100) };
        match k {
            0..=24 => return HR::PushBit(if ones { !rng.chance(1, 8) } else { rng.chance(1, 2) }),
            25..=39 => return HR::PopBit,
            40..=47 => {
                // shrink: into the last word, onto a word boundary, anywhere
                let l = match rng.below(3) {
                    0 => len.saturating_sub(rng.range(1, 9) as usize),
                    1 => (len / 64) * 64,
                    _ => rng.below(len as u64 + 1) as usize,
                };
                return HR::Resize(l, rng.chance(1, 2));
            }
            48..=55 => {
                let add = match rng.below(4) {
                    0 => 0,
                    1 => rng.range(1, 8) as usize,
                    2 => (64 - len % 64) % 64,
                    _ => rng.range(1, 130) as usize,
                };
                return HR::Resize(len + add, if ones { !rng.chance(1, 6) } else { rng.chance(1, 2) });
            }
            56..=67 => {
                if len == 0 {
                    continue;
                }
                let i = if rng.chance(1, 3) { len - 1 - rng.below(std::cmp::min(len, 8) as u64) as usize } else { rng.below(len as u64) as usize };
                return HR::SetBit(i, if ones { !rng.chance(1, 5) } else { rng.chance(1, 2) });
            }
            68..=74 => {
                // refused: at or beyond the length (unused bits of the last word, beyond the words, extreme)
                let offs = [len, len + 1, (len + cap) / 2, cap.saturating_sub(1), cap, cap + 1, cap + 64, 1usize << 63, MAX - 1, MAX];
                let i = *rng.pick(&offs);
                if i < len {
                    continue;
                }
                return HR::SetBit(i, !rng.chance(1, 4));
            }
            75..=84 => return HR::Complement,
            85..=87 => return HR::WithLen(if rng.chance(1, 2) { *rng.pick(&HIST_LENS) } else { rng.below(200) as usize }, if ones { true } else { rng.chance(1, 2) }),
            88..=89 => return HR::Clear,
            90..=91 => return HR::Reserve(rng.below(300) as usize),
            92..=95 => {
                let i = match rng.below(4) {
                    0 => len,
                    1 => cap + rng.below(3) as usize,
                    2 => MAX,
                    _ => rng.below(len as u64 + 1) as usize,
                };
                return HR::Bit(i);
            }
            _ => return HR::CountOnes,
        }
    }
}

#[derive(Clone, Debug)]
pub(crate) enum HI {
    WithLen(usize, usize, u64),
    From(usize, Vec<u64>),
    Get(usize),
    Set(usize, u64),
    Push(u64),
    Pop,
    Resize(usize, u64),
    Clear,
    Reserve(usize),
    Pack,
    Extend(usize, Vec<u64>), // element type: 8 / 16 / 32 / 64 bits, 65 = usize
    CountOnes,
}

pub(crate) fn hi_term(o: &HI) -> String {
    match o {
        HI::WithLen(l, w, v) => format!("JWithLen {} {} {}", nz(*l), nz(*w), n(*v)),
        HI::From(w, xs) => format!("JFrom {} {}", w, nlist(xs)),
        HI::Get(i) => format!("JGet {}", nz(*i)),
        HI::Set(i, v) => format!("JSet {} {}", nz(*i), n(*v)),
        HI::Push(v) => format!("JPush {}", n(*v)),
        HI::Pop => "JPop".to_string(),
        HI::Resize(l, v) => format!("JResize {} {}", nz(*l), n(*v)),
        HI::Clear => "JClear".to_string(),
        HI::Reserve(a) => format!("JReserve {}", nz(*a)),
        HI::Pack => "JPack".to_string(),
        HI::Extend(_, xs) => format!("JExtend {}", nlist(xs)),
        HI::CountOnes => "JCount".to_string(),
    }
}

fn hi_name(o: &HI) -> &'static str {
    match o {
        HI::WithLen(..) => "with_len",
        HI::From(..) => "from",
        HI::Get(..) => "get",
        HI::Set(..) => "set",
        HI::Push(..) => "push",
        HI::Pop => "pop",
        HI::Resize(..) => "resize",
        HI::Clear => "clear",
        HI::Reserve(..) => "reserve",
        HI::Pack => "pack",
        HI::Extend(..) => "extend",
        HI::CountOnes => "count_ones",
    }
}

pub(crate) fn hi_apply(v: &mut IntVector, o: &HI) {
    match o {
        HI::WithLen(l, w, x) => *v = IntVector::with_len(*l, *w, *x).unwrap(),
        HI::From(w, xs) => {
            *v = match w {
                8 => IntVector::from(xs.iter().map(|x| *x as u8).collect::<Vec<u8>>()),
                16 => IntVector::from(xs.iter().map(|x| *x as u16).collect::<Vec<u16>>()),
                32 => IntVector::from(xs.iter().map(|x| *x as u32).collect::<Vec<u32>>()),
                _ => IntVector::from(xs.clone()),
            }
        }
        HI::Get(i) => {
            std::hint::black_box(v.get(*i));
        }
        HI::Set(i, x) => v.set(*i, *x),
        HI::Push(x) => v.push(*x),
        HI::Pop => {
            std::hint::black_box(v.pop());
        }
        HI::Resize(l, x) => v.resize(*l, *x),
        HI::Clear => v.clear(),
        HI::Reserve(a) => v.reserve(*a),
        HI::Pack => v.pack(),
        HI::Extend(t, xs) => match t {
            8 => v.extend(xs.iter().map(|x| *x as u8)),
            16 => v.extend(xs.iter().map(|x| *x as u16).collect::<Vec<u16>>()),
            32 => v.extend(xs.iter().map(|x| *x as u32)),
            65 => v.extend(xs.iter().map(|x| *x as usize).collect::<Vec<usize>>()),
            _ => v.extend(xs.clone()),
        },
        HI::CountOnes => {
            std::hint::black_box(AsRef::<RawVector>::as_ref(v).count_ones());
        }
    }
}

// a value to be written into a field of `w` bits: usually wider than the field, often all ones inside it
fn hist_value(rng: &mut Rng, w: usize, ones: bool) -> u64 {
    let mask = if w >= 64 { !0u64 } else { (1u64 << w) - 1 };
    if ones && !rng.chance(1, 10) {
        return if rng.chance(1, 2) { !0u64 } else { mask };
    }
    match rng.below(8) {
        0 => !0u64,
        1 => 0,
        2 => rng.next() & mask,
        3 => mask,
        4 => mask | (rng.next() & !mask),
        5 => !mask,
        6 => rng.word(),
        _ => rng.next(),
    }
}

fn hist_typed(rng: &mut Rng, t: usize, count: usize, ones: bool) -> Vec<u64> {
    (0..count)
        .map(|_| {
            let x = if ones && !rng.chance(1, 10) {
                !0u64
            } else {
                match rng.below(4) {
                    0 => !0u64,
                    1 => rng.word(),
                    2 => rng.below(16),
                    _ => rng.next(),
                }
            };
            match t {
                8 => x & 0xFF,
                16 => x & 0xFFFF,
                32 => x & 0xFFFF_FFFF,
                _ => x,
            }
        })
        .collect()
}

const HIST_WIDTHS: [usize; 12] = [1, 2, 3, 7, 8, 13, 31, 32, 33, 48, 63, 64];

pub(crate) fn hist_width(rng: &mut Rng) -> usize {
    if rng.chance(2, 3) {
        *rng.pick(&HIST_WIDTHS)
    } else {
        rng.range(1, 64) as usize
    }
}

pub(crate) fn gen_hi(rng: &mut Rng, len: usize, width: usize, ones: bool) -> HI {
    loop {
        let big = len * width > 400 || len > 40;
        let k = if big { 30 + rng.below(30) } else { rng.below(100) };
        match k {
            0..=29 => return HI::Push(hist_value(rng, width, ones)),
            30..=44 => return HI::Pop,
            45..=52 => {
                if big || rng.chance(1, 2) {
                    return HI::Resize(rng.below(len as u64 + 1) as usize, hist_value(rng, width, ones));
                } else {
                    return HI::Resize(len + rng.range(0, 12) as usize, hist_value(rng, width, ones));
                }
            }
            53..=58 => return HI::Pack,
            59..=63 => {
                if len == 0 {
                    continue;
                }
                return HI::Get(rng.below(len as u64) as usize);
            }
            64..=74 => {
                if len == 0 {
                    continue;
                }
                let i = if rng.chance(1, 3) { len - 1 } else { rng.below(len as u64) as usize };
                return HI::Set(i, hist_value(rng, width, ones));
            }
            75..=80 => {
                let t = *rng.pick(&[8usize, 16, 32, 64, 65]);
                let cnt = rng.below(8) as usize;
                return HI::Extend(t, hist_typed(rng, t, cnt, ones));
            }
            81..=84 => {
                let w = hist_width(rng);
                return HI::WithLen(rng.below(24) as usize, w, hist_value(rng, w, ones));
            }
            85..=87 => {
                let t = *rng.pick(&[8usize, 16, 32, 64]);
                let cnt = rng.below(12) as usize;
                return HI::From(t, hist_typed(rng, t, cnt, ones));
            }
            88..=89 => return HI::Clear,
            90 => return HI::Reserve(rng.below(100) as usize),
            91..=92 => return HI::CountOnes,
            // refused calls: past the end (asserted before anything is touched), a width no vector can have
            93..=95 => return HI::Get(*rng.pick(&[len, len + 1, len + 1000, 1usize << 63, MAX])),
            96..=97 => return HI::Set(*rng.pick(&[len, len + 1, len + 1000, 1usize << 63, MAX]), hist_value(rng, width, ones)),
            _ => return HI::WithLen(rng.below(24) as usize, *rng.pick(&[0usize, 65, 66, 128, MAX]), !0u64),
        }
    }
}

// get at a few positions, the iterators over set / unset bits (call sequences), one pass of iter()
fn bv_hist_calls(rng: &mut Rng, bv: &BitVector) -> BvCalls {
    let mut c = bv_iter_only(rng, bv, 4);
    let len = bv.len();
    let mut idx: Vec<usize> = vec![0, len.wrapping_sub(1), len, len.wrapping_add(63) / 64 * 64, MAX];
    idx.sort();
    idx.dedup();
    for i in idx.iter() {
        mark(&format!("BitVector::from(raw vector of {} bits).get({})", len, i));
        let r = catch(|| bv.get(*i));
        c.push(format!("BGet {} {}", nz(*i), ires(&r, |x| b(*x))), format!("get({})", i), &[class_of(&r)]);
    }
    for ops in sequences_r(rng, len, true, 1) {
        mark(&format!("BitVector::from(raw vector of {} bits).iter():{}", len, seq_desc(&ops)));
        let (opened, steps) = drive(|| bv.iter(), &ops, step_de, obool);
        let mut classes: Vec<u64> = vec![class_of(&opened)];
        classes.extend(steps.iter().map(|s| class_of(&s.2)));
        c.push(format!("BBits {}", istep_terms(&steps)), format!("iter():{}", seq_desc(&ops)), &classes);
    }
    c
}

// the representation invariant of a raw vector, read off its length and backing words
fn words_inv(len: usize, words: &[u64]) -> bool {
    words.len() == len / 64 + (if len % 64 != 0 { 1 } else { 0 }) && (len % 64 == 0 || words[words.len() - 1] >> (len % 64) == 0)
}

// observe the final raw vector (one time in four: the copy loaded back from the bytes the library wrote for it),
// convert it, drive the bitvector; `head` is the case term up to and including the history
fn emit_history(out: &mut Out, rng: &mut Rng, kind: &str, what: &str, head: String, ops_json: Vec<String>, refused: usize, raw: RawVector) {
    let mut loaded = false;
    let mut obs = raw;
    if rng.chance(1, 4) {
        mark(&format!("{}: serialize + load of the final vector (len={})", what, obs.len()));
        if let Res::Ok(l) = catch(|| load_back(&obs)) {
            obs = l;
            loaded = true;
        } else {
            out.stat("hist.final.load_refused");
        }
    }
    let len = obs.len();
    let words: Vec<u64> = { let w: &[u64] = obs.as_ref(); w.to_vec() };
    let inv = words_inv(len, &words);
    out.stat(if inv { "hist.final.invariant_holds" } else { "hist.final.invariant_broken" });
    out.stat(if len == 0 { "hist.final.empty" } else if len % 64 == 0 { "hist.final.word_aligned" } else { "hist.final.partial_last_word" });
    let bv = BitVector::from(obs);
    out.stat(if bv.count_ones() > len { "hist.final.ones_exceed_len" } else if bv.count_ones() == len && len > 0 { "hist.final.all_ones" } else { "hist.final.mixed" });
    let calls = bv_hist_calls(rng, &bv);
    out.stat_n("calls.bitvector_after_history", calls.terms.len() as u64);
    let hits: Vec<String> = calls.descs.iter().zip(calls.is9.iter()).filter(|(_, h)| **h).map(|(d, _)| format!("{:?}", d)).collect();
    let js: Vec<String> = calls.descs.iter().map(|d| format!("{:?}", d)).collect();
    let kind_name = if loaded { format!("{}_loaded", kind) } else { kind.to_string() };
    out.case(&kind_name,
        format!("{} {} {} [{}]", head, len, nlist(&words), calls.terms.join("; ")),
        format!("{{\"struct\":{:?},\"history\":[{}],\"refused_calls_dropped\":{},\"final_len\":{},\"final_words\":{:?},\"loaded\":{},\"invariant_holds\":{},\"count_ones\":{},\"oob_calls\":[{}],\"calls\":[{}]}}",
            what, ops_json.join(","), refused, len, words, loaded, inv, bv.count_ones(), hits.join(","), js.join(",")), true);
}

// a call of a history that ended in the bounds hook is a finding of its own (the history itself drops refused calls)
fn hist_refused(out: &mut Out, kind: u64, what: &str, desc: &str, k: u64) {
    out.stat("hist.call_refused");
    if k == 9 {
        out.case("other", format!("COther {} [9]", kind), format!("{{\"struct\":{:?},\"oob\":true,\"calls\":[{:?}]}}", what, format!("{}=9", desc)), true);
    }
}

fn raw_history(out: &mut Out, rng: &mut Rng) {
    let ones = rng.chance(1, 2);
    let steps = rng.range(3, 28) as usize;
    let mut v = RawVector::new();
    let mut ops: Vec<HR> = Vec::new();
    let mut refused = 0usize;
    let mut plan: Vec<Option<HR>> = Vec::new();
    if rng.chance(1, 2) {
        plan.push(Some(HR::WithLen(if rng.chance(2, 3) { *rng.pick(&HIST_LENS) } else { rng.below(200) as usize }, if ones { true } else { rng.chance(1, 2) })));
    }
    for _ in 0..steps {
        plan.push(None);
    }
    // endings the invariant is most exposed to: a vector that just lost its last bits
    match rng.below(6) {
        0 => plan.push(Some(HR::PopBit)),
        1 => {
            plan.push(Some(HR::PushBit(true)));
            plan.push(Some(HR::PopBit));
        }
        2 => {
            plan.push(Some(HR::Complement));
            plan.push(Some(HR::PopBit));
        }
        _ => {}
    }
    for p in plan.into_iter() {
        let nwords = { let w: &[u64] = v.as_ref(); w.len() };
        let o = match p {
            Some(o) => o,
            None => gen_hr(rng, v.len(), nwords, ones),
        };
        mark(&format!("RawVector history, call {}: {:?} on a vector of {} bits", ops.len(), o, v.len()));
        let mut c = v.clone();
        let r = catch(|| hr_apply(&mut c, &o));
        match r {
            Res::Ok(()) => {
                out.stat(&format!("hist.raw.call.{}", hr_name(&o)));
                v = c;
                ops.push(o);
            }
            Res::Panic(k, _) => {
                refused += 1;
                out.stat(&format!("hist.raw.refused.{}", hr_name(&o)));
                hist_refused(out, K_HISTR, "RawVector history", &format!("{:?}", o), k);
            }
        }
    }
    out.stat(&format!("hist.raw.last_call.{}", ops.last().map(hr_name).unwrap_or("none")));
    out.stat_n("hist.raw.calls", ops.len() as u64);
    let terms: Vec<String> = ops.iter().map(hr_term).collect();
    let js: Vec<String> = ops.iter().map(|o| format!("{:?}", format!("{:?}", o))).collect();
    emit_history(out, rng, "hist_raw", "RawVector::new() + safe calls -> BitVector", format!("CHistR {} {} [{}]", PATH, b(DBG), terms.join("; ")), js, refused, v);
}

fn int_history(out: &mut Out, rng: &mut Rng) {
    let flavour = rng.below(20);
    let ones = flavour < 11;
    let mut w0 = hist_width(rng);
    let mut plan: Vec<Option<HI>> = Vec::new();
    if flavour < 7 {
        // a vector of all-ones items whose LAST call is pop(), leaving (mostly) a bit length that is not a multiple of 64
        out.stat("hist.int.flavour.all_ones_then_pop");
        let w = hist_width(rng);
        let mut n = rng.range(1, 24) as usize;
        for _ in 0..4 {
            if ((n - 1) * w) % 64 != 0 {
                break;
            }
            n += 1;
        }
        let m = !0u64;
        match rng.below(5) {
            0 => plan.push(Some(HI::WithLen(n, w, m))),
            1 => {
                w0 = w;
                for _ in 0..n {
                    plan.push(Some(HI::Push(if rng.chance(1, 2) { m } else { hist_value(rng, w, true) })));
                }
            }
            2 => {
                w0 = w;
                plan.push(Some(HI::Resize(n, m)));
            }
            3 => {
                w0 = w;
                plan.push(Some(HI::Extend(64, vec![m; n])));
            }
            _ => {
                plan.push(Some(HI::WithLen(n / 2, w, m)));
                plan.push(Some(HI::Resize(n, m)));
            }
        }
        for _ in 0..rng.below(4) {
            plan.push(Some(match rng.below(4) {
                0 => HI::Push(m),
                1 => HI::Set(rng.below(n as u64) as usize, m),
                2 => HI::Get(rng.below(n as u64) as usize),
                _ => HI::Pop,
            }));
        }
        plan.push(Some(HI::Pop));
        if rng.chance(1, 4) {
            plan.push(Some(HI::Pop));
        }
    } else {
        out.stat(if ones { "hist.int.flavour.random_mostly_ones" } else { "hist.int.flavour.random" });
        for _ in 0..rng.range(3, 30) {
            plan.push(None);
        }
        match rng.below(8) {
            0 | 1 | 2 => plan.push(Some(HI::Pop)),
            3 => {
                plan.push(Some(HI::Push(!0u64)));
                plan.push(Some(HI::Pop));
            }
            4 => {
                plan.push(Some(HI::Pop));
                plan.push(Some(HI::Pop));
            }
            5 => {
                plan.push(Some(HI::Resize(rng.range(1, 20) as usize, !0u64)));
                plan.push(Some(HI::Pop));
            }
            _ => {}
        }
    }
    let mut v = IntVector::new(w0).unwrap();
    let mut ops: Vec<HI> = Vec::new();
    let mut refused = 0usize;
    for p in plan.into_iter() {
        let o = match p {
            Some(o) => o,
            None => gen_hi(rng, v.len(), v.width(), ones),
        };
        mark(&format!("IntVector history, call {}: {:?} on a vector of {} items of width {}", ops.len(), o, v.len(), v.width()));
        let mut c = v.clone();
        let r = catch(|| hi_apply(&mut c, &o));
        match r {
            Res::Ok(()) => {
                out.stat(&format!("hist.int.call.{}", hi_name(&o)));
                v = c;
                ops.push(o);
            }
            Res::Panic(k, _) => {
                refused += 1;
                out.stat(&format!("hist.int.refused.{}", hi_name(&o)));
                hist_refused(out, K_HISTI, "IntVector history", &format!("{:?}", o), k);
            }
        }
    }
    out.stat(&format!("hist.int.last_call.{}", ops.last().map(hi_name).unwrap_or("none")));
    out.stat(&format!("hist.int.final_width.{}", if HIST_WIDTHS.contains(&v.width()) { format!("{}", v.width()) } else { "other".to_string() }));
    out.stat_n("hist.int.calls", ops.len() as u64);
    if matches!(ops.last(), Some(HI::Pop)) && (v.len() * v.width()) % 64 != 0 {
        out.stat("hist.int.ends_with_pop_inside_a_word");
    }
    let terms: Vec<String> = ops.iter().map(hi_term).collect();
    let js: Vec<String> = ops.iter().map(|o| format!("{:?}", format!("{:?}", o))).collect();
    let what = format!("IntVector::new({}) + safe calls -> RawVector -> BitVector", w0);
    mark(&format!("RawVector::from(IntVector of {} items of width {})", v.len(), v.width()));
    let raw = RawVector::from(v);
    emit_history(out, rng, "hist_int", &what, format!("CHistI {} {} {} [{}]", PATH, b(DBG), w0, terms.join("; ")), js, refused, raw);
}

// ---------------------------------------------------------------- objects: Transformation / RankSupport / SelectSupport called directly (CObj)

const K_OBJ: u64 = 12;

struct ObjSup {
    rank: RankSupport,
    sel: SelectSupport<Identity>,
    sel0: SelectSupport<Complement>,
}

// the three supports `new` builds from a bitvector; `loaded`: the copies read back from the bytes the library wrote
fn obj_sup(bv: &BitVector, loaded: bool) -> ObjSup {
    let s = ObjSup { rank: RankSupport::new(bv), sel: SelectSupport::<Identity>::new(bv), sel0: SelectSupport::<Complement>::new(bv) };
    if loaded {
        ObjSup { rank: load_back(&s.rank), sel: load_back(&s.sel), sel0: load_back(&s.sel0) }
    } else {
        s
    }
}

// `assert!(index < self.len(), "Index is out of bounds")` of IntVector::get is an assertion, whatever its message says
fn fix_iv_get<T>(r: Res<T>) -> Res<T> {
    match r {
        Res::Panic(_, msg) if msg == "Index is out of bounds" => Res::Panic(P_ASSERT, msg),
        other => other,
    }
}

fn around(v: &mut Vec<usize>, x: usize) {
    v.push(x.wrapping_sub(1));
    v.push(x);
    v.push(x.wrapping_add(1));
}

fn uniq(mut v: Vec<usize>) -> Vec<usize> {
    v.sort();
    v.dedup();
    v
}

fn round_up(x: usize, k: usize) -> usize {
    (x + k - 1) / k * k
}

fn nnlist(xs: &[(usize, usize)]) -> String {
    plist(xs)
}

struct ObjCalls {
    terms: Vec<String>,
    descs: Vec<String>,
    is9: Vec<bool>,
}

impl ObjCalls {
    fn push<T>(&mut self, term: String, desc: String, r: &Res<T>) {
        self.is9.push(class_of(r) == 9);
        self.terms.push(term);
        self.descs.push(format!("{}={}", desc, match r { Res::Ok(_) => "returned".to_string(), Res::Panic(k, _) => format!("panic class {}", k) }));
    }
}

fn obj_t_calls<T: Transformation>(c: &mut ObjCalls, rng: &mut Rng, p: &BitVector, z: bool) {
    let name = if z { "Complement" } else { "Identity" };
    let len = p.len();
    let nw = (len + 63) / 64;
    let mut bits_at = extremes(len);
    around(&mut bits_at, 64 * nw);
    around(&mut bits_at, 64 * (len / 64));
    bits_at.push(64 * nw + 63);
    bits_at.push(64 * nw + 64);
    if len > 0 {
        bits_at.push(rng.below(len as u64) as usize);
    }
    for i in uniq(bits_at) {
        mark(&format!("{}::bit(BitVector(len={}), {})", name, len, i));
        let r = catch(|| T::bit(p, i));
        c.push(format!("OBit {} {} {}", b(z), nz(i), ires(&r, |x| b(*x))), format!("{}::bit(parent,{})", name, i), &r);
    }
    // every word index around the buffer's end
    let mut words_at: Vec<usize> = if nw <= 10 { (0..nw + 3).collect() } else { vec![0, 1, nw / 2] };
    around(&mut words_at, nw);
    around(&mut words_at, len / 64);
    words_at.push(nw + 2);
    words_at.push(2 * nw);
    words_at.push(len);
    for x in [1usize << 57, (1usize << 58) - 1, 1usize << 58, 1usize << 63, MAX - 1, MAX] {
        words_at.push(x);
    }
    for k in uniq(words_at) {
        mark(&format!("{}::word(BitVector(len={}), {})", name, len, k));
        let r = catch(|| T::word(p, k));
        c.push(format!("OWord {} {} {}", b(z), nz(k), ires(&r, |x| n(*x))), format!("{}::word(parent,{})", name, k), &r);
    }
    mark(&format!("{}::count_ones / one_iter(BitVector(len={}))", name, len));
    let r = catch(|| T::count_ones(p));
    c.push(format!("OCount {} {}", b(z), ires(&r, |x| nu(*x))), format!("{}::count_ones(parent)", name), &r);
    let r = catch(|| T::one_iter(p).take(3).collect::<Vec<(usize, usize)>>());
    c.push(format!("OIter3 {} {}", b(z), ires(&r, |x| nnlist(x))), format!("{}::one_iter(parent).take(3)", name), &r);
}

fn obj_rank_calls(c: &mut ObjCalls, rng: &mut Rng, p: &BitVector, q: &BitVector, rs: &RankSupport, own: bool) {
    let who = if own { "own" } else { "other" };
    let (len, qlen) = (p.len(), q.len());
    let r = catch(|| rs.blocks());
    c.push(format!("OBlocks {} {}", b(own), ires(&r, |x| nu(*x))), format!("RankSupport[{}].blocks()", who), &r);
    let mut at = extremes(len);
    at.extend(extremes(qlen));
    for l in [len, qlen] {
        around(&mut at, 64 * ((l + 63) / 64));
        around(&mut at, 64 * (l / 64));
        around(&mut at, 512 * ((l + 511) / 512));
        around(&mut at, 512 * (l / 512));
    }
    for _ in 0..4 {
        at.push(rng.below((std::cmp::max(len, qlen) + 600) as u64) as usize);
    }
    for i in uniq(at) {
        mark(&format!("RankSupport[{} of len {}].rank(BitVector(len={}), {})", who, if own { len } else { qlen }, len, i));
        let r = catch(|| rs.rank(p, i));
        c.push(format!("ORank {} {} {}", b(own), nz(i), ires(&r, |x| nu(*x))), format!("RankSupport[{}].rank(parent,{})", who, i), &r);
    }
}

fn obj_select_calls<T: Transformation>(c: &mut ObjCalls, rng: &mut Rng, p: &BitVector, q: &BitVector, ss: &SelectSupport<T>, own: bool, z: bool) {
    let who = if own { "own" } else { "other" };
    let name = if z { "Complement" } else { "Identity" };
    let r = catch(|| (ss.superblocks(), (ss.long_superblocks(), ss.short_superblocks())));
    c.push(format!("OSuper {} {} {}", b(own), b(z), ires(&r, |x| format!("({}, ({}, {}))", x.0, (x.1).0, (x.1).1))),
        format!("SelectSupport<{}>[{}].superblocks/long/short", name, who), &r);
    let (cnt, qcnt) = (T::count_ones(p), T::count_ones(q));
    let mut at = extremes(cnt);
    at.extend(extremes(qcnt));
    for k in [cnt, qcnt] {
        around(&mut at, round_up(k, 64));
        around(&mut at, k / 64 * 64);
        around(&mut at, round_up(k, 4096));
        around(&mut at, k / 4096 * 4096);
    }
    for x in [63usize, 64, 65, 4095, 4096, 4097, 8191, 8192] {
        at.push(x);
    }
    for _ in 0..6 {
        at.push(rng.below((std::cmp::max(cnt, qcnt) + 130) as u64) as usize);
    }
    for r0 in uniq(at) {
        mark(&format!("SelectSupport<{}>[{}, {} ones].select(BitVector(len={}, {} ones), {})", name, who, if own { cnt } else { qcnt }, p.len(), cnt, r0));
        let r = fix_iv_get(catch(|| ss.select(p, r0)));
        c.push(format!("OSel {} {} {} {}", b(own), b(z), nz(r0), ires(&r, |x| nu(*x))), format!("SelectSupport<{}>[{}].select(parent,{})", name, who, r0), &r);
    }
}

// the parent `pbits` with its own supports and with the supports of `qbits`
fn obj_batch(out: &mut Out, rng: &mut Rng, pbits: &[bool], qbits: &[bool], qdesc: &str) {
    let p: BitVector = pbits.iter().cloned().collect();
    let q: BitVector = qbits.iter().cloned().collect();
    let loaded = rng.chance(1, 3);
    let own = obj_sup(&p, loaded);
    let other = obj_sup(&q, loaded);
    let mut c = ObjCalls { terms: Vec::new(), descs: Vec::new(), is9: Vec::new() };
    obj_t_calls::<Identity>(&mut c, rng, &p, false);
    obj_t_calls::<Complement>(&mut c, rng, &p, true);
    obj_rank_calls(&mut c, rng, &p, &q, &own.rank, true);
    obj_rank_calls(&mut c, rng, &p, &q, &other.rank, false);
    obj_select_calls::<Identity>(&mut c, rng, &p, &q, &own.sel, true, false);
    obj_select_calls::<Complement>(&mut c, rng, &p, &q, &own.sel0, true, true);
    obj_select_calls::<Identity>(&mut c, rng, &p, &q, &other.sel, false, false);
    obj_select_calls::<Complement>(&mut c, rng, &p, &q, &other.sel0, false, true);
    let (pw, qw) = (to_words(pbits), to_words(qbits));
    out.stat(if pbits.len() % 64 == 0 { "obj.parent.word_aligned" } else { "obj.parent.partial_last_word" });
    out.stat(if qbits.len() == 0 { "obj.other.empty" } else if qbits.len() < pbits.len() { "obj.other.shorter" } else if qbits.len() > pbits.len() { "obj.other.longer" } else { "obj.other.same_length" });
    out.stat(if loaded { "obj.supports.loaded_back" } else { "obj.supports.fresh" });
    if own.sel.long_superblocks() + own.sel0.long_superblocks() + other.sel.long_superblocks() + other.sel0.long_superblocks() > 0 {
        out.stat("obj.with_long_superblock");
    }
    // small vectors: small cases (a failing case names few calls); large ones: one case, so that the model builds
    // the supports once
    let chunk = if pbits.len() > 2048 || qbits.len() > 2048 { usize::MAX } else { 90 };
    let mut i = 0;
    while i < c.terms.len() {
        let j = std::cmp::min(c.terms.len(), i.saturating_add(chunk));
        let hits: Vec<String> = (i..j).filter(|k| c.is9[*k]).map(|k| format!("{:?}", c.descs[k])).collect();
        let js: Vec<String> = if hits.is_empty() { c.descs[i..j].iter().map(|d| format!("{:?}", d)).collect() } else { Vec::new() };
        let short = |w: &Vec<u64>| if w.len() <= 8 { w.clone() } else { w[..8].to_vec() };
        out.stat_n("calls.objects", (j - i) as u64);
        out.stat_n("calls.objects.panicked", c.descs[i..j].iter().filter(|d| !d.ends_with("returned")).count() as u64);
        out.case(if loaded { "obj_loaded" } else { "obj" },
            format!("CObj {} {} {} {} {} {} [{}]", PATH, b(DBG), pbits.len(), nlist(&pw), qbits.len(), nlist(&qw), c.terms[i..j].join("; ")),
            format!("{{\"struct\":\"Transformation/RankSupport/SelectSupport called directly\",\"parent_len\":{},\"parent_words\":{:?},\"other\":{:?},\"other_len\":{},\"other_words\":{:?},\"supports_loaded\":{},\"oob_calls\":[{}],\"calls\":[{}]}}",
                pbits.len(), short(&pw), qdesc, qbits.len(), short(&qw), loaded, hits.join(","), js.join(",")), true);
        i = j;
    }
}

// ---------------------------------------------------------------- masks

fn masks_batch(out: &mut Out) {
    let mut t: Vec<String> = Vec::new();
    let mut oob = false;
    for nn in 0..70usize {
        let r = catch(|| bits::low_set(nn));
        oob |= class_of(&r) == 9;
        t.push(format!("(false, {}, {})", nn, ires(&r, |x| n(*x))));
        let r = catch(|| bits::high_set(nn));
        oob |= class_of(&r) == 9;
        t.push(format!("(true, {}, {})", nn, ires(&r, |x| n(*x))));
    }
    for nn in [1usize << 32, 1usize << 63, MAX - 1, MAX] {
        let r = catch(|| bits::low_set(nn));
        oob |= class_of(&r) == 9;
        t.push(format!("(false, {}, {})", nn, ires(&r, |x| n(*x))));
        let r = catch(|| bits::high_set(nn));
        oob |= class_of(&r) == 9;
        t.push(format!("(true, {}, {})", nn, ires(&r, |x| n(*x))));
    }
    out.stat_n("calls.masks", t.len() as u64);
    out.case("masks", format!("CMasks [{}]", t.join("; ")), format!("{{\"struct\":\"bits::low_set/high_set\",\"n\":\"0..70 and extremes\",\"oob\":{}}}", oob), true);
}

// ---------------------------------------------------------------- driver

pub fn run(rng: &mut Rng, out: &mut Out, thorough: bool, variant: &str) {
    mark_init();
    let mut bt = Batches { n: 0, dir: rundir() };
    let _ = variant;
    // ---- plain bitvectors. Small ones get every ordered pair of iterator calls; all get random sequences of up to 4.
    let mut specs: Vec<(usize, Style, u64, bool)> = vec![
        (0, Style::Zeros, 7, true), (1, Style::Ones, 7, true), (2, Style::Ones, 7, true), (3, Style::Half, 7, true),
        (63, Style::Half, 7, true), (64, Style::Ones, 7, true), (65, Style::Edge, 7, false), (128, Style::Zeros, 7, false),
        (130, Style::Sparse(7), 7, false), (511, Style::Dense(50), 7, false), (512, Style::Half, 7, false),
        (513, Style::Runs(20), 7, false), (700, Style::Clusters, 7, false), (1025, Style::Edge, 7, false),
        (200, Style::Half, 0, false), (200, Style::Half, 1, false), (300, Style::Sparse(7), 2, false), (300, Style::Dense(50), 5, false),
        (4160, Style::Ones, 7, false), (9000, Style::Dense(50), 7, false), (9000, Style::Sparse(50), 7, false),
    ];
    let extra = if thorough { 30 } else { 4 };
    for _ in 0..extra {
        let len = if rng.below(3) == 0 { *rng.pick(&BOUNDARY_LENS[..25]) } else { rng.below(1500) as usize };
        let sup = if rng.below(4) == 0 { rng.below(8) } else { 7 };
        specs.push((len, pick_style(rng), sup, len <= 64 && thorough));
    }
    if thorough {
        specs.push((32769, Style::Half, 7, false));
        specs.push((20000, Style::Zeros, 7, false));
        specs.push((20000, Style::Ones, 7, false));
    }
    let nrandom = if thorough { 80 } else { 24 };
    for (len, style, sup, pairs) in specs.iter() {
        let bits = gen_bits(rng, *len, *style);
        let seed = rng.next();
        out.stat("struct.bitvector");
        bt.run(out, K_BV, &format!("BitVector(len={},style={:?},sup={})", len, style, sup), seed, |o| {
            let mut r = Rng::new(seed);
            bv_batch(o, &mut r, &bits, *sup, *pairs, nrandom);
        });
    }
    // ---- raw vectors and int vectors
    for len in [0usize, 1, 63, 64, 65, 127, 128, 130, 200] {
        let bits = gen_bits(rng, len, if len % 2 == 0 { Style::Half } else { Style::Dense(5) });
        let seed = rng.next();
        out.stat("struct.rawvector");
        bt.run(out, K_RAW, &format!("RawVector(len={})", len), seed, |o| {
            let mut r = Rng::new(seed);
            raw_batch(o, &mut r, &bits);
        });
    }
    for len in [1usize, 63, 65, 130] {
        let bits = gen_bits(rng, len, Style::Ones);
        let seed = rng.next();
        out.stat("struct.rawvector");
        bt.run(out, K_RAW, &format!("RawVector(len={},all ones)", len), seed, |o| {
            let mut r = Rng::new(seed);
            raw_batch(o, &mut r, &bits);
        });
    }
    let mut ivs: Vec<(usize, usize)> = vec![(1, 0), (1, 70), (7, 1), (13, 40), (32, 9), (63, 5), (64, 0), (64, 3), (33, 64)];
    for _ in 0..(if thorough { 40 } else { 3 }) {
        ivs.push((rng.range(1, 64) as usize, rng.below(150) as usize));
    }
    for (w, k) in ivs.iter() {
        let seed = rng.next();
        out.stat("struct.intvector");
        bt.run(out, K_IV, &format!("IntVector(width={},len={})", w, k), seed, |o| {
            let mut r = Rng::new(seed);
            iv_batch(o, &mut r, *w, *k);
        });
    }
    // ---- sparse and run-length vectors over the same kind of bit sequences
    let mut sspecs: Vec<(usize, Style, bool)> = vec![
        (0, Style::Zeros, true), (1, Style::Ones, true), (2, Style::Half, true), (5, Style::Ones, true), (64, Style::Half, false),
        (65, Style::Edge, false), (130, Style::Sparse(7), false), (300, Style::Runs(20), false), (513, Style::Clusters, false),
        (700, Style::Sparse(50), false), (256, Style::Ones, false), (256, Style::Zeros, false),
    ];
    for _ in 0..(if thorough { 40 } else { 2 }) {
        sspecs.push((rng.below(1200) as usize, pick_style(rng), false));
    }
    for (len, style, pairs) in sspecs.iter() {
        let bits = gen_bits(rng, *len, *style);
        let seed = rng.next();
        out.stat("struct.sparse");
        bt.run(out, K_SPARSE, &format!("SparseVector(len={},style={:?})", len, style), seed, |o| {
            let mut r = Rng::new(seed);
            sparse_batch(o, &mut r, &bits, *pairs);
        });
        let seed = rng.next();
        out.stat("struct.rl");
        bt.run(out, K_RL, &format!("RLVector(len={},style={:?})", len, style), seed, |o| {
            let mut r = Rng::new(seed);
            rl_batch(o, &mut r, &bits, *pairs);
        });
    }
    let seed = rng.next();
    out.stat("struct.huge");
    bt.run(out, K_SPARSE, "huge universes", seed, |o| {
        let mut r = Rng::new(seed);
        huge_batch(o, &mut r);
    });
    let seed = rng.next();
    out.stat("struct.builders");
    bt.run(out, K_BUILDERS, "builders", seed, |o| {
        let mut r = Rng::new(seed);
        builders_batch(o, &mut r);
    });
    // ---- wavelet matrices
    let mut wspecs: Vec<(usize, u64, bool)> = vec![(0, 1, true), (1, 1, true), (2, 2, true), (5, 3, true), (40, 2, false), (64, 5, false), (100, 256, false), (200, 17, false), (65, 1, false)];
    for _ in 0..(if thorough { 30 } else { 2 }) {
        wspecs.push((rng.below(300) as usize, 1 + rng.below(300), false));
    }
    for (len, sigma, pairs) in wspecs.iter() {
        let seed = rng.next();
        out.stat("struct.wavelet");
        bt.run(out, K_WM, &format!("WaveletMatrix(len={},sigma={})", len, sigma), seed, |o| {
            let mut r = Rng::new(seed);
            wm_batch(o, &mut r, *len, *sigma, *pairs);
        });
    }
    // ---- memory-mapped views over files of library-serialized values: every view type at every offset
    for (k, (desc, vals)) in mapped_files(rng, thorough).iter().enumerate() {
        let mut bytes: Vec<u8> = Vec::new();
        let mut starts: Vec<usize> = Vec::new();
        for v in vals.iter() {
            starts.push(bytes.len() / 8);
            v.write(&mut bytes);
        }
        let names: Vec<String> = vals.iter().map(|v| v.name()).collect();
        let label = format!("mapped file {} [{}]: {}", k, desc, names.join(" ++ "));
        let path = bt.dir.join(format!("c08_map_{}_{}.bin", std::process::id(), k));
        let seed = rng.next();
        out.stat("struct.mapped_file");
        out.stat_n("mapped.file_elements", (bytes.len() / 8) as u64);
        bt.run(out, K_MAPPED, &label, seed, |o| mapped_batch(o, &path, &bytes, &label, &starts));
        let _ = fs::remove_file(&path);
    }
    // ---- objects: Transformation / RankSupport / SelectSupport called directly, own and foreign supports
    let mut ospecs: Vec<(usize, Style)> = vec![
        (0, Style::Zeros), (1, Style::Ones), (63, Style::Half), (64, Style::Half), (64, Style::Ones), (65, Style::Edge), (127, Style::Dense(5)),
        (128, Style::Sparse(3)), (128, Style::Zeros), (129, Style::Half), (192, Style::Ones), (512, Style::Half), (513, Style::Runs(20)),
        (4096, Style::Half), (4160, Style::Zeros),
    ];
    for _ in 0..(if thorough { 30 } else { 3 }) {
        let len = if rng.below(2) == 0 { 64 * rng.range(1, 20) as usize } else { rng.below(1500) as usize };
        ospecs.push((len, pick_style(rng)));
    }
    // a vector long and sparse enough for SelectSupport::new to store a LONG superblock (span >= bit_len(len)^4)
    let mut far = vec![false; 131200];
    for pos in [5usize, 70000, 131199] {
        far[pos] = true;
    }
    for (len, style) in ospecs.iter() {
        let pbits = gen_bits(rng, *len, *style);
        let len = *len;
        let shorter_style = pick_style(rng);
        let mut others: Vec<(String, Vec<bool>)> = vec![
            ("empty".to_string(), Vec::new()),
            ("shorter".to_string(), gen_bits(rng, len / 2, shorter_style)),
            ("longer".to_string(), gen_bits(rng, 2 * len + 37, Style::Half)),
            ("all ones, word-aligned".to_string(), vec![true; round_up(len + 1, 64)]),
            ("all zeros, same length".to_string(), vec![false; len]),
            (if len % 64 == 0 { "one bit longer (not word-aligned)".to_string() } else { "rounded up to a word boundary".to_string() },
                gen_bits(rng, if len % 64 == 0 { len + 1 } else { round_up(len, 64) }, Style::Dense(4))),
        ];
        if len <= 600 {
            others.push(("two superblocks of ones".to_string(), vec![true; 4200]));
        }
        if len == 64 || len == 129 || len == 4096 {
            others.push(("sparse with a long superblock".to_string(), far.clone()));
        }
        if len >= 4096 && !thorough {
            others.truncate(4);
        }
        for (qdesc, qbits) in others.iter() {
            let seed = rng.next();
            out.stat("struct.objects");
            bt.run(out, K_OBJ, &format!("objects: parent(len={},style={:?}) with supports of {} (len={})", len, style, qdesc, qbits.len()), seed, |o| {
                let mut r = Rng::new(seed);
                obj_batch(o, &mut r, &pbits, qbits, qdesc);
            });
        }
    }
    {
        let qbits = gen_bits(rng, 300, Style::Half);
        let seed = rng.next();
        out.stat("struct.objects");
        bt.run(out, K_OBJ, "objects: sparse parent with a long superblock", seed, |o| {
            let mut r = Rng::new(seed);
            obj_batch(o, &mut r, &far, &qbits, "shorter");
        });
    }
    // ---- mask functions
    let seed = rng.next();
    bt.run(out, K_MASKS, "masks", seed, |o| masks_batch(o));
    // ---- histories of safe calls, then the conversions into a BitVector and its iterators
    let (rb, ib, per) = if thorough { (40, 80, 40) } else { (10, 20, 30) };
    for k in 0..rb {
        let seed = rng.next();
        out.stat("struct.raw_histories");
        bt.run(out, K_HISTR, &format!("RawVector histories, batch {}", k), seed, |o| {
            let mut r = Rng::new(seed);
            for _ in 0..per {
                raw_history(o, &mut r);
            }
        });
    }
    for k in 0..ib {
        let seed = rng.next();
        out.stat("struct.int_histories");
        bt.run(out, K_HISTI, &format!("IntVector histories, batch {}", k), seed, |o| {
            let mut r = Rng::new(seed);
            for _ in 0..per {
                int_history(o, &mut r);
            }
        });
    }
}
