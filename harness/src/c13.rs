// C13: memory-mapped views over real files made of concatenated serialized structures.
// Every view is created through the crate's MemoryMap / MemoryMapped API on a file written to disk;
// the observations (result of `new`, map_offset, map_len, content read through the view) are emitted
// as Coq terms of type `case` (coq/Check/C13.v).
use crate::common::*;
use simple_sds::int_vector::{IntVector, IntVectorMapper};
use simple_sds::ops::{Access, Push, Vector};
use simple_sds::raw_vector::{AccessRaw, PushRaw, RawVector, RawVectorMapper};
use simple_sds::serialize::{MappedBytes, MappedOption, MappedSlice, MappedStr, MappingMode, MemoryMap, MemoryMapped, Serialize};
use std::fmt::Write as FmtWrite;
use std::io::ErrorKind;
use std::path::PathBuf;

const DBG: bool = cfg!(debug_assertions);

// ---------------------------------------------------------------- types and values

#[derive(Clone, Copy, PartialEq, Eq, Debug)]
enum Ty {
    Vec,
    VecUsize, // MappedSlice<usize>: same layout and the same Coq type as Vec
    Pairs,
    Bytes,
    Str,
    Raw,
    Int,
    OptVec,
    OptStr,
    OptRaw,
    OptInt,
    OptOptVec,
}

const ALL_TYPES: [Ty; 12] = [Ty::Vec, Ty::VecUsize, Ty::Pairs, Ty::Bytes, Ty::Str, Ty::Raw, Ty::Int, Ty::OptVec, Ty::OptStr, Ty::OptRaw, Ty::OptInt, Ty::OptOptVec];

impl Ty {
    fn coq(&self) -> &'static str {
        match self {
            Ty::Vec | Ty::VecUsize => "TyVec",
            Ty::Pairs => "TyPairs",
            Ty::Bytes => "TyBytes",
            Ty::Str => "TyStr",
            Ty::Raw => "TyRaw",
            Ty::Int => "TyInt",
            Ty::OptVec => "(TyOpt TyVec)",
            Ty::OptStr => "(TyOpt TyStr)",
            Ty::OptRaw => "(TyOpt TyRaw)",
            Ty::OptInt => "(TyOpt TyInt)",
            Ty::OptOptVec => "(TyOpt (TyOpt TyVec))",
        }
    }
    fn name(&self) -> &'static str {
        match self {
            Ty::Vec => "vec",
            Ty::VecUsize => "vecusize",
            Ty::Pairs => "pairs",
            Ty::Bytes => "bytes",
            Ty::Str => "str",
            Ty::Raw => "raw",
            Ty::Int => "int",
            Ty::OptVec => "optvec",
            Ty::OptStr => "optstr",
            Ty::OptRaw => "optraw",
            Ty::OptInt => "optint",
            Ty::OptOptVec => "optoptvec",
        }
    }
}

enum Val {
    Vec(Vec<u64>),
    VecUsize(Vec<usize>),
    Pairs(Vec<(u64, u64)>),
    Bytes(Vec<u8>),
    Str(String),
    Raw(RawVector),
    Int(IntVector),
    OptVec(Option<Vec<u64>>),
    OptStr(Option<String>),
    OptRaw(Option<RawVector>),
    OptInt(Option<IntVector>),
    OptOptVec(Option<Option<Vec<u64>>>),
}

impl Val {
    fn ty(&self) -> Ty {
        match self {
            Val::Vec(_) => Ty::Vec,
            Val::VecUsize(_) => Ty::VecUsize,
            Val::Pairs(_) => Ty::Pairs,
            Val::Bytes(_) => Ty::Bytes,
            Val::Str(_) => Ty::Str,
            Val::Raw(_) => Ty::Raw,
            Val::Int(_) => Ty::Int,
            Val::OptVec(_) => Ty::OptVec,
            Val::OptStr(_) => Ty::OptStr,
            Val::OptRaw(_) => Ty::OptRaw,
            Val::OptInt(_) => Ty::OptInt,
            Val::OptOptVec(_) => Ty::OptOptVec,
        }
    }
    fn serialize(&self, w: &mut Vec<u8>) {
        let r = match self {
            Val::Vec(v) => v.serialize(w),
            Val::VecUsize(v) => v.serialize(w),
            Val::Pairs(v) => v.serialize(w),
            Val::Bytes(v) => v.serialize(w),
            Val::Str(v) => v.serialize(w),
            Val::Raw(v) => v.serialize(w),
            Val::Int(v) => v.serialize(w),
            Val::OptVec(v) => v.serialize(w),
            Val::OptStr(v) => v.serialize(w),
            Val::OptRaw(v) => v.serialize(w),
            Val::OptInt(v) => v.serialize(w),
            Val::OptOptVec(v) => v.serialize(w),
        };
        r.unwrap()
    }
    fn is_empty_structure(&self) -> bool {
        match self {
            Val::Vec(v) => v.is_empty(),
            Val::VecUsize(v) => v.is_empty(),
            Val::Pairs(v) => v.is_empty(),
            Val::Bytes(v) => v.is_empty(),
            Val::Str(v) => v.is_empty(),
            Val::Raw(v) => v.is_empty(),
            Val::Int(v) => v.is_empty(),
            Val::OptVec(v) => v.is_none(),
            Val::OptStr(v) => v.is_none(),
            Val::OptRaw(v) => v.is_none(),
            Val::OptInt(v) => v.is_none(),
            Val::OptOptVec(v) => v.is_none(),
        }
    }
}

// ---------------------------------------------------------------- observed content

#[derive(Clone, PartialEq, Debug)]
enum Content {
    Vec(Vec<u64>),
    Pairs(Vec<(u64, u64)>),
    Bytes(Vec<u8>),
    Str(Vec<u8>),
    Raw { len: usize, words: Vec<u64>, ones: usize, bits: Vec<bool>, ints: Vec<(usize, usize, u64)> },
    Int { len: usize, width: usize, items: Option<Vec<u64>> },
    Opt(Option<Box<Content>>),
    Skip,
}

fn bytes_list(xs: &[u8]) -> String {
    let v: Vec<u64> = xs.iter().map(|x| *x as u64).collect();
    nlist(&v)
}

impl Content {
    fn coq(&self) -> String {
        match self {
            Content::Vec(v) => format!("(OVec {})", nlist(v)),
            Content::Pairs(v) => {
                let mut s = String::from("(OPairs [");
                for (i, (a, b)) in v.iter().enumerate() {
                    if i > 0 {
                        s.push_str("; ");
                    }
                    let _ = write!(s, "({}, {})", a, b);
                }
                s.push_str("])");
                s
            }
            Content::Bytes(v) => format!("(OBytes {})", bytes_list(v)),
            Content::Str(v) => format!("(OStr {})", bytes_list(v)),
            Content::Raw { len, words, ones, bits, ints } => {
                let mut s = format!("(ORaw {} {} {} {} [", len, nlist(words), ones, blist(bits));
                for (i, (bo, w, v)) in ints.iter().enumerate() {
                    if i > 0 {
                        s.push_str("; ");
                    }
                    let _ = write!(s, "({}, {}, {})", bo, w, v);
                }
                s.push_str("])");
                s
            }
            Content::Int { len, width, items } => format!("(OInt {} {} {})", len, width, opt(items, |l| nlist(l))),
            Content::Opt(None) => "(OOpt None)".to_string(),
            Content::Opt(Some(c)) => format!("(OOpt (Some {}))", c.coq()),
            Content::Skip => "OSkip".to_string(),
        }
    }
}

// where int(bit_offset, width) is sampled, as a function of the number of readable bits only
fn int_samples(bits: usize) -> Vec<(usize, usize)> {
    let mut v = Vec::new();
    for w in [0usize, 1, 7, 13, 32, 33, 63, 64] {
        if w > bits {
            continue;
        }
        let last = bits - w;
        for bo in [0usize, 1, 57, 63, 64, 65, last / 2, last.saturating_sub(1), last] {
            if bo <= last && !v.contains(&(bo, w)) {
                v.push((bo, w));
            }
        }
    }
    v
}

fn raw_content<R: AccessRaw>(r: &R, len: usize, nwords: usize, ones: usize) -> Content {
    let words: Vec<u64> = (0..nwords).map(|i| r.word(i)).collect();
    let readable = std::cmp::min(len, nwords.saturating_mul(64));
    let bits: Vec<bool> = (0..readable).map(|i| r.bit(i)).collect();
    let ints: Vec<(usize, usize, u64)> = int_samples(readable).into_iter().map(|(bo, w)| (bo, w, unsafe { r.int(bo, w) })).collect();
    Content::Raw { len, words, ones, bits, ints }
}

fn int_items_readable(len: usize, width: usize, nwords: usize) -> bool {
    width >= 1 && width <= 64 && len <= 4096 && len.checked_mul(width).map_or(false, |b| b <= nwords.saturating_mul(64))
}

// a view type the harness knows how to observe
trait Obs<'a>: MemoryMapped<'a> {
    // the extent the view declares lies inside the mapping (always true when `new` computed without wrapping)
    fn backed(&self, maplen: usize) -> bool;
    fn content(&self) -> Content;
}

fn within(offset: usize, elems: Option<usize>, maplen: usize) -> bool {
    match elems.and_then(|e| e.checked_add(offset)).and_then(|e| e.checked_add(1)) {
        Some(end) => end <= maplen,
        None => false,
    }
}

impl<'a> Obs<'a> for MappedSlice<'a, u64> {
    fn backed(&self, maplen: usize) -> bool {
        within(self.map_offset(), Some(self.len()), maplen)
    }
    fn content(&self) -> Content {
        Content::Vec((0..self.len()).map(|i| self[i]).collect())
    }
}
impl<'a> Obs<'a> for MappedSlice<'a, usize> {
    fn backed(&self, maplen: usize) -> bool {
        within(self.map_offset(), Some(self.len()), maplen)
    }
    fn content(&self) -> Content {
        Content::Vec((0..self.len()).map(|i| self[i] as u64).collect())
    }
}
impl<'a> Obs<'a> for MappedSlice<'a, (u64, u64)> {
    fn backed(&self, maplen: usize) -> bool {
        within(self.map_offset(), self.len().checked_mul(2), maplen)
    }
    fn content(&self) -> Content {
        Content::Pairs((0..self.len()).map(|i| self[i]).collect())
    }
}
impl<'a> Obs<'a> for MappedBytes<'a> {
    fn backed(&self, maplen: usize) -> bool {
        within(self.map_offset(), self.len().checked_add(7).map(|x| x / 8), maplen)
    }
    fn content(&self) -> Content {
        Content::Bytes((0..self.len()).map(|i| self[i]).collect())
    }
}
impl<'a> Obs<'a> for MappedStr<'a> {
    fn backed(&self, maplen: usize) -> bool {
        within(self.map_offset(), self.len().checked_add(7).map(|x| x / 8), maplen)
    }
    fn content(&self) -> Content {
        let s: &str = self.as_ref();
        Content::Str(s.as_bytes().to_vec())
    }
}
impl<'a> Obs<'a> for RawVectorMapper<'a> {
    fn backed(&self, maplen: usize) -> bool {
        let data: &MappedSlice<'a, u64> = self.as_ref();
        data.backed(maplen)
    }
    fn content(&self) -> Content {
        let data: &MappedSlice<'a, u64> = self.as_ref();
        raw_content(self, self.len(), data.len(), self.count_ones())
    }
}
impl<'a> Obs<'a> for IntVectorMapper<'a> {
    fn backed(&self, maplen: usize) -> bool {
        let raw: &RawVectorMapper<'a> = self.as_ref();
        raw.backed(maplen)
    }
    fn content(&self) -> Content {
        let raw: &RawVectorMapper<'a> = self.as_ref();
        let data: &MappedSlice<'a, u64> = raw.as_ref();
        let (len, width) = (self.len(), self.width());
        let items = if int_items_readable(len, width, data.len()) { Some((0..len).map(|i| self.get(i)).collect()) } else { None };
        Content::Int { len, width, items }
    }
}
impl<'a, T: Obs<'a>> Obs<'a> for MappedOption<'a, T> {
    fn backed(&self, maplen: usize) -> bool {
        match self.as_ref() {
            Some(v) => v.backed(maplen),
            None => true,
        }
    }
    fn content(&self) -> Content {
        match self.as_ref() {
            Some(v) => Content::Opt(Some(Box::new(v.content()))),
            None => Content::Opt(None),
        }
    }
}

#[derive(Clone, PartialEq, Debug)]
enum Outcome {
    Ok(Res<usize>, Res<usize>, Content),
    Err(u64),
    Panic(u64),
}

fn kind_code(k: ErrorKind) -> u64 {
    match k {
        ErrorKind::UnexpectedEof => 1,
        ErrorKind::InvalidData => 2,
        _ => 0,
    }
}

impl Outcome {
    fn coq(&self) -> String {
        match self {
            Outcome::Ok(mo, ml, c) => format!("(OOk {} {} {})", ires(mo, |x| nu(*x)), ires(ml, |x| nu(*x)), c.coq()),
            Outcome::Err(k) => format!("(OErr {})", k),
            Outcome::Panic(k) => format!("(OPanic {})", k),
        }
    }
    fn class(&self) -> &'static str {
        match self {
            Outcome::Ok(_, _, Content::Skip) => "ok_unbacked",
            Outcome::Ok(_, _, _) => "ok",
            Outcome::Err(1) => "err_eof",
            Outcome::Err(2) => "err_invalid",
            Outcome::Err(_) => "err_other",
            Outcome::Panic(_) => "panic",
        }
    }
}

fn observe<'a, T: Obs<'a>>(map: &'a MemoryMap, offset: usize) -> Outcome {
    match catch(|| T::new(map, offset)) {
        Res::Panic(k, _) => Outcome::Panic(k),
        Res::Ok(Err(e)) => Outcome::Err(kind_code(e.kind())),
        Res::Ok(Ok(v)) => {
            let mo = catch(|| v.map_offset());
            let ml = catch(|| v.map_len());
            let c = if v.backed(map.len()) {
                match catch(|| v.content()) {
                    Res::Ok(c) => c,
                    Res::Panic(k, _) => return Outcome::Panic(100 + k), // reading a backed view must not panic
                }
            } else {
                Content::Skip
            };
            Outcome::Ok(mo, ml, c)
        }
    }
}

fn observe_ty(map: &MemoryMap, ty: Ty, offset: usize) -> Outcome {
    match ty {
        Ty::Vec => observe::<MappedSlice<u64>>(map, offset),
        Ty::VecUsize => observe::<MappedSlice<usize>>(map, offset),
        Ty::Pairs => observe::<MappedSlice<(u64, u64)>>(map, offset),
        Ty::Bytes => observe::<MappedBytes>(map, offset),
        Ty::Str => observe::<MappedStr>(map, offset),
        Ty::Raw => observe::<RawVectorMapper>(map, offset),
        Ty::Int => observe::<IntVectorMapper>(map, offset),
        Ty::OptVec => observe::<MappedOption<MappedSlice<u64>>>(map, offset),
        Ty::OptStr => observe::<MappedOption<MappedStr>>(map, offset),
        Ty::OptRaw => observe::<MappedOption<RawVectorMapper>>(map, offset),
        Ty::OptInt => observe::<MappedOption<IntVectorMapper>>(map, offset),
        Ty::OptOptVec => observe::<MappedOption<MappedOption<MappedSlice<u64>>>>(map, offset),
    }
}

// ---------------------------------------------------------------- what Serialize::load gives at the same place

fn vec_content(v: &Vec<u64>) -> Content {
    Content::Vec(v.clone())
}
fn str_content(s: &String) -> Content {
    Content::Str(s.as_bytes().to_vec())
}
fn rawvec_content(r: &RawVector) -> Content {
    let nwords = { let s: &[u64] = r.as_ref(); s.len() };
    raw_content(r, r.len(), nwords, r.count_ones())
}
fn intvec_content(v: &IntVector) -> Content {
    Content::Int { len: v.len(), width: v.width(), items: Some((0..v.len()).map(|i| v.get(i)).collect()) }
}
fn opt_content<T, F: Fn(&T) -> Content>(o: &Option<T>, f: F) -> Content {
    Content::Opt(o.as_ref().map(|x| Box::new(f(x))))
}

fn load_content(ty: Ty, bytes: &[u8]) -> Result<Content, u64> {
    let mut r: &[u8] = bytes;
    let e = |e: std::io::Error| kind_code(e.kind());
    Ok(match ty {
        Ty::Vec => vec_content(&Vec::<u64>::load(&mut r).map_err(e)?),
        Ty::VecUsize => Content::Vec(Vec::<usize>::load(&mut r).map_err(e)?.iter().map(|x| *x as u64).collect()),
        Ty::Pairs => Content::Pairs(Vec::<(u64, u64)>::load(&mut r).map_err(e)?),
        Ty::Bytes => Content::Bytes(Vec::<u8>::load(&mut r).map_err(e)?),
        Ty::Str => str_content(&String::load(&mut r).map_err(e)?),
        Ty::Raw => rawvec_content(&RawVector::load(&mut r).map_err(e)?),
        Ty::Int => intvec_content(&IntVector::load(&mut r).map_err(e)?),
        Ty::OptVec => opt_content(&Option::<Vec<u64>>::load(&mut r).map_err(e)?, vec_content),
        Ty::OptStr => opt_content(&Option::<String>::load(&mut r).map_err(e)?, str_content),
        Ty::OptRaw => opt_content(&Option::<RawVector>::load(&mut r).map_err(e)?, rawvec_content),
        Ty::OptInt => opt_content(&Option::<IntVector>::load(&mut r).map_err(e)?, intvec_content),
        Ty::OptOptVec => opt_content(&Option::<Option<Vec<u64>>>::load(&mut r).map_err(e)?, |o| opt_content(o, vec_content)),
    })
}

// 1 = the view exposes what load returns (or both refuse with the same kind), 2 = they differ
fn load_compare(ty: Ty, bytes: &[u8], offset: usize, out: &Outcome) -> u64 {
    let from = std::cmp::min(offset.saturating_mul(8), bytes.len());
    let loaded = load_content(ty, &bytes[from..]);
    let same = match (out, &loaded) {
        (Outcome::Ok(_, _, c), Ok(l)) => c == l,
        (Outcome::Err(k), Err(l)) => k == l,
        _ => false,
    };
    if same { 1 } else { 2 }
}

// ---------------------------------------------------------------- generators

fn gen_len(rng: &mut Rng) -> usize {
    match rng.below(10) {
        0 | 1 => 0,
        2 => 1,
        3 => 2,
        _ => rng.range(1, 6) as usize,
    }
}

fn gen_string(rng: &mut Rng) -> String {
    let n = gen_len(rng) * 2;
    let mut s = String::new();
    for _ in 0..n {
        let c = match rng.below(8) {
            0 => char::from_u32(rng.range(0x80, 0x7FF) as u32),
            1 => char::from_u32(rng.range(0x800, 0xD7FF) as u32),
            2 => char::from_u32(rng.range(0xE000, 0xFFFF) as u32),
            3 => char::from_u32(rng.range(0x10000, 0x10FFFF) as u32),
            4 => Some(*rng.pick(&['\u{7F}', '\u{80}', '\u{7FF}', '\u{800}', '\u{FFFF}', '\u{10000}', '\u{10FFFF}', '\u{D7FF}', '\u{E000}', '\0'])),
            _ => char::from_u32(rng.range(0x20, 0x7E) as u32),
        };
        s.push(c.unwrap_or('?'));
    }
    // NUL characters are ordinary content: leading, trailing (up to more than a word of them), nothing else
    match rng.below(12) {
        0 | 1 => {
            for _ in 0..rng.range(1, 10) {
                s.push('\0');
            }
        }
        2 => s.insert(0, '\0'),
        3 => s = "\0".repeat(rng.range(1, 17) as usize),
        _ => {}
    }
    s
}

fn gen_bytes(rng: &mut Rng) -> Vec<u8> {
    match rng.below(5) {
        // valid UTF-8 (so that viewing the bytes as a string succeeds)
        0 | 1 => gen_string(rng).into_bytes(),
        // a valid string damaged at one place: overlong forms, surrogates, stray continuation bytes, cut sequences
        2 => {
            let mut b = gen_string(rng).into_bytes();
            let bad: &[&[u8]] = &[&[0xC0, 0x80], &[0xC1, 0xBF], &[0xE0, 0x9F, 0xBF], &[0xED, 0xA0, 0x80], &[0xED, 0xBF, 0xBF], &[0xF0, 0x8F, 0xBF, 0xBF],
                &[0xF4, 0x90, 0x80, 0x80], &[0xF5, 0x80, 0x80, 0x80], &[0x80], &[0xBF], &[0xC2], &[0xE1, 0x80], &[0xF1, 0x80, 0x80], &[0xFF], &[0xF8, 0x88, 0x80, 0x80, 0x80],
                &[0xC2, 0x41], &[0xE1, 0x80, 0x41], &[0xF4, 0x8F, 0xBF, 0xBF], &[0xEF, 0xBF, 0xBF], &[0xE0, 0xA0, 0x80], &[0xF0, 0x90, 0x80, 0x80]];
            let ins = *rng.pick(bad);
            let at = rng.below(b.len() as u64 + 1) as usize;
            for (i, x) in ins.iter().enumerate() {
                b.insert(at + i, *x);
            }
            b
        }
        _ => {
            let n = match rng.below(6) { 0 => 0, 1 => 7, 2 => 8, 3 => 9, 4 => 16, _ => rng.range(1, 30) as usize };
            (0..n).map(|_| rng.next() as u8).collect()
        }
    }
}

fn gen_raw(rng: &mut Rng) -> RawVector {
    let len = match rng.below(8) {
        0 => 0,
        1 => 64,
        2 => 63,
        3 => 65,
        4 => 128,
        _ => rng.range(1, 200) as usize,
    };
    let mut r = RawVector::new();
    let style = rng.below(4);
    for _ in 0..len {
        let bit = match style {
            0 => rng.next() & 1 == 1,
            1 => rng.below(8) == 0,
            2 => rng.below(8) != 0,
            _ => true,
        };
        r.push_bit(bit);
    }
    r
}

fn gen_int(rng: &mut Rng) -> IntVector {
    let width = match rng.below(8) {
        0 => 1,
        1 => 64,
        2 => 63,
        3 => 32,
        4 => 33,
        _ => rng.range(1, 64) as usize,
    };
    let len = match rng.below(6) { 0 => 0, 1 => 1, _ => rng.range(1, 12) as usize };
    let mut v = IntVector::new(width).unwrap();
    let mask = if width == 64 { !0u64 } else { (1u64 << width) - 1 };
    for _ in 0..len {
        v.push(rng.word() & mask);
    }
    v
}

fn gen_vec(rng: &mut Rng) -> Vec<u64> {
    let n = gen_len(rng);
    (0..n).map(|_| match rng.below(4) { 0 => rng.below(8), 1 => !0u64 - rng.below(3), _ => rng.word() }).collect()
}

fn gen_val(rng: &mut Rng, empty: bool) -> Val {
    let kind = rng.below(12);
    if empty {
        return match kind {
            0 => Val::Vec(Vec::new()),
            1 => Val::VecUsize(Vec::new()),
            2 => Val::Pairs(Vec::new()),
            3 => Val::Bytes(Vec::new()),
            4 => Val::Str(String::new()),
            5 => Val::Raw(RawVector::new()),
            6 => Val::Int(IntVector::new(rng.range(1, 64) as usize).unwrap()),
            7 => Val::OptVec(None),
            8 => Val::OptStr(None),
            9 => Val::OptRaw(None),
            10 => Val::OptInt(None),
            _ => Val::OptOptVec(None),
        };
    }
    match kind {
        0 => Val::Vec(gen_vec(rng)),
        1 => Val::VecUsize(gen_vec(rng).into_iter().map(|x| x as usize).collect()),
        2 => {
            let n = gen_len(rng);
            Val::Pairs((0..n).map(|_| (rng.word(), rng.below(100))).collect())
        }
        3 => Val::Bytes(gen_bytes(rng)),
        4 => Val::Str(gen_string(rng)),
        5 => Val::Raw(gen_raw(rng)),
        6 => Val::Int(gen_int(rng)),
        7 => Val::OptVec(if rng.chance(1, 3) { None } else { Some(gen_vec(rng)) }),
        8 => Val::OptStr(if rng.chance(1, 3) { None } else { Some(gen_string(rng)) }),
        9 => Val::OptRaw(if rng.chance(1, 3) { None } else { Some(gen_raw(rng)) }),
        10 => Val::OptInt(if rng.chance(1, 3) { None } else { Some(gen_int(rng)) }),
        _ => Val::OptOptVec(match rng.below(3) { 0 => None, 1 => Some(None), _ => Some(Some(gen_vec(rng))) }),
    }
}

// ---------------------------------------------------------------- files

struct Files {
    dir: PathBuf,
    counter: usize,
}

impl Files {
    fn new() -> Files {
        let dir = match std::env::var("VERIF_RUNDIR") {
            Ok(d) if !d.is_empty() => PathBuf::from(d),
            _ => std::env::temp_dir(),
        };
        let _ = std::fs::create_dir_all(&dir);
        Files { dir, counter: 0 }
    }
    // writes the bytes to a fresh file, maps it, runs f on the result of MemoryMap::new, removes the file
    fn with_map<R, F: FnOnce(std::io::Result<MemoryMap>) -> R>(&mut self, bytes: &[u8], f: F) -> R {
        self.counter += 1;
        let path = self.dir.join(format!("c13-{}-{}.bin", std::process::id(), self.counter));
        std::fs::write(&path, bytes).unwrap();
        let r = f(MemoryMap::new(&path, MappingMode::ReadOnly));
        let _ = std::fs::remove_file(&path);
        r
    }
}

fn elements(bytes: &[u8]) -> Vec<u64> {
    bytes.chunks(8).map(|c| { let mut a = [0u8; 8]; a[..c.len()].copy_from_slice(c); u64::from_le_bytes(a) }).collect()
}

struct ViewReq {
    ty: Ty,
    offset: usize,
    compare_load: bool,
}

fn emit_views(out: &mut Out, kind: &str, map: &MemoryMap, bytes: &[u8], reqs: &[ViewReq], nontrivial: bool) {
    let file = elements(bytes);
    let mut terms = String::from("[");
    let mut js = String::from("[");
    let mut first = true;
    for req in reqs {
        let o = observe_ty(map, req.ty, req.offset);
        let lc = if req.compare_load { load_compare(req.ty, bytes, req.offset, &o) } else { 0 };
        out.stat(&format!("view.{}.{}", kind, o.class()));
        out.stat(&format!("type.{}", req.ty.name()));
        if lc == 2 {
            out.stat("load.differs");
        } else if lc == 1 {
            out.stat("load.agrees");
        }
        if !first {
            terms.push_str("; ");
            js.push(',');
        }
        first = false;
        let _ = write!(terms, "({}, {}, {}, {})", req.ty.coq(), req.offset, lc, o.coq());
        let _ = write!(js, "{{\"ty\":\"{}\",\"offset\":{},\"load\":{},\"out\":{:?}}}", req.ty.name(), req.offset, lc, o.coq());
    }
    terms.push(']');
    js.push(']');
    out.case(kind, format!("CViews {} {} {}", b(DBG), nlist(&file), terms), format!("{{\"file\":{:?},\"views\":{}}}", file, js), nontrivial);
}

fn extreme_offsets(len: usize) -> Vec<usize> {
    vec![len, len + 1, len + 2, 1usize << 63, usize::MAX - 1, usize::MAX]
}

// ---------------------------------------------------------------- the run

pub fn run(rng: &mut Rng, out: &mut Out, thorough: bool) {
    let mut files = Files::new();
    // VERIF_PART=trunc: only the truncation family (borrowed by C14's check: "a mapped view of a structure that the
    // truncation cuts short is refused")
    let only_trunc = std::env::var("VERIF_PART").map(|v| v == "trunc").unwrap_or(false);
    let nfiles = if only_trunc { if thorough { 400 } else { 80 } } else if thorough { 1000 } else { 150 };
    for fi in 0..nfiles {
        // 1-5 structures; an empty structure is forced at the end of every third file
        let n = rng.range(1, 5) as usize;
        let mut vals: Vec<Val> = Vec::new();
        for k in 0..n {
            let empty = (k == n - 1 && fi % 3 == 0) || rng.chance(1, 8);
            vals.push(gen_val(rng, empty));
        }
        // optional padding elements before the first structure (the tests of the crate use one at most)
        let pad = match rng.below(4) { 0 => rng.range(1, 3) as usize, _ => 0 };
        let mut bytes: Vec<u8> = Vec::new();
        for _ in 0..pad {
            bytes.extend_from_slice(&rng.word().to_le_bytes());
        }
        let mut starts: Vec<usize> = Vec::new();
        for v in vals.iter() {
            starts.push(bytes.len() / 8);
            v.serialize(&mut bytes);
        }
        let total = bytes.len() / 8;
        out.stat(&format!("file.structures.{}", n));
        if vals[n - 1].is_empty_structure() {
            out.stat("file.empty_structure_last");
        }
        if pad > 0 {
            out.stat("file.padded");
        }

        // every structure start with its own view type (+ the other reading of byte strings)
        let mut reqs: Vec<ViewReq> = Vec::new();
        for (k, v) in vals.iter().enumerate() {
            reqs.push(ViewReq { ty: v.ty(), offset: starts[k], compare_load: true });
            match v.ty() {
                Ty::Bytes => reqs.push(ViewReq { ty: Ty::Str, offset: starts[k], compare_load: true }),
                Ty::Str => reqs.push(ViewReq { ty: Ty::Bytes, offset: starts[k], compare_load: true }),
                Ty::Vec => reqs.push(ViewReq { ty: Ty::VecUsize, offset: starts[k], compare_load: true }),
                _ => {}
            }
        }
        if !only_trunc { files.with_map(&bytes, |m| {
            let refused = m.is_err();
            out.case("map", format!("CMap {} {}", nlist(&elements(&bytes)), b(refused)), format!("{{\"elements\":{},\"refused\":{}}}", total, refused), false);
            if let Ok(map) = m {
                emit_views(out, "start", &map, &bytes, &reqs, true);
                // offsets at and beyond the end, for every view type
                let mut ex: Vec<ViewReq> = Vec::new();
                for ty in ALL_TYPES.iter() {
                    for off in extreme_offsets(total) {
                        ex.push(ViewReq { ty: *ty, offset: off, compare_load: false });
                    }
                }
                emit_views(out, "beyond", &map, &bytes, &ex, true);
                // offsets that are not the start of a structure of that type: the model must still predict the crate
                let mut inner: Vec<ViewReq> = Vec::new();
                for _ in 0..8 {
                    let off = rng.below(total as u64) as usize;
                    let ty = *rng.pick(&ALL_TYPES);
                    if starts.iter().zip(vals.iter()).any(|(s, v)| *s == off && v.ty() == ty) {
                        continue;
                    }
                    inner.push(ViewReq { ty, offset: off, compare_load: false });
                }
                emit_views(out, "inner", &map, &bytes, &inner, true);
            }
        }); }

        // every element-granular truncation
        for cut in 0..total {
            let tb = &bytes[..cut * 8];
            let treqs: Vec<ViewReq> = vals.iter().enumerate().map(|(k, v)| ViewReq { ty: v.ty(), offset: starts[k], compare_load: true }).collect();
            for (k, _) in vals.iter().enumerate() {
                let end = if k + 1 < n { starts[k + 1] } else { total };
                out.stat(if end <= cut { "trunc.structure_before_cut" } else if starts[k] >= cut { "trunc.structure_after_cut" } else { "trunc.structure_cut_inside" });
            }
            // the same cut moved 1..7 bytes into the element: the file size is no multiple of 8 and the map is refused
            if cut > 0 && rng.chance(1, 4) {
                let k = 1 + rng.below(7) as usize;
                let tb2 = &bytes[..cut * 8 - k];
                let refused = files.with_map(tb2, |m| m.is_err());
                out.stat("trunc.inside_an_element");
                out.case("map", format!("CMapBytes {} {} {}", b(cfg!(debug_assertions)), tb2.len(), b(refused)), format!("{{\"bytes\":{},\"refused\":{}}}", tb2.len(), refused), true);
            }
            files.with_map(tb, |m| match m {
                Err(_) => {
                    out.stat("trunc.map_refused");
                    out.case("map", format!("CMap {} true", nlist(&elements(tb))), format!("{{\"elements\":{},\"refused\":true}}", cut), cut == 0);
                }
                Ok(map) => emit_views(out, "trunc", &map, tb, &treqs, true),
            });
        }
    }

    // ---- files no serializer writes: length elements around every bound, viewed at offsets 0..2.
    // Every declared length that does not fit must be refused with Err in every build (finding F12, repaired).
    let nbad = if only_trunc { 0 } else if thorough { 600 } else { 80 };
    for _ in 0..nbad {
        let body = rng.range(0, 6) as usize;
        let total = body + 2;
        let lens: Vec<u64> = vec![0, 1, body as u64, body as u64 + 1, body as u64 + 2, 2 * body as u64, (body as u64) * 8, (body as u64) * 8 + 1, (body as u64 + 1) * 8 + 1,
            (1 << 61) - 1, 1 << 61, 1 << 63, (1 << 63) + 1, !0u64 - 8, !0u64 - 7, !0u64 - 2, !0u64 - 1, !0u64, !0u64 - total as u64, !0u64 - total as u64 + 1, (!0u64 / 2) + 1 - (total as u64) / 2];
        let mut file: Vec<u64> = vec![*rng.pick(&lens), *rng.pick(&lens)];
        for _ in 0..body {
            file.push(if rng.chance(1, 3) { *rng.pick(&lens) } else { rng.word() });
        }
        let mut bytes: Vec<u8> = Vec::new();
        for x in file.iter() {
            bytes.extend_from_slice(&x.to_le_bytes());
        }
        let mut reqs: Vec<ViewReq> = Vec::new();
        for ty in ALL_TYPES.iter() {
            for off in 0..std::cmp::min(3, total) {
                reqs.push(ViewReq { ty: *ty, offset: off, compare_load: false });
            }
        }
        files.with_map(&bytes, |m| {
            if let Ok(map) = m {
                emit_views(out, "malformed", &map, &bytes, &reqs, true);
            }
        });
    }
}
