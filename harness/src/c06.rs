// serves: C06 C14 C19
// C06 / C14 / C19: the serialization layer (trait Serialize, its blanket impls, the impls of the raw / integer /
// plain bit vectors and their support structures, the run-length vector, the wavelet matrix and its core,
// skip_option / absent_option).
// Values are described to Coq by RECIPES (the generated data), never by their serialized form; the Coq side builds
// the model value from the recipe and compares the bytes, sizes, consumed byte counts and outcomes.
use crate::bvgen::*;
use crate::common::*;
use simple_sds::bit_vector::rank_support::RankSupport;
use simple_sds::bit_vector::select_support::SelectSupport;
use simple_sds::bit_vector::{BitVector, Complement, Identity};
use simple_sds::int_vector::{IntVector, IntVectorWriter};
use simple_sds::ops::*;
use simple_sds::raw_vector::{AccessRaw, PushRaw, RawVector, RawVectorWriter};
use simple_sds::rl_vector::{RLBuilder, RLVector};
use simple_sds::serialize::{self, Serialize};
use simple_sds::sparse_vector::{SparseBuilder, SparseVector};
use std::convert::TryFrom;
use simple_sds::wavelet_matrix::wm_core::WMCore;
use simple_sds::wavelet_matrix::WaveletMatrix;
use std::fmt::Write as FmtWrite;
use std::io::{self, ErrorKind, Read, Write};

const DBG: bool = cfg!(debug_assertions);
const PATH: u64 = if cfg!(all(target_arch = "x86_64", target_feature = "bmi2")) { 0 } else { 1 };

// ---------------------------------------------------------------- readers and sinks

// a reader over a byte slice that counts what it hands out; `chunk` > 0 limits every read() call (short reads)
pub struct CountingReader<'a> {
    data: &'a [u8],
    pub pos: usize,
    chunk: usize,
}

impl<'a> CountingReader<'a> {
    pub fn new(data: &'a [u8], chunk: usize) -> Self {
        CountingReader { data, pos: 0, chunk }
    }
}

impl<'a> Read for CountingReader<'a> {
    fn read(&mut self, buf: &mut [u8]) -> io::Result<usize> {
        let mut n = std::cmp::min(buf.len(), self.data.len() - self.pos);
        if self.chunk > 0 {
            n = std::cmp::min(n, self.chunk);
        }
        buf[..n].copy_from_slice(&self.data[self.pos..self.pos + n]);
        self.pos += n;
        Ok(n)
    }
}

// a sink that accepts `room` bytes (possibly in pieces) and then fails every write with its own error
struct BudgetSink {
    room: usize,
    out: Vec<u8>,
}

impl Write for BudgetSink {
    fn write(&mut self, buf: &[u8]) -> io::Result<usize> {
        if buf.is_empty() {
            return Ok(0);
        }
        if self.room == 0 {
            return Err(io::Error::new(ErrorKind::Other, "budget exhausted"));
        }
        let n = std::cmp::min(self.room, buf.len());
        self.out.extend_from_slice(&buf[..n]);
        self.room -= n;
        Ok(n)
    }
    fn flush(&mut self) -> io::Result<()> {
        Ok(())
    }
}

// outcome codes shared with coq/Check/SerCommon.v
fn err_code(e: &io::Error) -> u64 {
    match e.kind() {
        ErrorKind::UnexpectedEof => 1,
        ErrorKind::InvalidData => 2,
        ErrorKind::WriteZero => 4,
        _ => 3,
    }
}

fn outcome<T>(r: &Res<io::Result<T>>) -> u64 {
    match r {
        Res::Ok(Ok(_)) => 0,
        Res::Ok(Err(e)) => err_code(e),
        Res::Panic(k, _) => 10 + k,
    }
}

fn to_elems(bytes: &[u8]) -> (Vec<u64>, Vec<u8>) {
    let whole = bytes.len() / 8 * 8;
    let elems = bytes[..whole].chunks(8).map(|c| u64::from_le_bytes([c[0], c[1], c[2], c[3], c[4], c[5], c[6], c[7]])).collect();
    (elems, bytes[whole..].to_vec())
}

fn from_elems(elems: &[u64]) -> Vec<u8> {
    let mut v = Vec::with_capacity(elems.len() * 8);
    for e in elems {
        v.extend_from_slice(&e.to_le_bytes());
    }
    v
}

fn blist8(xs: &[u8]) -> String {
    let v: Vec<u64> = xs.iter().map(|x| *x as u64).collect();
    nlist(&v)
}

fn rle(xs: &[u64]) -> String {
    let mut s = String::from("[");
    let mut i = 0;
    let mut first = true;
    while i < xs.len() {
        let mut j = i;
        while j < xs.len() && xs[j] == xs[i] {
            j += 1;
        }
        if !first {
            s.push_str("; ");
        }
        first = false;
        let _ = write!(s, "({}, {})", xs[i], j - i);
        i = j;
    }
    s.push(']');
    s
}

// ---------------------------------------------------------------- items

pub trait Item {
    fn ty(&self) -> String;
    fn recipe(&self) -> String;
    fn ser(&self, w: &mut dyn Write) -> io::Result<()>;
    fn size_el(&self) -> usize;
    fn size_by(&self) -> usize;
    // load a value of this item's type; Ok((loaded == original, sampled answers agree))
    fn load_cmp(&self, r: &mut dyn Read) -> io::Result<(bool, bool)>;
    fn sbp(&self) -> Option<usize>;
    fn is_option(&self) -> bool;
    // serialize_to a file, compare the file with `bytes`, load_from it again and compare with the original
    fn file_roundtrip(&self, path: &std::path::Path, bytes: &[u8]) -> bool;
    // the file-based entry points on their own (C14: a file that cannot take everything)
    fn ser_to(&self, path: &std::path::Path) -> io::Result<()>;
    fn load_from_cmp(&self, path: &std::path::Path) -> io::Result<(bool, bool)>;
}

pub struct G<T> {
    v: T,
    ty: String,
    recipe: String,
    sbp: Option<usize>,
    is_opt: bool,
    answers: Box<dyn Fn(&T, &T) -> bool>,
}

impl<T: Serialize + PartialEq> Item for G<T> {
    fn ty(&self) -> String {
        self.ty.clone()
    }
    fn recipe(&self) -> String {
        self.recipe.clone()
    }
    fn ser(&self, w: &mut dyn Write) -> io::Result<()> {
        let mut w = w;
        self.v.serialize(&mut w)
    }
    fn size_el(&self) -> usize {
        self.v.size_in_elements()
    }
    fn size_by(&self) -> usize {
        self.v.size_in_bytes()
    }
    fn load_cmp(&self, r: &mut dyn Read) -> io::Result<(bool, bool)> {
        let mut r = r;
        let x = T::load(&mut r)?;
        Ok((x == self.v, (self.answers)(&x, &self.v)))
    }
    fn sbp(&self) -> Option<usize> {
        self.sbp
    }
    fn is_option(&self) -> bool {
        self.is_opt
    }
    fn file_roundtrip(&self, path: &std::path::Path, bytes: &[u8]) -> bool {
        let mut ok = serialize::serialize_to(&self.v, path).is_ok();
        ok &= match std::fs::read(path) {
            Ok(content) => content[..] == bytes[..],
            Err(_) => false,
        };
        ok &= match serialize::load_from::<T, _>(path) {
            Ok(x) => x == self.v,
            Err(_) => false,
        };
        let _ = std::fs::remove_file(path);
        ok
    }
    fn ser_to(&self, path: &std::path::Path) -> io::Result<()> {
        serialize::serialize_to(&self.v, path)
    }
    fn load_from_cmp(&self, path: &std::path::Path) -> io::Result<(bool, bool)> {
        let x = serialize::load_from::<T, _>(path)?;
        Ok((x == self.v, (self.answers)(&x, &self.v)))
    }
}

fn plain<T: 'static>(v: T, ty: &str, recipe: String) -> G<T> {
    G { v, ty: ty.to_string(), recipe, sbp: None, is_opt: false, answers: Box::new(|_, _| true) }
}

fn some<T: 'static>(g: G<T>) -> G<Option<T>> {
    let inner = g.answers;
    G {
        v: Some(g.v),
        ty: format!("(TOpt {})", g.ty),
        recipe: format!("(ROpt (Some {}))", g.recipe),
        sbp: None,
        is_opt: true,
        answers: Box::new(move |a, b| match (a, b) {
            (Some(x), Some(y)) => inner(x, y),
            _ => false,
        }),
    }
}

fn none<T: 'static>(inner_ty: &str) -> G<Option<T>> {
    G {
        v: None,
        ty: format!("(TOpt {})", inner_ty),
        recipe: "(ROpt None)".to_string(),
        sbp: None,
        is_opt: true,
        answers: Box::new(|a: &Option<T>, b: &Option<T>| a.is_none() && b.is_none()),
    }
}

fn interesting(rng: &mut Rng) -> u64 {
    match rng.below(8) {
        0 => *rng.pick(&[0u64, 1, 255, 256, 65535, 1 << 32, 1 << 63, u64::MAX, u64::MAX - 1]),
        1 => rng.below(1000),
        _ => rng.word(),
    }
}

fn g_u64(rng: &mut Rng) -> G<u64> {
    let x = interesting(rng);
    plain(x, "TU64", format!("(RN {})", x))
}

fn g_usize(rng: &mut Rng) -> G<usize> {
    let x = interesting(rng) as usize;
    plain(x, "TUsize", format!("(RN {})", x))
}

fn g_pair(rng: &mut Rng) -> G<(u64, u64)> {
    let a = interesting(rng);
    let b = interesting(rng);
    plain((a, b), "TPair", format!("(RP {} {})", a, b))
}

fn g_vec_u64(rng: &mut Rng, len: usize) -> G<Vec<u64>> {
    let v: Vec<u64> = (0..len).map(|_| interesting(rng)).collect();
    let r = format!("(RLN {})", nlist(&v));
    plain(v, "TVecU64", r)
}

fn g_vec_pair(rng: &mut Rng, len: usize) -> G<Vec<(u64, u64)>> {
    let v: Vec<(u64, u64)> = (0..len).map(|_| (interesting(rng), interesting(rng))).collect();
    let mut s = String::from("(RLP [");
    for (i, (a, b)) in v.iter().enumerate() {
        if i > 0 {
            s.push_str("; ");
        }
        let _ = write!(s, "({}, {})", a, b);
    }
    s.push_str("])");
    plain(v, "TVecPair", s)
}

fn g_bytes(rng: &mut Rng, len: usize) -> G<Vec<u8>> {
    let v: Vec<u8> = (0..len).map(|_| if rng.below(4) == 0 { *rng.pick(&[0u8, 1, 127, 128, 255]) } else { rng.below(256) as u8 }).collect();
    let r = format!("(RBy {})", blist8(&v));
    plain(v, "TBytes", r)
}

const CODEPOINTS: [u32; 22] = [0x0, 0x41, 0x7F, 0x80, 0xE9, 0x7FF, 0x800, 0x20AC, 0xD7FF, 0xE000, 0xFFFD, 0xFFFF, 0x10000, 0x1F600, 0x10FFFF,
    0x61, 0x20, 0xDF, 0xD55C, 0x3042, 0xFFFE, 0x2FFFF];

fn g_string(rng: &mut Rng, nchars: usize) -> G<String> {
    let mut s = String::new();
    for _ in 0..nchars {
        let c = if rng.below(3) == 0 {
            (0x20 + rng.below(0x5F)) as u32
        } else {
            *rng.pick(&CODEPOINTS)
        };
        s.push(std::char::from_u32(c).unwrap());
    }
    // NUL characters are ordinary content (the body is zero-padded: they must not be mistaken for padding)
    match rng.below(10) {
        0 => {
            for _ in 0..(1 + rng.below(9)) {
                s.push('\0');
            }
        }
        1 => s.insert(0, '\0'),
        _ => {}
    }
    let r = format!("(RBy {})", blist8(s.as_bytes()));
    plain(s, "TString", r)
}

fn raw_from_bits(bits: &[bool]) -> (RawVector, Vec<u64>) {
    let words = to_words(bits);
    let mut raw = RawVector::with_capacity(bits.len());
    let mut left = bits.len();
    for w in words.iter() {
        let k = std::cmp::min(64, left);
        unsafe {
            raw.push_int(*w, k);
        }
        left -= k;
    }
    (raw, words)
}

fn positions(len: usize) -> Vec<usize> {
    let mut v = vec![0usize, 1, 63, 64, 65, len / 2, len.saturating_sub(2), len.saturating_sub(1)];
    v.retain(|p| *p < len);
    v.sort();
    v.dedup();
    v
}

fn g_raw(rng: &mut Rng, len: usize) -> G<RawVector> {
    let style = pick_style(rng);
    let bits = gen_bits(rng, len, style);
    let (raw, words) = raw_from_bits(&bits);
    let mut g = plain(raw, "TRaw", format!("(RRaw {} {})", len, nlist(&words)));
    g.sbp = Some(RawVector::size_by_params(len));
    g.answers = Box::new(|a: &RawVector, b: &RawVector| {
        a.len() == b.len() && a.count_ones() == b.count_ones() && positions(b.len()).iter().all(|p| a.bit(*p) == b.bit(*p))
    });
    g
}

fn g_int(rng: &mut Rng, len: usize, width: usize) -> G<IntVector> {
    let mask = if width == 64 { u64::MAX } else { (1u64 << width) - 1 };
    let mut v = IntVector::with_capacity(len, width).unwrap();
    let mut words = vec![0u64; (len * width + 63) / 64];
    for i in 0..len {
        let x = match rng.below(4) {
            0 => mask,
            1 => 0,
            _ => rng.next() & mask,
        };
        v.push(x);
        // independent packing: item i occupies bits [i*width, (i+1)*width)
        let bit = i * width;
        words[bit / 64] |= x << (bit % 64);
        if bit % 64 + width > 64 {
            words[bit / 64 + 1] |= x >> (64 - bit % 64);
        }
    }
    let mut g = plain(v, "TIntVec", format!("(RIv {} {} {})", len, width, nlist(&words)));
    g.sbp = Some(IntVector::size_by_params(len, width));
    g.answers = Box::new(|a: &IntVector, b: &IntVector| {
        a.len() == b.len() && a.width() == b.width() && (0..b.len()).all(|i| a.get(i) == b.get(i))
    });
    g
}

// values REACHED by a history of safe calls (the history is the recipe: the model replays it, Model/Hist.v), with a
// preference for histories whose last length-changing call is a pop, half of them onto a word boundary
fn g_int_hist(rng: &mut Rng, max_calls: usize) -> G<IntVector> {
    use crate::c08::{gen_hi, hi_apply, hi_term, hist_width, HI};
    let w0 = hist_width(rng);
    let mut v = IntVector::new(w0).unwrap();
    let mut terms: Vec<String> = Vec::new();
    let ones = rng.chance(1, 2);
    let n = 2 + rng.below(max_calls as u64) as usize;
    let apply = |v: &mut IntVector, o: HI, terms: &mut Vec<String>| {
        let mut c = v.clone();
        if let Res::Ok(()) = catch(|| hi_apply(&mut c, &o)) {
            *v = c;
            terms.push(hi_term(&o));
        }
    };
    for _ in 0..n {
        let o = gen_hi(rng, v.len(), v.width(), ones);
        apply(&mut v, o, &mut terms);
    }
    match rng.below(4) {
        0 => {}
        1 => apply(&mut v, HI::Pop, &mut terms),
        _ => {
            // push until one item beyond a word boundary, then pop back onto it (or empty the vector)
            let w = v.width();
            let mut guard = 0;
            while (v.len() * w) % 64 != 0 && guard < 64 {
                apply(&mut v, HI::Push(if ones { !0u64 } else { rng.next() }), &mut terms);
                guard += 1;
            }
            if rng.chance(1, 3) {
                while v.len() > 1 {
                    apply(&mut v, HI::Pop, &mut terms);
                }
            } else {
                apply(&mut v, HI::Push(!0u64), &mut terms);
            }
            apply(&mut v, HI::Pop, &mut terms);
        }
    }
    let (len, width) = (v.len(), v.width());
    let mut g = plain(v, "TIntVec", format!("(RIvH {} [{}])", w0, terms.join("; ")));
    g.sbp = Some(IntVector::size_by_params(len, width));
    g.answers = Box::new(|a: &IntVector, b: &IntVector| {
        a.len() == b.len() && a.width() == b.width() && (0..b.len()).all(|i| a.get(i) == b.get(i))
    });
    g
}

fn g_raw_hist(rng: &mut Rng, max_calls: usize) -> G<RawVector> {
    use crate::c08::{gen_hr, hr_apply, hr_term, HR};
    let mut v = RawVector::new();
    let mut terms: Vec<String> = Vec::new();
    let ones = rng.chance(1, 2);
    let n = 2 + rng.below(max_calls as u64) as usize;
    let apply = |v: &mut RawVector, o: HR, terms: &mut Vec<String>| {
        let mut c = v.clone();
        if let Res::Ok(()) = catch(|| hr_apply(&mut c, &o)) {
            *v = c;
            terms.push(hr_term(&o));
        }
    };
    for _ in 0..n {
        let nwords = { let w: &[u64] = v.as_ref(); w.len() };
        let o = gen_hr(rng, v.len(), nwords, ones);
        apply(&mut v, o, &mut terms);
    }
    if rng.chance(1, 2) {
        let mut guard = 0;
        while v.len() % 64 != 0 && guard < 64 {
            apply(&mut v, HR::PushBit(ones || rng.chance(1, 2)), &mut terms);
            guard += 1;
        }
        apply(&mut v, HR::PushBit(true), &mut terms);
        apply(&mut v, HR::PopBit, &mut terms);
    }
    let len = v.len();
    let mut g = plain(v, "TRaw", format!("(RRawH [{}])", terms.join("; ")));
    g.sbp = Some(RawVector::size_by_params(len));
    g.answers = Box::new(|a: &RawVector, b: &RawVector| {
        a.len() == b.len() && a.count_ones() == b.count_ones() && positions(b.len()).iter().all(|p| a.bit(*p) == b.bit(*p))
    });
    g
}

fn bits_for(rng: &mut Rng, len: usize) -> Vec<bool> {
    let style = pick_style(rng);
    gen_bits(rng, len, style)
}

fn g_rank(rng: &mut Rng, len: usize) -> G<RankSupport> {
    let bits = bits_for(rng, len);
    let (raw, words) = raw_from_bits(&bits);
    let bv = BitVector::from(raw);
    let rs = RankSupport::new(&bv);
    let mut g = plain(rs, "TRank", format!("(RRank {} {})", len, nlist(&words)));
    g.answers = Box::new(|a: &RankSupport, b: &RankSupport| a.blocks() == b.blocks());
    g
}

fn g_sel_id(rng: &mut Rng, len: usize) -> G<SelectSupport<Identity>> {
    let bits = bits_for(rng, len);
    let (raw, words) = raw_from_bits(&bits);
    let bv = BitVector::from(raw);
    let ss = SelectSupport::<Identity>::new(&bv);
    let mut g = plain(ss, "TSelect", format!("(RSel false {} {})", len, nlist(&words)));
    g.answers = Box::new(|a: &SelectSupport<Identity>, b: &SelectSupport<Identity>| {
        a.superblocks() == b.superblocks() && a.long_superblocks() == b.long_superblocks() && a.short_superblocks() == b.short_superblocks()
    });
    g
}

fn g_sel_co(rng: &mut Rng, len: usize) -> G<SelectSupport<Complement>> {
    let bits = bits_for(rng, len);
    let (raw, words) = raw_from_bits(&bits);
    let bv = BitVector::from(raw);
    let ss = SelectSupport::<Complement>::new(&bv);
    let mut g = plain(ss, "TSelect", format!("(RSel true {} {})", len, nlist(&words)));
    g.answers = Box::new(|a: &SelectSupport<Complement>, b: &SelectSupport<Complement>| {
        a.superblocks() == b.superblocks() && a.long_superblocks() == b.long_superblocks() && a.short_superblocks() == b.short_superblocks()
    });
    g
}

fn enable_subset(bv: &mut BitVector, subset: u64) {
    if subset & 1 != 0 {
        bv.enable_rank();
    }
    if subset & 2 != 0 {
        bv.enable_select();
    }
    if subset & 4 != 0 {
        bv.enable_select_zero();
    }
}

fn flags_of(bv: &BitVector) -> u64 {
    (bv.supports_rank() as u64) | ((bv.supports_select() as u64) << 1) | ((bv.supports_select_zero() as u64) << 2)
}

// answers of `a` (on the queries its supports allow) against the reference answers of `full`
fn same_answers(a: &BitVector, full: &BitVector) -> bool {
    let len = full.len();
    if a.len() != len || a.count_ones() != full.count_ones() || a.count_zeros() != full.count_zeros() {
        return false;
    }
    let mut ok = true;
    for p in positions(len) {
        ok &= a.get(p) == full.get(p);
        if a.supports_rank() && full.supports_rank() {
            ok &= a.rank(p) == full.rank(p);
        }
    }
    if a.supports_rank() && full.supports_rank() {
        ok &= a.rank(len) == full.rank(len) && a.rank(len + 1) == full.rank(len + 1);
    }
    if a.supports_select() && full.supports_select() {
        for r in positions(full.count_ones()) {
            ok &= a.select(r) == full.select(r);
        }
        ok &= a.select(full.count_ones()) == None;
    }
    if a.supports_select_zero() && full.supports_select_zero() {
        for r in positions(full.count_zeros()) {
            ok &= a.select_zero(r) == full.select_zero(r);
        }
        ok &= a.select_zero(full.count_zeros()) == None;
    }
    ok
}

fn g_bv_bits(bits: &[bool], subset: u64) -> G<BitVector> {
    let (raw, words) = raw_from_bits(bits);
    let mut bv = BitVector::from(raw);
    enable_subset(&mut bv, subset);
    let mut g = plain(bv, "TBitVec", format!("(RBV {} {} {})", bits.len(), nlist(&words), subset));
    g.answers = Box::new(|a: &BitVector, b: &BitVector| flags_of(a) == flags_of(b) && same_answers(a, b));
    g
}

fn g_bv(rng: &mut Rng, len: usize, subset: u64) -> G<BitVector> {
    let bits = bits_for(rng, len);
    g_bv_bits(&bits, subset)
}

// a run-length vector built through RLBuilder: `nruns` runs whose gaps and lengths follow `profile`
// (0: 1..8, one code unit each; 1: mixed small / around 2^k, several code units; 2: huge universe), adjacent runs
// (merged by the builder) now and then; `tail`: unset positions after the last run
fn g_rl(rng: &mut Rng, nruns: usize, profile: u64, tail: usize) -> G<RLVector> {
    let mut runs: Vec<(usize, usize)> = Vec::new();
    let mut pos = 0usize;
    // profile 2: the sum of all gaps and lengths stays below 2^62
    let kmax = 42 - (64 - (2 * nruns as u64 + 2).leading_zeros()) as u64;
    let pick = |rng: &mut Rng| -> usize {
        match profile {
            0 => 1 + rng.below(8) as usize,
            1 => match rng.below(4) {
                0 => 1 + rng.below(8) as usize,
                1 => *rng.pick(&[7usize, 8, 9, 63, 64, 65, 511, 512, 513]),
                _ => { let k = rng.below(20); ((1usize << k) + rng.below(3) as usize).saturating_sub(1).max(1) }
            },
            _ => match rng.below(3) {
                0 => 1 + rng.below(8) as usize,
                _ => { let k = 20 + rng.below(kmax); (1usize << k) + rng.below(1000) as usize }
            },
        }
    };
    for i in 0..nruns {
        let gap = if rng.below(7) == 0 || (i == 0 && rng.below(2) == 0) { 0 } else { pick(rng) };
        let l = pick(rng);
        pos += gap;
        runs.push((pos, l));
        pos += l;
    }
    let len = match tail {
        0 => pos,
        1 => pos + 1 + rng.below(100) as usize,
        2 => 1usize << 63,
        _ => usize::MAX,
    };
    let len = std::cmp::max(len, pos);
    let mut bld = RLBuilder::new();
    for (s, l) in runs.iter() {
        bld.try_set(*s, *l).unwrap();
    }
    bld.set_len(len);
    let rv = RLVector::from(bld);
    let probes: Vec<usize> = {
        let mut p = vec![0usize, 1, len / 2, len.saturating_sub(1), len];
        for (s, l) in runs.iter().take(6) {
            p.extend_from_slice(&[*s, s + l - 1, s + l]);
        }
        p
    };
    let mut g = plain(rv, "TRL", format!("(RRL {} {})", nu(len), plist(&runs)));
    g.answers = Box::new(move |a: &RLVector, b: &RLVector| {
        let mut ok = a.len() == b.len() && a.count_ones() == b.count_ones();
        ok &= a.run_iter().collect::<Vec<_>>() == b.run_iter().collect::<Vec<_>>();
        for x in probes.iter() {
            ok &= a.rank(*x) == b.rank(*x);
            ok &= a.select(*x) == b.select(*x);
            ok &= a.select_zero(*x) == b.select_zero(*x);
            ok &= a.predecessor(*x).next() == b.predecessor(*x).next();
            ok &= a.successor(*x).next() == b.successor(*x).next();
            if *x < a.len() {
                ok &= a.get(*x) == b.get(*x);
            }
        }
        ok
    });
    g
}


// ---------------------------------------------------------------- wavelet matrix and its core
// Described to Coq by the value list; their Coq types live outside the closed universe `ty` (Check/SerWM.v: wty), so
// they are emitted through the constructors CRoundW / CConcatW / CBadW / CTruncW / CSinkW / CStripW.

fn is_w(it: &dyn Item) -> bool {
    let t = it.ty();
    t == "WCore" || t == "WMat"
}

fn wm_probe_values(vals: &[u64]) -> Vec<u64> {
    let max = vals.iter().cloned().max().unwrap_or(0);
    let mut v = vec![0u64, 1, max, max.wrapping_add(1), u64::MAX];
    if !vals.is_empty() {
        v.push(vals[0]);
        v.push(vals[vals.len() / 2]);
    }
    v.sort();
    v.dedup();
    v
}

fn same_wm(a: &WaveletMatrix, b: &WaveletMatrix, values: &[u64]) -> bool {
    let mut ok = a.len() == b.len() && a.width() == b.width();
    ok &= a.iter().collect::<Vec<u64>>() == b.iter().collect::<Vec<u64>>();
    let len = b.len();
    for v in values.iter() {
        ok &= a.contains(*v) == b.contains(*v);
        for i in [0usize, 1, len / 2, len.saturating_sub(1), len, len + 1, usize::MAX] {
            ok &= a.rank(i, *v) == b.rank(i, *v);
            ok &= a.select(i, *v) == b.select(i, *v);
            ok &= a.predecessor(i, *v).next() == b.predecessor(i, *v).next();
            ok &= a.successor(i, *v).next() == b.successor(i, *v).next();
        }
    }
    for i in [0usize, 1, len / 2, len.saturating_sub(1), len] {
        ok &= a.inverse_select(i) == b.inverse_select(i);
    }
    ok
}

fn same_core(a: &WMCore, b: &WMCore, values: &[u64]) -> bool {
    let mut ok = a.len() == b.len() && a.width() == b.width();
    let len = b.len();
    for i in 0..std::cmp::min(len + 1, 40) {
        ok &= a.map_down(i) == b.map_down(i);
    }
    for v in values.iter() {
        for i in [0usize, 1, len / 2, len.saturating_sub(1), len, usize::MAX] {
            ok &= a.map_down_with(i, *v) == b.map_down_with(i, *v);
            ok &= a.map_up_with(i, *v) == b.map_up_with(i, *v);
        }
    }
    ok
}

fn g_wmcore(vals: &[u64]) -> G<WMCore> {
    let core = WMCore::from(vals.to_vec());
    let values = wm_probe_values(vals);
    let mut g = plain(core, "WCore", nlist(vals));
    g.answers = Box::new(move |a: &WMCore, b: &WMCore| same_core(a, b, &values));
    g
}

fn g_wm(vals: &[u64]) -> G<WaveletMatrix> {
    let wm = WaveletMatrix::from(vals.to_vec());
    let values = wm_probe_values(vals);
    let mut g = plain(wm, "WMat", nlist(vals));
    g.answers = Box::new(move |a: &WaveletMatrix, b: &WaveletMatrix| same_wm(a, b, &values));
    g
}

// value lists: empty, one item, all-zero, the documentation's vector, widths 1..4 (small enough for every
// truncation point), a few longer / wider ones (word and rank-block boundaries in the levels, large alphabets)
fn wm_value_lists(rng: &mut Rng, thorough: bool) -> Vec<Vec<u64>> {
    let mut v: Vec<Vec<u64>> = vec![vec![], vec![0], vec![1], vec![0, 0, 0], vec![5], vec![1, 2, 1, 3], vec![2, 0, 3, 1, 2],
        vec![1, 0, 3, 1, 1, 2, 4, 5, 1, 2, 1, 7, 0, 1], vec![7; 64], vec![0, 255], vec![9, 9, 12]];
    for (len, w) in [(3usize, 1u64), (17, 1), (64, 1), (65, 2), (40, 3), (30, 4), (129, 2), (200, 3), (513, 1), (600, 5), (100, 8), (70, 10)] {
        v.push((0..len).map(|_| rng.below(1u64 << w)).collect());
    }
    v.push(vec![4096, 0, 4096, 1, 2048]);
    // gaps in the alphabet at power-of-two lengths (the offset table stores the length for an absent value)
    for k in [1u32, 3, 6, 8] {
        v.push((0..(1usize << k)).map(|i| if i % 3 == 0 { 0 } else { 2 + 3 * rng.below(3) }).collect());
    }
    // levels of very different sizes: every value shares the top bits (level 0 all ones: no unset bits to index), a
    // long constant vector, two-letter text in a wide alphabet
    v.push((0..400).map(|_| *rng.pick(&[65u64, 67, 71, 84])).collect());
    v.push((0..700).map(|_| 0x41 + rng.below(26)).collect());
    v.push(vec![200; 300]);
    v.push((0..350).map(|i| if i % 50 == 0 { 1u64 << 11 } else { (1u64 << 11) + 1 + rng.below(3) }).collect());
    v.push((0..50).map(|_| *rng.pick(&[1u64, 16, 17, 1000])).collect());
    if thorough {
        for _ in 0..40 {
            let len = rng.below(400) as usize;
            let w = 1 + rng.below(9);
            v.push((0..len).map(|_| rng.below(1u64 << w)).collect());
        }
        v.push((0..5000).map(|_| rng.below(4)).collect());
    }
    v
}

fn wm_items(rng: &mut Rng, thorough: bool) -> Vec<Box<dyn Item>> {
    let mut v: Vec<Box<dyn Item>> = Vec::new();
    for vals in wm_value_lists(rng, thorough) {
        v.push(Box::new(g_wmcore(&vals)));
        v.push(Box::new(g_wm(&vals)));
    }
    v
}

fn small_len(rng: &mut Rng, max: usize) -> usize {
    match rng.below(6) {
        0 => 0,
        1 => 1,
        2 => *rng.pick(&[63usize, 64, 65, 127, 128, 129, 511, 512, 513]) % (max + 1),
        _ => rng.below(max as u64 + 1) as usize,
    }
}

const WIDTHS: [usize; 11] = [1, 2, 7, 8, 13, 31, 32, 33, 62, 63, 64];

// one random item of a random type; `max` bounds the payload (bits for bit structures, items / 8 for vectors)
fn random_item(rng: &mut Rng, max: usize) -> Box<dyn Item> {
    let vmax = std::cmp::max(1, max / 64);
    match rng.below(30) {
        27 | 28 => Box::new(g_int_hist(rng, 20)),
        29 => Box::new(g_raw_hist(rng, 20)),
        0 => Box::new(g_u64(rng)),
        1 => Box::new(g_usize(rng)),
        2 => Box::new(g_pair(rng)),
        3 => { let n = small_len(rng, vmax); Box::new(g_vec_u64(rng, n)) }
        4 => { let n = small_len(rng, vmax / 2); Box::new(g_vec_pair(rng, n)) }
        5 => { let n = small_len(rng, max / 8); Box::new(g_bytes(rng, n)) }
        6 => { let n = small_len(rng, max / 16); Box::new(g_string(rng, n)) }
        7 => { let n = small_len(rng, max); Box::new(g_raw(rng, n)) }
        8 => { let w = *rng.pick(&WIDTHS); let n = small_len(rng, max / w); Box::new(g_int(rng, n, w)) }
        9 => { let n = small_len(rng, 4 * max); Box::new(g_rank(rng, n)) }
        10 => { let n = small_len(rng, 4 * max); Box::new(g_sel_id(rng, n)) }
        11 => { let n = small_len(rng, 4 * max); Box::new(g_sel_co(rng, n)) }
        12 | 13 => { let n = small_len(rng, max); let s = rng.below(8); Box::new(g_bv(rng, n, s)) }
        14 => { let n = small_len(rng, max); let s = rng.below(8); Box::new(some(g_bv(rng, n, s))) }
        15 => { let n = small_len(rng, max); Box::new(some(g_raw(rng, n))) }
        16 => { let n = small_len(rng, max / 16); Box::new(some(some(g_string(rng, n)))) }
        17 => Box::new(some(some(some(g_u64(rng))))),
        18 => Box::new(some(none::<Option<IntVector>>("(TOpt TIntVec)"))),
        19 => Box::new(none::<BitVector>("TBitVec")),
        20 => { let n = small_len(rng, 4 * max); Box::new(some(g_rank(rng, n))) }
        21 => { let n = small_len(rng, 4 * max); Box::new(some(g_sel_id(rng, n))) }
        22 => { let w = *rng.pick(&WIDTHS); let n = small_len(rng, max / w); Box::new(some(g_int(rng, n, w))) }
        24 | 25 => { let n = small_len(rng, max / 16); let p = rng.below(3); let t = rng.below(4) as usize; Box::new(g_rl(rng, n, p, t)) }
        26 => { let n = small_len(rng, max / 16); let p = rng.below(3); let t = rng.below(4) as usize; Box::new(some(g_rl(rng, n, p, t))) }
        _ => { let n = small_len(rng, vmax); Box::new(some(g_vec_u64(rng, n))) }
    }
}

// the systematic part: every type at its boundary sizes
fn systematic_items(rng: &mut Rng, thorough: bool) -> Vec<Box<dyn Item>> {
    let mut v: Vec<Box<dyn Item>> = Vec::new();
    for _ in 0..4 {
        v.push(Box::new(g_u64(rng)));
        v.push(Box::new(g_usize(rng)));
        v.push(Box::new(g_pair(rng)));
    }
    for n in [0usize, 1, 2, 3, 7, 8, 9, 40] {
        v.push(Box::new(g_vec_u64(rng, n)));
        v.push(Box::new(g_vec_pair(rng, n)));
    }
    for n in 0..=18usize {
        v.push(Box::new(g_bytes(rng, n)));
        v.push(Box::new(g_string(rng, n)));
    }
    for n in [23usize, 24, 25, 63, 64, 65, 100] {
        v.push(Box::new(g_bytes(rng, n)));
    }
    for n in [0usize, 1, 2, 62, 63, 64, 65, 66, 127, 128, 129, 191, 192, 193, 511, 512, 513, 1000] {
        v.push(Box::new(g_raw(rng, n)));
    }
    for w in [1usize, 2, 7, 8, 31, 32, 33, 63, 64] {
        for n in [0usize, 1, 2, 3, 63, 64, 65] {
            v.push(Box::new(g_int(rng, n, w)));
        }
    }
    for _ in 0..(if thorough { 120 } else { 40 }) {
        v.push(Box::new(g_int_hist(rng, 24)));
    }
    for _ in 0..(if thorough { 40 } else { 12 }) {
        v.push(Box::new(g_raw_hist(rng, 24)));
    }
    let support_lens: Vec<usize> = if thorough {
        vec![0, 1, 63, 64, 65, 511, 512, 513, 1023, 1024, 1025, 4095, 4096, 4097, 8191, 8192, 8193, 20000]
    } else {
        vec![0, 1, 64, 511, 512, 513, 4095, 4096, 4097, 8193]
    };
    for n in support_lens.iter() {
        v.push(Box::new(g_rank(rng, *n)));
        v.push(Box::new(g_sel_id(rng, *n)));
        v.push(Box::new(g_sel_co(rng, *n)));
    }
    // all 8 subsets of supports, at lengths around the block / superblock boundaries
    let bv_lens: Vec<usize> = if thorough { vec![0, 1, 64, 65, 511, 512, 513, 700, 4095, 4096, 4097, 9000] } else { vec![0, 1, 65, 512, 513, 4097] };
    for n in bv_lens.iter() {
        let bits = bits_for(rng, *n);
        for s in 0..8u64 {
            v.push(Box::new(g_bv_bits(&bits, s)));
        }
    }
    // dense / sparse vectors whose ones (zeros) cross a select superblock
    for style in [Style::Ones, Style::Zeros, Style::Half] {
        let bits = gen_bits(rng, 8200, style);
        v.push(Box::new(g_bv_bits(&bits, 7)));
    }
    // optionals, nested
    v.push(Box::new(none::<u64>("TU64")));
    v.push(Box::new(some(g_u64(rng))));
    v.push(Box::new(none::<Option<String>>("(TOpt TString)")));
    v.push(Box::new(some(none::<String>("TString"))));
    v.push(Box::new(some(some(g_string(rng, 5)))));
    v.push(Box::new(some(some(some(g_bytes(rng, 9))))));
    v.push(Box::new(some(g_raw(rng, 0))));
    v.push(Box::new(some(g_raw(rng, 130))));
    v.push(Box::new(some(g_int(rng, 5, 13))));
    v.push(Box::new(some(g_vec_pair(rng, 3))));
    v.push(Box::new(some(g_bv(rng, 600, 5))));
    v.push(Box::new(some(some(g_bv(rng, 70, 7)))));
    v.push(Box::new(some(g_rank(rng, 1025))));
    v.push(Box::new(some(g_sel_co(rng, 300))));
    v.push(Box::new(none::<SelectSupport<Identity>>("TSelect")));
    // run-length vectors: empty, one run, block boundaries (64 code units per block), every universe size
    for n in [0usize, 1, 2, 15, 16, 17, 31, 32, 33, 64, 65] {
        for profile in 0..3u64 {
            let tail = ((n as u64 + profile) % 4) as usize;
            v.push(Box::new(g_rl(rng, n, profile, tail)));
        }
    }
    for tail in 0..4usize {
        v.push(Box::new(g_rl(rng, 0, 0, tail)));
        v.push(Box::new(g_rl(rng, 40, 1, tail)));
    }
    v.push(Box::new(some(g_rl(rng, 20, 1, 3))));
    v.push(Box::new(none::<RLVector>("TRL")));
    // enough blocks for the sample indexes to hold several samples (one per 8 blocks): 9, 17 and more blocks
    for (n, profile) in [(290usize, 0u64), (300, 1), (560, 0), (400, 1)] {
        v.push(Box::new(g_rl(rng, n, profile, (n % 4) as usize)));
    }
    v.push(Box::new(some(g_rl(rng, 320, 0, 1))));
    v
}

// ---------------------------------------------------------------- SparseVector (outside the type universe of the
// Coq side: described by the recipe (low width the crate chose, universe, multiset?, values); cases CRoundS / CTruncS)

pub struct SpItem {
    g: G<SparseVector>,
    w: u64,
    len: usize,
    multi: bool,
    vals: Vec<usize>,
}

// low.width of a SparseVector, read from its serialized elements:
// [len] ++ bitvector(ones, raw(len, nwords, words), 3 options) ++ intvector(len, width, ..)
fn sparse_width(sv: &SparseVector) -> u64 {
    let ser = crate::bvgen::serialize_elems(sv);
    let mut p = 3; // len, ones, raw len
    let nwords = ser[p] as usize;
    p += 1 + nwords;
    for _ in 0..3 {
        let sz = ser[p] as usize;
        p += 1 + sz;
    }
    ser[p + 1]
}

// `count` values in a universe of `len`: a set (distinct, increasing) or a multiset (non-decreasing with repeats,
// possibly more values than positions); profile 0: uniform, 1: clustered at the start / end / a bucket boundary
fn g_sparse(rng: &mut Rng, len: usize, count: usize, multi: bool, profile: u64) -> SpItem {
    let mut vals: Vec<usize> = Vec::new();
    if len > 0 {
        if multi {
            for _ in 0..count {
                let v = match profile {
                    0 => rng.below(len as u64) as usize,
                    _ => *rng.pick(&[0usize, len / 2, len - 1]),
                };
                vals.push(v);
            }
            vals.sort();
        } else {
            let count = std::cmp::min(count, len);
            let mut set = std::collections::BTreeSet::new();
            let mut guard = 0;
            while set.len() < count && guard < 100 * count + 100 {
                guard += 1;
                let v = match profile {
                    0 => rng.below(len as u64) as usize,
                    _ => {
                        let base = *rng.pick(&[0usize, len / 2, len.saturating_sub(count + 1)]);
                        std::cmp::min(len - 1, base.saturating_add(rng.below(2 * count as u64 + 1) as usize))
                    }
                };
                set.insert(v);
            }
            vals = set.into_iter().collect();
        }
    }
    let mut bld = if multi { SparseBuilder::multiset(len, vals.len()) } else { SparseBuilder::new(len, vals.len()).unwrap() };
    for v in vals.iter() {
        bld.try_set(*v).unwrap();
    }
    let sv = SparseVector::try_from(bld).unwrap();
    let w = sparse_width(&sv);
    let probes: Vec<usize> = {
        let mut p = vec![0usize, 1, len / 2, len.saturating_sub(1), len, usize::MAX];
        for v in vals.iter().take(6) {
            p.extend_from_slice(&[*v, v.saturating_sub(1), v.saturating_add(1)]);
        }
        p
    };
    let zero_queries = !multi;
    let mut g = plain(sv, "TSparse", String::new());
    g.answers = Box::new(move |a: &SparseVector, b: &SparseVector| {
        let mut ok = a.len() == b.len() && a.count_ones() == b.count_ones() && a.count_zeros() == b.count_zeros();
        ok &= a.one_iter().collect::<Vec<_>>() == b.one_iter().collect::<Vec<_>>();
        for x in probes.iter() {
            ok &= a.rank(*x) == b.rank(*x);
            ok &= a.select(*x) == b.select(*x);
            ok &= a.predecessor(*x).next() == b.predecessor(*x).next();
            ok &= a.successor(*x).next() == b.successor(*x).next();
            if zero_queries {
                ok &= a.select_zero(*x) == b.select_zero(*x);
            }
            if *x < a.len() {
                ok &= a.get(*x) == b.get(*x);
            }
        }
        ok
    });
    SpItem { g, w, len, multi, vals }
}

fn sp_head(it: &SpItem) -> String {
    format!("{} {} {} {} {} {}", it.w, PATH, b(DBG), nu(it.len), b(it.multi), ulist(&it.vals))
}

fn sparse_items(rng: &mut Rng, thorough: bool) -> Vec<SpItem> {
    let mut v: Vec<SpItem> = Vec::new();
    // empty universe, empty set, full set, single values at the ends
    v.push(g_sparse(rng, 0, 0, false, 0));
    v.push(g_sparse(rng, 0, 0, true, 0));
    v.push(g_sparse(rng, 70, 0, false, 0));
    v.push(g_sparse(rng, 70, 70, false, 0));
    v.push(g_sparse(rng, 1, 1, false, 0));
    // small and medium universes, several densities (low widths 1 .. ~10), word boundaries of high and low
    for len in [1usize, 2, 63, 64, 65, 137, 300, 1000, 5000] {
        for count in [1usize, 2, 7, 33] {
            let p = rng.below(2);
            v.push(g_sparse(rng, len, count, false, p));
        }
    }
    // huge universes with few values (low widths up to 63)
    for len in [1usize << 20, 1usize << 40, 1usize << 63, usize::MAX - 1, usize::MAX] {
        for count in [1usize, 3, 40] {
            v.push(g_sparse(rng, len, count, false, 0));
        }
    }
    // multisets: repeats, more values than positions
    for (len, count) in [(1usize, 3usize), (5, 8), (10, 4), (300, 12), (300, 400), (1usize << 40, 9), (usize::MAX, 6)] {
        v.push(g_sparse(rng, len, count, true, 0));
        v.push(g_sparse(rng, len, count, true, 1));
    }
    let extra = if thorough { 120 } else { 30 };
    for _ in 0..extra {
        let bits = 1 + rng.below(64);
        let len = if bits == 64 { usize::MAX } else { (1usize << bits) - 1 + rng.below(2) as usize };
        let count = 1 + rng.below(60) as usize;
        let multi = rng.below(4) == 0;
        let p = rng.below(2);
        v.push(g_sparse(rng, len, count, multi, p));
    }
    v
}

fn emit_round_sparse(out: &mut Out, rng: &mut Rng, sp: &SpItem) {
    let it: &dyn Item = &sp.g;
    let bytes = serialize_item(it);
    let (elems, tail) = to_elems(&bytes);
    let extra: Vec<u8> = (0..rng.below(12)).map(|_| rng.below(256) as u8).collect();
    let mut stream = bytes.clone();
    stream.extend_from_slice(&extra);
    let chunk = *rng.pick(&[0usize, 0, 1, 3, 8, 13]);
    let mut reader = CountingReader::new(&stream, chunk);
    let r = catch(|| it.load_cmp(&mut reader));
    let (eq, mut ans) = match r {
        Res::Ok(Ok((a, b))) => (a, b),
        _ => (false, false),
    };
    // the file-based entry points: serialize_to / load_from
    let dir = std::env::var("VERIF_RUNDIR").unwrap_or_else(|_| ".".to_string());
    let path = std::path::Path::new(&dir).join(format!("c06_tmp_{}_{}.bin", std::process::id(), out.n));
    let f = catch(|| it.file_roundtrip(&path, &bytes));
    ans &= matches!(f, Res::Ok(true));
    out.stat("c06.file_roundtrips");
    let term = format!("CRoundS {} {} {} {} {} {} {} {} {}", sp_head(sp), nlist(&elems), blist8(&tail),
        it.size_el(), it.size_by(), blist8(&extra), reader.pos, b(eq), b(ans));
    out.stat(&format!("c06.round.TSparse.{}", if sp.multi { "multiset" } else { "set" }));
    out.stat(&format!("c06.sparse_width.{:02}", sp.w));
    out.case("sparse", term, format!("{{\"ty\":\"SparseVector\",\"universe\":{},\"values\":{},\"multiset\":{},\"size\":{},\"consumed\":{},\"eq\":{}}}",
        sp.len, sp.vals.len(), sp.multi, bytes.len(), reader.pos, eq), bytes.len() > 8);
}

fn emit_trunc_sparse(out: &mut Out, sp: &SpItem) {
    let it: &dyn Item = &sp.g;
    let bytes = serialize_item(it);
    let (elems, _) = to_elems(&bytes);
    let mut outcomes: Vec<u64> = Vec::with_capacity(bytes.len());
    for k in 0..bytes.len() {
        let mut reader = CountingReader::new(&bytes[..k], 0);
        let r = catch(|| it.load_cmp(&mut reader));
        outcomes.push(outcome(&r));
    }
    out.stat_n("c14.loads", bytes.len() as u64);
    out.stat_n("c14.loads.not_err", outcomes.iter().filter(|c| **c == 0 || **c >= 10).count() as u64);
    out.stat("c14.trunc.TSparse");
    let term = format!("CTruncS {} {} {}", sp_head(sp), nlist(&elems), rle(&outcomes));
    out.case("trunc_sparse", term, format!("{{\"ty\":\"SparseVector\",\"universe\":{},\"values\":{},\"size\":{},\"outcomes\":{:?}}}",
        sp.len, sp.vals.len(), bytes.len(), rle(&outcomes)), bytes.len() > 8);
}

// A writer that accepts at most `chunk` bytes per write() call (as pipes and sockets do): serializers must use
// write_all. Every item is serialized through one; the chunk size depends on the item's size.
struct ChunkWriter {
    buf: Vec<u8>,
    chunk: usize,
}
impl Write for ChunkWriter {
    fn write(&mut self, data: &[u8]) -> io::Result<usize> {
        let n = std::cmp::min(data.len(), self.chunk);
        self.buf.extend_from_slice(&data[..n]);
        Ok(n)
    }
    fn flush(&mut self) -> io::Result<()> {
        Ok(())
    }
}

fn serialize_item(it: &dyn Item) -> Vec<u8> {
    let chunk = match it.size_by() % 5 {
        0 => 1,
        1 => 7,
        2 => 8,
        3 => 4096,
        _ => usize::MAX,
    };
    let mut w = ChunkWriter { buf: Vec::new(), chunk };
    it.ser(&mut w).unwrap();
    w.buf
}

// ---------------------------------------------------------------- C06

fn emit_round(out: &mut Out, rng: &mut Rng, it: &dyn Item, kind: &str) {
    let bytes = serialize_item(it);
    let (elems, tail) = to_elems(&bytes);
    let extra: Vec<u8> = (0..rng.below(12)).map(|_| rng.below(256) as u8).collect();
    let mut stream = bytes.clone();
    stream.extend_from_slice(&extra);
    let chunk = *rng.pick(&[0usize, 0, 1, 3, 8, 13]);
    let mut reader = CountingReader::new(&stream, chunk);
    let r = catch(|| it.load_cmp(&mut reader));
    let (eq, mut ans) = match r {
        Res::Ok(Ok((a, b))) => (a, b),
        _ => (false, false),
    };
    if kind == "systematic" || out.n % 4 == 0 {
        // the file-based entry points: serialize_to / load_from
        let dir = std::env::var("VERIF_RUNDIR").unwrap_or_else(|_| ".".to_string());
        let path = std::path::Path::new(&dir).join(format!("c06_tmp_{}_{}.bin", std::process::id(), out.n));
        let f = catch(|| it.file_roundtrip(&path, &bytes));
        ans &= matches!(f, Res::Ok(true));
        out.stat("c06.file_roundtrips");
    }
    let term = if is_w(it) {
        format!("CRoundW {} {} {} {} {} {} {} {} {} {} {} {}", PATH, b(DBG), it.ty(), it.recipe(), nlist(&elems), blist8(&tail),
            it.size_el(), it.size_by(), blist8(&extra), reader.pos, b(eq), b(ans))
    } else {
        format!("CRound {} {} {} {} {} {} {} {} {} {} {} {} {}", PATH, b(DBG), it.ty(), it.recipe(), nlist(&elems), blist8(&tail),
            it.size_el(), it.size_by(), blist8(&extra), reader.pos, b(eq), b(ans), opt(&it.sbp(), |x| nu(*x)))
    };
    out.stat(&format!("c06.round.{}", it.ty().replace(|c: char| !c.is_alphanumeric(), "")));
    out.case(kind, term, format!("{{\"ty\":{:?},\"size\":{},\"consumed\":{},\"eq\":{}}}", it.ty(), bytes.len(), reader.pos, eq), bytes.len() > 8);
}

fn emit_concat(out: &mut Out, rng: &mut Rng, items: &[Box<dyn Item>]) {
    let mut bytes: Vec<u8> = Vec::new();
    for it in items {
        it.ser(&mut bytes).unwrap();
    }
    let (elems, _) = to_elems(&bytes);
    let chunk = *rng.pick(&[0usize, 0, 5, 8]);
    let mut reader = CountingReader::new(&bytes, chunk);
    let mut consumed: Vec<u64> = Vec::new();
    let mut all = true;
    for it in items {
        let before = reader.pos;
        let r = catch(|| it.load_cmp(&mut reader));
        match r {
            Res::Ok(Ok((a, b))) => all &= a && b,
            _ => all = false,
        }
        consumed.push((reader.pos - before) as u64);
    }
    let mut its = String::from("[");
    for (i, it) in items.iter().enumerate() {
        if i > 0 {
            its.push_str("; ");
        }
        let _ = write!(its, "({}, {})", it.ty(), it.recipe());
    }
    its.push(']');
    let w = items.iter().all(|it| is_w(it.as_ref()));
    let term = format!("{} {} {} {} {} {} {}", if w { "CConcatW" } else { "CConcat" }, PATH, b(DBG), its, nlist(&elems), nlist(&consumed), b(all));
    out.stat(&format!("c06.concat.{}", items.len()));
    out.case("concat", term, format!("{{\"n\":{},\"bytes\":{},\"consumed\":{:?}}}", items.len(), bytes.len(), consumed), true);
}

fn run_bad<T: Serialize>(out: &mut Out, ty: &str, what: &str, elems: &[u64], tail: &[u8]) {
    let mut bytes = from_elems(elems);
    bytes.extend_from_slice(tail);
    let mut reader = CountingReader::new(&bytes, 0);
    let r = catch(|| T::load(&mut reader));
    let oc = outcome(&r);
    drop(r);
    let term = format!("CBad {} {} {} {} {} {} {}", PATH, b(DBG), ty, nlist(elems), blist8(tail), oc, reader.pos);
    out.stat(&format!("c06.bad.outcome.{}", oc));
    out.case("bad", term, format!("{{\"ty\":{:?},\"what\":{:?},\"elems\":{:?},\"outcome\":{},\"consumed\":{}}}", ty, what, &elems[..std::cmp::min(elems.len(), 24)], oc, reader.pos), true);
}

fn run_bad_w<T: Serialize>(out: &mut Out, ty: &str, what: &str, elems: &[u64], tail: &[u8]) {
    let mut bytes = from_elems(elems);
    bytes.extend_from_slice(tail);
    let mut reader = CountingReader::new(&bytes, 0);
    let r = catch(|| T::load(&mut reader));
    let oc = outcome(&r);
    drop(r);
    let term = format!("CBadW {} {} {} {} {} {} {}", PATH, b(DBG), ty, nlist(elems), blist8(tail), oc, reader.pos);
    out.stat(&format!("c06.badw.outcome.{}", oc));
    out.case("bad", term, format!("{{\"ty\":{:?},\"what\":{:?},\"elems\":{:?},\"outcome\":{},\"consumed\":{}}}", ty, what, &elems[..std::cmp::min(elems.len(), 24)], oc, reader.pos), true);
}

fn serialize_elems_of<T: Serialize>(x: &T) -> Vec<u64> {
    let mut buf: Vec<u8> = Vec::new();
    x.serialize(&mut buf).unwrap();
    to_elems(&buf).0
}

// malformed WMCore / WaveletMatrix streams: the width check (before anything is sized by it), the common level
// length, data.len() against len, fewer / more levels than announced, a damaged offsets vector
fn malformed_wm(out: &mut Out, rng: &mut Rng) {
    let a: Vec<u64> = (0..5).map(|_| rng.below(2)).collect(); // width 1, length 5
    let b6: Vec<u64> = (0..6).map(|_| rng.below(2)).collect(); // width 1, length 6
    let c: Vec<u64> = vec![2, 0, 3, 1, 2]; // width 2, length 5
    let core_a = serialize_elems_of(&WMCore::from(a.clone()));
    let core_b = serialize_elems_of(&WMCore::from(b6.clone()));
    let core_c = serialize_elems_of(&WMCore::from(c.clone()));
    let level_a = core_a[1..].to_vec();
    let level_b = core_b[1..].to_vec();
    for w in [0u64, 65, 66, 1 << 32, 1 << 63, u64::MAX - 1, u64::MAX] {
        let mut e = vec![w];
        e.extend_from_slice(&level_a);
        run_bad_w::<WMCore>(out, "WCore", "width out of range", &e, &[]);
        run_bad_w::<WMCore>(out, "WCore", "width out of range, nothing behind it", &[w], &[]);
    }
    let cat = |w: u64, parts: &[&Vec<u64>]| -> Vec<u64> {
        let mut e = vec![w];
        for p in parts {
            e.extend_from_slice(p);
        }
        e
    };
    run_bad_w::<WMCore>(out, "WCore", "two levels of different lengths", &cat(2, &[&level_a, &level_b]), &[]);
    run_bad_w::<WMCore>(out, "WCore", "three levels, the last of a different length", &cat(3, &[&level_a, &level_a, &level_b]), &[]);
    run_bad_w::<WMCore>(out, "WCore", "two equal levels (valid)", &cat(2, &[&level_a, &level_a]), &[1, 2, 3]);
    run_bad_w::<WMCore>(out, "WCore", "width 3 but two levels", &cat(3, &[&level_a, &level_a]), &[]);
    run_bad_w::<WMCore>(out, "WCore", "width 1 followed by a second level", &cat(1, &[&level_a, &level_a]), &[]);
    run_bad_w::<WMCore>(out, "WCore", "width 64, one level", &cat(64, &[&level_a]), &[]);
    run_bad_w::<WMCore>(out, "WCore", "empty stream", &[], &[]);
    run_bad_w::<WMCore>(out, "WCore", "valid core, stray bytes", &core_c, &[9, 9, 9]);
    let wm_c = serialize_elems_of(&WaveletMatrix::from(c.clone()));
    for l in [0u64, 4, 6, 1 << 63, u64::MAX] {
        let mut e = wm_c.clone();
        e[0] = l;
        run_bad_w::<WaveletMatrix>(out, "WMat", "len differs from the core's length", &e, &[]);
    }
    run_bad_w::<WaveletMatrix>(out, "WMat", "valid matrix, stray bytes", &wm_c, &[7]);
    let mut e = wm_c.clone();
    e[1] = 0;
    run_bad_w::<WaveletMatrix>(out, "WMat", "core width 0", &e, &[]);
    let mut e = wm_c.clone();
    e[1] = 3;
    run_bad_w::<WaveletMatrix>(out, "WMat", "core width larger than the levels present", &e, &[]);
    // the offsets vector: [.. len, width, data.len, words, data..]; break len * width == data.len
    let n = wm_c.len();
    let first_len = 4; // max + 1 offsets
    let first_start = n - 5; // 4 header elements + 1 data word
    if wm_c[first_start] == first_len {
        let mut e = wm_c.clone();
        e[first_start] = first_len + 1;
        run_bad_w::<WaveletMatrix>(out, "WMat", "first: len * width != data.len", &e, &[]);
        let mut e = wm_c.clone();
        e[first_start + 3] = 2;
        run_bad_w::<WaveletMatrix>(out, "WMat", "first: word count does not match", &e, &[]);
        run_bad_w::<WaveletMatrix>(out, "WMat", "first missing", &wm_c[..first_start].to_vec(), &[]);
        run_bad_w::<WaveletMatrix>(out, "WMat", "first cut after its header", &wm_c[..first_start + 4].to_vec(), &[]);
    } else {
        out.stat("c06.badw.first_not_located");
    }
    let mut e = cat(5, &[]);
    e.extend_from_slice(&cat(2, &[&level_a, &level_b]));
    run_bad_w::<WaveletMatrix>(out, "WMat", "core with levels of different lengths", &e, &[]);
}

fn bytes_stream(content: &[u8]) -> Vec<u64> {
    let mut b = (content.len() as u64).to_le_bytes().to_vec();
    b.extend_from_slice(content);
    while b.len() % 8 != 0 {
        b.push(0);
    }
    to_elems(&b).0
}

const UTF8_EDGE: [u8; 30] = [0x00, 0x41, 0x7F, 0x80, 0x8F, 0x90, 0x9F, 0xA0, 0xBF, 0xC0, 0xC1, 0xC2, 0xDF, 0xE0, 0xE1, 0xEC, 0xED, 0xEE, 0xEF,
    0xF0, 0xF1, 0xF3, 0xF4, 0xF5, 0xF7, 0xF8, 0xFE, 0xFF, 0x20, 0xBE];

// index of the header fields of a serialized BitVector: (name, element index)
fn bv_fields(elems: &[u64]) -> Vec<(&'static str, usize)> {
    let mut f = vec![("ones", 0usize), ("raw.len", 1), ("raw.words", 2)];
    let mut p = 3 + elems[2] as usize;
    // rank
    f.push(("rank.size", p));
    if elems[p] > 0 {
        f.push(("rank.len", p + 1));
    }
    p += 1 + elems[p] as usize;
    for name in ["select", "select_zero"] {
        let size = elems[p] as usize;
        f.push((if name == "select" { "select.size" } else { "select_zero.size" }, p));
        if size > 0 {
            let mut q = p + 1;
            for part in 0..3 {
                let names: [&'static str; 4] = match (name, part) {
                    ("select", 0) => ["select.samples.len", "select.samples.width", "select.samples.raw.len", "select.samples.raw.words"],
                    ("select", 1) => ["select.long.len", "select.long.width", "select.long.raw.len", "select.long.raw.words"],
                    ("select", _) => ["select.short.len", "select.short.width", "select.short.raw.len", "select.short.raw.words"],
                    (_, 0) => ["select_zero.samples.len", "select_zero.samples.width", "select_zero.samples.raw.len", "select_zero.samples.raw.words"],
                    (_, 1) => ["select_zero.long.len", "select_zero.long.width", "select_zero.long.raw.len", "select_zero.long.raw.words"],
                    (_, _) => ["select_zero.short.len", "select_zero.short.width", "select_zero.short.raw.len", "select_zero.short.raw.words"],
                };
                for (k, nm) in names.iter().enumerate() {
                    f.push((nm, q + k));
                }
                q += 4 + elems[q + 3] as usize;
            }
        }
        p += 1 + size;
    }
    f
}

fn malformed(out: &mut Out, rng: &mut Rng, thorough: bool) {
    let big: [u64; 6] = [1 << 60, 1 << 61, 1 << 63, u64::MAX, u64::MAX - 62, (1 << 63) + 5];
    // vectors whose length cannot be allocated (capacity overflow), or is larger than the stream
    for n in big {
        run_bad::<Vec<u64>>(out, "TVecU64", "huge length", &[n, 1, 2], &[]);
        run_bad::<Vec<(u64, u64)>>(out, "TVecPair", "huge length", &[n, 1, 2], &[]);
        run_bad::<Option<Vec<u64>>>(out, "(TOpt TVecU64)", "huge length", &[3, n, 1, 2], &[]);
    }
    run_bad::<Vec<(u64, u64)>>(out, "TVecPair", "huge length", &[1 << 59, 1, 2], &[]);
    for n in [1u64 << 63, u64::MAX, (1 << 63) + 8] {
        run_bad::<Vec<u8>>(out, "TBytes", "huge length", &[n, 1], &[]);
        run_bad::<String>(out, "TString", "huge length", &[n, 1], &[]);
    }
    for n in [3u64, 4, 9] {
        run_bad::<Vec<u64>>(out, "TVecU64", "length beyond the stream", &[n, 1, 2], &[7, 7, 7]);
        run_bad::<Vec<u8>>(out, "TBytes", "length beyond the stream", &[n + 14, 1, 2], &[7, 7, 7]);
    }
    // byte vectors: padding is not inspected, a missing padding is an error
    run_bad::<Vec<u8>>(out, "TBytes", "non-zero padding", &[3, u64::MAX], &[]);
    run_bad::<Vec<u8>>(out, "TBytes", "missing padding", &[3], &[1, 2, 3]);
    run_bad::<Vec<u8>>(out, "TBytes", "missing padding", &[3], &[1, 2, 3, 0, 0, 0, 0]);
    run_bad::<String>(out, "TString", "missing padding", &[3], &[65, 66, 67, 0]);
    // Option: the size element is only compared with zero
    run_bad::<Option<u64>>(out, "(TOpt TU64)", "wrong option size", &[5, 42, 43], &[]);
    run_bad::<Option<Vec<u64>>>(out, "(TOpt TVecU64)", "wrong option size", &[1, 2, 10, 11, 12], &[]);
    run_bad::<Option<Option<u64>>>(out, "(TOpt (TOpt TU64))", "wrong option size", &[u64::MAX, 0, 9], &[]);
    // raw vectors
    for (len, words) in [(64u64, 2u64), (65, 1), (0, 1), (1, 0), (u64::MAX, 0), (u64::MAX - 62, 0), (u64::MAX - 63, 0), (1 << 63, 0), (128, 2), (127, 2), (129, 2)] {
        let mut e = vec![len, words];
        for i in 0..std::cmp::min(words, 4) {
            e.push(i + 1);
        }
        run_bad::<RawVector>(out, "TRaw", "len / words", &e, &[]);
    }
    // integer vectors: len * width against the raw length, including products that overflow
    for (len, width, rawlen) in [(3u64, 5u64, 15u64), (3, 5, 16), (0, 0, 0), (7, 0, 0), (1, 128, 128), (1 << 63, 2, 0), (1 << 62, 4, 0), (1 << 32, 1 << 32, 0),
        ((1 << 63) + 1, 2, 2), (u64::MAX, u64::MAX, 1), (2, 64, 128), (3, 65, 195)] {
        let words = (rawlen + 63) / 64;
        let mut e = vec![len, width, rawlen, words];
        for i in 0..words {
            e.push(0x0101_0101 * (i + 1));
        }
        run_bad::<IntVector>(out, "TIntVec", "len * width", &e, &[]);
        let mut o = vec![e.len() as u64];
        o.extend_from_slice(&e);
        run_bad::<Option<IntVector>>(out, "(TOpt TIntVec)", "len * width", &o, &[]);
    }
    // strings: well-formed and ill-formed UTF-8 around every boundary of the encoding
    let n_str = if thorough { 6000 } else { 1200 };
    for _ in 0..n_str {
        let len = 1 + rng.below(6) as usize;
        let mut content: Vec<u8> = Vec::new();
        match rng.below(4) {
            0 => {
                // a valid string with one byte replaced
                let nc = 1 + rng.below(3) as usize;
                let g = g_string(rng, nc);
                content = g.v.as_bytes().to_vec();
                if !content.is_empty() {
                    let i = rng.below(content.len() as u64) as usize;
                    content[i] = *rng.pick(&UTF8_EDGE);
                }
            }
            1 => {
                // a valid string cut inside a character
                let nc = 1 + rng.below(3) as usize;
                let g = g_string(rng, nc);
                content = g.v.as_bytes().to_vec();
                let k = rng.below(content.len() as u64 + 1) as usize;
                content.truncate(k);
            }
            _ => {
                for _ in 0..len {
                    content.push(*rng.pick(&UTF8_EDGE));
                }
            }
        }
        let valid = std::str::from_utf8(&content).is_ok();
        out.stat(if valid { "c06.utf8.valid" } else { "c06.utf8.invalid" });
        run_bad::<String>(out, "TString", "utf8", &bytes_stream(&content), &[]);
    }
    // every 2-byte lead/continuation combination on the edge list
    for a in UTF8_EDGE {
        for c in UTF8_EDGE {
            run_bad::<String>(out, "TString", "utf8 pairs", &bytes_stream(&[a, c]), &[]);
            run_bad::<String>(out, "TString", "utf8 triples", &bytes_stream(&[0xE0, a, c]), &[]);
            run_bad::<String>(out, "TString", "utf8 triples", &bytes_stream(&[0xED, a, c]), &[]);
            if thorough {
                run_bad::<String>(out, "TString", "utf8 quads", &bytes_stream(&[0xF0, a, c, 0x80]), &[]);
                run_bad::<String>(out, "TString", "utf8 quads", &bytes_stream(&[0xF4, a, c, 0xBF]), &[]);
            }
        }
    }
    // bitvectors: one header field moved to a neighbouring / extreme value (fields whose corruption makes the
    // loader fail at once or is ignored; a corrupted length never sends a data word into an allocation)
    let n_bv = if thorough { 120 } else { 30 };
    for _ in 0..n_bv {
        let len = *rng.pick(&[0usize, 1, 64, 65, 511, 512, 513, 1000, 4096, 4097, 5000]);
        let subset = if rng.below(3) == 0 { rng.below(8) } else { 7 };
        let g = g_bv(rng, len, subset);
        let bytes = serialize_item(&g);
        let (elems, _) = to_elems(&bytes);
        let fields = bv_fields(&elems);
        for (name, idx) in fields.iter() {
            let x = elems[*idx];
            let mut vals: Vec<u64> = vec![x.wrapping_add(1), x.wrapping_sub(1), x.wrapping_add(2), x.wrapping_add(64), 1 << 63, u64::MAX, u64::MAX - 62];
            if name.ends_with(".size") {
                // the size of an optional is only compared with zero; zero is safe only for the last optional
                vals = vec![x.wrapping_add(1), 1, u64::MAX];
                if *name == "select_zero.size" {
                    vals.push(0);
                }
                vals.retain(|v| *v != 0 || *name == "select_zero.size");
                if x == 0 {
                    continue;
                }
            }
            if name.ends_with(".words") || *name == "rank.len" {
                // lengths of Vec<..>: neighbours only (a huge one is covered above)
                vals = vec![x.wrapping_add(1), x.wrapping_sub(1), u64::MAX, 1 << 63];
            }
            let v = *rng.pick(&vals);
            if v == x {
                continue;
            }
            // a Vec length between 2^32 and the capacity limit would try to allocate: never generated
            if (name.ends_with(".words") || *name == "rank.len") && v > (1 << 20) && v < (1 << 61) {
                continue;
            }
            let mut e = elems.clone();
            e[*idx] = v;
            out.stat(&format!("c06.bad.bv.{}", name));
            run_bad::<BitVector>(out, "TBitVec", name, &e, &[]);
        }
    }
    // support structures on their own
    for _ in 0..(if thorough { 40 } else { 10 }) {
        let len = *rng.pick(&[1usize, 64, 513, 4097, 9000]);
        let g = g_sel_id(rng, len);
        let bytes = serialize_item(&g);
        let (elems, _) = to_elems(&bytes);
        // samples.len is element 0; long.len and short.len follow their predecessors
        let p_long = 4 + elems[3] as usize;
        let p_short = p_long + 4 + elems[p_long + 3] as usize;
        for idx in [0usize, 1, 2, p_long, p_long + 1, p_short, p_short + 2] {
            let mut e = elems.clone();
            e[idx] = e[idx].wrapping_add(*rng.pick(&[1u64, 2, u64::MAX]));
            run_bad::<SelectSupport<Identity>>(out, "TSelect", "select field", &e, &[]);
        }
    }
}

fn run_c06(rng: &mut Rng, out: &mut Out, thorough: bool) {
    for it in systematic_items(rng, thorough) {
        emit_round(out, rng, it.as_ref(), "systematic");
    }
    for _ in 0..(if thorough { 3000 } else { 500 }) {
        let max = *rng.pick(&[64usize, 300, 1000, 3000]);
        let it = random_item(rng, max);
        emit_round(out, rng, it.as_ref(), "random");
    }
    for sp in sparse_items(rng, thorough).iter() {
        emit_round_sparse(out, rng, sp);
    }
    for _ in 0..(if thorough { 1500 } else { 300 }) {
        let n = 1 + rng.below(5) as usize;
        let items: Vec<Box<dyn Item>> = (0..n).map(|_| { let max = *rng.pick(&[64usize, 300, 1000]); random_item(rng, max) }).collect();
        emit_concat(out, rng, &items);
    }
    malformed(out, rng, thorough);
    // wavelet matrices and cores
    for it in wm_items(rng, thorough) {
        emit_round(out, rng, it.as_ref(), "systematic");
    }
    for _ in 0..(if thorough { 40 } else { 8 }) {
        let n = 1 + rng.below(4) as usize;
        let items: Vec<Box<dyn Item>> = (0..n).map(|_| {
            let len = rng.below(40) as usize;
            let w = 1 + rng.below(4);
            let vals: Vec<u64> = (0..len).map(|_| rng.below(1u64 << w)).collect();
            if rng.below(2) == 0 { Box::new(g_wmcore(&vals)) as Box<dyn Item> } else { Box::new(g_wm(&vals)) as Box<dyn Item> }
        }).collect();
        emit_concat(out, rng, &items);
    }
    malformed_wm(out, rng);
}

// ---------------------------------------------------------------- C14

fn emit_trunc(out: &mut Out, it: &dyn Item) {
    let bytes = serialize_item(it);
    let (elems, _) = to_elems(&bytes);
    let mut outcomes: Vec<u64> = Vec::with_capacity(bytes.len());
    for k in 0..bytes.len() {
        let mut reader = CountingReader::new(&bytes[..k], 0);
        let r = catch(|| it.load_cmp(&mut reader));
        outcomes.push(outcome(&r));
    }
    out.stat_n("c14.loads", bytes.len() as u64);
    out.stat_n("c14.loads.not_err", outcomes.iter().filter(|c| **c == 0 || **c >= 10).count() as u64);
    let term = format!("{} {} {} {} {} {} {}", if is_w(it) { "CTruncW" } else { "CTrunc" }, PATH, b(DBG), it.ty(), it.recipe(), nlist(&elems), rle(&outcomes));
    out.case("trunc", term, format!("{{\"ty\":{:?},\"size\":{},\"outcomes\":{:?}}}", it.ty(), bytes.len(), rle(&outcomes)), bytes.len() > 8);
    if it.is_option() {
        let mut outcomes: Vec<u64> = Vec::with_capacity(bytes.len());
        for k in 0..bytes.len() {
            let mut reader = CountingReader::new(&bytes[..k], 0);
            let r = catch(|| serialize::skip_option(&mut reader));
            outcomes.push(outcome(&r));
        }
        out.stat_n("c14.skips", bytes.len() as u64);
        let term = format!("CSkipTrunc {} {} {} {}", PATH, b(DBG), nlist(&elems), rle(&outcomes));
        out.case("skiptrunc", term, format!("{{\"ty\":{:?},\"size\":{},\"outcomes\":{:?}}}", it.ty(), bytes.len(), rle(&outcomes)), bytes.len() > 8);
    }
}

fn emit_sink(out: &mut Out, it: &dyn Item, kind: u64) {
    let bytes = serialize_item(it);
    let (elems, _) = to_elems(&bytes);
    let mut outcomes: Vec<u64> = Vec::with_capacity(bytes.len());
    let mut prefix_ok = true;
    for room in 0..bytes.len() {
        if kind == 0 {
            let mut sink = BudgetSink { room, out: Vec::new() };
            let r = catch(|| it.ser(&mut sink));
            outcomes.push(outcome(&r));
            prefix_ok &= sink.out[..] == bytes[..room];
        } else {
            let mut buf = vec![0xAAu8; room];
            let r = {
                let mut w: &mut [u8] = &mut buf[..];
                catch(|| it.ser(&mut w))
            };
            outcomes.push(outcome(&r));
            prefix_ok &= buf[..] == bytes[..room];
        }
    }
    out.stat_n("c14.budgets", bytes.len() as u64);
    let term = format!("{} {} {} {} {} {} {} {} {}", if is_w(it) { "CSinkW" } else { "CSink" }, PATH, b(DBG), it.ty(), it.recipe(), nlist(&elems), kind, rle(&outcomes), b(prefix_ok));
    out.case("sink", term, format!("{{\"ty\":{:?},\"size\":{},\"kind\":{},\"outcomes\":{:?}}}", it.ty(), bytes.len(), kind, rle(&outcomes)), bytes.len() > 8);
}

fn run_c14(rng: &mut Rng, out: &mut Out, thorough: bool) {
    let mut items = systematic_items(rng, false);
    for _ in 0..(if thorough { 600 } else { 120 }) {
        let max = *rng.pick(&[64usize, 300, 1000, 2500]);
        items.push(random_item(rng, max));
    }
    // wavelet matrices and cores: every truncation point of the small instances
    for it in wm_items(rng, false) {
        items.push(it);
    }
    let limit = if thorough { 3000 } else { 1536 };
    for it in items.iter() {
        if it.size_by() > limit {
            out.stat("c14.skipped_large");
            continue;
        }
        emit_trunc(out, it.as_ref());
        emit_sink(out, it.as_ref(), 0);
        if rng.below(3) == 0 {
            emit_sink(out, it.as_ref(), 1);
        }
    }
    // SparseVector: every truncation point of the small instances
    for sp in sparse_items(rng, false).iter() {
        let it: &dyn Item = &sp.g;
        if it.size_by() > limit {
            out.stat("c14.skipped_large");
            continue;
        }
        emit_trunc_sparse(out, sp);
    }
    run_c14_writers(rng, out, thorough);
    run_c14_files(rng, out, thorough);
}

// ---------------------------------------------------------------- C14: buffered file writers over a failing file
// The real RawVectorWriter / IntVectorWriter on a regular file under RLIMIT_FSIZE (soft limit only, SIGXFSZ ignored,
// in a forked child because the limit is process-wide: the parent keeps writing its own output) and on /dev/full.
// The child sends one line of numbers per case through a pipe (pipes are not subject to the limit).

#[derive(Clone)]
enum WOp {
    Bit(bool),
    Int(u64, usize),
}

#[derive(Clone)]
struct WCase {
    int: bool,
    full: bool,   // /dev/full instead of a limited regular file
    limit: u64,   // bytes
    width: usize, // IntVectorWriter only
    buf: usize,   // bits (raw) or items (int)
    ops: Vec<WOp>,
}

const NOT_CALLED: u64 = 99;

struct WObs {
    created: u64,
    panic: Option<(u64, u64)>,
    close: u64,
    open: bool,
    len: u64,
    file: Vec<u64>,
    tail_bytes: u64,
}

fn errno_of(e: &io::Error) -> u64 {
    match e.raw_os_error() {
        Some(c) => c as u64,
        None => 1000,
    }
}

fn soft_limit() -> libc::rlim_t {
    unsafe {
        let mut r: libc::rlimit = std::mem::zeroed();
        libc::getrlimit(libc::RLIMIT_FSIZE, &mut r);
        r.rlim_cur
    }
}

fn set_soft_limit(l: libc::rlim_t) {
    unsafe {
        let mut r: libc::rlimit = std::mem::zeroed();
        libc::getrlimit(libc::RLIMIT_FSIZE, &mut r);
        r.rlim_cur = l;
        libc::setrlimit(libc::RLIMIT_FSIZE, &r);
    }
}

fn close_code(r: Res<io::Result<()>>) -> u64 {
    match r {
        Res::Ok(Ok(())) => 0,
        Res::Ok(Err(e)) => errno_of(&e),
        Res::Panic(k, _) => 2000 + k,
    }
}

// runs in the child
fn run_session(c: &WCase, path: &std::path::Path, unlimited: libc::rlim_t) -> WObs {
    let target: std::path::PathBuf = if c.full { std::path::PathBuf::from("/dev/full") } else { path.to_path_buf() };
    let mut obs = WObs { created: 0, panic: None, close: NOT_CALLED, open: false, len: 0, file: Vec::new(), tail_bytes: 0 };
    if !c.full {
        set_soft_limit(c.limit as libc::rlim_t);
    }
    if c.int {
        match catch(|| IntVectorWriter::with_buf_len(&target, c.width, c.buf)) {
            Res::Ok(Ok(mut w)) => {
                for (i, op) in c.ops.iter().enumerate() {
                    if let WOp::Int(v, _) = op {
                        if let Res::Panic(k, _) = catch(|| w.push(*v)) {
                            obs.panic = Some((i as u64, k));
                            break;
                        }
                    }
                }
                obs.close = close_code(catch(|| w.close()));
                obs.open = w.is_open();
                obs.len = w.len() as u64;
                let _ = catch(move || drop(w));
            }
            Res::Ok(Err(e)) => obs.created = errno_of(&e),
            Res::Panic(k, _) => obs.created = 2000 + k,
        }
    } else {
        let mut header: Vec<u64> = Vec::new();
        match catch(|| RawVectorWriter::with_buf_len(&target, &mut header, c.buf)) {
            Res::Ok(Ok(mut w)) => {
                for (i, op) in c.ops.iter().enumerate() {
                    let r = match op {
                        WOp::Bit(bit) => catch(|| w.push_bit(*bit)),
                        WOp::Int(v, width) => catch(|| unsafe { w.push_int(*v, *width) }),
                    };
                    if let Res::Panic(k, _) = r {
                        obs.panic = Some((i as u64, k));
                        break;
                    }
                }
                obs.close = close_code(catch(|| w.close()));
                obs.open = w.is_open();
                obs.len = w.len() as u64;
                let _ = catch(move || drop(w));
            }
            Res::Ok(Err(e)) => obs.created = errno_of(&e),
            Res::Panic(k, _) => obs.created = 2000 + k,
        }
    }
    set_soft_limit(unlimited);
    if !c.full {
        match std::fs::read(path) {
            Ok(bytes) => {
                let (elems, tail) = to_elems(&bytes);
                obs.file = elems;
                obs.tail_bytes = tail.len() as u64;
            }
            Err(_) => obs.file = vec![0xBAD1_BAD1_BAD1_BAD1],
        }
        let _ = std::fs::remove_file(path);
    }
    obs
}

fn obs_line(o: &WObs) -> String {
    let mut s = String::new();
    let (pi, pk) = match o.panic {
        Some((i, k)) => (i as i64, k as i64),
        None => (-1, -1),
    };
    let _ = write!(s, "{} {} {} {} {} {} {} {}", o.created, pi, pk, o.close, o.open as u64, o.len, o.tail_bytes, o.file.len());
    for x in o.file.iter() {
        let _ = write!(s, " {}", x);
    }
    s.push('\n');
    s
}

fn parse_obs(line: &str) -> Option<WObs> {
    let v: Vec<&str> = line.split_whitespace().collect();
    if v.len() < 8 {
        return None;
    }
    let pi: i64 = v[1].parse().ok()?;
    let pk: i64 = v[2].parse().ok()?;
    let n: usize = v[7].parse().ok()?;
    if v.len() != 8 + n {
        return None;
    }
    let mut file = Vec::with_capacity(n);
    for x in &v[8..] {
        file.push(x.parse::<u64>().ok()?);
    }
    Some(WObs {
        created: v[0].parse().ok()?,
        panic: if pi >= 0 { Some((pi as u64, pk as u64)) } else { None },
        close: v[3].parse().ok()?,
        open: v[4] == "1",
        len: v[5].parse().ok()?,
        file,
        tail_bytes: v[6].parse().ok()?,
    })
}

// Runs job(i, scratch file i, the unlimited soft limit) for i = 0 .. n-1 in ONE forked child - SIGXFSZ ignored there;
// setting the soft RLIMIT_FSIZE and lifting it again is the job's business - and returns the one line of text each job
// produced (sent through the pipe as soon as the job is done); None = the child did not deliver that job.
fn fork_lines(n: usize, dir: &std::path::Path, tag: &str, job: &dyn Fn(usize, &std::path::Path, libc::rlim_t) -> String) -> Vec<Option<String>> {
    use std::os::unix::io::FromRawFd;
    let mut fds = [0 as libc::c_int; 2];
    if unsafe { libc::pipe(fds.as_mut_ptr()) } != 0 {
        return (0..n).map(|_| None).collect();
    }
    let pid = unsafe { libc::fork() };
    if pid < 0 {
        return (0..n).map(|_| None).collect();
    }
    if pid == 0 {
        // child: never returns, never writes to anything but the test files and the pipe
        unsafe {
            libc::close(fds[0]);
            libc::signal(libc::SIGXFSZ, libc::SIG_IGN);
        }
        let unlimited = soft_limit();
        let me = unsafe { libc::getpid() };
        for i in 0..n {
            let path = dir.join(format!("{}-{}-{}.bin", tag, me, i));
            let mut line = job(i, &path, unlimited).replace('\n', " ");
            line.push('\n');
            let bytes = line.as_bytes();
            let mut off = 0usize;
            while off < bytes.len() {
                let k = unsafe { libc::write(fds[1], bytes[off..].as_ptr() as *const libc::c_void, bytes.len() - off) };
                if k <= 0 {
                    unsafe {
                        libc::_exit(1);
                    }
                }
                off += k as usize;
            }
        }
        unsafe {
            libc::close(fds[1]);
            libc::_exit(0);
        }
    }
    unsafe {
        libc::close(fds[1]);
    }
    let mut text = String::new();
    {
        let mut f = unsafe { std::fs::File::from_raw_fd(fds[0]) };
        let _ = f.read_to_string(&mut text);
    }
    let mut status: libc::c_int = 0;
    unsafe {
        libc::waitpid(pid, &mut status, 0);
    }
    // a line cut short by a dying child does not end in a newline: not delivered
    let complete = if text.ends_with('\n') { text.len() } else { text.rfind('\n').map(|p| p + 1).unwrap_or(0) };
    let mut res: Vec<Option<String>> = text[..complete].lines().map(|l| Some(l.to_string())).collect();
    res.resize_with(n, || None);
    res
}

// one forked child for the whole batch; None = the child did not deliver that case
fn run_batch(cases: &[WCase], dir: &std::path::Path) -> Vec<Option<WObs>> {
    let job = |i: usize, path: &std::path::Path, unlimited: libc::rlim_t| obs_line(&run_session(&cases[i], path, unlimited));
    fork_lines(cases.len(), dir, "c14w", &job).iter().map(|l| l.as_ref().and_then(|s| parse_obs(s))).collect()
}

fn wcase_mem(c: &WCase) -> Vec<u64> {
    let mut bytes: Vec<u8> = Vec::new();
    if c.int {
        let mut v = IntVector::new(c.width).unwrap();
        for op in c.ops.iter() {
            if let WOp::Int(x, _) = op {
                v.push(*x);
            }
        }
        v.serialize(&mut bytes).unwrap();
    } else {
        let mut v = RawVector::new();
        for op in c.ops.iter() {
            match op {
                WOp::Bit(bit) => v.push_bit(*bit),
                WOp::Int(x, w) => unsafe { v.push_int(*x, *w) },
            }
        }
        v.serialize(&mut bytes).unwrap();
    }
    to_elems(&bytes).0
}

fn emit_wcase(out: &mut Out, c: &WCase, o: &Option<WObs>) {
    let mem = wcase_mem(c);
    let lost = WObs { created: 3000, panic: None, close: NOT_CALLED, open: false, len: 0, file: Vec::new(), tail_bytes: 0 };
    let o = match o {
        Some(o) => o,
        None => {
            out.stat("c14w.child_lost_case");
            &lost
        }
    };
    let class = if o.created != 0 {
        "constructor_err"
    } else if o.panic.is_some() {
        "push_panic"
    } else if o.close != 0 {
        "close_err"
    } else {
        "complete"
    };
    out.stat(&format!("c14w.{}.{}", if c.int { "int" } else { "raw" }, class));
    out.stat(if c.full { "c14w.sink.dev_full" } else { "c14w.sink.rlimit_fsize" });
    if !c.full && c.limit % 8 != 0 {
        out.stat("c14w.limit_not_multiple_of_8");
    }
    if o.tail_bytes != 0 {
        out.stat("c14w.file_with_partial_element");
    }
    if class == "complete" && !c.full && c.limit == 8 * mem.len() as u64 {
        out.stat("c14w.complete_at_exact_limit");
    }
    if class != "complete" && o.open {
        out.stat("c14w.left_open_after_close_err");
    }
    let panic = opt(&o.panic, |p| pair(n(p.0), n(p.1)));
    let sk = if c.full { 1 } else { 0 };
    let tail = format!("{} {} {} {} {} {} {}", nlist(&mem), n(o.created), panic, n(o.close), b(o.open), n(o.len), nlist(&o.file));
    let json = format!(
        "{{\"int\":{},\"dev_full\":{},\"limit\":{},\"width\":{},\"buf\":{},\"pushes\":{},\"complete_bytes\":{},\"class\":{:?},\"created\":{},\"panic\":{},\"close\":{},\"open\":{},\"file_elems\":{}}}",
        c.int, c.full, c.limit, c.width, c.buf, c.ops.len(), 8 * mem.len(), class, o.created,
        match o.panic { Some((i, k)) => format!("[{},{}]", i, k), None => "null".to_string() }, o.close, o.open, o.file.len()
    );
    if c.int {
        let xs: Vec<u64> = c.ops.iter().map(|op| if let WOp::Int(x, _) = op { *x } else { 0 }).collect();
        let term = format!("CWInt {} {} {} {} {} {} {}", b(DBG), sk, n(c.limit), c.width, c.buf, nlist(&xs), tail);
        out.case("wint", term, json, !c.ops.is_empty());
    } else {
        let mut ops = String::from("[");
        for (i, op) in c.ops.iter().enumerate() {
            if i > 0 {
                ops.push_str("; ");
            }
            match op {
                WOp::Bit(bit) => {
                    let _ = write!(ops, "WB {}", b(*bit));
                }
                WOp::Int(x, w) => {
                    let _ = write!(ops, "WI {} {}", n(*x), w);
                }
            }
        }
        ops.push(']');
        let term = format!("CWRaw {} {} {} {} {} {}", b(DBG), sk, n(c.limit), c.buf, ops, tail);
        out.case("wraw", term, json, !c.ops.is_empty());
    }
}

// the limits tried for a file whose complete size is `full` bytes
fn wlimits(rng: &mut Rng, full: u64, thorough: bool) -> Vec<u64> {
    let mut all: Vec<u64> = vec![0, 8, 16, 24, 64, 72, 1024, 20, full + 8, full.saturating_sub(3), full.saturating_sub(16)];
    // always: exactly enough, one element short, and a limit in the middle of the data (a flush during the pushes fails)
    let mut pick: Vec<u64> = vec![full, full.saturating_sub(8), full / 16 * 8, full / 32 * 24];
    if thorough {
        pick.append(&mut all);
    } else {
        for _ in 0..3 {
            let k = rng.below(all.len() as u64) as usize;
            pick.push(all.swap_remove(k));
        }
    }
    pick.sort();
    pick.dedup();
    pick
}

fn run_c14_writers(rng: &mut Rng, out: &mut Out, thorough: bool) {
    let dir = std::path::PathBuf::from(std::env::var("VERIF_RUNDIR").unwrap_or_else(|_| std::env::temp_dir().to_string_lossy().to_string()));
    let mut cases: Vec<WCase> = Vec::new();
    // IntVectorWriter: widths x buffer sizes x item counts around the flush points x limits around the complete size
    for &width in [1usize, 7, 13, 32, 64].iter() {
        for &bits in [64usize, 128, 1024].iter() {
            let items = (bits + width - 1) / width;
            let mut counts: Vec<usize> = vec![0, 1, items, 2 * items + 3, (20 * 64 + width - 1) / width + 1];
            if thorough {
                counts.push(items - 1 + (items == 1) as usize);
                counts.push(3 * items);
                counts.push(rng.range(1, 400) as usize);
            }
            for &cnt in counts.iter() {
                let ops: Vec<WOp> = (0..cnt).map(|_| WOp::Int(rng.word(), width)).collect();
                let full = 8 * (4 + (cnt * width + 63) / 64) as u64;
                for limit in wlimits(rng, full, thorough) {
                    cases.push(WCase { int: true, full: false, limit, width, buf: items, ops: ops.clone() });
                }
            }
            let cnt = rng.range(0, 40) as usize;
            let ops: Vec<WOp> = (0..cnt).map(|_| WOp::Int(rng.word(), width)).collect();
            cases.push(WCase { int: true, full: true, limit: 0, width, buf: items, ops });
        }
    }
    // RawVectorWriter: mixed bit and integer pushes
    for &bits in [64usize, 128, 1024].iter() {
        for _ in 0..(if thorough { 24 } else { 6 }) {
            let target_bits = *rng.pick(&[0u64, 10, 64, 200, 640, 1400, 3000]);
            let mut ops: Vec<WOp> = Vec::new();
            let mut total = 0u64;
            while total < target_bits {
                if rng.chance(1, 3) {
                    ops.push(WOp::Bit(rng.chance(1, 2)));
                    total += 1;
                } else {
                    let w = *rng.pick(&[0usize, 1, 7, 13, 32, 63, 64]);
                    ops.push(WOp::Int(rng.word(), w));
                    total += w as u64;
                }
            }
            let full = 8 * (2 + (total + 63) / 64);
            for limit in wlimits(rng, full, thorough) {
                cases.push(WCase { int: false, full: false, limit, width: 0, buf: bits, ops: ops.clone() });
            }
        }
        let ops: Vec<WOp> = (0..rng.range(0, 30)).map(|_| WOp::Int(rng.word(), 13)).collect();
        cases.push(WCase { int: false, full: true, limit: 0, width: 0, buf: bits, ops });
    }
    for chunk in cases.chunks(64) {
        let res = run_batch(chunk, &dir);
        out.stat("c14w.forked_batches");
        for (c, o) in chunk.iter().zip(res.iter()) {
            emit_wcase(out, c, o);
        }
    }
}

// ---------------------------------------------------------------- C14: serialize_to on a failing file
// The REAL serialize::serialize_to(&value, file) - the file handling around Serialize::serialize included: whatever
// buffering it does, whatever it does before it returns - on a regular file under RLIMIT_FSIZE = L (soft limit, SIGXFSZ
// ignored, forked child as above) for a sweep of L, and on /dev/full; then serialize::load_from of the file it left
// behind. Reported per run: what serialize_to returned (Ok / errno / panic), the length of the file afterwards, whether
// the file is the in-memory serialization / a strict prefix of it / something else, and the outcome of load_from.

struct FItem {
    it: Box<dyn Item>,
    desc: String,  // Coq term of type fval
    label: String, // for the replay file
}

fn fitem(it: Box<dyn Item>, label: &str) -> FItem {
    let desc = if is_w(it.as_ref()) { format!("(FW {} {})", it.ty(), it.recipe()) } else { format!("(FT {} {})", it.ty(), it.recipe()) };
    FItem { it, desc, label: label.to_string() }
}

fn fitem_sparse(sp: SpItem, label: &str) -> FItem {
    let desc = format!("(FS {} {} {} {})", sp.w, nu(sp.len), b(sp.multi), ulist(&sp.vals));
    FItem { it: Box::new(sp.g), desc, label: label.to_string() }
}

fn rand_vals(rng: &mut Rng, len: usize, width: u64) -> Vec<u64> {
    (0..len).map(|_| rng.below(1u64 << width)).collect()
}

// small values of every type: every limit below the size is tried
fn file_items_small(rng: &mut Rng, thorough: bool) -> Vec<FItem> {
    let mut v: Vec<FItem> = Vec::new();
    v.push(fitem(Box::new(g_u64(rng)), "u64"));
    v.push(fitem(Box::new(g_usize(rng)), "usize"));
    v.push(fitem(Box::new(g_pair(rng)), "(u64, u64)"));
    for n in [0usize, 1, 2, 7, 40, 120] {
        v.push(fitem(Box::new(g_vec_u64(rng, n)), "Vec<u64>"));
    }
    for n in [1usize, 3, 30] {
        v.push(fitem(Box::new(g_vec_pair(rng, n)), "Vec<(u64, u64)>"));
    }
    for n in [0usize, 1, 7, 8, 9, 100, 777] {
        v.push(fitem(Box::new(g_bytes(rng, n)), "Vec<u8>"));
    }
    for n in [0usize, 1, 5, 8, 60, 300] {
        v.push(fitem(Box::new(g_string(rng, n)), "String"));
    }
    for n in [0usize, 1, 64, 65, 1000, 5000] {
        v.push(fitem(Box::new(g_raw(rng, n)), "RawVector"));
    }
    for (n, w) in [(0usize, 1usize), (1, 64), (5, 13), (64, 7), (100, 33), (200, 64)] {
        v.push(fitem(Box::new(g_int(rng, n, w)), "IntVector"));
    }
    for n in [1usize, 513, 4097] {
        v.push(fitem(Box::new(g_rank(rng, n)), "RankSupport"));
        v.push(fitem(Box::new(g_sel_id(rng, n)), "SelectSupport<Identity>"));
        v.push(fitem(Box::new(g_sel_co(rng, n)), "SelectSupport<Complement>"));
    }
    // bit vectors with every subset of supports
    for n in [1usize, 65, 513] {
        let bits = bits_for(rng, n);
        for s in 0..8u64 {
            v.push(fitem(Box::new(g_bv_bits(&bits, s)), "BitVector"));
        }
    }
    v.push(fitem(Box::new(g_bv(rng, 4097, 7)), "BitVector"));
    v.push(fitem(Box::new(g_bv(rng, 4097, 5)), "BitVector"));
    // optionals
    v.push(fitem(Box::new(none::<u64>("TU64")), "Option<u64>"));
    v.push(fitem(Box::new(some(g_u64(rng))), "Option<u64>"));
    v.push(fitem(Box::new(some(none::<String>("TString"))), "Option<Option<String>>"));
    v.push(fitem(Box::new(some(some(g_string(rng, 5)))), "Option<Option<String>>"));
    v.push(fitem(Box::new(some(some(some(g_bytes(rng, 9))))), "Option<Option<Option<Vec<u8>>>>"));
    v.push(fitem(Box::new(none::<BitVector>("TBitVec")), "Option<BitVector>"));
    v.push(fitem(Box::new(some(g_bv(rng, 600, 5))), "Option<BitVector>"));
    v.push(fitem(Box::new(some(g_int(rng, 5, 13))), "Option<IntVector>"));
    v.push(fitem(Box::new(some(g_vec_u64(rng, 50))), "Option<Vec<u64>>"));
    v.push(fitem(Box::new(some(g_rl(rng, 20, 1, 3))), "Option<RLVector>"));
    // run-length vectors
    for (n, p, t) in [(0usize, 0u64, 0usize), (1, 0, 1), (16, 0, 0), (17, 1, 2), (65, 1, 3), (40, 2, 1)] {
        v.push(fitem(Box::new(g_rl(rng, n, p, t)), "RLVector"));
    }
    // wavelet matrices and cores
    let mut lists: Vec<Vec<u64>> = vec![vec![], vec![0], vec![1, 0, 3, 1, 1, 2, 4, 5, 1, 2, 1, 7, 0, 1], vec![4096, 0, 4096, 1, 2048]];
    for (len, w) in [(65usize, 2u64), (40, 3), (200, 3), (100, 8)] {
        lists.push(rand_vals(rng, len, w));
    }
    for (i, vals) in lists.iter().enumerate() {
        v.push(fitem(Box::new(g_wm(vals)), "WaveletMatrix"));
        if i % 2 == 0 {
            v.push(fitem(Box::new(g_wmcore(vals)), "WMCore"));
        }
    }
    // sparse vectors: sets and multisets, tiny and huge universes
    for (len, count, multi, profile) in [(0usize, 0usize, false, 0u64), (70, 0, false, 0), (70, 70, false, 0), (137, 7, false, 0), (1000, 33, false, 1),
        (5000, 33, false, 0), (1usize << 40, 3, false, 0), (usize::MAX, 40, false, 0), (300, 400, true, 0), (1usize << 40, 9, true, 1)] {
        v.push(fitem_sparse(g_sparse(rng, len, count, multi, profile), "SparseVector"));
    }
    if thorough {
        for _ in 0..150 {
            let max = *rng.pick(&[64usize, 300, 1000, 3000]);
            v.push(fitem(random_item(rng, max), "random"));
        }
    }
    v
}

// larger values: serializations around and beyond 8 KiB and 16 KiB - one big slice (a buffering layer passes such a
// write straight through), one big slice behind a header that just fills / does not fill a buffer, structures made of
// many small items, structures whose last parts are small; a sample of limits
fn file_items_large(rng: &mut Rng, thorough: bool) -> Vec<FItem> {
    let mut v: Vec<FItem> = Vec::new();
    for n in [1020usize, 1022, 1023, 1024, 1025, 2047, 2048, 3000] {
        v.push(fitem(Box::new(g_vec_u64(rng, n)), "Vec<u64>"));
    }
    v.push(fitem(Box::new(g_vec_pair(rng, 1500)), "Vec<(u64, u64)>"));
    for n in [8183usize, 8184, 8185, 8192, 8200, 20000] {
        v.push(fitem(Box::new(g_bytes(rng, n)), "Vec<u8>"));
    }
    for n in [2000usize, 3000] {
        v.push(fitem(Box::new(g_string(rng, n)), "String"));
    }
    for n in [65471usize, 65536, 65600, 140000] {
        v.push(fitem(Box::new(g_raw(rng, n)), "RawVector"));
    }
    for (n, w) in [(1023usize, 64usize), (1024, 64), (1025, 64), (3000, 64), (3000, 13), (3000, 33)] {
        v.push(fitem(Box::new(g_int(rng, n, w)), "IntVector"));
    }
    for style in [Style::Ones, Style::Half] {
        let bits = gen_bits(rng, 8200, style);
        v.push(fitem(Box::new(g_bv_bits(&bits, 7)), "BitVector"));
    }
    v.push(fitem(Box::new(g_bv(rng, 30000, 7)), "BitVector"));
    v.push(fitem(Box::new(g_bv(rng, 66000, 7)), "BitVector"));
    v.push(fitem(Box::new(g_bv(rng, 70000, 1)), "BitVector"));
    v.push(fitem(Box::new(g_bv(rng, 140000, 6)), "BitVector"));
    v.push(fitem(Box::new(some(g_bv(rng, 66000, 3))), "Option<BitVector>"));
    v.push(fitem(Box::new(some(g_vec_u64(rng, 1100))), "Option<Vec<u64>>"));
    v.push(fitem(Box::new(some(g_int(rng, 3000, 40))), "Option<IntVector>"));
    for (n, p, t) in [(1000usize, 1u64, 1usize), (3000, 0, 0), (3000, 1, 3)] {
        v.push(fitem(Box::new(g_rl(rng, n, p, t)), "RLVector"));
    }
    for (len, w) in [(3000usize, 3u64), (2000, 8), (3000, 12)] {
        let vals = rand_vals(rng, len, w);
        v.push(fitem(Box::new(g_wm(&vals)), "WaveletMatrix"));
        if w == 12 {
            v.push(fitem(Box::new(g_wmcore(&vals)), "WMCore"));
        }
    }
    for (len, count, multi) in [(1usize << 20, 3000usize, false), (1usize << 40, 3000, false), (5000, 2500, false), (50000, 3000, true)] {
        v.push(fitem_sparse(g_sparse(rng, len, count, multi, 0), "SparseVector"));
    }
    if thorough {
        for _ in 0..40 {
            let n = 900 + rng.below(2200) as usize;
            match rng.below(5) {
                0 => v.push(fitem(Box::new(g_vec_u64(rng, n)), "Vec<u64>")),
                1 => { let w = *rng.pick(&WIDTHS); v.push(fitem(Box::new(g_int(rng, n, w)), "IntVector")) }
                2 => { let s = rng.below(8); v.push(fitem(Box::new(g_bv(rng, 24 * n, s)), "BitVector")) }
                3 => { let p = rng.below(3); v.push(fitem(Box::new(g_rl(rng, n, p, 1)), "RLVector")) }
                _ => { let w = 1 + rng.below(10); let vals = rand_vals(rng, n, w); v.push(fitem(Box::new(g_wm(&vals)), "WaveletMatrix")) }
            }
        }
    }
    v
}

// the limits tried for a serialization of `size` bytes
fn flimits(rng: &mut Rng, size: u64, sweep_max: u64, thorough: bool) -> Vec<u64> {
    let mut l: Vec<u64> = Vec::new();
    if size <= sweep_max {
        // every multiple of 8 below the size, limits inside an element, and limits that suffice
        let mut x = 0;
        while x < size {
            l.push(x);
            x += 8;
        }
        l.extend_from_slice(&[1, 5, 12, size.saturating_sub(1), size.saturating_sub(3), (size / 2) | 1]);
    } else {
        l.extend_from_slice(&[0, 8, 16, 24, 4096, 8184, 8192, 8200, 8208, 16384, 16392, size / 16 * 8, size / 32 * 24]);
        for d in [8u64, 16, 24, 32, 64, 1024, 4096, 8184, 8192, 8200, 8208, 16384, 1, 5] {
            l.push(size.saturating_sub(d));
        }
        for _ in 0..(if thorough { 24 } else { 4 }) {
            l.push(rng.below(size / 8) * 8);
        }
        l.push(rng.below(size));
    }
    l.extend_from_slice(&[size, size + 8, size + 1, 2 * size + 8192]);
    l.sort();
    l.dedup();
    l
}

#[derive(Clone, Copy)]
struct FRun {
    item: usize,
    full: bool,
    limit: u64,
}

const NO_LOAD: u64 = 99;

// runs in the child: "rc flen class load"
fn file_job(it: &dyn Item, bytes: &[u8], r: &FRun, path: &std::path::Path, unlimited: libc::rlim_t) -> String {
    let target: std::path::PathBuf = if r.full { std::path::PathBuf::from("/dev/full") } else { path.to_path_buf() };
    let _ = std::fs::remove_file(path);
    if !r.full {
        set_soft_limit(r.limit as libc::rlim_t);
    }
    let res = catch(|| it.ser_to(&target));
    set_soft_limit(unlimited);
    let rc = match res {
        Res::Ok(Ok(())) => 0,
        Res::Ok(Err(e)) => errno_of(&e),
        Res::Panic(k, _) => 2000 + k,
    };
    let (mut flen, mut class, mut load) = (0u64, 1u64, NO_LOAD);
    if !r.full {
        // a file that does not exist holds nothing: the empty prefix
        let content = std::fs::read(path).unwrap_or_default();
        flen = content.len() as u64;
        class = if content[..] == bytes[..] {
            0
        } else if content.len() < bytes.len() && content[..] == bytes[..content.len()] {
            1
        } else {
            2
        };
        load = match catch(|| it.load_from_cmp(path)) {
            Res::Ok(Ok((eq, ans))) => if eq && ans { 0 } else { 5 },
            Res::Ok(Err(e)) => err_code(&e),
            Res::Panic(k, _) => 10 + k,
        };
        let _ = std::fs::remove_file(path);
    }
    format!("{} {} {} {}", rc, flen, class, load)
}

fn size_class(size: usize) -> &'static str {
    if size <= 1024 { "le_1KiB" } else if size < 8192 { "lt_8KiB" } else if size <= 16384 { "8_to_16KiB" } else { "gt_16KiB" }
}

fn run_c14_files(rng: &mut Rng, out: &mut Out, thorough: bool) {
    let dir = std::path::PathBuf::from(std::env::var("VERIF_RUNDIR").unwrap_or_else(|_| std::env::temp_dir().to_string_lossy().to_string()));
    let sweep_max: u64 = if thorough { 4096 } else { 2048 };
    let mut items = file_items_small(rng, thorough);
    items.append(&mut file_items_large(rng, thorough));
    let bytes: Vec<Vec<u8>> = items.iter().map(|f| serialize_item(f.it.as_ref())).collect();
    let mut runs: Vec<FRun> = Vec::new();
    for (i, bs) in bytes.iter().enumerate() {
        for limit in flimits(rng, bs.len() as u64, sweep_max, thorough) {
            runs.push(FRun { item: i, full: false, limit });
        }
        runs.push(FRun { item: i, full: true, limit: 0 });
    }
    // observations, in the order of `runs`
    let mut obs: Vec<Option<[u64; 4]>> = Vec::with_capacity(runs.len());
    for chunk in runs.chunks(1024) {
        let job = |k: usize, path: &std::path::Path, unlimited: libc::rlim_t| {
            let r = &chunk[k];
            file_job(items[r.item].it.as_ref(), &bytes[r.item], r, path, unlimited)
        };
        out.stat("c14f.forked_batches");
        for line in fork_lines(chunk.len(), &dir, "c14f", &job) {
            obs.push(line.and_then(|l| {
                let v: Vec<u64> = l.split_whitespace().filter_map(|x| x.parse().ok()).collect();
                if v.len() == 4 { Some([v[0], v[1], v[2], v[3]]) } else { None }
            }));
        }
    }
    let mut k = 0usize;
    for (i, f) in items.iter().enumerate() {
        let bs = &bytes[i];
        let size = bs.len();
        let (elems, tail) = to_elems(bs);
        let mut term_runs = String::from("[");
        let mut json_runs = String::from("[");
        let mut unreported: Vec<String> = Vec::new();
        let mut first = true;
        while k < runs.len() && runs[k].item == i {
            let r = runs[k];
            let o = match obs[k] {
                Some(o) => o,
                None => {
                    out.stat("c14f.child_lost_run");
                    [3000, 0, 2, NO_LOAD]
                }
            };
            k += 1;
            let fits = !r.full && r.limit >= size as u64;
            out.stat("c14f.runs");
            out.stat(if r.full { "c14f.sink.dev_full" } else if fits { "c14f.sink.rlimit_fsize.fits" } else { "c14f.sink.rlimit_fsize.too_small" });
            out.stat(&match o[0] { 0 => "c14f.result.ok".to_string(), 27 => "c14f.result.EFBIG".to_string(), 28 => "c14f.result.ENOSPC".to_string(), x => format!("c14f.result.other_{}", x) });
            if !r.full && r.limit % 8 != 0 {
                out.stat("c14f.limit_not_multiple_of_8");
            }
            if !r.full && !fits {
                out.stat(&format!("c14f.load_from_after_failure.code_{}", o[3]));
                if o[1] == r.limit {
                    out.stat("c14f.failed.file_holds_exactly_limit_bytes");
                }
                if size as u64 - r.limit <= 8192 {
                    out.stat("c14f.failed.limit_within_last_8KiB");
                }
            }
            if o[0] == 0 && o[2] != 0 {
                out.stat("c14f.ok_returned_but_file_incomplete");
                unreported.push(if r.full { "\"/dev/full\"".to_string() } else { format!("{}", r.limit) });
            }
            if !first {
                term_runs.push_str("; ");
                json_runs.push(',');
            }
            first = false;
            let _ = write!(term_runs, "({}, {}, {}, {}, {}, {})", r.full as u64, n(r.limit), o[0], o[1], o[2], o[3]);
            let _ = write!(json_runs, "[{},{},{},{},{},{}]", r.full as u64, r.limit, o[0], o[1], o[2], o[3]);
        }
        term_runs.push(']');
        json_runs.push(']');
        out.stat(&format!("c14f.type.{}", f.it.ty().replace(|c: char| !c.is_alphanumeric(), "")));
        out.stat(&format!("c14f.size.{}", size_class(size)));
        out.stat(if size as u64 <= sweep_max { "c14f.limits.every_multiple_of_8" } else { "c14f.limits.sampled" });
        let term = format!("CFile {} {} {} {} {} {} {}", PATH, b(DBG), f.desc, nlist(&elems), blist8(&tail), f.it.size_by(), term_runs);
        let json = format!(
            "{{\"call\":\"serialize::serialize_to(&value, file) under RLIMIT_FSIZE = limit (soft, SIGXFSZ ignored) or on /dev/full, then serialize::load_from(file)\",\"value\":{:?},\"ty\":{:?},\"size_in_bytes\":{},\"ok_returned_but_file_incomplete_at_limits\":[{}],\"runs_dev_full_limit_result_filelen_contentclass_load\":{}}}",
            f.label, f.it.ty(), size, unreported.join(","), json_runs
        );
        out.case("file", term, json, size > 8);
    }
}

// ---------------------------------------------------------------- C19

// the fully enabled vector against the bits themselves (same_answers only compares two values of the library):
// select / select_zero at the sampled ranks and at every multiple of 1000 (so that every superblock is entered at
// an offset other than 0), rank at the sampled positions
fn true_answers(full: &BitVector, bits: &[bool]) -> bool {
    let ones: Vec<usize> = (0..bits.len()).filter(|i| bits[*i]).collect();
    let zeros: Vec<usize> = (0..bits.len()).filter(|i| !bits[*i]).collect();
    let mut ok = full.len() == bits.len() && full.count_ones() == ones.len();
    let sample = |n: usize| -> Vec<usize> {
        let mut v = positions(n);
        v.extend((0..n).step_by(1000).map(|r| r + 7).filter(|r| *r < n));
        v
    };
    for r in sample(ones.len()) {
        ok &= matches!(catch(|| full.select(r)), Res::Ok(Some(x)) if x == ones[r]);
    }
    for r in sample(zeros.len()) {
        ok &= matches!(catch(|| full.select_zero(r)), Res::Ok(Some(x)) if x == zeros[r]);
    }
    for p in positions(bits.len()) {
        ok &= matches!(catch(|| full.rank(p)), Res::Ok(x) if x == ones.partition_point(|y| *y < p));
    }
    ok
}

fn emit_supp(out: &mut Out, rng: &mut Rng, bits: &[bool], subset: u64, kind: &str) {
    let mut rng2 = rng.clone();
    rng.next();
    let r = catch(|| {
        let mut tmp = Out::collector("C19");
        emit_supp_inner(&mut tmp, &mut rng2, bits, subset, kind);
        tmp
    });
    match r {
        Res::Ok(tmp) => out.absorb(tmp),
        Res::Panic(k, msg) => {
            let (_, words) = raw_from_bits(bits);
            out.case("crash", format!("CCrash {} {} {}", bits.len(), nlist(&words), k),
                format!("{{\"len\":{},\"kind\":\"{}\",\"subset\":{},\"panic\":{:?},\"words\":{:?}}}", bits.len(), kind, subset, msg,
                    if words.len() <= 64 { words.clone() } else { words[..64].to_vec() }), true);
        }
    }
}

fn emit_supp_inner(out: &mut Out, rng: &mut Rng, bits: &[bool], subset: u64, kind: &str) {
    let (raw, words) = raw_from_bits(bits);
    let base = BitVector::from(raw);
    let mut full = base.clone();
    enable_subset(&mut full, 7);
    let mut bs = base.clone();
    // enable the subset in a random order
    let mut order: Vec<u64> = (0..3).filter(|i| subset & (1 << i) != 0).collect();
    for i in (1..order.len()).rev() {
        order.swap(i, rng.below(i as u64 + 1) as usize);
    }
    for op in order.iter() {
        enable_subset(&mut bs, 1 << op);
    }
    let mut answers = same_answers(&bs, &full) && true_answers(&full, bits);
    let bytes_s = serialize_elems(&bs);
    let mut cur = BitVector::load(&mut &from_elems(&bytes_s)[..]).unwrap();
    let flags = flags_of(&cur);
    answers &= same_answers(&cur, &full) && cur == bs;
    // ops: usually everything missing (random order) mixed with repeats and round trips; sometimes an incomplete run
    let mut ops: Vec<u64> = (0..3).filter(|i| subset & (1 << i) == 0).collect();
    if rng.below(4) == 0 && !ops.is_empty() {
        ops.pop();
    }
    for _ in 0..rng.below(4) {
        ops.push(rng.below(4));
    }
    for i in (1..ops.len()).rev() {
        ops.swap(i, rng.below(i as u64 + 1) as usize);
    }
    let mut idem = true;
    for op in ops.iter() {
        if *op == 3 {
            let e = serialize_elems(&cur);
            let l = BitVector::load(&mut &from_elems(&e)[..]).unwrap();
            idem &= l == cur;
            cur = l;
        } else {
            let had = flags_of(&cur) & (1 << op) != 0;
            let before = if had { Some(cur.clone()) } else { None };
            enable_subset(&mut cur, 1 << op);
            if let Some(bf) = before {
                idem &= bf == cur;
            }
        }
        answers &= same_answers(&cur, &full);
    }
    let flags_end = flags_of(&cur);
    let elems_end = serialize_elems(&cur);
    let eq_full = cur == full && elems_end == serialize_elems(&full);
    let term = format!("CSupp {} {} {} {} {} {} {} {} {} {} {} {} {}", PATH, b(DBG), bits.len(), nlist(&words), subset, nlist(&bytes_s), flags,
        nlist(&ops), flags_end, nlist(&elems_end), b(eq_full), b(idem), b(answers));
    out.stat(&format!("c19.subset.{}", subset));
    out.stat(&format!("c19.end.{}", flags_end));
    out.case(kind, term, format!("{{\"len\":{},\"subset\":{},\"ops\":{:?},\"flags\":{},\"flags_end\":{},\"eq_full\":{}}}", bits.len(), subset, ops, flags, flags_end, eq_full), bits.len() > 0);
}

fn emit_skip(out: &mut Out, elems: &[u64], what: &str) {
    let bytes = from_elems(elems);
    // the reader hands out the bytes in pieces of a size that depends on the stream (0 = as many as asked for)
    let mut reader = CountingReader::new(&bytes, [0usize, 3, 8, 100, 4096][elems.len() % 5]);
    let r = catch(|| serialize::skip_option(&mut reader));
    let oc = outcome(&r);
    let pos = reader.pos;
    let next = match u64::load(&mut reader) {
        Ok(x) => x,
        Err(_) => 0,
    };
    let term = format!("CSkip {} {} {} {} {}", b(DBG), nlist(elems), oc, pos, next);
    out.stat(&format!("c19.skip.{}", what));
    out.case("skip", term, format!("{{\"what\":{:?},\"declared\":{},\"outcome\":{},\"pos\":{},\"next\":{}}}", what, elems[0], oc, pos, next), elems[0] > 0);
}

// the bit columns of the levels of WMCore::from(vals): bit (width - 1 - level) of every item, then the stable partition
fn wm_columns(vals: &[u64], width: usize) -> Vec<Vec<bool>> {
    let mut src = vals.to_vec();
    let mut cols = Vec::new();
    for level in 0..width {
        let bit = 1u64 << (width - 1 - level);
        cols.push(src.iter().map(|v| v & bit != 0).collect::<Vec<bool>>());
        let zeros: Vec<u64> = src.iter().cloned().filter(|v| v & bit == 0).collect();
        let ones: Vec<u64> = src.iter().cloned().filter(|v| v & bit != 0).collect();
        src = zeros;
        src.extend(ones);
    }
    cols
}

// a WMCore / WaveletMatrix file written by hand from the format's rules with every level carrying only the supports
// of `subset` (0: none), loaded by the crate and compared with the natively built structure
fn emit_strip(out: &mut Out, rng: &mut Rng, vals: &[u64], matrix: bool, subset: u64) {
    let core = WMCore::from(vals.to_vec());
    let wm = WaveletMatrix::from(vals.to_vec());
    let width = core.width();
    let mut elems: Vec<u64> = Vec::new();
    if matrix {
        elems.push(vals.len() as u64);
    }
    elems.push(width as u64);
    for col in wm_columns(vals, width).iter() {
        let (raw, _) = raw_from_bits(col);
        let mut bv = BitVector::from(raw);
        enable_subset(&mut bv, subset);
        elems.extend_from_slice(&serialize_elems(&bv));
    }
    if matrix {
        let native = serialize_elems_of(&wm);
        let first_start = 1 + core.size_in_elements();
        elems.extend_from_slice(&native[first_start..]);
    }
    let extra: Vec<u8> = (0..rng.below(10)).map(|_| rng.below(256) as u8).collect();
    let mut stream = from_elems(&elems);
    stream.extend_from_slice(&extra);
    let mut reader = CountingReader::new(&stream, *rng.pick(&[0usize, 0, 3, 8]));
    let values = wm_probe_values(vals);
    let (eq, ans) = if matrix {
        match catch(|| WaveletMatrix::load(&mut reader)) {
            Res::Ok(Ok(x)) => (x == wm, same_wm(&x, &wm, &values)),
            _ => (false, false),
        }
    } else {
        match catch(|| WMCore::load(&mut reader)) {
            Res::Ok(Ok(x)) => (x == core, same_core(&x, &core, &values)),
            _ => (false, false),
        }
    };
    let term = format!("CStripW {} {} {} {} {} {} {} {} {} {}", PATH, b(DBG), if matrix { "WMat" } else { "WCore" }, nlist(vals), subset,
        nlist(&elems), blist8(&extra), reader.pos, b(eq), b(ans));
    out.stat(&format!("c19.strip.{}", subset));
    out.case("strip", term, format!("{{\"values\":{:?},\"matrix\":{},\"subset\":{},\"eq\":{},\"answers\":{}}}", &vals[..std::cmp::min(vals.len(), 40)], matrix, subset, eq, ans), !vals.is_empty());
    // the same file as the payload of an optional structure: Option<T>::load
    if !elems.is_empty() {
        let mut welems: Vec<u64> = vec![elems.len() as u64];
        welems.extend_from_slice(&elems);
        let mut stream = from_elems(&welems);
        stream.extend_from_slice(&extra);
        let mut reader = CountingReader::new(&stream, *rng.pick(&[0usize, 0, 3, 8]));
        let (eq, ans) = if matrix {
            match catch(|| Option::<WaveletMatrix>::load(&mut reader)) {
                Res::Ok(Ok(Some(x))) => (x == wm, same_wm(&x, &wm, &values)),
                _ => (false, false),
            }
        } else {
            match catch(|| Option::<WMCore>::load(&mut reader)) {
                Res::Ok(Ok(Some(x))) => (x == core, same_core(&x, &core, &values)),
                _ => (false, false),
            }
        };
        let term = format!("CStripWO {} {} {} {} {} {} {} {} {} {}", PATH, b(DBG), if matrix { "WMat" } else { "WCore" }, nlist(vals), subset,
            nlist(&welems), blist8(&extra), reader.pos, b(eq), b(ans));
        out.stat(&format!("c19.strip_in_option.{}", subset));
        out.case("strip_option", term, format!("{{\"values\":{:?},\"matrix\":{},\"subset\":{},\"option\":true,\"eq\":{},\"answers\":{}}}", &vals[..std::cmp::min(vals.len(), 40)], matrix, subset, eq, ans), !vals.is_empty());
    }
}

// a SparseVector file whose embedded high bitvector carries only the select / select_zero supports of `subset`
fn emit_strip_sparse(out: &mut Out, rng: &mut Rng, it: &SpItem, subset: u64) {
    let native = serialize_elems_of(&it.g.v);
    // [len] ++ bitvector ++ intvector: find where the bitvector ends by loading it
    let body = from_elems(&native[1..]);
    let mut reader = CountingReader::new(&body, 0);
    let high = match catch(|| BitVector::load(&mut reader)) {
        Res::Ok(Ok(x)) => x,
        _ => {
            out.case("crash", format!("CCrash 0 [] 0"), "{\"what\":\"the embedded bitvector of a native SparseVector file did not load\"}".to_string(), true);
            return;
        }
    };
    let high_end = 1 + reader.pos / 8;
    let mut stripped = BitVector::from(RawVector::from(high));
    enable_subset(&mut stripped, subset & 6);
    let mut elems: Vec<u64> = vec![native[0]];
    elems.extend_from_slice(&serialize_elems(&stripped));
    elems.extend_from_slice(&native[high_end..]);
    let extra: Vec<u8> = (0..rng.below(10)).map(|_| rng.below(256) as u8).collect();
    let mut stream = from_elems(&elems);
    stream.extend_from_slice(&extra);
    let mut reader = CountingReader::new(&stream, *rng.pick(&[0usize, 0, 3, 8]));
    let (eq, ans) = match catch(|| SparseVector::load(&mut reader).map(|x| (x == it.g.v, catch(|| (it.g.answers)(&x, &it.g.v))))) {
        Res::Ok(Ok((e, Res::Ok(a)))) => (e, a),
        _ => (false, false),
    };
    let term = format!("CStripS {} {} {} {} {} {} {}", sp_head(it), subset & 6, nlist(&elems), blist8(&extra), reader.pos, b(eq), b(ans));
    out.stat(&format!("c19.strip_sparse.{}", subset & 6));
    out.case("strip_sparse", term, format!("{{\"len\":{},\"multi\":{},\"values\":{:?},\"subset\":{},\"eq\":{},\"answers\":{}}}",
        it.len, it.multi, &it.vals[..std::cmp::min(it.vals.len(), 40)], subset & 6, eq, ans), !it.vals.is_empty());
    // the same file as the payload of an optional structure
    let mut welems: Vec<u64> = vec![elems.len() as u64];
    welems.extend_from_slice(&elems);
    let mut stream = from_elems(&welems);
    stream.extend_from_slice(&extra);
    let mut reader = CountingReader::new(&stream, *rng.pick(&[0usize, 0, 3, 8]));
    let (eq, ans) = match catch(|| Option::<SparseVector>::load(&mut reader).map(|x| match x {
        Some(x) => (x == it.g.v, catch(|| (it.g.answers)(&x, &it.g.v))),
        None => (false, Res::Ok(false)),
    })) {
        Res::Ok(Ok((e, Res::Ok(a)))) => (e, a),
        _ => (false, false),
    };
    let term = format!("CStripSO {} {} {} {} {} {} {}", sp_head(it), subset & 6, nlist(&welems), blist8(&extra), reader.pos, b(eq), b(ans));
    out.stat(&format!("c19.strip_sparse_in_option.{}", subset & 6));
    out.case("strip_sparse_option", term, format!("{{\"len\":{},\"multi\":{},\"values\":{:?},\"subset\":{},\"option\":true,\"eq\":{},\"answers\":{}}}",
        it.len, it.multi, &it.vals[..std::cmp::min(it.vals.len(), 40)], subset & 6, eq, ans), !it.vals.is_empty());
}

fn run_c19(rng: &mut Rng, out: &mut Out, thorough: bool) {
    let lens: Vec<usize> = if thorough {
        vec![0, 1, 2, 63, 64, 65, 200, 511, 512, 513, 1024, 2000, 4095, 4096, 4097, 8192, 12000]
    } else {
        vec![0, 1, 64, 65, 512, 513, 2000, 4097, 9000]
    };
    let reps = if thorough { 2 } else { 1 };
    for len in lens.iter() {
        for _ in 0..reps {
            let bits = bits_for(rng, *len);
            for subset in 0..8u64 {
                emit_supp(out, rng, &bits, subset, "subsets");
                emit_supp(out, rng, &bits, subset, "subsets");
            }
        }
    }
    for _ in 0..(if thorough { 400 } else { 100 }) {
        let len = small_len(rng, 6000);
        let bits = bits_for(rng, len);
        let subset = rng.below(8);
        emit_supp(out, rng, &bits, subset, "random");
    }
    // long select superblocks (len >= 17^4): one sparse and one dense vector
    for dense in [false, true] {
        let len = 83521 + rng.below(3000) as usize;
        let mut bits = vec![dense; len];
        for _ in 0..(5 + rng.below(40)) {
            bits[rng.below(len as u64) as usize] = !dense;
        }
        for subset in [0u64, 3, 5, 6] {
            emit_supp(out, rng, &bits, subset, "long");
        }
    }
    // a long superblock that is not the first thing in its structure: 4096+ densely packed ones (a short superblock)
    // followed by a few ones spread over more than bit_len(len)^4 positions; the same for the unset bits; and
    // (thorough) two long superblocks in a row
    for dense in [true, false] {
        let len = 89000 + rng.below(3000) as usize;
        let mut bits = vec![!dense; len];
        let head = 4100 + rng.below(300) as usize;
        for i in 0..head {
            bits[i] = dense;
        }
        for _ in 0..60 {
            bits[rng.below(head as u64) as usize] = !dense;
        }
        for _ in 0..(3 + rng.below(30)) {
            bits[head + rng.below((len - head) as u64) as usize] = dense;
        }
        for subset in [2u64, 4, 7] {
            emit_supp(out, rng, &bits, subset, "long_after_short");
        }
    }
    if thorough || std::env::var("VERIF_ESCALATED").is_ok() {
        let len = 240000 + rng.below(20000) as usize;
        let mut bits = vec![false; len];
        for _ in 0..9500 {
            bits[rng.below(len as u64) as usize] = true;
        }
        emit_supp(out, rng, &bits, 2, "long_long");
    }
    // skip_option over optionals of every kind, followed by a sentinel and some more elements
    for _ in 0..(if thorough { 2000 } else { 400 }) {
        let max = *rng.pick(&[64usize, 300, 1000]);
        let mut it = random_item(rng, max);
        let mut guard = 0;
        while !it.is_option() && guard < 50 {
            it = random_item(rng, max);
            guard += 1;
        }
        if !it.is_option() {
            continue;
        }
        let bytes = serialize_item(it.as_ref());
        let (mut elems, _) = to_elems(&bytes);
        let sentinel = rng.next() | 1;
        elems.push(sentinel);
        for _ in 0..rng.below(3) {
            elems.push(rng.next());
        }
        emit_skip(out, &elems, "typed");
    }
    // an optional of unknown content: declared size, that many arbitrary elements, sentinel
    for _ in 0..(if thorough { 1000 } else { 200 }) {
        let n = match rng.below(4) {
            0 => 0,
            1 => 1,
            _ => rng.below(300),
        };
        let mut elems = vec![n];
        for _ in 0..n {
            elems.push(interesting(rng));
        }
        elems.push(rng.next() | 1);
        for _ in 0..rng.below(3) {
            elems.push(rng.next());
        }
        emit_skip(out, &elems, "opaque");
    }
    // wavelet matrices / cores from files whose levels carry no (or only some) support structures
    for vals in wm_value_lists(rng, thorough) {
        for subset in [0u64, 0, rng.below(8), 7] {
            let matrix = rng.below(3) != 0;
            emit_strip(out, rng, &vals, matrix, subset);
        }
    }
    // sparse vectors from files whose high part carries no (or only one of the two) select structures
    for it in sparse_items(rng, thorough).iter() {
        for subset in [0u64, 2, 4] {
            if subset != 0 && !thorough && rng.chance(1, 2) {
                continue;
            }
            emit_strip_sparse(out, rng, it, subset);
        }
    }
    // absent_option writes exactly one zero element
    let mut buf: Vec<u8> = Vec::new();
    serialize::absent_option(&mut buf).unwrap();
    let (mut elems, _) = to_elems(&buf);
    out.stat_n("c19.absent_option_size", serialize::absent_option_size() as u64);
    if elems.len() == serialize::absent_option_size() {
        elems.push(0xDEADBEEF);
        emit_skip(out, &elems, "absent");
    } else {
        // a wrong size shows up as a failing case
        out.case("skip", format!("CSkip {} {} 99 0 0", b(DBG), nlist(&elems)), "{\"what\":\"absent_option size\"}".to_string(), true);
    }
}

pub fn run(prop: &str, rng: &mut Rng, out: &mut Out, thorough: bool) {
    match prop {
        "C06" => run_c06(rng, out, thorough),
        "C14" => run_c14(rng, out, thorough),
        _ => run_c19(rng, out, thorough),
    }
}
