// C10: every iterator the crate hands out yields the reference sequence under any interleaving of calls.
// For each structure (plain / sparse / run-length bitvector, integer vector, wavelet matrix) and each way of
// obtaining an iterator from it, call strings (next / next_back / nth(k) / nth_back(k) / size_hint / clone) are
// run on the real iterator; every output is recorded together with the reference sequence computed naively
// here from the defining input.
use crate::bvgen::*;
use crate::common::*;
use simple_sds::bit_vector::BitVector;
use simple_sds::int_vector::{IntVector, IntVectorMapper};
use simple_sds::ops::*;
use simple_sds::raw_vector::{PopRaw, PushRaw, RawVector};
use simple_sds::rl_vector::{RLBuilder, RLVector};
use simple_sds::serialize::{MappingMode, MemoryMap, MemoryMapped, Serialize};
use simple_sds::sparse_vector::{SparseBuilder, SparseVector};
use simple_sds::wavelet_matrix::WaveletMatrix;
use std::collections::VecDeque;
use std::convert::TryFrom;
use std::fmt::Write;

const DBG: bool = cfg!(debug_assertions);
const PATH: u64 = if cfg!(all(target_arch = "x86_64", target_feature = "bmi2")) { 0 } else { 1 };

type Item = (u64, u64);

fn enc_bool(b: bool) -> Item {
    (0, b as u64)
}
fn enc_u64(x: u64) -> Item {
    (0, x)
}
fn enc_pair(p: (usize, usize)) -> Item {
    (p.0 as u64, p.1 as u64)
}

// ---------------------------------------------------------------- uniform driver over the iterator types

trait Drv<'a> {
    fn next(&mut self) -> Option<Item>;
    fn nth(&mut self, k: usize) -> Option<Item>;
    fn next_back(&mut self) -> Option<Item>;
    fn nth_back(&mut self, k: usize) -> Option<Item>;
    fn hint(&self) -> (usize, Option<usize>);
    fn dup(&self) -> Box<dyn Drv<'a> + 'a>;
}

struct Fwd<I, F> {
    it: I,
    f: F,
}
struct De<I, F> {
    it: I,
    f: F,
}

impl<'a, I: Iterator + Clone + 'a, F: Fn(I::Item) -> Item + Clone + 'a> Drv<'a> for Fwd<I, F> {
    fn next(&mut self) -> Option<Item> {
        self.it.next().map(&self.f)
    }
    fn nth(&mut self, k: usize) -> Option<Item> {
        self.it.nth(k).map(&self.f)
    }
    fn next_back(&mut self) -> Option<Item> {
        panic!("harness: next_back on a forward-only iterator")
    }
    fn nth_back(&mut self, _k: usize) -> Option<Item> {
        panic!("harness: nth_back on a forward-only iterator")
    }
    fn hint(&self) -> (usize, Option<usize>) {
        self.it.size_hint()
    }
    fn dup(&self) -> Box<dyn Drv<'a> + 'a> {
        Box::new(Fwd { it: self.it.clone(), f: self.f.clone() })
    }
}

impl<'a, I: DoubleEndedIterator + Clone + 'a, F: Fn(I::Item) -> Item + Clone + 'a> Drv<'a> for De<I, F> {
    fn next(&mut self) -> Option<Item> {
        self.it.next().map(&self.f)
    }
    fn nth(&mut self, k: usize) -> Option<Item> {
        self.it.nth(k).map(&self.f)
    }
    fn next_back(&mut self) -> Option<Item> {
        self.it.next_back().map(&self.f)
    }
    fn nth_back(&mut self, k: usize) -> Option<Item> {
        self.it.nth_back(k).map(&self.f)
    }
    fn hint(&self) -> (usize, Option<usize>) {
        self.it.size_hint()
    }
    fn dup(&self) -> Box<dyn Drv<'a> + 'a> {
        Box::new(De { it: self.it.clone(), f: self.f.clone() })
    }
}

// a double-ended iterator type that does not implement Clone (AccessIter over a mapper)
struct DeNc<I, F> {
    it: I,
    f: F,
}
impl<'a, I: DoubleEndedIterator + 'a, F: Fn(I::Item) -> Item + Clone + 'a> Drv<'a> for DeNc<I, F> {
    fn next(&mut self) -> Option<Item> {
        self.it.next().map(&self.f)
    }
    fn nth(&mut self, k: usize) -> Option<Item> {
        self.it.nth(k).map(&self.f)
    }
    fn next_back(&mut self) -> Option<Item> {
        self.it.next_back().map(&self.f)
    }
    fn nth_back(&mut self, k: usize) -> Option<Item> {
        self.it.nth_back(k).map(&self.f)
    }
    fn hint(&self) -> (usize, Option<usize>) {
        self.it.size_hint()
    }
    fn dup(&self) -> Box<dyn Drv<'a> + 'a> {
        panic!("harness: clone of an iterator type without Clone")
    }
}
fn de_nc<'a, I: DoubleEndedIterator + 'a, F: Fn(I::Item) -> Item + Clone + 'a>(it: I, f: F) -> Box<dyn Drv<'a> + 'a> {
    Box::new(DeNc { it, f })
}

fn fwd<'a, I: Iterator + Clone + 'a, F: Fn(I::Item) -> Item + Clone + 'a>(it: I, f: F) -> Box<dyn Drv<'a> + 'a> {
    Box::new(Fwd { it, f })
}
fn de<'a, I: DoubleEndedIterator + Clone + 'a, F: Fn(I::Item) -> Item + Clone + 'a>(it: I, f: F) -> Box<dyn Drv<'a> + 'a> {
    Box::new(De { it, f })
}

// ---------------------------------------------------------------- calls and observations

#[derive(Clone, Debug, PartialEq)]
enum Call {
    Next,
    NextBack,
    Nth(usize),
    NthBack(usize),
    Len,
    Dup, // clone the iterator and continue with the clone (no output; not part of the Coq call list)
}

#[derive(Clone, Debug)]
enum Obs {
    No,
    It(u64, u64),
    Len(usize, Option<usize>),
    Panic(u64, String),
}

fn call_term(c: &Call) -> Option<String> {
    match c {
        Call::Next => Some("Next".to_string()),
        Call::NextBack => Some("NextBack".to_string()),
        Call::Nth(k) => Some(format!("Deque.Nth {}", k)), // qualified: NArith exports another Nth
        Call::NthBack(k) => Some(format!("NthBack {}", k)),
        Call::Len => Some("Len".to_string()),
        Call::Dup => None,
    }
}
fn call_json(c: &Call) -> String {
    match c {
        Call::Next => "\"next\"".to_string(),
        Call::NextBack => "\"next_back\"".to_string(),
        Call::Nth(k) => format!("\"nth({})\"", k),
        Call::NthBack(k) => format!("\"nth_back({})\"", k),
        Call::Len => "\"size_hint\"".to_string(),
        Call::Dup => "\"clone\"".to_string(),
    }
}
fn obs_term(o: &Obs) -> String {
    match o {
        Obs::No => "ONo".to_string(),
        Obs::It(a, b) => format!("OIt {} {}", a, b),
        Obs::Len(lo, hi) => format!("OLen {} {}", lo, opt(hi, |h| nu(*h))),
        Obs::Panic(k, _) => format!("OPanic {}", k),
    }
}
fn obs_json(o: &Obs) -> String {
    match o {
        Obs::No => "null".to_string(),
        Obs::It(a, b) => format!("[{},{}]", a, b),
        Obs::Len(lo, hi) => format!("{{\"hint\":[{},{}]}}", lo, match hi { Some(h) => format!("{}", h), None => "null".to_string() }),
        Obs::Panic(k, m) => format!("{{\"panic\":{},\"msg\":{:?}}}", k, m),
    }
}

fn of_opt(r: Res<Option<Item>>) -> Obs {
    match r {
        Res::Ok(None) => Obs::No,
        Res::Ok(Some((a, b))) => Obs::It(a, b),
        Res::Panic(k, m) => Obs::Panic(k, m),
    }
}

// run one call on the real iterator
fn apply<'a>(it: &mut Box<dyn Drv<'a> + 'a>, c: &Call) -> Option<Obs> {
    match c {
        Call::Next => Some(of_opt(catch(|| it.next()))),
        Call::NextBack => Some(of_opt(catch(|| it.next_back()))),
        Call::Nth(k) => Some(of_opt(catch(|| it.nth(*k)))),
        Call::NthBack(k) => Some(of_opt(catch(|| it.nth_back(*k)))),
        Call::Len => Some(match catch(|| it.hint()) {
            Res::Ok((lo, hi)) => Obs::Len(lo, hi),
            Res::Panic(k, m) => Obs::Panic(k, m),
        }),
        Call::Dup => {
            match catch(|| it.dup()) {
                Res::Ok(d) => {
                    *it = d;
                    None
                }
                Res::Panic(k, m) => Some(Obs::Panic(k, m)),
            }
        }
    }
}

// the naive deque the harness uses only to pick interesting arguments (how many items are left)
fn ref_apply(dq: &mut VecDeque<Item>, c: &Call) {
    match c {
        Call::Next => {
            dq.pop_front();
        }
        Call::NextBack => {
            dq.pop_back();
        }
        Call::Nth(k) => {
            if *k < dq.len() {
                dq.drain(0..=*k);
            } else {
                dq.clear();
            }
        }
        Call::NthBack(k) => {
            if *k < dq.len() {
                let n = dq.len();
                dq.truncate(n - *k - 1);
            } else {
                dq.clear();
            }
        }
        _ => {}
    }
}

#[derive(Clone, Copy)]
struct Caps {
    back: bool,  // DoubleEndedIterator
    exact: bool, // advertises an exact size
    dup: bool,   // the iterator type implements Clone
}

fn pick_k(rng: &mut Rng, rem: usize) -> usize {
    match rng.below(20) {
        0..=5 => 0,
        6..=10 => 1,
        11..=13 => 2,
        14 | 15 => rem.wrapping_sub(1),
        16 => rem,
        17 => rem + 1,
        18 => 1usize << 63,
        _ => usize::MAX,
    }
}

fn random_calls_step(rng: &mut Rng, caps: Caps, rem: usize) -> Call {
    loop {
        let c = match rng.below(20) {
            0..=5 => Call::Next,
            6..=9 => Call::NextBack,
            10..=13 => Call::Nth(pick_k(rng, rem)),
            14..=16 => Call::NthBack(pick_k(rng, rem)),
            17 | 18 => Call::Len,
            _ => Call::Dup,
        };
        let ok = match c {
            Call::NextBack | Call::NthBack(_) => caps.back,
            Call::Len => caps.exact,
            Call::Dup => caps.dup,
            _ => true,
        };
        if ok {
            return c;
        }
    }
}

// a call string with its outputs; ends at the first panic
struct Run {
    calls: Vec<Call>,
    obs: Vec<Obs>,
    panicked: bool,
}

fn run_string<'a>(mk: &dyn Fn() -> Box<dyn Drv<'a> + 'a>, reference: &[Item], caps: Caps, rng: &mut Rng, fixed: Option<&[Call]>) -> Run {
    let mut run = Run { calls: Vec::new(), obs: Vec::new(), panicked: false };
    let mut it = match catch(|| mk()) {
        Res::Ok(it) => it,
        Res::Panic(k, m) => {
            // obtaining the iterator panicked: recorded as a string whose first call panics
            run.calls.push(Call::Next);
            run.obs.push(Obs::Panic(k, m));
            run.panicked = true;
            return run;
        }
    };
    let mut dq: VecDeque<Item> = reference.iter().cloned().collect();
    let mut plan: Vec<Call> = Vec::new();
    let len = match fixed {
        Some(cs) => {
            plan = cs.to_vec();
            cs.len()
        }
        None => 3 + rng.below(30) as usize,
    };
    let mut i = 0;
    let mut tail_added = fixed.is_some();
    loop {
        if i >= len && !tail_added {
            // drive to exhaustion (sometimes) and keep calling: None must be absorbing, the size must stay 0
            tail_added = true;
            if rng.below(3) != 0 {
                match rng.below(3) {
                    0 => plan.push(Call::Nth(dq.len())),
                    1 if caps.back => plan.push(Call::NthBack(dq.len())),
                    _ => {
                        if dq.len() <= 12 {
                            for _ in 0..dq.len() {
                                plan.push(Call::Next);
                            }
                        } else {
                            plan.push(Call::Nth(dq.len() - 1));
                        }
                    }
                }
                plan.push(Call::Next);
                if caps.back {
                    plan.push(Call::NextBack);
                }
                plan.push(Call::Nth(0));
                if caps.exact {
                    plan.push(Call::Len);
                }
                plan.push(Call::Next);
            }
        }
        let c = if fixed.is_some() || i >= len {
            if i >= plan.len() {
                break;
            }
            plan[i].clone()
        } else {
            let c = random_calls_step(rng, caps, dq.len());
            plan.push(c.clone());
            c
        };
        i += 1;
        let o = apply(&mut it, &c);
        ref_apply(&mut dq, &c);
        run.calls.push(c);
        if let Some(o) = o {
            let stop = matches!(o, Obs::Panic(_, _));
            run.obs.push(o);
            if stop {
                run.panicked = true;
                break;
            }
        }
    }
    run
}

fn run_terms(run: &Run) -> (String, String) {
    let mut cs = String::from("[");
    let mut first = true;
    for c in run.calls.iter() {
        if let Some(t) = call_term(c) {
            if !first {
                cs.push_str("; ");
            }
            first = false;
            cs.push_str(&t);
        }
    }
    cs.push(']');
    let mut os = String::from("[");
    for (i, o) in run.obs.iter().enumerate() {
        if i > 0 {
            os.push_str("; ");
        }
        os.push_str(&obs_term(o));
    }
    os.push(']');
    (cs, os)
}

// ---------------------------------------------------------------- entries and sources as Coq terms

#[derive(Clone, Debug, PartialEq)]
enum Entry {
    Iter,
    Into,
    One,
    Zero,
    Select(usize),
    SelectZero(usize),
    Pred(usize),
    Succ(usize),
    Runs,
    Value(u64),
    ValueSelect(usize, u64),
    ValuePred(usize, u64),
    ValueSucc(usize, u64),
}

fn entry_term(e: &Entry) -> String {
    match e {
        Entry::Iter => "EIter".to_string(),
        Entry::Into => "EInto".to_string(),
        Entry::One => "EOne".to_string(),
        Entry::Zero => "EZero".to_string(),
        Entry::Select(r) => format!("(ESelect {})", r),
        Entry::SelectZero(r) => format!("(ESelectZero {})", r),
        Entry::Pred(v) => format!("(EPred {})", v),
        Entry::Succ(v) => format!("(ESucc {})", v),
        Entry::Runs => "ERuns".to_string(),
        Entry::Value(x) => format!("(EValue {})", x),
        Entry::ValueSelect(r, x) => format!("(EValueSelect {} {})", r, x),
        Entry::ValuePred(i, x) => format!("(EValuePred {} {})", i, x),
        Entry::ValueSucc(i, x) => format!("(EValueSucc {} {})", i, x),
    }
}
fn entry_name(e: &Entry) -> &'static str {
    match e {
        Entry::Iter => "iter",
        Entry::Into => "into_iter",
        Entry::One => "one_iter",
        Entry::Zero => "zero_iter",
        Entry::Select(_) => "select_iter",
        Entry::SelectZero(_) => "select_zero_iter",
        Entry::Pred(_) => "predecessor",
        Entry::Succ(_) => "successor",
        Entry::Runs => "run_iter",
        Entry::Value(_) => "value_iter",
        Entry::ValueSelect(_, _) => "value_select_iter",
        Entry::ValuePred(_, _) => "value_predecessor",
        Entry::ValueSucc(_, _) => "value_successor",
    }
}

fn items_term(xs: &[Item]) -> String {
    let mut s = String::from("[");
    for (i, (a, b)) in xs.iter().enumerate() {
        if i > 0 {
            s.push_str("; ");
        }
        let _ = write!(s, "({}, {})", a, b);
    }
    s.push(']');
    s
}

// naive references ------------------------------------------------

fn ranked(positions: &[usize]) -> Vec<Item> {
    positions.iter().enumerate().map(|(i, p)| (i as u64, *p as u64)).collect()
}
fn ones_of(bits: &[bool], value: bool) -> Vec<usize> {
    bits.iter().enumerate().filter(|(_, b)| **b == value).map(|(i, _)| i).collect()
}
// the suffix of the ranked list selected by an entry (positions non-decreasing)
fn suffix(full: &[Item], e: &Entry) -> Vec<Item> {
    match e {
        Entry::One | Entry::Zero | Entry::Value(_) => full.to_vec(),
        Entry::Select(r) | Entry::SelectZero(r) | Entry::ValueSelect(r, _) => {
            if *r >= full.len() { Vec::new() } else { full[*r..].to_vec() }
        }
        Entry::Pred(v) | Entry::ValuePred(v, _) => {
            // from the last item whose position is <= v
            let mut start = None;
            for (i, it) in full.iter().enumerate() {
                if it.1 <= *v as u64 {
                    start = Some(i);
                }
            }
            match start { Some(i) => full[i..].to_vec(), None => Vec::new() }
        }
        Entry::Succ(v) | Entry::ValueSucc(v, _) => {
            // from the first item whose position is >= v
            for (i, it) in full.iter().enumerate() {
                if it.1 >= *v as u64 {
                    return full[i..].to_vec();
                }
            }
            Vec::new()
        }
        _ => panic!("harness: suffix of a non-ranked entry"),
    }
}
fn bits_ref(bits: &[bool], one_full: &[Item], e: &Entry) -> Vec<Item> {
    match e {
        Entry::Iter => bits.iter().map(|b| enc_bool(*b)).collect(),
        Entry::One | Entry::Select(_) | Entry::Pred(_) | Entry::Succ(_) => suffix(one_full, e),
        Entry::Zero | Entry::SelectZero(_) => suffix(&ranked(&ones_of(bits, false)), e),
        Entry::Runs => {
            let mut runs = Vec::new();
            let mut i = 0;
            while i < bits.len() {
                if bits[i] {
                    let s = i;
                    while i < bits.len() && bits[i] {
                        i += 1;
                    }
                    runs.push((s as u64, (i - s) as u64));
                } else {
                    i += 1;
                }
            }
            runs
        }
        _ => panic!("harness: not a bitvector entry"),
    }
}
fn vector_ref(xs: &[u64], e: &Entry) -> Vec<Item> {
    match e {
        Entry::Iter | Entry::Into => xs.iter().map(|x| enc_u64(*x)).collect(),
        Entry::Value(x) | Entry::ValueSelect(_, x) | Entry::ValuePred(_, x) | Entry::ValueSucc(_, x) => {
            let pos: Vec<usize> = xs.iter().enumerate().filter(|(_, y)| **y == *x).map(|(i, _)| i).collect();
            suffix(&ranked(&pos), e)
        }
        _ => panic!("harness: not a vector entry"),
    }
}

// ---------------------------------------------------------------- emission

struct Emit<'o> {
    out: &'o mut Out,
    strings: usize, // random strings per (structure, entry)
    sparse_w: Option<u64>, // Some(low width) while the cases of a SparseVector are emitted (constructors CIterS / CExhS)
}

impl<'o> Emit<'o> {
    // random call strings on one (structure, entry)
    fn random<'a>(&mut self, rng: &mut Rng, kind: &str, src_term: &str, src_json: &str, e: &Entry, reference: &[Item], caps: Caps,
                  mk: &dyn Fn() -> Box<dyn Drv<'a> + 'a>) {
        let mut runs_t = String::from("[");
        let mut runs_j = String::from("[");
        let mut panics = 0;
        for s in 0..self.strings {
            let run = run_string(mk, reference, caps, rng, None);
            let (cs, os) = run_terms(&run);
            if s > 0 {
                runs_t.push_str("; ");
                runs_j.push(',');
            }
            let _ = write!(runs_t, "({}, {})", cs, os);
            let cj: Vec<String> = run.calls.iter().map(call_json).collect();
            let oj: Vec<String> = run.obs.iter().map(obs_json).collect();
            let _ = write!(runs_j, "{{\"calls\":[{}],\"outputs\":[{}]}}", cj.join(","), oj.join(","));
            self.out.stat_n("c10.calls", run.calls.len() as u64);
            self.out.stat_n("c10.clones", run.calls.iter().filter(|c| **c == Call::Dup).count() as u64);
            self.out.stat_n("c10.huge_k", run.calls.iter().filter(|c| matches!(c, Call::Nth(k) | Call::NthBack(k) if *k >= 1usize << 63)).count() as u64);
            if run.panicked {
                panics += 1;
            }
        }
        runs_t.push(']');
        runs_j.push(']');
        self.out.stat_n("c10.strings", self.strings as u64);
        if panics > 0 {
            self.out.stat_n("c10.panicking_strings", panics);
        }
        let full = format!("{}.{}", kind, entry_name(e));
        self.out.stat(&format!("c10.{}", full));
        let ctor = match self.sparse_w {
            Some(w) => format!("CIterS {}", w),
            None => "CIter".to_string(),
        };
        let term = format!("{} {} {} {} {} {} {}", ctor, PATH, b(DBG), src_term, entry_term(e), items_term(reference), runs_t);
        let json = format!("{{\"iterator\":\"{}\",\"entry\":\"{}\",\"src\":{},\"reference_len\":{},\"strings\":{}}}",
            full, entry_term(e).replace('"', ""), src_json, reference.len(), runs_j);
        self.out.case(&full, term, json, !reference.is_empty());
    }

    // the 256 call strings of length 4 over {next, next_back, nth(1), nth_back(1)} + tail (order fixed in Check/C10.v)
    fn exhaustive<'a>(&mut self, rng: &mut Rng, kind: &str, src_term: &str, src_json: &str, e: &Entry, reference: &[Item],
                      mk: &dyn Fn() -> Box<dyn Drv<'a> + 'a>) {
        let alpha = [Call::Next, Call::NextBack, Call::Nth(1), Call::NthBack(1)];
        let tail = [Call::Len, Call::Next, Call::Next, Call::Len, Call::NextBack, Call::Nth(0), Call::NthBack(0), Call::Len];
        let caps = Caps { back: true, exact: true, dup: true };
        let mut outs = String::from("[");
        let mut bad = String::new();
        for i in 0..256usize {
            let mut cs: Vec<Call> = vec![alpha[i / 64].clone(), alpha[(i / 16) % 4].clone(), alpha[(i / 4) % 4].clone(), alpha[i % 4].clone()];
            cs.extend(tail.iter().cloned());
            let run = run_string(mk, reference, caps, rng, Some(&cs));
            let (_, os) = run_terms(&run);
            if i > 0 {
                outs.push_str("; ");
            }
            outs.push_str(&os);
            if run.panicked && bad.is_empty() {
                let cj: Vec<String> = run.calls.iter().map(call_json).collect();
                let oj: Vec<String> = run.obs.iter().map(obs_json).collect();
                bad = format!(",\"first_panicking_string\":{{\"calls\":[{}],\"outputs\":[{}]}}", cj.join(","), oj.join(","));
            }
        }
        outs.push(']');
        self.out.stat_n("c10.strings", 256);
        self.out.stat_n("c10.calls", 256 * 12);
        let full = format!("exh.{}.{}", kind, entry_name(e));
        self.out.stat(&format!("c10.{}", full));
        let ctor = match self.sparse_w {
            Some(w) => format!("CExhS {}", w),
            None => "CExh".to_string(),
        };
        let term = format!("{} {} {} {} {} {} {}", ctor, PATH, b(DBG), src_term, entry_term(e), items_term(reference), outs);
        let json = format!("{{\"iterator\":\"{}\",\"entry\":\"{}\",\"src\":{},\"exhaustive\":\"all 256 strings of 4 calls over next,next_back,nth(1),nth_back(1) + tail\"{}}}",
            full, entry_term(e), src_json, bad);
        self.out.case(&full, term, json, !reference.is_empty());
    }
}

// ---------------------------------------------------------------- structures

fn arg_choices(rng: &mut Rng, n: usize) -> Vec<usize> {
    // ranks / positions around the interesting boundaries of a range of size n
    let mut v = vec![0usize, 1, n / 2, n.wrapping_sub(1), n, n + 1, 1usize << 63, usize::MAX];
    if n > 2 {
        v.push(rng.below(n as u64) as usize);
        v.push(rng.below(n as u64) as usize);
    }
    v
}

fn pick_arg(rng: &mut Rng, n: usize) -> usize {
    let ch = arg_choices(rng, n);
    *rng.pick(&ch)
}

fn plain_bitvector(em: &mut Emit, rng: &mut Rng, bits: &[bool], exhaustive: bool, nentries: usize) {
    // a panic outside a recorded call (while building, enabling the supports, counting) is reported as a case of its
    // own instead of ending the run
    let r = catch(|| plain_bitvector_inner(em, rng, bits, exhaustive, nentries));
    if let Res::Panic(k, msg) = r {
        let words = to_words(bits);
        em.out.case("crash", format!("CCrash (SBits {} {}) {}", bits.len(), nlist(&words), k),
            format!("{{\"type\":\"BitVector\",\"len\":{},\"words\":{:?},\"panic\":{:?}}}", bits.len(), words, msg), true);
    }
}

fn plain_bitvector_inner(em: &mut Emit, rng: &mut Rng, bits: &[bool], exhaustive: bool, nentries: usize) {
    // built from a bool iterator, or from a raw vector with a history (a few more set bits, resized down with filler
    // false; an integer of all ones pushed and popped again)
    let mut bv: BitVector = match bits.len() % 3 {
        0 => bits.iter().cloned().collect(),
        1 => {
            let mut raw = RawVector::new();
            for b in bits.iter() {
                raw.push_bit(*b);
            }
            for _ in 0..(1 + bits.len() % 7) {
                raw.push_bit(true);
            }
            raw.resize(bits.len(), false);
            BitVector::from(raw)
        }
        _ => {
            let mut raw = RawVector::new();
            for b in bits.iter() {
                raw.push_bit(*b);
            }
            let w = [40usize, 13, 64, 7][bits.len() % 4];
            unsafe { raw.push_int(u64::MAX, w); }
            let _ = unsafe { raw.pop_int(w) };
            BitVector::from(raw)
        }
    };
    bv.enable_rank();
    bv.enable_select();
    bv.enable_select_zero();
    let words = to_words(bits);
    let st = format!("(SBits {} {})", bits.len(), nlist(&words));
    let sj = format!("{{\"type\":\"BitVector\",\"len\":{},\"words\":{:?}}}", bits.len(), words);
    let one_full = ranked(&ones_of(bits, true));
    let caps = Caps { back: true, exact: true, dup: true };
    let ones = bv.count_ones();
    let zeros = bv.count_zeros();
    let mut entries = vec![Entry::Iter, Entry::One, Entry::Zero];
    if exhaustive {
        for e in entries.iter() {
            let r = bits_ref(bits, &one_full, e);
            match e {
                Entry::Iter => em.exhaustive(rng, "bv", &st, &sj, e, &r, &|| de(bv.iter(), enc_bool)),
                Entry::One => em.exhaustive(rng, "bv", &st, &sj, e, &r, &|| de(bv.one_iter(), enc_pair)),
                _ => em.exhaustive(rng, "bv", &st, &sj, e, &r, &|| de(bv.zero_iter(), enc_pair)),
            }
        }
        return;
    }
    for _ in 0..nentries {
        entries.push(Entry::Select(pick_arg(rng, ones)));
        entries.push(Entry::SelectZero(pick_arg(rng, zeros)));
        entries.push(Entry::Pred(pick_arg(rng, bits.len())));
        entries.push(Entry::Succ(pick_arg(rng, bits.len())));
    }
    for e in entries.iter() {
        let r = bits_ref(bits, &one_full, e);
        match e.clone() {
            Entry::Iter => em.random(rng, "bv", &st, &sj, e, &r, caps, &|| de(bv.iter(), enc_bool)),
            Entry::One => em.random(rng, "bv", &st, &sj, e, &r, caps, &|| de(bv.one_iter(), enc_pair)),
            Entry::Zero => em.random(rng, "bv", &st, &sj, e, &r, caps, &|| de(bv.zero_iter(), enc_pair)),
            Entry::Select(k) => em.random(rng, "bv", &st, &sj, e, &r, caps, &|| de(bv.select_iter(k), enc_pair)),
            Entry::SelectZero(k) => em.random(rng, "bv", &st, &sj, e, &r, caps, &|| de(bv.select_zero_iter(k), enc_pair)),
            Entry::Pred(v) => em.random(rng, "bv", &st, &sj, e, &r, caps, &|| de(bv.predecessor(v), enc_pair)),
            Entry::Succ(v) => em.random(rng, "bv", &st, &sj, e, &r, caps, &|| de(bv.successor(v), enc_pair)),
            _ => {}
        }
    }
}

// values: non-decreasing, all < universe; duplicates make it a multiset
// low.width of a SparseVector, read from its serialized elements:
// [len] ++ bitvector(ones, raw(len, nwords, words), 3 options) ++ intvector(len, width, ..)
fn sparse_width(sv: &SparseVector) -> u64 {
    let ser = crate::bvgen::serialize_elems(sv);
    let mut p = 3; // len, ones, raw len
    let nwords = ser[p] as usize;
    p += 1 + nwords;
    for _ in 0..3 {
        let sz = ser[p] as usize;
        p += 1 + sz;
    }
    ser[p + 1]
}

fn sparse_vector(em: &mut Emit, rng: &mut Rng, universe: usize, values: &[usize], exhaustive: bool, nentries: usize) {
    sparse_vector_inner(em, rng, universe, values, exhaustive, nentries);
    em.sparse_w = None;
}

fn sparse_vector_inner(em: &mut Emit, rng: &mut Rng, universe: usize, values: &[usize], exhaustive: bool, nentries: usize) {
    let multiset = values.windows(2).any(|w| w[0] == w[1]);
    let built = catch(|| {
        let mut builder = if multiset { SparseBuilder::multiset(universe, values.len()) } else { SparseBuilder::new(universe, values.len()).unwrap() };
        for v in values.iter() {
            builder.set(*v);
        }
        SparseVector::try_from(builder).unwrap()
    });
    let sv = match built {
        Res::Ok(sv) => sv,
        Res::Panic(_, _) => {
            em.out.stat("c10.sparse_build_panicked");
            return;
        }
    };
    let kind = if multiset { "sparse_multiset" } else { "sparse" };
    // the low width the crate chose (the model's oracle argument); without it the cases keep a vacuous model side
    em.sparse_w = match catch(|| sparse_width(&sv)) {
        Res::Ok(w) => Some(w),
        Res::Panic(_, _) => None,
    };
    if let Some(w) = em.sparse_w {
        em.out.stat(&format!("c10.sparse_width.{:02}", w));
    }
    let vals: Vec<u64> = values.iter().map(|v| *v as u64).collect();
    let st = format!("(SSparse {} {})", universe, nlist(&vals));
    let sj = format!("{{\"type\":\"SparseVector\",\"universe\":{},\"multiset\":{},\"values\":{:?}}}", universe, multiset, vals);
    let bits: Vec<bool> = (0..universe).map(|i| values.binary_search(&i).is_ok()).collect();
    let one_full = ranked(values);
    let de_caps = Caps { back: true, exact: true, dup: true };
    let fw_caps = Caps { back: false, exact: true, dup: true };
    if exhaustive {
        for e in [Entry::Iter, Entry::One].iter() {
            let r = bits_ref(&bits, &one_full, e);
            match e {
                Entry::Iter => em.exhaustive(rng, kind, &st, &sj, e, &r, &|| de(sv.iter(), enc_bool)),
                _ => em.exhaustive(rng, kind, &st, &sj, e, &r, &|| de(sv.one_iter(), enc_pair)),
            }
        }
        return;
    }
    let mut entries = vec![Entry::Iter, Entry::One];
    if !multiset {
        // ZeroIter is documented not to work with multisets
        entries.push(Entry::Zero);
    }
    let zeros = bits.iter().filter(|b| !**b).count();
    for _ in 0..nentries {
        entries.push(Entry::Select(pick_arg(rng, values.len())));
        entries.push(Entry::Pred(pick_arg(rng, universe)));
        entries.push(Entry::Succ(pick_arg(rng, universe)));
        if !values.is_empty() {
            // exactly at / next to a stored value (duplicates: predecessor must land on the LAST copy, successor on the FIRST)
            let v = values[rng.below(values.len() as u64) as usize];
            entries.push(Entry::Pred(v));
            entries.push(Entry::Succ(v));
            entries.push(Entry::Pred(v.wrapping_sub(1)));
            entries.push(Entry::Succ(v + 1));
        }
        if !multiset {
            entries.push(Entry::SelectZero(pick_arg(rng, zeros)));
        }
    }
    for e in entries.iter() {
        let r = bits_ref(&bits, &one_full, e);
        match e.clone() {
            Entry::Iter => em.random(rng, kind, &st, &sj, e, &r, de_caps, &|| de(sv.iter(), enc_bool)),
            Entry::One => em.random(rng, kind, &st, &sj, e, &r, de_caps, &|| de(sv.one_iter(), enc_pair)),
            Entry::Zero => em.random(rng, kind, &st, &sj, e, &r, fw_caps, &|| fwd(sv.zero_iter(), enc_pair)),
            Entry::Select(k) => em.random(rng, kind, &st, &sj, e, &r, de_caps, &|| de(sv.select_iter(k), enc_pair)),
            Entry::SelectZero(k) => em.random(rng, kind, &st, &sj, e, &r, fw_caps, &|| fwd(sv.select_zero_iter(k), enc_pair)),
            Entry::Pred(v) => em.random(rng, kind, &st, &sj, e, &r, de_caps, &|| de(sv.predecessor(v), enc_pair)),
            Entry::Succ(v) => em.random(rng, kind, &st, &sj, e, &r, de_caps, &|| de(sv.successor(v), enc_pair)),
            _ => {}
        }
    }
}

// runs as given to the builder: increasing starts, possibly adjacent (the builder merges those), all inside len
fn rl_vector(em: &mut Emit, rng: &mut Rng, len: usize, runs: &[(usize, usize)], nentries: usize) {
    // the calls that present the runs: whole runs, or two adjacent pieces with calls in between that the
    // documentation says have no effect (set_len to the current length or below, an empty run); sometimes the gap in
    // front of a run is declared first with set_len(start)
    enum BCall { Set(usize, usize), Len(usize) }
    let mut calls: Vec<BCall> = Vec::new();
    let mut cur = 0usize;
    for (s, l) in runs.iter() {
        if *s > cur && rng.chance(1, 5) {
            calls.push(BCall::Len(*s));
        }
        if *l >= 2 && rng.chance(1, 3) {
            let a = 1 + rng.below(*l as u64 - 1) as usize;
            calls.push(BCall::Set(*s, a));
            match rng.below(3) {
                0 => calls.push(BCall::Len(*s + a)),
                1 => calls.push(BCall::Len(rng.below((*s + a) as u64 + 1) as usize)),
                _ => calls.push(BCall::Set(*s + a, 0)),
            }
            calls.push(BCall::Set(*s + a, *l - a));
        } else {
            calls.push(BCall::Set(*s, *l));
        }
        cur = *s + *l;
    }
    let built = catch(|| {
        let mut builder = RLBuilder::new();
        for c in calls.iter() {
            match c {
                BCall::Set(s, l) => builder.try_set(*s, *l).unwrap(),
                BCall::Len(n) => builder.set_len(*n),
            }
        }
        builder.set_len(len);
        RLVector::from(builder)
    });
    let rv = match built {
        Res::Ok(rv) => rv,
        Res::Panic(_, _) => {
            em.out.stat("c10.rl_build_panicked");
            return;
        }
    };
    let mut bits = vec![false; len];
    for (s, l) in runs.iter() {
        for i in *s..*s + *l {
            bits[i] = true;
        }
    }
    let rt: Vec<Item> = runs.iter().map(|(s, l)| (*s as u64, *l as u64)).collect();
    let st = format!("(SRL {} {})", len, items_term(&rt));
    let sj = format!("{{\"type\":\"RLVector\",\"len\":{},\"runs\":{:?}}}", len, runs);
    let one_full = ranked(&ones_of(&bits, true));
    let ones = one_full.len();
    let zeros = len - ones;
    let exact = Caps { back: false, exact: true, dup: true };
    let noexact = Caps { back: false, exact: false, dup: true };
    let mut entries = vec![Entry::Runs, Entry::Iter, Entry::One, Entry::Zero];
    if len > 6000 {
        // the all-bits / unset-bits reference lists of a long vector are expensive to ship; the other iterators stay
        entries = vec![Entry::Runs, Entry::One];
    }
    for _ in 0..nentries {
        entries.push(Entry::Select(pick_arg(rng, ones)));
        entries.push(Entry::SelectZero(pick_arg(rng, zeros)));
        entries.push(Entry::Pred(pick_arg(rng, len)));
        entries.push(Entry::Succ(pick_arg(rng, len)));
        if !runs.is_empty() {
            // at the borders of a run
            let (s, l) = runs[rng.below(runs.len() as u64) as usize];
            entries.push(Entry::Pred(s.wrapping_sub(1)));
            entries.push(Entry::Pred(s + l));
            entries.push(Entry::Succ(s + l - 1));
            entries.push(Entry::Succ(s + l));
        }
    }
    // iterators positioned at the last run of an encoding block (and at the first of the next one): continuing them
    // crosses the block boundary, padding included
    let blocks = rl_blocks(runs);
    if blocks.len() > 1 {
        em.out.stat("c10.rl.multi_block");
        let mut rank = 0usize;
        let mut edges: Vec<(usize, usize, usize)> = Vec::new(); // (start, len, rank of start) of the last run of each non-final block
        for (bi, blk) in blocks.iter().enumerate() {
            for (ri, (s, l)) in blk.iter().enumerate() {
                if ri + 1 == blk.len() && bi + 1 < blocks.len() {
                    edges.push((*s, *l, rank));
                }
                rank += *l;
            }
        }
        for _ in 0..std::cmp::min(3, edges.len()) {
            let (s, l, rk) = edges[rng.below(edges.len() as u64) as usize];
            entries.push(Entry::Pred(s + l - 1));
            entries.push(Entry::Pred(s + rng.below(l as u64) as usize));
            entries.push(Entry::Succ(s + l - 1));
            entries.push(Entry::Select(rk + l - 1));
            entries.push(Entry::SelectZero((s + l - 1) - (rk + l - 1)));
            em.out.stat("c10.rl.block_edge_entries");
        }
    }
    for e in entries.iter() {
        let r = bits_ref(&bits, &one_full, e);
        match e.clone() {
            Entry::Runs => em.random(rng, "rl", &st, &sj, e, &r, noexact, &|| fwd(rv.run_iter(), enc_pair)),
            Entry::Iter => em.random(rng, "rl", &st, &sj, e, &r, exact, &|| fwd(rv.iter(), enc_bool)),
            Entry::One => em.random(rng, "rl", &st, &sj, e, &r, exact, &|| fwd(rv.one_iter(), enc_pair)),
            Entry::Zero => em.random(rng, "rl", &st, &sj, e, &r, exact, &|| fwd(rv.zero_iter(), enc_pair)),
            Entry::Select(k) => em.random(rng, "rl", &st, &sj, e, &r, exact, &|| fwd(rv.select_iter(k), enc_pair)),
            Entry::SelectZero(k) => em.random(rng, "rl", &st, &sj, e, &r, exact, &|| fwd(rv.select_zero_iter(k), enc_pair)),
            Entry::Pred(v) => em.random(rng, "rl", &st, &sj, e, &r, exact, &|| fwd(rv.predecessor(v), enc_pair)),
            Entry::Succ(v) => em.random(rng, "rl", &st, &sj, e, &r, exact, &|| fwd(rv.successor(v), enc_pair)),
            _ => {}
        }
    }
}

struct Files {
    dir: std::path::PathBuf,
    counter: usize,
}
impl Files {
    fn new() -> Files {
        let dir = match std::env::var("VERIF_RUNDIR") {
            Ok(d) if !d.is_empty() => std::path::PathBuf::from(d),
            _ => std::env::temp_dir(),
        };
        let _ = std::fs::create_dir_all(&dir);
        Files { dir, counter: 0 }
    }
}

fn int_vector(em: &mut Emit, rng: &mut Rng, files: &mut Files, width: usize, xs: &[u64], exhaustive: bool, mapped: bool) {
    let mut v = IntVector::new(width).unwrap();
    for x in xs.iter() {
        v.push(*x);
    }
    let st = format!("(SInts {} {})", width, nlist(xs));
    let sj = format!("{{\"type\":\"IntVector\",\"width\":{},\"items\":{:?}}}", width, xs);
    let de_caps = Caps { back: true, exact: true, dup: true };
    let fw_caps = Caps { back: false, exact: true, dup: true };
    let r = vector_ref(xs, &Entry::Iter);
    if exhaustive {
        em.exhaustive(rng, "intvec", &st, &sj, &Entry::Iter, &r, &|| de(v.iter(), enc_u64));
        return;
    }
    em.random(rng, "intvec", &st, &sj, &Entry::Iter, &r, de_caps, &|| de(v.iter(), enc_u64));
    em.random(rng, "intvec", &st, &sj, &Entry::Into, &r, fw_caps, &|| fwd(v.clone().into_iter(), enc_u64));
    if mapped {
        // the same AccessIter over the memory-mapped view of the serialized vector
        files.counter += 1;
        let path = files.dir.join(format!("c10-{}-{}.bin", std::process::id(), files.counter));
        let mut buf: Vec<u8> = Vec::new();
        v.serialize(&mut buf).unwrap();
        if std::fs::write(&path, &buf).is_ok() {
            if let Ok(map) = MemoryMap::new(&path, MappingMode::ReadOnly) {
                if let Ok(mapper) = IntVectorMapper::new(&map, 0) {
                    em.random(rng, "intvec_mapper", &st, &sj, &Entry::Iter, &r, Caps { back: true, exact: true, dup: false }, &|| de_nc(mapper.iter(), enc_u64));
                } else {
                    em.out.stat("c10.mapper_rejected");
                }
            } else {
                em.out.stat("c10.map_failed");
            }
        }
        let _ = std::fs::remove_file(&path);
    }
}

fn wavelet_matrix(em: &mut Emit, rng: &mut Rng, xs: &[u64], exhaustive: bool, nentries: usize) {
    let built = catch(|| WaveletMatrix::from(xs.to_vec()));
    let wm = match built {
        Res::Ok(wm) => wm,
        Res::Panic(_, _) => {
            em.out.stat("c10.wm_build_panicked");
            return;
        }
    };
    let st = format!("(SWM {})", nlist(xs));
    let sj = format!("{{\"type\":\"WaveletMatrix\",\"items\":{:?}}}", xs);
    let de_caps = Caps { back: true, exact: true, dup: true };
    let fw_caps = Caps { back: false, exact: true, dup: true };
    let val_caps = Caps { back: false, exact: false, dup: true };
    let r = vector_ref(xs, &Entry::Iter);
    if exhaustive {
        em.exhaustive(rng, "wm", &st, &sj, &Entry::Iter, &r, &|| de(wm.iter(), enc_u64));
        return;
    }
    em.random(rng, "wm", &st, &sj, &Entry::Iter, &r, de_caps, &|| de(wm.iter(), enc_u64));
    em.random(rng, "wm", &st, &sj, &Entry::Into, &r, fw_caps, &|| fwd(wm.clone().into_iter(), enc_u64));
    let max = xs.iter().cloned().max().unwrap_or(0);
    let mut values: Vec<u64> = Vec::new();
    for _ in 0..nentries {
        if !xs.is_empty() {
            values.push(xs[rng.below(xs.len() as u64) as usize]);
        }
        values.push(rng.below(max + 2)); // possibly absent, possibly max + 1
    }
    values.push(max + 1);
    values.push(0);
    values.sort();
    values.dedup();
    let n = xs.len();
    for x in values.iter().cloned() {
        let occs = xs.iter().filter(|y| **y == x).count();
        let mut entries = vec![Entry::Value(x)];
        entries.push(Entry::ValueSelect(*rng.pick(&[0usize, 1, occs / 2, occs.wrapping_sub(1), occs, occs + 1, n, n + 1]), x));
        entries.push(Entry::ValuePred(*rng.pick(&[0usize, 1, n / 2, n.wrapping_sub(1), n, n + 1]), x));
        entries.push(Entry::ValueSucc(*rng.pick(&[0usize, 1, n / 2, n.wrapping_sub(1), n, n + 1]), x));
        if n > 0 {
            entries.push(Entry::ValuePred(rng.below(n as u64) as usize, x));
            entries.push(Entry::ValueSucc(rng.below(n as u64) as usize, x));
        }
        for e in entries.iter() {
            let r = vector_ref(xs, e);
            match e.clone() {
                Entry::Value(x) => em.random(rng, "wm", &st, &sj, e, &r, val_caps, &|| fwd(wm.value_iter(x), enc_pair)),
                Entry::ValueSelect(k, x) => em.random(rng, "wm", &st, &sj, e, &r, val_caps, &|| fwd(wm.select_iter(k, x), enc_pair)),
                Entry::ValuePred(i, x) => em.random(rng, "wm", &st, &sj, e, &r, val_caps, &|| fwd(wm.predecessor(i, x), enc_pair)),
                Entry::ValueSucc(i, x) => em.random(rng, "wm", &st, &sj, e, &r, val_caps, &|| fwd(wm.successor(i, x), enc_pair)),
                _ => {}
            }
        }
    }
}

// ---------------------------------------------------------------- generators

fn small_style(rng: &mut Rng) -> Style {
    match rng.below(9) {
        0 => Style::Zeros,
        1 => Style::Ones,
        2 | 3 => Style::Half,
        4 => Style::Sparse(12),
        5 => Style::Dense(12),
        6 => Style::Runs(6),
        7 => Style::Edge,
        _ => Style::Sparse(4),
    }
}

fn gen_multiset(rng: &mut Rng, universe: usize, n: usize) -> Vec<usize> {
    // non-decreasing values with runs of duplicates, sometimes at the first / last position of the universe
    let mut v: Vec<usize> = Vec::new();
    if universe == 0 {
        return v;
    }
    while v.len() < n {
        let x = match rng.below(8) {
            0 => 0,
            1 => universe - 1,
            _ => rng.below(universe as u64) as usize,
        };
        let copies = match rng.below(4) {
            0 => 1,
            1 => 2,
            2 => 3,
            _ => 1 + rng.below(6) as usize,
        };
        for _ in 0..copies {
            if v.len() < n {
                v.push(x);
            }
        }
    }
    v.sort();
    v
}

fn gen_runs(rng: &mut Rng, nruns: usize, max_gap: usize, max_len: usize) -> (usize, Vec<(usize, usize)>) {
    let mut runs = Vec::new();
    let mut pos = 0usize;
    for i in 0..nruns {
        // gap 0 makes the run adjacent to the previous one (merged by the builder); the first run may start at 0
        let gap = match rng.below(6) {
            0 => 0,
            1 => 1,
            _ => 1 + rng.below(max_gap as u64) as usize,
        };
        let gap = if i == 0 && rng.below(2) == 0 { 0 } else { gap };
        let l = match rng.below(5) {
            0 => 1,
            1 => 2,
            _ => 1 + rng.below(max_len as u64) as usize,
        };
        pos += gap;
        runs.push((pos, l));
        pos += l;
    }
    let len = match rng.below(3) {
        0 => pos, // ends with a run
        1 => pos + 1,
        _ => pos + rng.below(40) as usize,
    };
    (len, runs)
}

pub fn run(rng: &mut Rng, out: &mut Out, thorough: bool, variant: &str) {
    // thorough volumes are bounded by the memory coqc needs to read a shard (about 0.5 GB per MB of case terms, 16 shards at once)
    let mut em = Emit { out, strings: if thorough { 6 } else { 4 }, sparse_w: None };
    let mut files = Files::new();
    let reps = if thorough { 3 } else { 1 };
    let nent = if thorough { 2 } else { 1 };

    // ---- exhaustive call strings on every bit sequence of length <= 5 (double-ended iterator types)
    // quick: one build runs the full sweep, the others every third sequence
    let sweep_all = thorough || variant == "native_dev";
    let mut idx = 0;
    for len in 0..=5usize {
        for pat in 0..(1u32 << len) {
            idx += 1;
            if !sweep_all && idx % 3 != 0 {
                continue;
            }
            let bits: Vec<bool> = (0..len).map(|i| (pat >> i) & 1 == 1).collect();
            plain_bitvector(&mut em, rng, &bits, true, 0);
            let values = ones_of(&bits, true);
            sparse_vector(&mut em, rng, len, &values, true, 0);
            let xs: Vec<u64> = bits.iter().map(|b| *b as u64).collect();
            int_vector(&mut em, rng, &mut files, 1, &xs, true, false);
            wavelet_matrix(&mut em, rng, &xs, true, 0);
        }
    }
    // exhaustive strings on small multisets (universe <= 4, up to 5 values)
    for universe in 1..=4usize {
        for _ in 0..(if thorough { 12 } else { 3 }) {
            let n = 1 + rng.below(5) as usize;
            let vs = gen_multiset(rng, universe, n);
            sparse_vector(&mut em, rng, universe, &vs, true, 0);
        }
    }

    // ---- plain bitvectors: lengths around the word boundaries x styles
    let lens: Vec<usize> = vec![0, 1, 2, 5, 62, 63, 64, 65, 66, 127, 128, 129, 191, 192, 193, 200];
    for len in lens.iter() {
        for _ in 0..reps {
            let style = small_style(rng);
            let bits = gen_bits(rng, *len, style);
            plain_bitvector(&mut em, rng, &bits, false, nent);
        }
    }
    for _ in 0..(10 * reps) {
        let len = rng.below(201) as usize;
        let style = small_style(rng);
        let bits = gen_bits(rng, len, style);
        plain_bitvector(&mut em, rng, &bits, false, nent);
    }
    // all-zero, all-one, a single bit at either end of a word
    for len in [64usize, 130] {
        plain_bitvector(&mut em, rng, &vec![false; len], false, nent);
        plain_bitvector(&mut em, rng, &vec![true; len], false, nent);
        for p in [0usize, 63, len - 1] {
            let mut v = vec![false; len];
            v[p] = true;
            plain_bitvector(&mut em, rng, &v, false, nent);
            let mut v = vec![true; len];
            v[p] = false;
            plain_bitvector(&mut em, rng, &v, false, nent);
        }
    }

    // ---- sparse vectors: sets
    for _ in 0..(14 * reps) {
        let universe = match rng.below(5) {
            0 => rng.below(8) as usize,
            1 => 64 + rng.below(3) as usize,
            2 => rng.below(300) as usize,
            _ => 50 + rng.below(950) as usize,
        };
        let density = *rng.pick(&[2u64, 3, 8, 30, 100]);
        let bits: Vec<bool> = (0..universe).map(|_| rng.below(density) == 0).collect();
        let mut bits = bits;
        if universe > 0 && rng.below(2) == 0 {
            bits[0] = true;
            bits[universe - 1] = true;
        }
        sparse_vector(&mut em, rng, universe, &ones_of(&bits, true), false, nent);
    }
    sparse_vector(&mut em, rng, 0, &[], false, nent);
    sparse_vector(&mut em, rng, 70, &[], false, nent);
    sparse_vector(&mut em, rng, 70, &(0..70).collect::<Vec<usize>>(), false, nent);
    // ---- sparse vectors: multisets with duplicates (also more values than the universe has positions)
    for _ in 0..(14 * reps) {
        let universe = match rng.below(4) {
            0 => 1 + rng.below(6) as usize,
            1 => 1 + rng.below(70) as usize,
            _ => 1 + rng.below(600) as usize,
        };
        let n = match rng.below(4) {
            0 => 1 + rng.below(4) as usize,
            1 => universe + 1 + rng.below(5) as usize,
            _ => 1 + rng.below(40) as usize,
        };
        let vs = gen_multiset(rng, universe, n);
        sparse_vector(&mut em, rng, universe, &vs, false, nent);
    }
    sparse_vector(&mut em, rng, 10, &[3, 3, 3, 3], false, nent);
    sparse_vector(&mut em, rng, 10, &[0, 0, 9, 9], false, nent);

    // ---- run-length vectors: a few runs, and enough runs for several 64-unit blocks; long gaps / runs need
    // multi-unit codes
    for _ in 0..(6 * reps) {
        let k = rng.below(6) as usize;
        let (len, runs) = gen_runs(rng, k, 20, 20);
        rl_vector(&mut em, rng, len, &runs, nent);
    }
    for _ in 0..(6 * reps) {
        let k = 40 + rng.below(80) as usize;
        let (len, runs) = gen_runs(rng, k, 5, 4);
        rl_vector(&mut em, rng, len, &runs, nent);
    }
    for _ in 0..(4 * reps) {
        let k = 10 + rng.below(30) as usize;
        let (len, runs) = gen_runs(rng, k, 70, 40);
        rl_vector(&mut em, rng, len, &runs, nent);
    }
    // blocks that end in padding: runs of two to four code units, and the block-filling rule at its edges
    for _ in 0..(4 * reps) {
        let k = 30 + rng.below(60) as usize;
        let (len, runs) = gen_runs(rng, k, 70, 9);
        rl_vector(&mut em, rng, len, &runs, nent);
    }
    for slack in [-1i64, 0, 1] {
        for _ in 0..reps {
            let v = *rng.pick(&rl_unit_boundaries(4));
            let in_len = rng.below(2) == 0;
            let lead = rng.below(2) as usize;
            let after = 2 + rng.below(12) as usize;
            let (len, runs) = rl_directed(rng, v, in_len, slack, lead, after);
            rl_vector(&mut em, rng, len, &runs, nent);
        }
    }
    rl_vector(&mut em, rng, 0, &[], nent);
    rl_vector(&mut em, rng, 50, &[], nent);
    rl_vector(&mut em, rng, 50, &[(0, 50)], nent);

    // ---- integer vectors of several widths (AccessIter, IntoIter, AccessIter over the mapped view)
    for width in [1usize, 2, 7, 8, 13, 31, 32, 33, 63, 64] {
        for len in [0usize, 1, 2, 9, 64, 65] {
            if !thorough && (len == 2 || len == 64) && width % 2 == 1 {
                continue;
            }
            let xs: Vec<u64> = (0..len).map(|_| {
                let x = rng.word();
                if width == 64 { x } else { x & ((1u64 << width) - 1) }
            }).collect();
            int_vector(&mut em, rng, &mut files, width, &xs, false, len > 0 && (thorough || width % 8 == 0 || width == 13));
        }
    }

    // ---- wavelet matrices of about 50 items
    for _ in 0..(8 * reps) {
        let n = match rng.below(5) {
            0 => rng.below(4) as usize,
            _ => 30 + rng.below(40) as usize,
        };
        let sigma = *rng.pick(&[1u64, 2, 3, 4, 7, 8, 20, 300, 1000]);
        let xs: Vec<u64> = (0..n).map(|_| {
            match rng.below(4) {
                0 => 0,
                1 => sigma - 1,
                _ => rng.below(sigma),
            }
        }).collect();
        wavelet_matrix(&mut em, rng, &xs, false, nent + 1);
    }
    wavelet_matrix(&mut em, rng, &[], false, 1);
    wavelet_matrix(&mut em, rng, &vec![5u64; 40], false, 1);
}
