// Correspondence harness: runs the real simple-sds on generated cases and writes, per property,
// sharded Coq files holding (input, observed output) pairs, a JSONL mirror for replays, and statistics.
// usage: sds-harness <property> <tier> <seed> <outdir> <variant>
mod common;
mod bvgen;
mod c01;
mod c04;
mod c17;

use common::*;

fn main() {
    let args: Vec<String> = std::env::args().collect();
    if args.len() < 6 {
        eprintln!("usage: sds-harness <property> <quick|thorough> <seed> <outdir> <variant>");
        std::process::exit(2);
    }
    let prop = args[1].as_str();
    let thorough = args[2] == "thorough";
    let seed: u64 = args[3].parse().unwrap_or(1);
    let outdir = args[4].as_str();
    let variant = args[5].as_str();
    install_panic_hook();
    let mut rng = Rng::new(seed);
    let mut out = Out::new(prop, 16);
    out.stat_n(if cfg!(debug_assertions) { "build.debug" } else { "build.release" }, 1);
    out.stat_n(if cfg!(target_feature = "bmi2") { "build.bmi2" } else { "build.portable" }, 1);
    match prop {
        "C01" => c01::run(&mut rng, &mut out, thorough),
        "C04" => c04::run(&mut rng, &mut out, thorough),
        "C17" => c17::run(&mut rng, &mut out, thorough, variant),
        _ => {
            eprintln!("unknown property {}", prop);
            std::process::exit(2);
        }
    }
    out.finish(outdir, variant);
    println!("{} cases={}", prop, out.n);
}
