// C20: temporary file names are unique under concurrent use (supporting stress correspondence).
// T threads x K calls of the real serialize::temp_file_name, all released together by a Barrier.
// One case per run: the sorted multiset of counter values parsed from the returned names (run-length encoded),
// flags computed over all returned paths, and a few complete names for the format check.
use crate::common::*;
use simple_sds::serialize;
use std::collections::HashSet;
use std::path::PathBuf;
use std::sync::{Arc, Barrier};
use std::thread;

// counter value = the text after the last '_' of the file name
fn parse_count(p: &PathBuf) -> Option<u64> {
    let name = p.file_name()?.to_str()?;
    let idx = name.rfind('_')?;
    name[idx + 1..].parse::<u64>().ok()
}

fn bytes(s: &str) -> Vec<u64> {
    s.bytes().map(|x| x as u64).collect()
}

// sorted values -> maximal stretches (first, length) of consecutive values; a repeated value starts a new stretch
fn rle(sorted: &[u64]) -> Vec<(u64, u64)> {
    let mut out: Vec<(u64, u64)> = Vec::new();
    for v in sorted {
        match out.last_mut() {
            Some((s, l)) if s.wrapping_add(*l) == *v => *l += 1,
            _ => out.push((*v, 1)),
        }
    }
    out
}

fn part_for(rng: &mut Rng, style: u64, tid: usize) -> String {
    match style {
        0 => "c20".to_string(),                         // every thread uses the same part
        1 => format!("t{}", tid),                        // one part per thread
        2 => format!("a_{}", rng.below(3)),              // parts that end like "_<number>": the {}_{}_{} ambiguity
        3 => format!("p_{}_{}", std::process::id(), rng.below(4)), // parts that contain the pid and a number
        5 => "n".repeat([200usize, 245, 250, 255, 300][rng.below(5) as usize]),   // close to and beyond NAME_MAX (no file is created)
        _ => ["x", "with-dash.and.dots", "7", "_", "sds_c20_"][rng.below(5) as usize].to_string(),
    }
}

// T threads draw names while U threads run the other public function that draws them (serialize::test with
// remove = true: it serializes a small value into a temporary file, loads it back and removes the file)
fn mixed(rng: &mut Rng, out: &mut Out, t: usize, k: usize, u: usize) {
    let tmp = std::env::temp_dir();
    let pid = std::process::id() as u64;
    let style = rng.below(5);
    let parts: Vec<String> = (0..t).map(|tid| part_for(rng, style, tid)).collect();
    let sentinel = serialize::temp_file_name("sentinel");
    let start = match parse_count(&sentinel) {
        Some(c) => c.wrapping_add(1),
        None => u64::MAX,
    };
    // files that already exist under names the run is about to hand out (left behind by an earlier process with the
    // same id, or put there by the application): the names must be handed out all the same, each once
    let mut leftovers: Vec<PathBuf> = Vec::new();
    for j in 0..12u64 {
        let c = start + 1 + j * (((t * k) as u64) / 13 + 1) + rng.below(3);
        let part = &parts[(j as usize) % t];
        let p = tmp.join(format!("{}_{}_{}", part, pid, c));
        if std::fs::write(&p, b"leftover").is_ok() {
            leftovers.push(p);
        }
    }
    out.stat_n("mixed.leftover_files", leftovers.len() as u64);
    let barrier = Arc::new(Barrier::new(t + u));
    let stop = Arc::new(std::sync::atomic::AtomicBool::new(false));
    let mut handles = Vec::new();
    for tid in 0..t {
        let bar = Arc::clone(&barrier);
        let part = parts[tid].clone();
        handles.push(thread::spawn(move || {
            let mut v: Vec<PathBuf> = Vec::with_capacity(k);
            bar.wait();
            for i in 0..k {
                v.push(serialize::temp_file_name(&part));
                if i % 64 == 0 {
                    thread::yield_now();
                }
            }
            v
        }));
    }
    let mut others = Vec::new();
    for uid in 0..u {
        let bar = Arc::clone(&barrier);
        let st = Arc::clone(&stop);
        // the same name parts as the observed threads use, so that a reissued number gives an equal path
        let part = parts[uid % t].clone();
        others.push(thread::spawn(move || {
            let value: Vec<u64> = vec![uid as u64; 3];
            let mut n = 0u64;
            bar.wait();
            while !st.load(std::sync::atomic::Ordering::SeqCst) {
                let _ = serialize::test(&value, &part, Some(4), true);
                n += 1;
            }
            n
        }));
    }
    let per_thread: Vec<Vec<PathBuf>> = handles.into_iter().map(|h| h.join().unwrap()).collect();
    stop.store(true, std::sync::atomic::Ordering::SeqCst);
    let ntest: u64 = others.into_iter().map(|h| h.join().unwrap()).sum();
    for p in leftovers.iter() {
        let _ = std::fs::remove_file(p);
    }
    let mut counts: Vec<u64> = Vec::with_capacity(t * k);
    let (mut in_tmp, mut has_part, mut parsed, mut distinct) = (true, true, true, true);
    let mut set: HashSet<PathBuf> = HashSet::with_capacity(t * k);
    for (tid, v) in per_thread.iter().enumerate() {
        for p in v.iter() {
            match parse_count(p) {
                Some(c) => counts.push(c),
                None => parsed = false,
            }
            if p.parent() != Some(tmp.as_path()) {
                in_tmp = false;
            }
            if !p.file_name().and_then(|f| f.to_str()).map(|f| f.contains(parts[tid].as_str())).unwrap_or(false) {
                has_part = false;
            }
            if !set.insert(p.clone()) {
                distinct = false;
            }
        }
    }
    counts.sort_unstable();
    let runs = rle(&counts);
    out.stat("mixed.runs");
    out.stat_n("mixed.calls_total", (t * k) as u64);
    out.stat_n("mixed.other_calls", ntest);
    let runs_s: Vec<String> = runs.iter().map(|(s, l)| format!("({}, {})", s, l)).collect();
    let term = format!("CMixed {} {} {} {} {} {} [{}] {} {} {}", t, k, start, pid, u, ntest, runs_s.join("; "), b(in_tmp), b(has_part && parsed), b(distinct));
    let shown: Vec<String> = runs.iter().take(40).map(|(s, l)| format!("[{},{}]", s, l)).collect();
    let json = format!("{{\"threads\":{},\"calls\":{},\"start\":{},\"pid\":{},\"test_threads\":{},\"test_calls\":{},\"runs_first_40\":[{}],\"in_tmp\":{},\"has_part\":{},\"distinct\":{}}}",
        t, k, start, pid, u, ntest, shown.join(","), in_tmp, has_part && parsed, distinct);
    out.case("mixed", term, json, true);
}

pub fn run(rng: &mut Rng, out: &mut Out, thorough: bool, _variant: &str) {
    let tmp = std::env::temp_dir();
    let pid = std::process::id() as u64;
    let reps = if thorough { 4 } else { 1 };
    for _ in 0..reps {
        // the last pair makes more than 2^16 calls in one run, so a counter narrower than a machine word
        // would reissue counts within the run
        let mut grid: Vec<(usize, usize)> = Vec::new();
        for &t in [1usize, 2, 4, 8, 16].iter() {
            for &k in [1usize, 10, 200, 2000].iter() {
                grid.push((t, k));
            }
        }
        grid.push((4, 17000));
        for &(t, k, u) in [(1usize, 3000usize, 1usize), (2, 3000, 2), (4, 2000, 4), (8, 1000, 3)].iter() {
            mixed(rng, out, t, k, u);
        }
        for &(t, k) in grid.iter() {
            {
                let style = rng.below(6);
                let parts: Vec<String> = (0..t).map(|tid| part_for(rng, style, tid)).collect();
                // the counter is process-global: one sentinel call tells where this run starts
                let sentinel = serialize::temp_file_name("sentinel");
                let start = match parse_count(&sentinel) {
                    Some(c) => c.wrapping_add(1),
                    None => u64::MAX,
                };
                let barrier = Arc::new(Barrier::new(t));
                let mut handles = Vec::new();
                for tid in 0..t {
                    let bar = Arc::clone(&barrier);
                    let part = parts[tid].clone();
                    handles.push(thread::spawn(move || {
                        let mut v: Vec<PathBuf> = Vec::with_capacity(k);
                        bar.wait();
                        for _ in 0..k {
                            v.push(serialize::temp_file_name(&part));
                        }
                        v
                    }));
                }
                let per_thread: Vec<Vec<PathBuf>> = handles.into_iter().map(|h| h.join().unwrap()).collect();
                let mut counts: Vec<u64> = Vec::with_capacity(t * k);
                let mut in_tmp = true;
                let mut has_part = true;
                let mut parsed = true;
                let mut set: HashSet<PathBuf> = HashSet::with_capacity(t * k);
                let mut distinct = true;
                let mut interleaved = false;
                for (tid, v) in per_thread.iter().enumerate() {
                    let mut lo = u64::MAX;
                    let mut hi = 0u64;
                    for p in v.iter() {
                        match parse_count(p) {
                            Some(c) => {
                                counts.push(c);
                                lo = lo.min(c);
                                hi = hi.max(c);
                            }
                            None => parsed = false,
                        }
                        if p.parent() != Some(tmp.as_path()) {
                            in_tmp = false;
                        }
                        let ok = p.file_name().and_then(|f| f.to_str()).map(|f| f.contains(parts[tid].as_str())).unwrap_or(false);
                        if !ok {
                            has_part = false;
                        }
                        if !set.insert(p.clone()) {
                            distinct = false;
                        }
                    }
                    // the calls of this thread did not get a contiguous block of the counter: threads really overlapped
                    if !v.is_empty() && hi - lo + 1 != v.len() as u64 {
                        interleaved = true;
                    }
                }
                counts.sort_unstable();
                let runs = rle(&counts);
                // a few complete names: first and last of thread 0 and of the last thread, two random ones
                let mut samples: Vec<(String, u64, String)> = Vec::new();
                let mut picks: Vec<(usize, usize)> = vec![(0, 0), (0, k - 1), (t - 1, 0), (t - 1, k - 1)];
                for _ in 0..2 {
                    picks.push((rng.below(t as u64) as usize, rng.below(k as u64) as usize));
                }
                picks.sort_unstable();
                picks.dedup();
                for (tid, i) in picks {
                    let p = &per_thread[tid][i];
                    if let (Some(c), Some(f)) = (parse_count(p), p.file_name().and_then(|f| f.to_str())) {
                        samples.push((parts[tid].clone(), c, f.to_string()));
                    } else {
                        parsed = false;
                    }
                }
                out.stat(&format!("threads.{}", t));
                out.stat(&format!("calls.{}", k));
                out.stat(&format!("parts.style{}", style));
                out.stat_n("calls_total", (t * k) as u64);
                if interleaved {
                    out.stat("runs.interleaved");
                }
                let runs_s: Vec<String> = runs.iter().map(|(s, l)| format!("({}, {})", s, l)).collect();
                let smp_s: Vec<String> = samples.iter().map(|(p, c, f)| format!("({}, {}, {})", nlist(&bytes(p)), c, nlist(&bytes(f)))).collect();
                let term = format!("CRun {} {} {} {} [{}] {} {} {} [{}]", t, k, start, pid, runs_s.join("; "), b(in_tmp),
                    b(has_part && parsed), b(distinct), smp_s.join("; "));
                let runs_j: Vec<String> = runs.iter().map(|(s, l)| format!("[{},{}]", s, l)).collect();
                let smp_j: Vec<String> = samples.iter().map(|(p, c, f)| format!("{{\"part\":{:?},\"count\":{},\"name\":{:?}}}", p, c, f)).collect();
                let json = format!("{{\"threads\":{},\"calls\":{},\"start\":{},\"pid\":{},\"runs\":[{}],\"in_tmp\":{},\"has_part\":{},\"distinct\":{},\"interleaved\":{},\"samples\":[{}]}}",
                    t, k, start, pid, runs_j.join(","), in_tmp, has_part && parsed, distinct, interleaved, smp_j.join(","));
                out.case("run", term, json, true);
            }
        }
    }
}
