// C16: call histories on the real RLBuilder / SparseBuilder. After every call the outcome class
// (ok / err / panic) and every getter are recorded; at the end the builder is converted and the
// vector's runs resp. set positions are recorded. coq/Check/C16.v replays each history through the
// model and through the naive specification.
use crate::common::*;
use simple_sds::ops::{BitVec, Select};
use simple_sds::rl_vector::{RLBuilder, RLVector};
use simple_sds::sparse_vector::{SparseBuilder, SparseVector};
use std::convert::TryFrom;

const DBG: bool = cfg!(debug_assertions);
const MAX: usize = usize::MAX;

// ---------------------------------------------------------------- RLBuilder

#[derive(Clone, Copy, Debug)]
enum RlOp {
    TrySet(usize, usize),
    SetLen(usize),
}

fn rl_op_term(o: &RlOp) -> String {
    match o {
        RlOp::TrySet(s, l) => format!("TrySet {} {}", s, l),
        RlOp::SetLen(n) => format!("SetLen {}", n),
    }
}

fn oc(r: &Res<u64>) -> String {
    ires(r, |x| n(*x))
}

struct RlSeen {
    ops: Vec<RlOp>,
    trace: Vec<String>,
    accepted: usize,
    refused: usize,
}

fn rl_runs_of(bd: &RLBuilder) -> Res<Vec<(usize, usize)>> {
    catch(|| {
        let rv = RLVector::from(bd.clone());
        rv.run_iter().collect::<Vec<(usize, usize)>>()
    })
}

fn rl_apply(bd: &mut RLBuilder, o: RlOp, seen: &mut RlSeen, out: &mut Out) {
    let len_before = bd.len();
    let r: Res<u64> = match o {
        // a call that try_set accepts is, on every other occasion, made through the unchecked entry point try_set
        // forwards to (documented equivalent inside its safety condition start >= len, no overflow; len == 0: no effect)
        RlOp::TrySet(s, l) if s >= bd.len() && MAX - l >= s && (s ^ l) & 1 == 0 => catch(|| {
            unsafe { bd.set_run_unchecked(s, l) };
            0
        }),
        RlOp::TrySet(s, l) => catch(|| if bd.try_set(s, l).is_ok() { 0 } else { 1 }),
        RlOp::SetLen(k) => catch(|| {
            bd.set_len(k);
            0
        }),
    };
    match (&o, &r) {
        (RlOp::TrySet(_, 0), Res::Ok(0)) => out.stat("rl.call.accepted_zero_len"),
        (RlOp::TrySet(s, _), Res::Ok(0)) => out.stat(if *s == len_before { "rl.call.accepted_adjacent" } else { "rl.call.accepted_gap" }),
        (RlOp::TrySet(s, _), Res::Ok(_)) => out.stat(if *s < len_before { "rl.call.refused_order" } else { "rl.call.refused_overflow" }),
        (RlOp::SetLen(k), Res::Ok(_)) => out.stat(if *k > len_before { "rl.call.set_len_grow" } else { "rl.call.set_len_noop" }),
        (_, Res::Panic(..)) => out.stat("rl.call.panic"),
    }
    match &r {
        Res::Ok(0) => seen.accepted += 1,
        _ => seen.refused += 1,
    }
    let g = catch(|| (bd.len(), bd.count_ones(), bd.count_zeros(), bd.is_empty()));
    let runs = rl_runs_of(bd);
    seen.trace.push(format!(
        "({}, {}, {})",
        oc(&r),
        ires(&g, |x| format!("({}, {}, {}, {})", x.0, x.1, x.2, b(x.3))),
        ires(&runs, |x| plist(x))
    ));
    seen.ops.push(o);
}

fn rl_emit(kind: &str, bld: RLBuilder, seen: RlSeen, out: &mut Out) {
    let fin = catch(move || {
        let rv = RLVector::from(bld);
        let runs: Vec<(usize, usize)> = rv.run_iter().collect();
        (runs, rv.len(), rv.count_ones())
    });
    if let Res::Panic(..) = fin {
        out.stat("rl.final.panic");
    }
    let ops: Vec<String> = seen.ops.iter().map(rl_op_term).collect();
    let ops_t = format!("[{}]", ops.join("; "));
    let trace_t = format!("[{}]", seen.trace.join("; "));
    let fin_t = ires(&fin, |x| format!("({}, {}, {})", plist(&x.0), x.1, x.2));
    out.stat_n("rl.calls", seen.ops.len() as u64);
    out.case(
        kind,
        format!("CRL {} {} {} {}", b(DBG), ops_t, trace_t, fin_t),
        format!("{{\"ops\":{:?},\"trace\":{:?},\"final\":{:?}}}", ops_t, trace_t, fin_t),
        seen.accepted > 0 && seen.refused > 0,
    );
}

// a position step for the regime: 0 = tiny (0..20), 1 = medium, 2 = huge
fn rl_delta(rng: &mut Rng, regime: u64) -> usize {
    match regime {
        0 => rng.below(4) as usize,
        1 => match rng.below(4) {
            0 => rng.below(3) as usize,
            1 => rng.below(100) as usize,
            _ => rng.below(100_000) as usize,
        },
        _ => match rng.below(5) {
            0 => rng.below(3) as usize,
            1 => rng.below(1 << 20) as usize,
            2 => (rng.next() >> rng.range(4, 30)) as usize,
            _ => (rng.next() >> rng.range(6, 12)) as usize,
        },
    }
}

fn rl_random_op(rng: &mut Rng, bd: &RLBuilder, regime: u64) -> RlOp {
    let len = bd.len();
    let room = MAX - len;
    let k = rng.below(100);
    if k < 52 {
        // a valid run: adjacent (merge) or after a gap, clipped to what still fits
        let gap = if rng.chance(1, 3) { 0 } else { 1 + rl_delta(rng, regime) };
        let gap = gap.min(room);
        let start = len + gap;
        let l = (1 + rl_delta(rng, regime)).min(MAX - start);
        RlOp::TrySet(start, l)
    } else if k < 57 {
        // a run that ends exactly at usize::MAX or fills everything that is left (rare: it ends the history's growth)
        let start = if rng.chance(1, 2) { len } else { len + rl_delta(rng, regime).min(room) };
        if rng.chance(1, 4) { RlOp::TrySet(start, MAX - start) } else { RlOp::TrySet(start, (MAX - start).min(1 + rl_delta(rng, regime))) }
    } else if k < 63 {
        // zero-length run, at a legal or an illegal start
        let start = match rng.below(4) {
            0 => len,
            1 => len + rl_delta(rng, regime).min(room),
            2 => rng.below((len as u64).saturating_add(1)) as usize,
            _ => MAX,
        };
        RlOp::TrySet(start, 0)
    } else if k < 75 {
        // out of order: start < len (falls back to start 0 when the builder is empty: then legal)
        let start = if len == 0 { 0 } else {
            match rng.below(4) { 0 => 0, 1 => len - 1, 2 => len / 2, _ => rng.below(len as u64) as usize }
        };
        let l = match rng.below(4) { 0 => 1, 1 => MAX, 2 => MAX - start, _ => 1 + rl_delta(rng, regime) };
        RlOp::TrySet(start, l)
    } else if k < 87 {
        // start + len overflows (by one, by a lot, with len = usize::MAX, with start = usize::MAX)
        let start = match rng.below(4) { 0 => len, 1 => MAX, 2 => len + rl_delta(rng, regime).min(room), _ => len.max(MAX - rng.below(1000) as usize) };
        let l = match rng.below(5) {
            0 => (MAX - start).wrapping_add(1),          // one too many (0 when start = 0: then a zero-length run)
            1 => MAX,
            2 => MAX - rng.below(16) as usize,
            3 => (MAX - start).saturating_add(1 + rng.below(1000) as usize),
            _ => (MAX - start / 2).max(1),
        };
        RlOp::TrySet(start, l)
    } else {
        // set_len: smaller, equal, larger, extreme
        let m = match rng.below(8) {
            0 => 0,
            1 => len,
            2 => len.saturating_sub(1),
            3 => len / 2,
            4 => len.saturating_add(1),
            5 if regime == 2 && rng.chance(1, 4) => MAX,
            5 => len.saturating_add(1 + rl_delta(rng, regime)),
            6 => rng.below((len as u64).saturating_add(2)) as usize,
            _ => len.saturating_add(rl_delta(rng, regime)),
        };
        RlOp::SetLen(m)
    }
}

fn rl_histories(rng: &mut Rng, out: &mut Out, thorough: bool, variant: &str) {
    // ---- random histories, three scales
    let count = if thorough { 8000 } else { 1200 };
    for i in 0..count {
        let regime = (i % 3) as u64;
        let calls = rng.range(1, 30) as usize;
        let mut bld = RLBuilder::new();
        let mut seen = RlSeen { ops: Vec::new(), trace: Vec::new(), accepted: 0, refused: 0 };
        if regime == 2 && rng.chance(1, 2) {
            // start far out so that the end of the usize range is reached within the history
            let far = MAX - (rng.next() >> rng.range(1, 40)) as usize;
            rl_apply(&mut bld, RlOp::SetLen(far), &mut seen, out);
        }
        for _ in 0..calls {
            let o = rl_random_op(rng, &bld, regime);
            rl_apply(&mut bld, o, &mut seen, out);
        }
        out.stat(match regime { 0 => "rl.regime.tiny", 1 => "rl.regime.medium", _ => "rl.regime.huge" });
        rl_emit("rl", bld, seen, out);
    }
    // ---- the extreme stream: every argument from the boundary set, short histories
    let ext: Vec<usize> = vec![0, 1, 2, 9, 10, 11, 20, 1 << 63, MAX - 2, MAX - 1, MAX];
    for _ in 0..(if thorough { 2000 } else { 300 }) {
        let mut bld = RLBuilder::new();
        let mut seen = RlSeen { ops: Vec::new(), trace: Vec::new(), accepted: 0, refused: 0 };
        for _ in 0..rng.range(1, 6) {
            let o = if rng.chance(3, 4) { RlOp::TrySet(*rng.pick(&ext), *rng.pick(&ext)) } else { RlOp::SetLen(*rng.pick(&ext)) };
            rl_apply(&mut bld, o, &mut seen, out);
        }
        rl_emit("rl_extreme", bld, seen, out);
    }
    // ---- the two documented histories and the F5 witness
    let fixed: Vec<Vec<RlOp>> = vec![
        vec![RlOp::TrySet(18, 22), RlOp::TrySet(95, 15), RlOp::TrySet(110, 10), RlOp::TrySet(100, 1), RlOp::TrySet(140, 12), RlOp::SetLen(200)],
        vec![RlOp::SetLen(10), RlOp::TrySet(10, 5)],
        vec![RlOp::TrySet(2, 3), RlOp::SetLen(10), RlOp::TrySet(10, 5)],
        vec![RlOp::TrySet(5, 3), RlOp::SetLen(MAX)],
        vec![],
    ];
    // two blocks with no unset bit in front of them (the first run starts at 0 and fills block 0 alone), then nine more
    // blocks of small runs: every call is accepted, so the vector must build (former defect F8b)
    let mut fixed = fixed;
    {
        let p63 = 1usize << 63;
        let p60 = 1usize << 60;
        let mut h = vec![RlOp::TrySet(0, p63 + 1), RlOp::TrySet(p63 + 1 + p60, p60 + 1)];
        let mut pos = p63 + 1 + p60 + p60 + 1;
        for _ in 0..(32 * 9) {
            let gap = 1 + rng.below(7) as usize;
            let len = 1 + rng.below(7) as usize;
            h.push(RlOp::TrySet(pos + gap, len));
            pos += gap + len;
        }
        fixed.push(h);
    }
    for h in fixed {
        let mut bld = RLBuilder::new();
        let mut seen = RlSeen { ops: Vec::new(), trace: Vec::new(), accepted: 0, refused: 0 };
        for o in h {
            rl_apply(&mut bld, o, &mut seen, out);
        }
        rl_emit("rl_fixed", bld, seen, out);
    }
    // ---- exhaustive: every history of length <= 3 over a small alphabet on positions 0..6 (+ two huge calls)
    // (the quick tier uses a 14-call alphabet, the thorough tier a 21-call one)
    let mut alpha: Vec<RlOp> = Vec::new();
    let starts: Vec<usize> = if thorough { vec![0, 1, 2, 3, 5] } else { vec![0, 1, 3] };
    for s in starts {
        for l in [0usize, 1, 2] {
            alpha.push(RlOp::TrySet(s, l));
        }
    }
    alpha.push(RlOp::TrySet(2, MAX - 1));
    alpha.push(RlOp::TrySet(MAX, 1));
    let lens: Vec<usize> = if thorough { vec![0, 2, 4, 6] } else { vec![0, 2, 4] };
    for m in lens {
        alpha.push(RlOp::SetLen(m));
    }
    let full = thorough || variant == "native_dev";
    let na = alpha.len();
    for hl in 1..=3usize {
        let total = na.pow(hl as u32);
        for code in 0..total {
            if !full && rng.below(8) != 0 {
                continue;
            }
            let mut c = code;
            let mut bld = RLBuilder::new();
            let mut seen = RlSeen { ops: Vec::new(), trace: Vec::new(), accepted: 0, refused: 0 };
            for _ in 0..hl {
                rl_apply(&mut bld, alpha[c % na], &mut seen, out);
                c /= na;
            }
            rl_emit("rl_exhaustive", bld, seen, out);
        }
    }
}

// ---------------------------------------------------------------- SparseBuilder

#[derive(Clone, Debug)]
enum SpOp {
    TrySet(usize),
    Set(usize),
    Extend(Vec<usize>),
}

fn sp_op_term(o: &SpOp) -> String {
    match o {
        SpOp::TrySet(i) => format!("TrySetS {}", i),
        SpOp::Set(i) => format!("SetS {}", i),
        SpOp::Extend(v) => format!("ExtendS {}", ulist(v)),
    }
}

struct SpSeen {
    ops: Vec<SpOp>,
    trace: Vec<String>,
    accepted: usize,
    refused: usize,
}

fn sp_apply(bld: &mut SparseBuilder, o: SpOp, seen: &mut SpSeen, out: &mut Out) {
    let (full, next, univ) = (bld.is_full(), bld.next_index(), bld.universe());
    let r: Res<u64> = match &o {
        SpOp::TrySet(i) => catch(|| if bld.try_set(*i).is_ok() { 0 } else { 1 }),
        SpOp::Set(i) => catch(|| {
            bld.set(*i);
            0
        }),
        SpOp::Extend(v) => catch(|| {
            bld.extend(v.iter().cloned());
            0
        }),
    };
    let cls = match &r { Res::Ok(0) => "ok", Res::Ok(_) => "err", Res::Panic(..) => "panic" };
    match &o {
        SpOp::TrySet(i) | SpOp::Set(i) => {
            let why = if cls == "ok" { "valid" } else if full { "full" } else if *i < next { "order" } else if *i >= univ { "range" } else { "unexplained" };
            out.stat(&format!("sp.call.{}.{}.{}", if let SpOp::Set(_) = o { "set" } else { "try_set" }, cls, why));
        }
        SpOp::Extend(_) => out.stat(&format!("sp.call.extend.{}", cls)),
    }
    match &r {
        Res::Ok(0) => seen.accepted += 1,
        _ => seen.refused += 1,
    }
    let g = catch(|| (bld.len(), bld.capacity(), bld.universe(), bld.next_index(), bld.is_full(), bld.is_empty(), bld.is_multiset()));
    seen.trace.push(format!(
        "({}, {})",
        oc(&r),
        ires(&g, |x| format!("({}, {}, {}, {}, {}, {}, {})", x.0, x.1, x.2, x.3, b(x.4), b(x.5), b(x.6)))
    ));
    seen.ops.push(o);
}

fn sp_ctor_term(multi: bool, universe: usize, ones: usize) -> String {
    format!("({} {} {})", if multi { "MultisetS" } else { "NewS" }, universe, ones)
}

fn sp_make(multi: bool, universe: usize, ones: usize) -> Res<Option<SparseBuilder>> {
    catch(|| if multi { Some(SparseBuilder::multiset(universe, ones)) } else { SparseBuilder::new(universe, ones).ok() })
}

fn sp_emit(kind: &str, multi: bool, universe: usize, ones: usize, bld: Option<SparseBuilder>, seen: SpSeen, out: &mut Out) {
    let made = bld.is_some();
    let fin: Res<Option<(usize, usize, Vec<usize>)>> = match bld {
        None => Res::Ok(None),
        Some(bd) => catch(move || match SparseVector::try_from(bd) {
            Ok(sv) => {
                let pos: Vec<usize> = sv.one_iter().map(|(_, p)| p).collect();
                Some((sv.len(), sv.count_ones(), pos))
            }
            Err(_) => None,
        }),
    };
    match &fin {
        Res::Ok(Some(_)) => out.stat("sp.final.converted"),
        Res::Ok(None) => out.stat(if made { "sp.final.not_full" } else { "sp.ctor.refused" }),
        Res::Panic(..) => out.stat("sp.final.panic"),
    }
    let ops: Vec<String> = seen.ops.iter().map(sp_op_term).collect();
    let ops_t = format!("[{}]", ops.join("; "));
    let trace_t = format!("[{}]", seen.trace.join("; "));
    let fin_t = ires(&fin, |x| opt(x, |v| format!("({}, {}, {})", v.0, v.1, ulist(&v.2))));
    let ctor = sp_ctor_term(multi, universe, ones);
    out.stat_n("sp.calls", seen.ops.len() as u64);
    out.case(
        kind,
        format!("CSP {} {} {} {} {} {}", b(DBG), ctor, b(made), ops_t, trace_t, fin_t),
        format!("{{\"ctor\":{:?},\"made\":{},\"ops\":{:?},\"trace\":{:?},\"final\":{:?}}}", ctor, made, ops_t, trace_t, fin_t),
        seen.accepted > 0 && seen.refused > 0,
    );
}

// a valid next position for the builder, if there is one; leaves room for the positions still to come
fn sp_valid(rng: &mut Rng, bld: &SparseBuilder) -> Option<usize> {
    let (next, univ) = (bld.next_index(), bld.universe());
    if next >= univ {
        return None;
    }
    let left = (bld.capacity() - bld.len()).max(1);
    let span = univ - next;
    Some(match rng.below(10) {
        0 => next,
        1 => univ - 1,
        2 => next + rng.below(span as u64) as usize,
        _ => next + rng.below((span / left).max(1) as u64) as usize,
    })
}

fn sp_invalid(rng: &mut Rng, bld: &SparseBuilder) -> usize {
    let (next, univ) = (bld.next_index(), bld.universe());
    match rng.below(7) {
        0 => 0,
        1 => next.saturating_sub(1),
        2 => rng.below((next as u64).saturating_add(1)) as usize,
        3 => univ,
        4 => univ.saturating_add(1),
        5 => MAX,
        _ => univ.saturating_add(rng.below(1000) as usize),
    }
}

fn sp_random_op(rng: &mut Rng, bld: &SparseBuilder, long_lists: bool) -> SpOp {
    let invalid = rng.chance(3, 10);
    let method = rng.below(100);
    if method < 80 {
        let i = if invalid { sp_invalid(rng, bld) } else { sp_valid(rng, bld).unwrap_or_else(|| bld.universe()) };
        if method < 45 { SpOp::TrySet(i) } else { SpOp::Set(i) }
    } else {
        // extend: an ascending list of valid positions, possibly with one invalid element somewhere inside
        let k = if long_lists { rng.below(60) } else { rng.below(6) } as usize;
        let mut v: Vec<usize> = Vec::new();
        let (mut next, univ) = (bld.next_index(), bld.universe());
        let incr = if bld.is_multiset() { 0 } else { 1 };
        let left = (bld.capacity() - bld.len()).max(1);
        for _ in 0..k {
            if next >= univ {
                break;
            }
            let step = ((univ - next) / left).max(1);
            let p = next + rng.below(step as u64) as usize;
            v.push(p);
            next = p + incr;
        }
        if invalid {
            let bad = sp_invalid(rng, bld);
            let at = rng.below(v.len() as u64 + 1) as usize;
            v.insert(at, bad);
        }
        SpOp::Extend(v)
    }
}

fn sp_histories(rng: &mut Rng, out: &mut Out, thorough: bool, variant: &str) {
    let count = if thorough { 8000 } else { 1200 };
    for i in 0..count {
        // universe scale; ones = 0 or ones > universe keep the universe small (the high array has universe / 2 bits then)
        let regime = i % 4;
        let long_lists = rng.chance(1, 8);
        let mut ones = if long_lists { rng.range(20, 200) } else { rng.below(13) } as usize;
        let multi = rng.chance(1, 2);
        let mut universe = match regime {
            0 => rng.below(21) as usize,
            1 => rng.range(1, 1 << 16) as usize,
            2 => rng.range(1 << 26, 1 << 40) as usize,
            _ => MAX - (rng.next() >> rng.range(1, 60)) as usize,
        };
        if ones == 0 && universe > (1 << 20) {
            if rng.chance(1, 2) { ones = 1 } else { universe = rng.below(1 << 20) as usize }
        }
        out.stat(match regime { 0 => "sp.regime.tiny", 1 => "sp.regime.medium", 2 => "sp.regime.large", _ => "sp.regime.huge" });
        out.stat(if multi { "sp.kind.multiset" } else { "sp.kind.set" });
        if ones > universe {
            out.stat("sp.ctor.ones_gt_universe");
        }
        let mut seen = SpSeen { ops: Vec::new(), trace: Vec::new(), accepted: 0, refused: 0 };
        let made = sp_make(multi, universe, ones);
        let mut bld = match made {
            Res::Ok(x) => x,
            Res::Panic(..) => {
                out.stat("sp.ctor.panic");
                continue;
            }
        };
        if let Some(bd) = bld.as_mut() {
            let calls = rng.range(1, 30) as usize;
            for _ in 0..calls {
                // a full builder refuses everything: a few overfull attempts are enough
                if bd.is_full() && rng.chance(1, 2) {
                    break;
                }
                let o = sp_random_op(rng, bd, long_lists);
                sp_apply(bd, o, &mut seen, out);
            }
        }
        sp_emit("sp", multi, universe, ones, bld, seen, out);
    }
    // ---- extreme stream
    for _ in 0..(if thorough { 2000 } else { 300 }) {
        let universe = *rng.pick(&[0usize, 1, 2, 10, 11, 1 << 20, 1 << 63, MAX - 1, MAX]);
        let mut ones = *rng.pick(&[0usize, 1, 2, 3, 10, 11]);
        if ones == 0 && universe > (1 << 20) {
            ones = 1;
        }
        let multi = rng.chance(1, 2);
        let ext: Vec<usize> = vec![0, 1, 2, 9, 10, 11, universe.saturating_sub(1), universe, universe.saturating_add(1), 1 << 63, MAX - 2, MAX - 1, MAX];
        let mut seen = SpSeen { ops: Vec::new(), trace: Vec::new(), accepted: 0, refused: 0 };
        let mut bld = match sp_make(multi, universe, ones) {
            Res::Ok(x) => x,
            Res::Panic(..) => {
                out.stat("sp.ctor.panic");
                continue;
            }
        };
        if let Some(bd) = bld.as_mut() {
            for _ in 0..rng.range(1, 6) {
                let o = match rng.below(3) {
                    0 => SpOp::TrySet(*rng.pick(&ext)),
                    1 => SpOp::Set(*rng.pick(&ext)),
                    _ => SpOp::Extend((0..rng.below(4)).map(|_| *rng.pick(&ext)).collect()),
                };
                sp_apply(bd, o, &mut seen, out);
            }
        }
        sp_emit("sp_extreme", multi, universe, ones, bld, seen, out);
    }
    // ---- the documented histories
    let fixed: Vec<(bool, usize, usize, Vec<SpOp>)> = vec![
        (false, 300, 5, vec![SpOp::Set(12), SpOp::TrySet(10), SpOp::Extend(vec![24, 48, 96, 192])]),
        (true, 120, 3, vec![SpOp::Set(12), SpOp::Set(24), SpOp::Set(24)]),
        (false, 3, 4, vec![]),
        (true, 3, 5, vec![SpOp::Extend(vec![0, 0, 1, 2, 2]), SpOp::TrySet(2)]),
        (false, MAX, 2, vec![SpOp::Set(MAX - 2), SpOp::Set(MAX - 1), SpOp::TrySet(MAX)]),
        (false, 0, 0, vec![SpOp::TrySet(0)]),
    ];
    for (multi, universe, ones, h) in fixed {
        let mut seen = SpSeen { ops: Vec::new(), trace: Vec::new(), accepted: 0, refused: 0 };
        let mut bld = match sp_make(multi, universe, ones) {
            Res::Ok(x) => x,
            Res::Panic(..) => continue,
        };
        if let Some(bd) = bld.as_mut() {
            for o in h {
                sp_apply(bd, o, &mut seen, out);
            }
        }
        sp_emit("sp_fixed", multi, universe, ones, bld, seen, out);
    }
    // ---- exhaustive: every history of length <= 3 over a small alphabet, universe 6, capacity 3, set and multiset
    // (the quick tier uses an 11-call alphabet, the thorough tier a 13-call one)
    let mut alpha: Vec<SpOp> = vec![
        SpOp::TrySet(0), SpOp::TrySet(2), SpOp::TrySet(3), SpOp::TrySet(5), SpOp::TrySet(6),
        SpOp::Set(2), SpOp::Set(5), SpOp::Set(7),
        SpOp::Extend(vec![1, 2]), SpOp::Extend(vec![3, 3]), SpOp::Extend(vec![4, 1, 5]),
    ];
    if thorough {
        alpha.push(SpOp::TrySet(1));
        alpha.push(SpOp::Set(0));
    }
    let full = thorough || variant == "native_dev";
    let na = alpha.len();
    for multi in [false, true] {
        for hl in 1..=3usize {
            let total = na.pow(hl as u32);
            for code in 0..total {
                if !full && rng.below(8) != 0 {
                    continue;
                }
                let mut c = code;
                let mut seen = SpSeen { ops: Vec::new(), trace: Vec::new(), accepted: 0, refused: 0 };
                let mut bld = match sp_make(multi, 6, 3) {
                    Res::Ok(x) => x,
                    Res::Panic(..) => continue,
                };
                if let Some(bd) = bld.as_mut() {
                    for _ in 0..hl {
                        sp_apply(bd, alpha[c % na].clone(), &mut seen, out);
                        c /= na;
                    }
                }
                sp_emit("sp_exhaustive", multi, 6, 3, bld, seen, out);
            }
        }
    }
}

pub fn run(rng: &mut Rng, out: &mut Out, thorough: bool, variant: &str) {
    rl_histories(rng, out, thorough, variant);
    sp_histories(rng, out, thorough, variant);
}
