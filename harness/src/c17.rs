// C17: bit-level primitives.
use crate::common::*;
use simple_sds::bits;

const DBG: bool = cfg!(debug_assertions);
const PATH: u64 = if cfg!(all(target_arch = "x86_64", target_feature = "bmi2")) { 0 } else { 1 };

fn background(rng: &mut Rng, words: usize) -> Vec<u64> {
    (0..words).map(|_| rng.word()).collect()
}

// one in-word select query; a panic (e.g. the bounds hook of the lookup tables) is itself a failing case
fn sel_case(out: &mut Out, wv: u64, r: usize, stat: &str) {
    let res = catch(|| unsafe { bits::select(wv, r) });
    out.stat(stat);
    match res {
        Res::Ok(p) => out.case("sel", format!("CSel {} {} {} {}", PATH, n(wv), r, p),
            format!("{{\"path\":{},\"n\":{},\"r\":{},\"out\":{}}}", PATH, wv, r, p), true),
        Res::Panic(k, msg) => out.case("selcrash", format!("CSelCrash {} {} {} {}", PATH, n(wv), r, k),
            format!("{{\"path\":{},\"n\":{},\"r\":{},\"panic\":{:?}}}", PATH, wv, r, msg), true),
    }
}

pub fn run(rng: &mut Rng, out: &mut Out, thorough: bool, variant: &str) {
    // the full (offset, width) grid runs on one build in quick mode; the other builds sample it
    let full_grid = thorough || variant == "native_dev";
    // ---- write_int / read_int: every (offset 0..191, width 1..64), structured values and backgrounds
    let reps = if thorough { 6 } else { 1 };
    for off in 0..192usize {
        for w in 0..=64usize {
            if !full_grid && rng.below(8) != 0 {
                continue;
            }
            for _ in 0..reps {
                let a = background(rng, 4);
                let v = match rng.below(5) {
                    0 => !0u64,
                    1 => 0,
                    2 => rng.next(),                          // usually wider than w
                    3 => rng.next() & bits::low_set(w),
                    _ => 1u64 << rng.below(64),
                };
                let mut a2 = a.clone();
                let r = unsafe {
                    bits::write_int(&mut a2, off, v, w);
                    bits::read_int(&a2, off, w)
                };
                let straddle = (off % 64) + w > 64;
                out.stat(if straddle { "wr.straddle" } else { "wr.single" });
                out.case("wr", format!("CWR {} {} {} {} {} {}", nlist(&a), off, n(v), w, nlist(&a2), n(r)),
                    format!("{{\"a\":{:?},\"off\":{},\"v\":{},\"w\":{},\"out_a\":{:?},\"out_r\":{}}}", a, off, v, w, a2, r), true);
            }
        }
    }
    // far offsets (the theorem is unbounded in the offset; sample a long array)
    for _ in 0..(if thorough { 2000 } else { 300 }) {
        let words = rng.range(1, 40) as usize;
        let a = background(rng, words);
        let w = rng.range(0, 64) as usize;
        let max_off = words * 64 - std::cmp::max(w, 1);
        let off = rng.below(max_off as u64 + 1) as usize;
        let r = unsafe { bits::read_int(&a, off, w) };
        out.case("rd", format!("CRd {} {} {} {}", nlist(&a), off, w, r),
            format!("{{\"a\":{:?},\"off\":{},\"w\":{},\"out_r\":{}}}", a, off, w, r), true);
    }
    // ---- select: structured words (<= 2 non-zero bytes, single bits, full) and random ones, every rank
    let mut sel_words: Vec<u64> = vec![1, !0u64, 1u64 << 63, 0x8000_0000_0000_0001, 0x0101_0101_0101_0101, 0x8080_8080_8080_8080, 0xFF, 0xFF00_0000_0000_0000];
    for i in 0..8u64 {
        for j in i..8u64 {
            for _ in 0..(if thorough { 20 } else { 3 }) {
                let b1 = rng.range(1, 255);
                let b2 = rng.range(1, 255);
                sel_words.push((b1 << (8 * i)) | (b2 << (8 * j)));
            }
        }
    }
    for _ in 0..(if thorough { 4000 } else { 400 }) {
        sel_words.push(rng.word());
        sel_words.push(rng.next());
    }
    // dense words (high ranks in every byte) and words whose low k bytes are full but for 0..2 holes:
    // these reach every entry of the byte-count table of the portable path; all ranks are queried
    let mut dense_words: Vec<u64> = Vec::new();
    for _ in 0..(if thorough { 1500 } else { 150 }) {
        dense_words.push(rng.next() | rng.next() | rng.next());
        dense_words.push(rng.next() | rng.next() | rng.next() | rng.next());
    }
    for k in 1..=8u64 {
        for holes in 0..=2u64 {
            for _ in 0..(if thorough { 12 } else { 3 }) {
                let mut w = if k == 8 { !0u64 } else { (1u64 << (8 * k)) - 1 };
                for _ in 0..holes {
                    w &= !(1u64 << rng.below(8 * k));
                }
                if k < 8 {
                    w |= (rng.next() | 1) << (8 * k);
                }
                dense_words.push(w);
            }
        }
    }
    for wv in dense_words {
        for r in 0..(wv.count_ones() as usize) {
            sel_case(out, wv, r, if PATH == 0 { "sel.pdep.dense" } else { "sel.portable.dense" });
        }
    }
    for wv in sel_words {
        let ones = wv.count_ones() as usize;
        if ones == 0 {
            continue;
        }
        let ranks: Vec<usize> = if ones <= 6 || thorough { (0..ones).collect() } else { vec![0, 1, ones / 2, ones - 2, ones - 1, rng.below(ones as u64) as usize] };
        for r in ranks {
            sel_case(out, wv, r, if PATH == 0 { "sel.pdep" } else { "sel.portable" });
        }
    }
    // ---- masks: all n in 0..=64
    for nn in 0..=64usize {
        out.case("low", format!("CLow {} {}", nn, bits::low_set(nn)), format!("{{\"n\":{}}}", nn), true);
        out.case("high", format!("CHigh {} {}", nn, bits::high_set(nn)), format!("{{\"n\":{}}}", nn), true);
    }
    // ---- bit_len, reverse_low
    let mut vals: Vec<u64> = vec![0, 1, 2, 3, !0u64, !0u64 - 1, 1u64 << 63, (1u64 << 63) - 1];
    for k in 0..64 {
        vals.push(1u64 << k);
        vals.push((1u64 << k) - 1);
        vals.push((1u64 << k) + 1);
    }
    for _ in 0..200 {
        vals.push(rng.next() >> rng.below(64));
    }
    for v in vals.iter() {
        out.case("bitlen", format!("CBitLen {} {}", v, bits::bit_len(*v)), format!("{{\"n\":{}}}", v), true);
    }
    for v in vals.iter().take(if thorough { 400 } else { 80 }) {
        for bitsn in [1usize, 2, 7, 8, 9, 31, 32, 33, 63, 64, 0, 65] {
            let r = catch(|| bits::reverse_low(*v, bitsn));
            out.case("revlow", format!("CRevLow {} {} {} {}", b(DBG), v, bitsn, ires(&r, |x| n(*x))),
                format!("{{\"n\":{},\"bits\":{},\"out\":{}}}", v, bitsn, jres(&r, |x| n(*x))), bitsn >= 1 && bitsn <= 64);
        }
    }
    // ---- rounding helpers, including the edges of their documented domains
    let m = usize::MAX;
    let edge: Vec<usize> = vec![0, 1, 7, 8, 9, 63, 64, 65, 127, 128, 129, 1 << 32, m / 64, m / 64 + 1, m / 8, m / 8 + 1,
        m - 64, m - 63, m - 62, m - 8, m - 7, m - 6, m - 1, m, 1 << 58, (1 << 58) - 1, (1 << 61) - 1, 1 << 61];
    let mut args1: Vec<usize> = edge.clone();
    for _ in 0..100 {
        args1.push((rng.next() >> rng.below(64)) as usize);
    }
    for a in args1.iter() {
        let fs: [(u64, fn(usize) -> usize); 6] = [(0, bits::words_to_bytes), (1, bits::bytes_to_words), (2, bits::round_up_to_word_bytes),
            (3, bits::words_to_bits), (4, bits::bits_to_words), (5, bits::round_up_to_word_bits)];
        for (which, f) in fs.iter() {
            let r = catch(|| f(*a));
            out.case("fun", format!("CFun {} {} [{}] {}", which, b(DBG), a, ires(&r, |x| nu(*x))),
                format!("{{\"which\":{},\"arg\":{},\"out\":{}}}", which, a, jres(&r, |x| nu(*x))), true);
        }
    }
    for v in [false, true] {
        let r = catch(|| bits::filler_value(v) as usize);
        out.case("fun", format!("CFun 8 {} [{}] {}", b(DBG), v as u64, ires(&r, |x| nu(*x))),
            format!("{{\"which\":8,\"arg\":{},\"out\":{}}}", v, jres(&r, |x| nu(*x))), true);
    }
    let ns: Vec<usize> = vec![0, 1, 2, 3, 7, 8, 13, 64, 1 << 32, m / 2, m - 1, m];
    for a in args1.iter().take(60) {
        for d in ns.iter() {
            let r = catch(|| bits::div_round_up(*a, *d));
            out.case("fun", format!("CFun 6 {} [{}; {}] {}", b(DBG), a, d, ires(&r, |x| nu(*x))),
                format!("{{\"which\":6,\"args\":[{},{}],\"out\":{}}}", a, d, jres(&r, |x| nu(*x))), *d > 0);
        }
    }
    for a in args1.iter() {
        let (i, o) = bits::split_offset(*a);
        let r = catch(|| bits::bit_offset(i, o));
        out.case("fun", format!("CFun 7 {} [{}; {}] {}", b(DBG), i, o, ires(&r, |x| nu(*x))),
            format!("{{\"which\":7,\"args\":[{},{}],\"out\":{}}}", i, o, jres(&r, |x| nu(*x))), true);
    }
}
