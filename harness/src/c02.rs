// serves: C02 C15
// C02 / C15: the Elias-Fano sparse vector as a set (C02) and as a multiset (C15).
// One module serves both: `run(.., multiset = false)` emits the set cases, `true` the multiset cases.
use crate::common::*;
use simple_sds::bit_vector::BitVector;
use simple_sds::ops::*;
use simple_sds::raw_vector::{AccessRaw, RawVector};
use simple_sds::sparse_vector::{SparseBuilder, SparseVector};
use std::collections::BTreeSet;
use std::convert::TryFrom;
use std::fmt::Write;

const DBG: bool = cfg!(debug_assertions);
const PATH: u64 = if cfg!(all(target_arch = "x86_64", target_feature = "bmi2")) { 0 } else { 1 };
const MAX: usize = usize::MAX;

// tier and role of this build variant (set once in `run`): the thorough tier asks more questions per vector;
// a secondary variant of the quick tier replays a third of the non-exhaustive cases
static THOROUGH: std::sync::atomic::AtomicBool = std::sync::atomic::AtomicBool::new(false);
static PRIMARY: std::sync::atomic::AtomicBool = std::sync::atomic::AtomicBool::new(true);
static COUNTER: std::sync::atomic::AtomicUsize = std::sync::atomic::AtomicUsize::new(0);
fn thorough() -> bool {
    THOROUGH.load(std::sync::atomic::Ordering::Relaxed)
}

fn err_code(msg: &str) -> u64 {
    if msg.contains("greater than universe") {
        1
    } else if msg.contains("builder is full") {
        2
    } else if msg.contains("previous set position") {
        3
    } else if msg.contains("larger than universe") {
        4
    } else if msg.contains("not full") {
        5
    } else {
        99
    }
}

fn serialize_elems(x: &SparseVector) -> Vec<u64> {
    crate::bvgen::serialize_elems(x)
}

// low.width from the serialized elements: [len] ++ bitvector(ones, raw(len, nwords, words), 3 options) ++ intvector(len, width, ..)
fn width_of(ser: &[u64]) -> u64 {
    let mut p = 1; // len
    p += 1; // ones
    p += 1; // raw len
    let nwords = ser[p] as usize;
    p += 1 + nwords;
    for _ in 0..3 {
        let sz = ser[p] as usize;
        p += 1 + sz;
    }
    ser[p + 1]
}

// 0 = builder (set), 1 = builder (multiset), 2 = copy_bit_vec, 3 = try_from_iter
fn build(route: u64, n: usize, vals: &[usize]) -> Res<Result<SparseVector, u64>> {
    catch(|| match route {
        0 | 1 => {
            let mut b = if route == 0 {
                match SparseBuilder::new(n, vals.len()) {
                    Ok(b) => b,
                    Err(e) => return Err(err_code(e)),
                }
            } else {
                SparseBuilder::multiset(n, vals.len())
            };
            for v in vals.iter() {
                if let Err(e) = b.try_set(*v) {
                    return Err(err_code(e));
                }
            }
            SparseVector::try_from(b).map_err(|e| err_code(e))
        }
        2 => {
            let mut raw = RawVector::with_len(n, false);
            for v in vals.iter() {
                raw.set_bit(*v, true);
            }
            let bv = BitVector::from(raw);
            Ok(SparseVector::copy_bit_vec(&bv))
        }
        _ => SparseVector::try_from_iter(vals.iter().cloned()).map_err(|e| err_code(e)),
    })
}

// the width the rule chooses for (universe, ones), observed on an auxiliary vector (used when the build under
// test was rejected, so that the model can replay the rejected construction with the same width)
fn probe_width(n: usize, ones: usize) -> usize {
    if ones == 0 || ones > n || ones > (1 << 22) {
        return 1;
    }
    let r = catch(|| {
        let mut b = SparseBuilder::multiset(n, ones);
        for _ in 0..ones {
            b.set(0);
        }
        let sv = SparseVector::try_from(b).unwrap();
        width_of(&serialize_elems(&sv)) as usize
    });
    match r {
        Res::Ok(w) => w,
        Res::Panic(_, _) => 0,
    }
}

fn opair(x: &Option<(usize, usize)>) -> String {
    opt(x, |p| format!("({}, {})", p.0, p.1))
}
fn olist_pairs(xs: &[Option<(usize, usize)>]) -> String {
    let v: Vec<String> = xs.iter().map(opair).collect();
    format!("[{}]", v.join("; "))
}
fn olist_bools(xs: &[Option<bool>]) -> String {
    let v: Vec<String> = xs.iter().map(|x| opt(x, |y| b(*y))).collect();
    format!("[{}]", v.join("; "))
}

fn extremes(x: usize) -> Vec<usize> {
    vec![0, 1, x.wrapping_sub(1), x, x.wrapping_add(1), 1usize << 63, MAX - 1, MAX]
}

pub struct Level {
    pub all_args: bool,  // every argument 0..=n+1 (small universes)
    pub samples: usize,  // number of sampled values / random arguments otherwise
    pub iters: bool,     // full iterator walks
}

fn queries(sv: &SparseVector, vals: &[usize], w: usize, lv: &Level, rng: &mut Rng, out: &mut Out) -> String {
    let n = sv.len();
    let m = sv.count_ones();
    let z = sv.count_zeros();
    let mut qs: Vec<String> = Vec::new();
    qs.push(format!("QLens {} {} {}", n, m, z));
    qs.push(format!("QIsMulti {}", ires(&catch(|| sv.is_multiset()), |x| b(*x))));

    let mut idxs: BTreeSet<usize> = BTreeSet::new();
    let mut ranks: BTreeSet<usize> = BTreeSet::new();
    let mut zranks: BTreeSet<usize> = BTreeSet::new();
    idxs.extend(extremes(n));
    ranks.extend(extremes(m));
    zranks.extend(extremes(z));
    // an empty vector over a large universe makes every successor scan walk all of high: ask fewer questions
    let (cap_idx, cap_rank) = if m == 0 && n > 5000 { (10, 8) } else if thorough() { (36, 18) } else { (22, 11) };
    if lv.all_args && n <= 40 && m <= 60 {
        idxs.extend(0..=n + 1);
        ranks.extend(0..=m + 1);
        zranks.extend(0..=z + 1);
    } else {
        let bucket = 1usize << w;
        let mut sampled: Vec<usize> = Vec::new();
        if !vals.is_empty() {
            sampled.push(vals[0]);
            sampled.push(vals[vals.len() - 1]);
            sampled.push(vals[vals.len() / 2]);
            for _ in 0..lv.samples {
                sampled.push(vals[rng.below(vals.len() as u64) as usize]);
            }
        }
        for _ in 0..lv.samples / 2 + 1 {
            if n > 0 {
                sampled.push(rng.below(n as u64) as usize);
            }
        }
        for v in sampled {
            let base = (v >> w) << w;
            for x in [v.wrapping_sub(1), v, v.wrapping_add(1), base, base.wrapping_sub(1), base.wrapping_add(1), base.wrapping_add(bucket), base.wrapping_add(bucket).wrapping_sub(1)] {
                idxs.insert(x);
            }
            // zero ranks at the borders of the run of zeros before / after v (sets only; harmless otherwise)
            let rk = match catch(|| sv.rank(v)) { Res::Ok(r) => r, Res::Panic(_, _) => 0 };
            let rz = v.wrapping_sub(rk);
            for x in [rz.wrapping_sub(1), rz, rz.wrapping_add(1)] {
                zranks.insert(x);
            }
            let r = rk;
            for x in [r.wrapping_sub(1), r, r.wrapping_add(1)] {
                ranks.insert(x);
            }
        }
        for _ in 0..lv.samples / 2 + 1 {
            if m > 0 {
                ranks.insert(rng.below(m as u64) as usize);
            }
            if z > 0 {
                zranks.insert(rng.below(z as u64) as usize);
            }
        }
    }
    // keep the extreme arguments, subsample the rest down to the caps
    fn cap(set: &mut BTreeSet<usize>, keep: &[usize], cap: usize, rng: &mut Rng) {
        if set.len() <= cap {
            return;
        }
        let mut rest: Vec<usize> = set.iter().cloned().filter(|x| !keep.contains(x)).collect();
        let mut res: BTreeSet<usize> = keep.iter().cloned().collect();
        while res.len() < cap && !rest.is_empty() {
            let k = rng.below(rest.len() as u64) as usize;
            res.insert(rest.swap_remove(k));
        }
        *set = res;
    }
    if !(lv.all_args && n <= 40 && m <= 60) {
        cap(&mut idxs, &extremes(n), cap_idx, rng);
        cap(&mut ranks, &extremes(m), cap_rank, rng);
        cap(&mut zranks, &extremes(z), cap_rank, rng);
    }
    for i in idxs.iter().cloned() {
        if i < n {
            qs.push(format!("QGet {} {}", i, ires(&catch(|| sv.get(i)), |x| b(*x))));
        }
        qs.push(format!("QRank {} {}", i, ires(&catch(|| sv.rank(i)), |x| nu(*x))));
        if i <= n {
            qs.push(format!("QRank0 {} {}", i, ires(&catch(|| sv.rank_zero(i)), |x| nu(*x))));
        }
        let k = if lv.all_args { 3 } else { 2 };
        qs.push(format!("QPred {} {} {}", i, k, ires(&catch(|| sv.predecessor(i).take(k).collect::<Vec<(usize, usize)>>()), |x| plist(x))));
        qs.push(format!("QSucc {} {} {}", i, k, ires(&catch(|| sv.successor(i).take(k).collect::<Vec<(usize, usize)>>()), |x| plist(x))));
    }
    for r in ranks.iter().cloned() {
        qs.push(format!("QSel {} {}", r, ires(&catch(|| sv.select(r)), |x| opt(x, |y| nu(*y)))));
        qs.push(format!("QSelIter {} 3 {}", r, ires(&catch(|| sv.select_iter(r).take(3).collect::<Vec<(usize, usize)>>()), |x| plist(x))));
    }
    for r in zranks.iter().cloned() {
        qs.push(format!("QSel0 {} {}", r, ires(&catch(|| sv.select_zero(r)), |x| opt(x, |y| nu(*y)))));
        qs.push(format!("QSel0Iter {} 3 {}", r, ires(&catch(|| sv.select_zero_iter(r).take(3).collect::<Vec<(usize, usize)>>()), |x| plist(x))));
    }
    out.stat_n("queries.index_args", idxs.len() as u64);
    out.stat_n("queries.rank_args", (ranks.len() + zranks.len()) as u64);
    if lv.iters {
        // zero iterator prefix
        let k = std::cmp::min(z, if thorough() { 40 } else { 12 });
        qs.push(format!("QZeroIter {} {}", k + 1, ires(&catch(|| sv.zero_iter().take(k + 1).collect::<Vec<(usize, usize)>>()), |x| plist(x))));
        // one_iter: forward, backward, mixed
        let steps = std::cmp::min(m, if thorough() { 40 } else { 20 }) + 2;
        let mut pats: Vec<Vec<bool>> = vec![vec![false; steps], vec![true; steps]];
        pats.push((0..steps).map(|_| rng.below(2) == 0).collect());
        if thorough() {
            pats.push((0..steps).map(|i| i % 2 == 0).collect());
        }
        for pat in pats {
            let r = catch(|| {
                let mut it = sv.one_iter();
                pat.iter().map(|back| if *back { it.next_back() } else { it.next() }).collect::<Vec<Option<(usize, usize)>>>()
            });
            qs.push(format!("QOneIter {} {}", blist(&pat), ires(&r, |x| olist_pairs(x))));
        }
        out.stat("queries.one_iter_walks");
        // the bit iterator, small universes only (it walks over every position)
        if n <= (if thorough() { 150 } else { 70 }) {
            let steps = n + 2;
            let mut pats: Vec<Vec<bool>> = vec![vec![false; steps], vec![true; steps]];
            pats.push((0..steps).map(|_| rng.below(2) == 0).collect());
            if thorough() {
                pats.push((0..steps).map(|_| rng.below(4) == 0).collect());
            }
            for pat in pats {
                let r = catch(|| {
                    let mut it = sv.iter();
                    pat.iter().map(|back| if *back { it.next_back() } else { it.next() }).collect::<Vec<Option<bool>>>()
                });
                qs.push(format!("QBits {} {}", blist(&pat), ires(&r, |x| olist_bools(x))));
            }
            out.stat("queries.bit_iter_walks");
        }
    }
    format!("[{}]", qs.join("; "))
}

// emits one case; returns the width the crate chose (0 if nothing was built)
fn emit(out: &mut Out, kind: &str, route: u64, n: usize, vals: &[usize], lv: &Level, rng: &mut Rng) -> usize {
    if !PRIMARY.load(std::sync::atomic::Ordering::Relaxed) {
        let c = COUNTER.fetch_add(1, std::sync::atomic::Ordering::Relaxed);
        if c % 3 != 0 {
            out.stat("secondary_variant.skipped");
            return 0;
        }
    }
    let r = build(route, n, vals);
    let mut w = 0usize;
    let (built, qs) = match &r {
        Res::Ok(Ok(sv)) => {
            let ser = match catch(|| serialize_elems(sv)) {
                Res::Ok(s) => s,
                Res::Panic(_, _) => Vec::new(),
            };
            w = if ser.is_empty() { 0 } else { width_of(&ser) as usize };
            out.stat(&format!("width.{:02}", w));
            let q = queries(sv, vals, std::cmp::min(w, 63), lv, rng, out);
            (format!("(IOk (inl {}))", nlist(&ser)), q)
        }
        Res::Ok(Err(code)) => {
            out.stat(&format!("rejected.{}", code));
            let universe = if route == 3 { vals.last().map(|x| x.wrapping_add(1)).unwrap_or(0) } else { n };
            w = probe_width(universe, vals.len());
            (format!("(IOk (inr {}))", code), "[]".to_string())
        }
        Res::Panic(k, _) => {
            out.stat("build.panic");
            (format!("(IPanic {})", k), "[]".to_string())
        }
    };
    let mut term = String::new();
    let _ = write!(term, "CSV {} {} {} {} {} {} {} {}", PATH, b(DBG), route, n, ulist(vals), w, built, qs);
    let shown: Vec<usize> = if vals.len() <= 200 { vals.to_vec() } else { vals[..200].to_vec() };
    let json = format!("{{\"route\":{},\"n\":{},\"m\":{},\"w\":{},\"vals\":{:?},\"built\":{:?}}}", route, n, vals.len(), w, shown,
        match &r { Res::Ok(Ok(_)) => "ok".to_string(), Res::Ok(Err(c)) => format!("err {}", c), Res::Panic(k, msg) => format!("panic {} {}", k, msg) });
    out.stat(&format!("route.{}", route));
    out.case(kind, term, json, !vals.is_empty());
    w
}

const FULL: Level = Level { all_args: true, samples: 0, iters: true };
const LIGHT: Level = Level { all_args: false, samples: 1, iters: false };

// the width the rule would choose (estimate; only used to decide what can be replayed inside Coq)
fn est_width(n: usize, m: usize) -> u32 {
    if m == 0 || m > n {
        return 1;
    }
    let x = ((n as f64 * 2.0_f64.ln()) / (m as f64)).log2();
    x.max(1.0).round() as u32
}
// rough cost of replaying the construction in the list-based Coq model
fn replay_cost(n: usize, m: usize) -> f64 {
    let w = est_width(n, m);
    let high_words = ((m as f64) + (n as f64) / (2.0_f64).powi(w as i32)) / 64.0 + 1.0;
    let low_words = (m as f64) * (w as f64) / 64.0 + 1.0;
    (m as f64) * (high_words + low_words) + high_words * high_words
}

// m distinct positions below n in the given style
fn positions(rng: &mut Rng, n: usize, m: usize, style: u64) -> Vec<usize> {
    let mut s: BTreeSet<usize> = BTreeSet::new();
    if m == 0 || n == 0 {
        return Vec::new();
    }
    let m = std::cmp::min(m, n);
    if m == n {
        return (0..n).collect();
    }
    if m > n / 2 && n <= (1 << 22) {
        // complement of a sparse random set
        let mut holes: BTreeSet<usize> = BTreeSet::new();
        while holes.len() < n - m {
            holes.insert(rng.below(n as u64) as usize);
        }
        return (0..n).filter(|x| !holes.contains(x)).collect();
    }
    match style {
        0 => {
            // evenly spread, with the first and last positions
            s.insert(0);
            s.insert(n - 1);
            let stepf = n as f64 / m as f64;
            let mut k = 0;
            while s.len() < m && k < 4 * m {
                let x = ((k as f64) * stepf) as usize;
                s.insert(std::cmp::min(x, n - 1));
                k += 1;
            }
        }
        1 => {
            // one dense cluster at a random place
            let start = rng.below((n - m) as u64 + 1) as usize;
            for i in 0..m {
                s.insert(start + i);
            }
        }
        2 => {
            // clusters around bucket boundaries of the expected width
            let w = est_width(n, m);
            let bucket = 1usize << std::cmp::min(w, 62);
            let mut tries = 0;
            while s.len() < m && tries < 4 * m + 16 {
                tries += 1;
                let k = rng.below((n / bucket) as u64 + 1) as usize;
                let base = k.wrapping_mul(bucket);
                for d in [-2i64, -1, 0, 1, 2] {
                    let x = (base as i128 + d as i128) as i128;
                    if x >= 0 && (x as u128) < n as u128 && s.len() < m {
                        s.insert(x as usize);
                    }
                }
            }
        }
        3 => {
            // tail-heavy: everything at the end
            for i in 0..m {
                s.insert(n - 1 - i);
            }
        }
        _ => {}
    }
    while s.len() < m {
        s.insert(rng.below(n as u64) as usize);
    }
    s.into_iter().collect()
}

fn log_uniform(rng: &mut Rng, max_bits: u64) -> usize {
    let bits = rng.below(max_bits + 1);
    if bits == 0 {
        return rng.below(2) as usize;
    }
    let lo = 1u128 << (bits - 1);
    let x = lo + (rng.next() as u128 % lo);
    std::cmp::min(x, MAX as u128) as usize
}

fn subsets_exhaustive(out: &mut Out, rng: &mut Rng, max_n: usize) {
    for n in 0..=max_n {
        for pat in 0..(1u32 << n) {
            let vals: Vec<usize> = (0..n).filter(|i| (pat >> i) & 1 == 1).collect();
            emit(out, "exhaustive", 0, n, &vals, &FULL, rng);
            // the other routes give the same structure
            let alt = 1 + (pat as u64 + n as u64) % 3;
            if alt != 3 || vals.last() == Some(&(n.wrapping_sub(1))) {
                emit(out, "exhaustive.route", alt, n, &vals, &LIGHT, rng);
            }
        }
    }
}

fn run_sets(rng: &mut Rng, out: &mut Out, thorough: bool) {
    let budget = if thorough { 4.0e8 } else { 5.0e7 };
    subsets_exhaustive(out, rng, if thorough { 9 } else { 6 });

    // (n, m) grid
    let ns: Vec<usize> = vec![0, 1, 2, 3, 63, 64, 65, 100, 1000, 1 << 16, 1 << 20, 1 << 32, 1 << 40, 1 << 63, MAX - 1, MAX];
    for n in ns.iter().cloned() {
        let ms: Vec<usize> = vec![0, 1, 2, 3, n / 2, n.saturating_sub(1), n, 1 << 10];
        let mut seen: BTreeSet<usize> = BTreeSet::new();
        for m in ms {
            if m > n || !seen.insert(m) {
                continue;
            }
            if replay_cost(n, m) > budget || (m == 0 && n > (1 << 17)) {
                out.stat("grid.skipped_too_large_for_replay");
                continue;
            }
            let styles: Vec<u64> = if thorough { vec![0, 1, 2, 3, 4] } else { vec![0, 2] };
            for style in styles {
                let vals = positions(rng, n, m, style);
                let small = n <= 300;
                let lv = Level { all_args: small, samples: if m > 5000 { 4 } else { 12 }, iters: true };
                emit(out, "grid", 0, n, &vals, &lv, rng);
                out.stat("grid.cases");
                if m <= 3 || m >= n.saturating_sub(1) {
                    break; // styles barely differ
                }
            }
        }
    }

    // every low width 1..63 via the inverse of the rule: m ~ n ln2 / 2^w
    for w in 1..=63u32 {
        for mm in [1usize, 2, 3, 7, 20] {
            let nf = (mm as f64) * (2.0f64).powi(w as i32) / 2.0f64.ln();
            let n = if nf >= MAX as f64 { MAX } else { nf as usize };
            if n < mm {
                continue;
            }
            if !thorough && mm != 2 && w % 4 != 0 {
                continue;
            }
            let bucket = 1usize << w;
            let mut s: BTreeSet<usize> = BTreeSet::new();
            // first, last, and positions straddling bucket boundaries
            let mut cands: Vec<usize> = vec![0, n - 1, bucket.wrapping_sub(1), bucket, bucket.wrapping_add(1)];
            let nb = n / bucket;
            cands.push(nb.wrapping_mul(bucket));
            cands.push(nb.wrapping_mul(bucket).wrapping_sub(1));
            for _ in 0..mm {
                let k = rng.below(nb as u64 + 1) as usize;
                cands.push(k.wrapping_mul(bucket).wrapping_add(rng.below(3) as usize).wrapping_sub(1));
            }
            for i in 0..cands.len() {
                let j = i + rng.below((cands.len() - i) as u64) as usize;
                cands.swap(i, j);
            }
            for c in cands {
                if c < n && s.len() < mm {
                    s.insert(c);
                }
            }
            while s.len() < mm {
                s.insert(rng.below(n as u64) as usize);
            }
            let vals: Vec<usize> = s.into_iter().collect();
            let got = emit(out, "width_sweep", 0, n, &vals, &Level { all_args: false, samples: 8, iters: true }, rng);
            if got as u32 != w {
                out.stat("width_sweep.off_target");
            }
        }
    }

    // bucket boundaries and full / empty buckets at moderate sizes
    let reps = if thorough { 15 } else { 4 };
    for w in [1u32, 2, 3, 5, 8, 12] {
        for _ in 0..reps {
            let m = rng.range(3, 400) as usize;
            let n = std::cmp::max(m + 1, ((m as f64) * (2.0f64).powi(w as i32) / 2.0f64.ln()) as usize);
            let bucket = 1usize << w;
            let mut s: BTreeSet<usize> = BTreeSet::new();
            // some completely full buckets (possible when 2^w is small), some boundary pairs, some empty stretches
            while s.len() < m {
                let k = rng.below((n / bucket) as u64 + 1) as usize;
                match rng.below(4) {
                    0 => {
                        for d in 0..bucket {
                            if k * bucket + d < n && s.len() < m && bucket <= 64 {
                                s.insert(k * bucket + d);
                            }
                        }
                    }
                    1 => {
                        for x in [(k * bucket).wrapping_sub(1), k * bucket] {
                            if x < n && s.len() < m {
                                s.insert(x);
                            }
                        }
                    }
                    2 => {
                        let x = k * bucket + bucket - 1;
                        if x < n {
                            s.insert(x);
                        }
                    }
                    _ => {
                        s.insert(rng.below(n as u64) as usize);
                    }
                }
            }
            if rng.below(2) == 0 {
                s.insert(0);
                s.insert(n - 1);
            }
            let vals: Vec<usize> = s.into_iter().collect();
            emit(out, "buckets", 0, n, &vals, &Level { all_args: n <= 300, samples: 16, iters: true }, rng);
        }
    }

    // select_zero: more than 16 runs, arranged so that the binary search goes left, right and mixed
    let ms: Vec<usize> = if thorough { vec![16, 17, 18, 32, 33, 34, 35, 67, 131, 300, 1000, 3000] } else { vec![16, 17, 18, 33, 35, 67, 300, 1000] };
    for m in ms {
        for layout in 0..6u64 {
            let n = m * rng.range(2, 40) as usize + rng.below(50) as usize;
            let mut vals: Vec<usize> = Vec::new();
            match layout {
                0 => vals = (0..m).collect(),                 // all zeros after the ones: search always goes right
                1 => vals = (n - m..n).collect(),             // all zeros before the ones: search always goes left
                2 => vals = (0..m).map(|i| 2 * i + 1).collect(), // one zero per run
                3 => {
                    // a single gap in the middle
                    let g = rng.below(m as u64) as usize;
                    vals = (0..m).map(|i| if i < g { i } else { n - m + i }).collect();
                }
                4 => {
                    // geometric gaps
                    let mut p = 0usize;
                    for i in 0..m {
                        vals.push(p);
                        p += 1 + (if i % 7 == 0 { rng.below(20) as usize } else { 0 });
                    }
                }
                _ => vals = positions(rng, n, m, 4),
            }
            let n = std::cmp::max(n, vals.last().map(|x| x + 1).unwrap_or(0) + rng.below(3) as usize);
            let w = emit(out, "select_zero_runs", 0, n, &vals, &Level { all_args: n <= 300, samples: 24, iters: m <= 300 }, rng);
            let _ = w;
        }
    }

    // random
    for _ in 0..(if thorough { 250 } else { 40 }) {
        let mb = if rng.below(4) == 0 { 64 } else { 24 };
        let n = log_uniform(rng, mb);
        let mut m = log_uniform(rng, 11);
        if m > n {
            m = n;
        }
        if replay_cost(n, m) > budget / 10.0 || (m == 0 && n > (1 << 14)) {
            continue;
        }
        let st = rng.below(5);
        let vals = positions(rng, n, m, st);
        emit(out, "random", 0, n, &vals, &Level { all_args: n <= 200, samples: 10, iters: true }, rng);
    }

    // copy_bit_vec route at moderate sizes
    for _ in 0..(if thorough { 60 } else { 8 }) {
        let n = rng.range(1, 5000) as usize;
        let m = rng.below(std::cmp::min(n, 600) as u64 + 1) as usize;
        let st = rng.below(5);
        let vals = positions(rng, n, m, st);
        emit(out, "copy_bit_vec", 2, n, &vals, &Level { all_args: false, samples: 6, iters: false }, rng);
    }

    // inputs SparseBuilder must reject (set semantics)
    for _ in 0..(if thorough { 200 } else { 30 }) {
        let n = rng.range(0, 40) as usize;
        let m = rng.range(1, 8) as usize;
        let mut vals: Vec<usize> = (0..m).map(|_| rng.below(n as u64 + 3) as usize).collect();
        if rng.below(3) != 0 {
            vals.sort();
        }
        if rng.below(3) == 0 {
            vals.dedup();
        }
        emit(out, "maybe_invalid", 0, n, &vals, &LIGHT, rng);
    }
    for (n, vals) in [(0usize, vec![0usize]), (3, vec![0, 1, 2, 3]), (3, vec![3]), (MAX, vec![MAX]), (MAX, vec![MAX - 1]), (MAX - 1, vec![MAX - 1]), (5, vec![2, 2]), (5, vec![3, 2])] {
        emit(out, "maybe_invalid", 0, n, &vals, &LIGHT, rng);
    }
}

// all non-decreasing lists of length k over 0..n
fn multisets_of(n: usize, k: usize) -> Vec<Vec<usize>> {
    let mut res: Vec<Vec<usize>> = Vec::new();
    fn go(n: usize, k: usize, from: usize, cur: &mut Vec<usize>, res: &mut Vec<Vec<usize>>) {
        if cur.len() == k {
            res.push(cur.clone());
            return;
        }
        for v in from..n {
            cur.push(v);
            go(n, k, v, cur, res);
            cur.pop();
        }
    }
    go(n, k, 0, &mut Vec::new(), &mut res);
    res
}

fn run_multisets(rng: &mut Rng, out: &mut Out, thorough: bool) {
    let budget = if thorough { 2.0e8 } else { 3.0e7 };
    // exhaustive
    let (max_n, max_k) = if thorough { (5, 6) } else { (4, 5) };
    for n in 0..=max_n {
        for k in 0..=max_k {
            for vals in multisets_of(n, k) {
                emit(out, "exhaustive", 1, n, &vals, &FULL, rng);
                if vals.last() == Some(&(n.wrapping_sub(1))) || (n == 0 && vals.is_empty()) {
                    emit(out, "exhaustive.try_from_iter", 3, n, &vals, &LIGHT, rng);
                }
            }
        }
    }
    // duplicate runs next to bucket boundaries, at 0 and at n - 1
    let reps = if thorough { 15 } else { 5 };
    for w in [1u32, 2, 3, 4, 6, 9, 13, 20, 40, 62] {
        for _ in 0..reps {
            let m = rng.range(4, 300) as usize;
            let nf = (m as f64) * (2.0f64).powi(w as i32) / 2.0f64.ln();
            let n = if nf >= MAX as f64 { MAX } else { std::cmp::max(2, nf as usize) };
            let bucket = 1usize << w;
            let mut vals: Vec<usize> = Vec::new();
            while vals.len() < m {
                let k = rng.below((n / bucket) as u64 + 1) as usize;
                let base = k.wrapping_mul(bucket);
                let x = match rng.below(6) {
                    0 => 0,
                    1 => n - 1,
                    2 => base.wrapping_sub(1),
                    3 => base,
                    4 => base.wrapping_add(bucket - 1),
                    _ => rng.below(n as u64) as usize,
                };
                if x >= n {
                    continue;
                }
                let run = match rng.below(4) {
                    0 => 1,
                    1 => 2,
                    2 => rng.range(2, 9) as usize,
                    _ => rng.range(2, 70) as usize,
                };
                for _ in 0..run {
                    if vals.len() < m {
                        vals.push(x);
                    }
                }
            }
            vals.sort();
            let lv = Level { all_args: n <= 300, samples: 14, iters: true };
            emit(out, "dup_runs", 1, n, &vals, &lv, rng);
            if rng.below(3) == 0 {
                emit(out, "dup_runs.try_from_iter", 3, 0, &vals, &Level { all_args: false, samples: 6, iters: true }, rng);
            }
        }
    }
    // overfull: more values than the universe has positions
    for n in [1usize, 2, 3, 5, 8, 64, 100] {
        for _ in 0..(if thorough { 8 } else { 2 }) {
            let m = n + rng.range(1, 3 * n as u64 + 70) as usize;
            let mut vals: Vec<usize> = (0..m).map(|_| match rng.below(4) { 0 => 0, 1 => n - 1, _ => rng.below(n as u64) as usize }).collect();
            vals.sort();
            emit(out, "overfull", 1, n, &vals, &FULL, rng);
            emit(out, "overfull.try_from_iter", 3, 0, &vals, &LIGHT, rng);
        }
    }
    // all copies of one value
    for (n, v, m) in [(1usize, 0usize, 200usize), (100, 0, 50), (100, 99, 50), (1 << 20, (1 << 20) - 1, 100), (MAX, MAX - 1, 40), (MAX, 0, 40), (1 << 63, 1 << 62, 33)] {
        let vals = vec![v; m];
        emit(out, "single_value", 1, n, &vals, &Level { all_args: n <= 300, samples: 6, iters: true }, rng);
    }
    // random multisets
    for _ in 0..(if thorough { 250 } else { 50 }) {
        let mb = if rng.below(4) == 0 { 64 } else { 20 };
        let n = std::cmp::max(1, log_uniform(rng, mb));
        let m = log_uniform(rng, 10);
        if replay_cost(n, std::cmp::min(m, n)) > budget / 10.0 {
            continue;
        }
        let distinct = std::cmp::max(1, rng.below(m as u64 + 1) as usize);
        let pool: Vec<usize> = (0..distinct).map(|_| rng.below(n as u64) as usize).collect();
        let mut vals: Vec<usize> = (0..m).map(|_| pool[rng.below(pool.len() as u64) as usize]).collect();
        vals.sort();
        emit(out, "random", 1, n, &vals, &Level { all_args: n <= 200, samples: 10, iters: true }, rng);
    }
    // try_from_iter: sorted lists are accepted, anything else is rejected
    for _ in 0..(if thorough { 400 } else { 60 }) {
        let m = rng.range(0, 12) as usize;
        let top = match rng.below(4) { 0 => 4, 1 => 50, 2 => 1 << 20, _ => MAX - 1 } as u64;
        let mut vals: Vec<usize> = (0..m).map(|_| rng.below(top + 1) as usize).collect();
        let sorted = rng.below(3) != 0;
        if sorted {
            vals.sort();
            // sometimes break the order at one place
            if m >= 2 && rng.below(3) == 0 {
                let i = rng.below(m as u64 - 1) as usize;
                vals.swap(i, i + 1);
            }
        }
        emit(out, "try_from_iter", 3, 0, &vals, &Level { all_args: false, samples: 4, iters: true }, rng);
    }
    for vals in [vec![], vec![0usize], vec![0, 0], vec![5], vec![1, 0], vec![0, 1, 0], vec![MAX - 1], vec![MAX - 1, MAX - 1], vec![7, 7, 7, 6]] {
        emit(out, "try_from_iter", 3, 0, &vals, &FULL, rng);
    }
    // multiset builder must reject decreasing input and values outside the universe
    for _ in 0..(if thorough { 200 } else { 30 }) {
        let n = rng.range(0, 30) as usize;
        let m = rng.range(1, 8) as usize;
        let mut vals: Vec<usize> = (0..m).map(|_| rng.below(n as u64 + 2) as usize).collect();
        if rng.below(3) != 0 {
            vals.sort();
        }
        emit(out, "maybe_invalid", 1, n, &vals, &LIGHT, rng);
    }
}

pub fn run(rng: &mut Rng, out: &mut Out, thorough: bool, multiset: bool, variant: &str) {
    THOROUGH.store(thorough, std::sync::atomic::Ordering::Relaxed);
    PRIMARY.store(variant == "native_dev" || (thorough && variant == "native_release"), std::sync::atomic::Ordering::Relaxed);
    if multiset {
        run_multisets(rng, out, thorough);
    } else {
        run_sets(rng, out, thorough);
    }
}
