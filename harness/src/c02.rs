// serves: C02 C15
// C02 / C15: the Elias-Fano sparse vector as a set (C02) and as a multiset (C15).
// One module serves both: `run(.., multiset = false)` emits the set cases, `true` the multiset cases.
use crate::common::*;
use simple_sds::bit_vector::BitVector;
use simple_sds::ops::*;
use simple_sds::raw_vector::{AccessRaw, RawVector};
use simple_sds::sparse_vector::{SparseBuilder, SparseVector};
use std::collections::BTreeSet;
use std::convert::TryFrom;
use std::fmt::Write;

const DBG: bool = cfg!(debug_assertions);
const PATH: u64 = if cfg!(all(target_arch = "x86_64", target_feature = "bmi2")) { 0 } else { 1 };
const MAX: usize = usize::MAX;

// tier and role of this build variant (set once in `run`): the thorough tier asks more questions per vector;
// a secondary variant of the quick tier replays a third of the non-exhaustive cases
static THOROUGH: std::sync::atomic::AtomicBool = std::sync::atomic::AtomicBool::new(false);
static PRIMARY: std::sync::atomic::AtomicBool = std::sync::atomic::AtomicBool::new(true);
static COUNTER: std::sync::atomic::AtomicUsize = std::sync::atomic::AtomicUsize::new(0);
fn thorough() -> bool {
    THOROUGH.load(std::sync::atomic::Ordering::Relaxed)
}

fn err_code(msg: &str) -> u64 {
    if msg.contains("greater than universe") {
        1
    } else if msg.contains("builder is full") {
        2
    } else if msg.contains("previous set position") {
        3
    } else if msg.contains("larger than universe") {
        4
    } else if msg.contains("not full") {
        5
    } else {
        99
    }
}

fn serialize_elems(x: &SparseVector) -> Vec<u64> {
    crate::bvgen::serialize_elems(x)
}

// low.width from the serialized elements: [len] ++ bitvector(ones, raw(len, nwords, words), 3 options) ++ intvector(len, width, ..)
fn width_of(ser: &[u64]) -> u64 {
    let mut p = 1; // len
    p += 1; // ones
    p += 1; // raw len
    let nwords = ser[p] as usize;
    p += 1 + nwords;
    for _ in 0..3 {
        let sz = ser[p] as usize;
        p += 1 + sz;
    }
    ser[p + 1]
}

// 0 = builder (set), 1 = builder (multiset), 2 = copy_bit_vec, 3 = try_from_iter
fn build(route: u64, n: usize, vals: &[usize]) -> Res<Result<SparseVector, u64>> {
    catch(|| match route {
        0 | 1 => {
            let mut b = if route == 0 {
                match SparseBuilder::new(n, vals.len()) {
                    Ok(b) => b,
                    Err(e) => return Err(err_code(e)),
                }
            } else {
                SparseBuilder::multiset(n, vals.len())
            };
            for v in vals.iter() {
                if let Err(e) = b.try_set(*v) {
                    return Err(err_code(e));
                }
            }
            SparseVector::try_from(b).map_err(|e| err_code(e))
        }
        2 => {
            let mut raw = RawVector::with_len(n, false);
            for v in vals.iter() {
                raw.set_bit(*v, true);
            }
            let bv = BitVector::from(raw);
            Ok(SparseVector::copy_bit_vec(&bv))
        }
        _ => SparseVector::try_from_iter(vals.iter().cloned()).map_err(|e| err_code(e)),
    })
}

// the width the rule chooses for (universe, ones), observed on an auxiliary vector (used when the build under
// test was rejected, so that the model can replay the rejected construction with the same width)
fn probe_width(n: usize, ones: usize) -> usize {
    if ones == 0 || ones > n || ones > (1 << 22) {
        return 1;
    }
    let r = catch(|| {
        let mut b = SparseBuilder::multiset(n, ones);
        for _ in 0..ones {
            b.set(0);
        }
        let sv = SparseVector::try_from(b).unwrap();
        width_of(&serialize_elems(&sv)) as usize
    });
    match r {
        Res::Ok(w) => w,
        Res::Panic(_, _) => 0,
    }
}

fn opair(x: &Option<(usize, usize)>) -> String {
    opt(x, |p| format!("({}, {})", p.0, p.1))
}
fn olist_pairs(xs: &[Option<(usize, usize)>]) -> String {
    let v: Vec<String> = xs.iter().map(opair).collect();
    format!("[{}]", v.join("; "))
}
fn olist_bools(xs: &[Option<bool>]) -> String {
    let v: Vec<String> = xs.iter().map(|x| opt(x, |y| b(*y))).collect();
    format!("[{}]", v.join("; "))
}

fn extremes(x: usize) -> Vec<usize> {
    vec![0, 1, x.wrapping_sub(1), x, x.wrapping_add(1), 1usize << 63, MAX - 1, MAX]
}

pub struct Level {
    pub all_args: bool,  // every argument 0..=n+1 (small universes)
    pub samples: usize,  // number of sampled values / random arguments otherwise
    pub iters: bool,     // full iterator walks
}

fn queries(sv: &SparseVector, vals: &[usize], w: usize, lv: &Level, rng: &mut Rng, out: &mut Out) -> String {
    let n = sv.len();
    let m = sv.count_ones();
    let z = sv.count_zeros();
    let mut qs: Vec<String> = Vec::new();
    qs.push(format!("QLens {} {} {}", n, m, z));
    qs.push(format!("QIsMulti {}", ires(&catch(|| sv.is_multiset()), |x| b(*x))));

    let mut idxs: BTreeSet<usize> = BTreeSet::new();
    let mut ranks: BTreeSet<usize> = BTreeSet::new();
    let mut zranks: BTreeSet<usize> = BTreeSet::new();
    idxs.extend(extremes(n));
    ranks.extend(extremes(m));
    zranks.extend(extremes(z));
    // an empty vector over a large universe makes every successor scan walk all of high: ask fewer questions
    let (cap_idx, cap_rank) = if m == 0 && n > 5000 { (10, 8) } else if thorough() { (36, 18) } else { (22, 11) };
    if lv.all_args && n <= 40 && m <= 60 {
        idxs.extend(0..=n + 1);
        ranks.extend(0..=m + 1);
        zranks.extend(0..=z + 1);
    } else {
        let bucket = 1usize << w;
        let mut sampled: Vec<usize> = Vec::new();
        if !vals.is_empty() {
            sampled.push(vals[0]);
            sampled.push(vals[vals.len() - 1]);
            sampled.push(vals[vals.len() / 2]);
            for _ in 0..lv.samples {
                sampled.push(vals[rng.below(vals.len() as u64) as usize]);
            }
        }
        for _ in 0..lv.samples / 2 + 1 {
            if n > 0 {
                sampled.push(rng.below(n as u64) as usize);
            }
        }
        for v in sampled {
            let base = (v >> w) << w;
            for x in [v.wrapping_sub(1), v, v.wrapping_add(1), base, base.wrapping_sub(1), base.wrapping_add(1), base.wrapping_add(bucket), base.wrapping_add(bucket).wrapping_sub(1)] {
                idxs.insert(x);
            }
            // zero ranks at the borders of the run of zeros before / after v (sets only; harmless otherwise)
            let rk = match catch(|| sv.rank(v)) { Res::Ok(r) => r, Res::Panic(_, _) => 0 };
            let rz = v.wrapping_sub(rk);
            for x in [rz.wrapping_sub(1), rz, rz.wrapping_add(1)] {
                zranks.insert(x);
            }
            let r = rk;
            for x in [r.wrapping_sub(1), r, r.wrapping_add(1)] {
                ranks.insert(x);
            }
        }
        for _ in 0..lv.samples / 2 + 1 {
            if m > 0 {
                ranks.insert(rng.below(m as u64) as usize);
            }
            if z > 0 {
                zranks.insert(rng.below(z as u64) as usize);
            }
        }
    }
    // keep the extreme arguments, subsample the rest down to the caps
    fn cap(set: &mut BTreeSet<usize>, keep: &[usize], cap: usize, rng: &mut Rng) {
        if set.len() <= cap {
            return;
        }
        let mut rest: Vec<usize> = set.iter().cloned().filter(|x| !keep.contains(x)).collect();
        let mut res: BTreeSet<usize> = keep.iter().cloned().collect();
        while res.len() < cap && !rest.is_empty() {
            let k = rng.below(rest.len() as u64) as usize;
            res.insert(rest.swap_remove(k));
        }
        *set = res;
    }
    if !(lv.all_args && n <= 40 && m <= 60) {
        cap(&mut idxs, &extremes(n), cap_idx, rng);
        cap(&mut ranks, &extremes(m), cap_rank, rng);
        cap(&mut zranks, &extremes(z), cap_rank, rng);
    }
    for i in idxs.iter().cloned() {
        if i < n {
            qs.push(format!("QGet {} {}", i, ires(&catch(|| sv.get(i)), |x| b(*x))));
        }
        qs.push(format!("QRank {} {}", i, ires(&catch(|| sv.rank(i)), |x| nu(*x))));
        if i <= n {
            qs.push(format!("QRank0 {} {}", i, ires(&catch(|| sv.rank_zero(i)), |x| nu(*x))));
        }
        let k = if lv.all_args { 3 } else { 2 };
        qs.push(format!("QPred {} {} {}", i, k, ires(&catch(|| sv.predecessor(i).take(k).collect::<Vec<(usize, usize)>>()), |x| plist(x))));
        qs.push(format!("QSucc {} {} {}", i, k, ires(&catch(|| sv.successor(i).take(k).collect::<Vec<(usize, usize)>>()), |x| plist(x))));
        if qs.len() % 3 == 0 {
            // the same iterators from both ends
            let pat: Vec<bool> = vec![true, false, true, true, false];
            let r = catch(|| {
                let mut it = sv.successor(i);
                pat.iter().map(|back| if *back { it.next_back() } else { it.next() }).collect::<Vec<Option<(usize, usize)>>>()
            });
            qs.push(format!("QSuccD {} {} {}", i, blist(&pat), ires(&r, |x| olist_pairs(x))));
            let r = catch(|| {
                let mut it = sv.predecessor(i);
                pat.iter().map(|back| if *back { it.next_back() } else { it.next() }).collect::<Vec<Option<(usize, usize)>>>()
            });
            qs.push(format!("QPredD {} {} {}", i, blist(&pat), ires(&r, |x| olist_pairs(x))));
        }
    }
    for r in ranks.iter().cloned() {
        qs.push(format!("QSel {} {}", r, ires(&catch(|| sv.select(r)), |x| opt(x, |y| nu(*y)))));
        qs.push(format!("QSelIter {} 3 {}", r, ires(&catch(|| sv.select_iter(r).take(3).collect::<Vec<(usize, usize)>>()), |x| plist(x))));
    }
    for r in zranks.iter().cloned() {
        qs.push(format!("QSel0 {} {}", r, ires(&catch(|| sv.select_zero(r)), |x| opt(x, |y| nu(*y)))));
        qs.push(format!("QSel0Iter {} 3 {}", r, ires(&catch(|| sv.select_zero_iter(r).take(3).collect::<Vec<(usize, usize)>>()), |x| plist(x))));
    }
    out.stat_n("queries.index_args", idxs.len() as u64);
    out.stat_n("queries.rank_args", (ranks.len() + zranks.len()) as u64);
    if lv.iters {
        // zero iterator prefix
        let k = std::cmp::min(z, if thorough() { 40 } else { 12 });
        qs.push(format!("QZeroIter {} {}", k + 1, ires(&catch(|| sv.zero_iter().take(k + 1).collect::<Vec<(usize, usize)>>()), |x| plist(x))));
        // one_iter: forward, backward, mixed
        let steps = std::cmp::min(m, if thorough() { 40 } else { 20 }) + 2;
        let mut pats: Vec<Vec<bool>> = vec![vec![false; steps], vec![true; steps]];
        pats.push((0..steps).map(|_| rng.below(2) == 0).collect());
        if thorough() {
            pats.push((0..steps).map(|i| i % 2 == 0).collect());
        }
        for pat in pats {
            let r = catch(|| {
                let mut it = sv.one_iter();
                pat.iter().map(|back| if *back { it.next_back() } else { it.next() }).collect::<Vec<Option<(usize, usize)>>>()
            });
            qs.push(format!("QOneIter {} {}", blist(&pat), ires(&r, |x| olist_pairs(x))));
        }
        out.stat("queries.one_iter_walks");
        // the bit iterator, small universes only (it walks over every position)
        if n <= (if thorough() { 150 } else { 70 }) {
            let steps = n + 2;
            let mut pats: Vec<Vec<bool>> = vec![vec![false; steps], vec![true; steps]];
            pats.push((0..steps).map(|_| rng.below(2) == 0).collect());
            if thorough() {
                pats.push((0..steps).map(|_| rng.below(4) == 0).collect());
            }
            for pat in pats {
                let r = catch(|| {
                    let mut it = sv.iter();
                    pat.iter().map(|back| if *back { it.next_back() } else { it.next() }).collect::<Vec<Option<bool>>>()
                });
                qs.push(format!("QBits {} {}", blist(&pat), ires(&r, |x| olist_bools(x))));
            }
            out.stat("queries.bit_iter_walks");
        }
    }
    format!("[{}]", qs.join("; "))
}

// emits one case; returns the width the crate chose (0 if nothing was built)
fn emit(out: &mut Out, kind: &str, route: u64, n: usize, vals: &[usize], lv: &Level, rng: &mut Rng) -> usize {
    if !PRIMARY.load(std::sync::atomic::Ordering::Relaxed) {
        let c = COUNTER.fetch_add(1, std::sync::atomic::Ordering::Relaxed);
        if c % 3 != 0 {
            out.stat("secondary_variant.skipped");
            return 0;
        }
    }
    emit_full(out, kind, route, n, vals, None, None, lv, rng)
}

// `runs`: the value list in run notation (long lists are written that way into the case file);
// `planner`: chooses the questions from the built vector's layout instead of the sampling in `queries`
fn emit_full(out: &mut Out, kind: &str, route: u64, n: usize, vals: &[usize], runs: Option<&Runs>, planner: Option<&dyn Fn(&[u64], usize, &mut Out) -> Plan>, lv: &Level, rng: &mut Rng) -> usize {
    let r = build(route, n, vals);
    let mut w = 0usize;
    let (built, qs) = match &r {
        Res::Ok(Ok(sv)) => {
            let ser = match catch(|| serialize_elems(sv)) {
                Res::Ok(s) => s,
                Res::Panic(_, _) => Vec::new(),
            };
            w = if ser.is_empty() { 0 } else { width_of(&ser) as usize };
            out.stat(&format!("width.{:02}", w));
            let q = match planner {
                Some(f) if !ser.is_empty() => {
                    // (a serialized form the layout cannot be read from must not stop the harness)
                    let plan = match catch(|| f(&ser, w, &mut *out)) {
                        Res::Ok(p) => p,
                        Res::Panic(_, _) => {
                            out.stat("longsb.plan.layout_not_readable");
                            Plan { idx: extremes(n).into_iter().map(|i| (i, true, true, 1, 1)).collect(), ranks: extremes(vals.len()).into_iter().map(|r| (r, 1)).collect(), zranks: Vec::new(), is_multi: false }
                        }
                    };
                    ask_plan(sv, &plan, out)
                }
                _ => queries(sv, vals, std::cmp::min(w, 63), lv, rng, out),
            };
            (format!("(IOk (inl {}))", nlist(&ser)), q)
        }
        Res::Ok(Err(code)) => {
            out.stat(&format!("rejected.{}", code));
            let universe = if route == 3 { vals.last().map(|x| x.wrapping_add(1)).unwrap_or(0) } else { n };
            w = probe_width(universe, vals.len());
            (format!("(IOk (inr {}))", code), "[]".to_string())
        }
        Res::Panic(k, _) => {
            out.stat("build.panic");
            (format!("(IPanic {})", k), "[]".to_string())
        }
    };
    let mut term = String::new();
    let vterm = match runs { Some(rs) => runs_term(rs), None => ulist(vals) };
    let _ = write!(term, "CSV {} {} {} {} {} {} {} {}", PATH, b(DBG), route, n, vterm, w, built, qs);
    let shown: Vec<usize> = if runs.is_some() { vals[..std::cmp::min(vals.len(), 8)].to_vec() } else if vals.len() <= 200 { vals.to_vec() } else { vals[..200].to_vec() };
    let rj = match runs {
        Some(rs) => format!(",\"runs_start_count_step\":[{}]", rs.iter().map(|(s, c, st)| format!("[{},{},{}]", s, c, st)).collect::<Vec<String>>().join(",")),
        None => String::new(),
    };
    let json = format!("{{\"route\":{},\"n\":{},\"m\":{},\"w\":{},\"vals\":{:?},\"built\":{:?}{}}}", route, n, vals.len(), w, shown,
        match &r { Res::Ok(Ok(_)) => "ok".to_string(), Res::Ok(Err(c)) => format!("err {}", c), Res::Panic(k, msg) => format!("panic {} {}", k, msg) }, rj);
    out.stat(&format!("route.{}", route));
    out.case(kind, term, json, !vals.is_empty());
    w
}

const FULL: Level = Level { all_args: true, samples: 0, iters: true };
const LIGHT: Level = Level { all_args: false, samples: 1, iters: false };

// the width the rule would choose (estimate; only used to decide what can be replayed inside Coq)
fn est_width(n: usize, m: usize) -> u32 {
    if m == 0 || m > n {
        return 1;
    }
    let x = ((n as f64 * 2.0_f64.ln()) / (m as f64)).log2();
    x.max(1.0).round() as u32
}
// rough cost of replaying the construction in the list-based Coq model
fn replay_cost(n: usize, m: usize) -> f64 {
    let w = est_width(n, m);
    let high_words = ((m as f64) + (n as f64) / (2.0_f64).powi(w as i32)) / 64.0 + 1.0;
    let low_words = (m as f64) * (w as f64) / 64.0 + 1.0;
    (m as f64) * (high_words + low_words) + high_words * high_words
}

// m distinct positions below n in the given style
fn positions(rng: &mut Rng, n: usize, m: usize, style: u64) -> Vec<usize> {
    let mut s: BTreeSet<usize> = BTreeSet::new();
    if m == 0 || n == 0 {
        return Vec::new();
    }
    let m = std::cmp::min(m, n);
    if m == n {
        return (0..n).collect();
    }
    if m > n / 2 && n <= (1 << 22) {
        // complement of a sparse random set
        let mut holes: BTreeSet<usize> = BTreeSet::new();
        while holes.len() < n - m {
            holes.insert(rng.below(n as u64) as usize);
        }
        return (0..n).filter(|x| !holes.contains(x)).collect();
    }
    match style {
        0 => {
            // evenly spread, with the first and last positions
            s.insert(0);
            s.insert(n - 1);
            let stepf = n as f64 / m as f64;
            let mut k = 0;
            while s.len() < m && k < 4 * m {
                let x = ((k as f64) * stepf) as usize;
                s.insert(std::cmp::min(x, n - 1));
                k += 1;
            }
        }
        1 => {
            // one dense cluster at a random place
            let start = rng.below((n - m) as u64 + 1) as usize;
            for i in 0..m {
                s.insert(start + i);
            }
        }
        2 => {
            // clusters around bucket boundaries of the expected width
            let w = est_width(n, m);
            let bucket = 1usize << std::cmp::min(w, 62);
            let mut tries = 0;
            while s.len() < m && tries < 4 * m + 16 {
                tries += 1;
                let k = rng.below((n / bucket) as u64 + 1) as usize;
                let base = k.wrapping_mul(bucket);
                for d in [-2i64, -1, 0, 1, 2] {
                    let x = (base as i128 + d as i128) as i128;
                    if x >= 0 && (x as u128) < n as u128 && s.len() < m {
                        s.insert(x as usize);
                    }
                }
            }
        }
        3 => {
            // tail-heavy: everything at the end
            for i in 0..m {
                s.insert(n - 1 - i);
            }
        }
        _ => {}
    }
    while s.len() < m {
        s.insert(rng.below(n as u64) as usize);
    }
    s.into_iter().collect()
}


// Values for which a block of the select structures of `high` (they restart every 64 ones / zeros with nth(63)) starts
// right behind at least one whole all-zero (ones side) or all-one (zeros side) 64-bit word of `high`:
// `gaps` = at least 128 empty buckets in front of a value of rank 64k, `heaps` = a bucket number 64k holding at
// least 128 values. Whether the regime is reached depends on the low width the crate picks (n / m), so candidates are
// generated for several hints and MEASURED with the real width; returns None when no attempt reached it.
fn rank_aligned(rng: &mut Rng, gaps: bool, multiset: bool) -> Option<(usize, Vec<usize>)> {
    for attempt in 0..40 {
        let wh: u32 = if gaps { 1 + rng.below(8) as u32 } else if multiset { 1 + rng.below(6) as u32 } else { 10 + rng.below(2) as u32 };
        let bucket = 1usize << wh;
        let m = if gaps { 700 + rng.below(1500) as usize } else { 900 + rng.below(1200) as usize };
        let spots: Vec<usize> = vec![1, 2 + rng.below(6) as usize]; // which multiples of 64 get the gap / the heap
        let mut vals: Vec<usize> = Vec::new();
        let mut b = 0usize;
        if gaps {
            for i in 0..m {
                if i > 0 {
                    b += if i % 64 == 0 && spots.contains(&(i / 64)) { 300 + rng.below(100) as usize } else { 1 };
                }
                vals.push(b * bucket + rng.below(bucket as u64) as usize);
            }
        } else {
            while vals.len() < m {
                if b > 0 && b % 64 == 0 && spots.contains(&(b / 64)) {
                    let k = 135 + rng.below(40) as usize;
                    for j in 0..k {
                        // inside the first quarter of the bucket (sets: distinct values)
                        vals.push(b * bucket + if multiset { rng.below(std::cmp::max(bucket as u64 / 4, 1)) as usize } else { j });
                    }
                } else {
                    vals.push(b * bucket + rng.below(bucket as u64) as usize);
                }
                b += 1;
            }
        }
        vals.sort();
        if !multiset {
            vals.dedup();
        }
        let n = (b + 1 + rng.below(5) as usize) * bucket;
        let w = probe_width(n, vals.len());
        if w == 0 || w >= 64 {
            continue;
        }
        // positions in `high`: value i sits at (v >> w) + i; the zero that closes bucket j at j + #(values in buckets <= j)
        let reached = if gaps {
            (1..vals.len() / 64).any(|k| {
                let i = 64 * k;
                ((vals[i] >> w) + i) - ((vals[i - 1] >> w) + i - 1) >= 129
            })
        } else {
            let nb = (n >> w) + 1;
            let mut zpos: Vec<usize> = Vec::with_capacity(std::cmp::min(nb, 1 << 20));
            let mut seen = 0usize;
            let mut idx = 0usize;
            for jb in 0..std::cmp::min(nb, 1 << 20) {
                while idx < vals.len() && (vals[idx] >> w) <= jb {
                    idx += 1;
                    seen += 1;
                }
                zpos.push(jb + seen);
            }
            (1..zpos.len() / 64).any(|k| zpos[64 * k] - zpos[64 * k - 1] >= 130)
        };
        if reached {
            let _ = attempt;
            return Some((n, vals));
        }
    }
    None
}

fn log_uniform(rng: &mut Rng, max_bits: u64) -> usize {
    let bits = rng.below(max_bits + 1);
    if bits == 0 {
        return rng.below(2) as usize;
    }
    let lo = 1u128 << (bits - 1);
    let x = lo + (rng.next() as u128 % lo);
    std::cmp::min(x, MAX as u128) as usize
}

fn subsets_exhaustive(out: &mut Out, rng: &mut Rng, max_n: usize) {
    for n in 0..=max_n {
        for pat in 0..(1u32 << n) {
            let vals: Vec<usize> = (0..n).filter(|i| (pat >> i) & 1 == 1).collect();
            emit(out, "exhaustive", 0, n, &vals, &FULL, rng);
            // the other routes give the same structure
            let alt = 1 + (pat as u64 + n as u64) % 3;
            if alt != 3 || vals.last() == Some(&(n.wrapping_sub(1))) {
                emit(out, "exhaustive.route", alt, n, &vals, &LIGHT, rng);
            }
        }
    }
}

fn run_sets(rng: &mut Rng, out: &mut Out, thorough: bool) {
    let budget = if thorough { 4.0e8 } else { 5.0e7 };
    subsets_exhaustive(out, rng, if thorough { 9 } else { 6 });

    // (n, m) grid
    let ns: Vec<usize> = vec![0, 1, 2, 3, 63, 64, 65, 100, 1000, 1 << 16, 1 << 20, 1 << 32, 1 << 40, 1 << 63, MAX - 1, MAX];
    for n in ns.iter().cloned() {
        let ms: Vec<usize> = vec![0, 1, 2, 3, n / 2, n.saturating_sub(1), n, 1 << 10];
        let mut seen: BTreeSet<usize> = BTreeSet::new();
        for m in ms {
            if m > n || !seen.insert(m) {
                continue;
            }
            if replay_cost(n, m) > budget || (m == 0 && n > (1 << 17)) {
                out.stat("grid.skipped_too_large_for_replay");
                continue;
            }
            let styles: Vec<u64> = if thorough { vec![0, 1, 2, 3, 4] } else { vec![0, 2] };
            for style in styles {
                let vals = positions(rng, n, m, style);
                let small = n <= 300;
                let lv = Level { all_args: small, samples: if m > 5000 { 4 } else { 12 }, iters: true };
                emit(out, "grid", 0, n, &vals, &lv, rng);
                out.stat("grid.cases");
                if m <= 3 || m >= n.saturating_sub(1) {
                    break; // styles barely differ
                }
            }
        }
    }

    // block starts of the select structures of `high` behind empty words (see rank_aligned)
    for gaps in [true, false, true, false] {
        match rank_aligned(rng, gaps, false) {
            Some((n, vals)) => {
                out.stat(if gaps { "rank_aligned.gaps.reached" } else { "rank_aligned.heaps.reached" });
                emit(out, if gaps { "rank_aligned_gaps" } else { "rank_aligned_heaps" }, 0, n, &vals, &Level { all_args: false, samples: 40, iters: true }, rng);
            }
            None => out.stat("rank_aligned.not_reached"),
        }
    }
    // every low width 1..63 via the inverse of the rule: m ~ n ln2 / 2^w
    for w in 1..=63u32 {
        for mm in [1usize, 2, 3, 7, 20] {
            let nf = (mm as f64) * (2.0f64).powi(w as i32) / 2.0f64.ln();
            let n = if nf >= MAX as f64 { MAX } else { nf as usize };
            if n < mm {
                continue;
            }
            if !thorough && mm != 2 && w % 4 != 0 {
                continue;
            }
            let bucket = 1usize << w;
            let mut s: BTreeSet<usize> = BTreeSet::new();
            // first, last, and positions straddling bucket boundaries
            let mut cands: Vec<usize> = vec![0, n - 1, bucket.wrapping_sub(1), bucket, bucket.wrapping_add(1)];
            let nb = n / bucket;
            cands.push(nb.wrapping_mul(bucket));
            cands.push(nb.wrapping_mul(bucket).wrapping_sub(1));
            for _ in 0..mm {
                let k = rng.below(nb as u64 + 1) as usize;
                cands.push(k.wrapping_mul(bucket).wrapping_add(rng.below(3) as usize).wrapping_sub(1));
            }
            for i in 0..cands.len() {
                let j = i + rng.below((cands.len() - i) as u64) as usize;
                cands.swap(i, j);
            }
            for c in cands {
                if c < n && s.len() < mm {
                    s.insert(c);
                }
            }
            while s.len() < mm {
                s.insert(rng.below(n as u64) as usize);
            }
            let vals: Vec<usize> = s.into_iter().collect();
            let got = emit(out, "width_sweep", 0, n, &vals, &Level { all_args: false, samples: 8, iters: true }, rng);
            if got as u32 != w {
                out.stat("width_sweep.off_target");
            }
        }
    }

    // bucket boundaries and full / empty buckets at moderate sizes
    let reps = if thorough { 15 } else { 4 };
    for w in [1u32, 2, 3, 5, 8, 12] {
        for _ in 0..reps {
            let m = rng.range(3, 400) as usize;
            let n = std::cmp::max(m + 1, ((m as f64) * (2.0f64).powi(w as i32) / 2.0f64.ln()) as usize);
            let bucket = 1usize << w;
            let mut s: BTreeSet<usize> = BTreeSet::new();
            // some completely full buckets (possible when 2^w is small), some boundary pairs, some empty stretches
            while s.len() < m {
                let k = rng.below((n / bucket) as u64 + 1) as usize;
                match rng.below(4) {
                    0 => {
                        for d in 0..bucket {
                            if k * bucket + d < n && s.len() < m && bucket <= 64 {
                                s.insert(k * bucket + d);
                            }
                        }
                    }
                    1 => {
                        for x in [(k * bucket).wrapping_sub(1), k * bucket] {
                            if x < n && s.len() < m {
                                s.insert(x);
                            }
                        }
                    }
                    2 => {
                        let x = k * bucket + bucket - 1;
                        if x < n {
                            s.insert(x);
                        }
                    }
                    _ => {
                        s.insert(rng.below(n as u64) as usize);
                    }
                }
            }
            if rng.below(2) == 0 {
                s.insert(0);
                s.insert(n - 1);
            }
            let vals: Vec<usize> = s.into_iter().collect();
            emit(out, "buckets", 0, n, &vals, &Level { all_args: n <= 300, samples: 16, iters: true }, rng);
        }
    }

    // select_zero: more than 16 runs, arranged so that the binary search goes left, right and mixed
    let ms: Vec<usize> = if thorough { vec![16, 17, 18, 32, 33, 34, 35, 67, 131, 300, 1000, 3000] } else { vec![16, 17, 18, 33, 35, 67, 300, 1000] };
    for m in ms {
        for layout in 0..6u64 {
            let n = m * rng.range(2, 40) as usize + rng.below(50) as usize;
            let mut vals: Vec<usize> = Vec::new();
            match layout {
                0 => vals = (0..m).collect(),                 // all zeros after the ones: search always goes right
                1 => vals = (n - m..n).collect(),             // all zeros before the ones: search always goes left
                2 => vals = (0..m).map(|i| 2 * i + 1).collect(), // one zero per run
                3 => {
                    // a single gap in the middle
                    let g = rng.below(m as u64) as usize;
                    vals = (0..m).map(|i| if i < g { i } else { n - m + i }).collect();
                }
                4 => {
                    // geometric gaps
                    let mut p = 0usize;
                    for i in 0..m {
                        vals.push(p);
                        p += 1 + (if i % 7 == 0 { rng.below(20) as usize } else { 0 });
                    }
                }
                _ => vals = positions(rng, n, m, 4),
            }
            let n = std::cmp::max(n, vals.last().map(|x| x + 1).unwrap_or(0) + rng.below(3) as usize);
            let w = emit(out, "select_zero_runs", 0, n, &vals, &Level { all_args: n <= 300, samples: 24, iters: m <= 300 }, rng);
            let _ = w;
        }
    }

    // random
    for _ in 0..(if thorough { 250 } else { 40 }) {
        let mb = if rng.below(4) == 0 { 64 } else { 24 };
        let n = log_uniform(rng, mb);
        let mut m = log_uniform(rng, 11);
        if m > n {
            m = n;
        }
        if replay_cost(n, m) > budget / 10.0 || (m == 0 && n > (1 << 14)) {
            continue;
        }
        let st = rng.below(5);
        let vals = positions(rng, n, m, st);
        emit(out, "random", 0, n, &vals, &Level { all_args: n <= 200, samples: 10, iters: true }, rng);
    }

    // copy_bit_vec route at moderate sizes
    for _ in 0..(if thorough { 60 } else { 8 }) {
        let n = rng.range(1, 5000) as usize;
        let m = rng.below(std::cmp::min(n, 600) as u64 + 1) as usize;
        let st = rng.below(5);
        let vals = positions(rng, n, m, st);
        emit(out, "copy_bit_vec", 2, n, &vals, &Level { all_args: false, samples: 6, iters: false }, rng);
    }

    // inputs SparseBuilder must reject (set semantics)
    for _ in 0..(if thorough { 200 } else { 30 }) {
        let n = rng.range(0, 40) as usize;
        let m = rng.range(1, 8) as usize;
        let mut vals: Vec<usize> = (0..m).map(|_| rng.below(n as u64 + 3) as usize).collect();
        if rng.below(3) != 0 {
            vals.sort();
        }
        if rng.below(3) == 0 {
            vals.dedup();
        }
        emit(out, "maybe_invalid", 0, n, &vals, &LIGHT, rng);
    }
    for (n, vals) in [(0usize, vec![0usize]), (3, vec![0, 1, 2, 3]), (3, vec![3]), (MAX, vec![MAX]), (MAX, vec![MAX - 1]), (MAX - 1, vec![MAX - 1]), (5, vec![2, 2]), (5, vec![3, 2])] {
        emit(out, "maybe_invalid", 0, n, &vals, &LIGHT, rng);
    }
}

// all non-decreasing lists of length k over 0..n
fn multisets_of(n: usize, k: usize) -> Vec<Vec<usize>> {
    let mut res: Vec<Vec<usize>> = Vec::new();
    fn go(n: usize, k: usize, from: usize, cur: &mut Vec<usize>, res: &mut Vec<Vec<usize>>) {
        if cur.len() == k {
            res.push(cur.clone());
            return;
        }
        for v in from..n {
            cur.push(v);
            go(n, k, v, cur, res);
            cur.pop();
        }
    }
    go(n, k, 0, &mut Vec::new(), &mut res);
    res
}

fn run_multisets(rng: &mut Rng, out: &mut Out, thorough: bool) {
    let budget = if thorough { 2.0e8 } else { 3.0e7 };
    // exhaustive
    let (max_n, max_k) = if thorough { (5, 6) } else { (4, 5) };
    for n in 0..=max_n {
        for k in 0..=max_k {
            for vals in multisets_of(n, k) {
                emit(out, "exhaustive", 1, n, &vals, &FULL, rng);
                if vals.last() == Some(&(n.wrapping_sub(1))) || (n == 0 && vals.is_empty()) {
                    emit(out, "exhaustive.try_from_iter", 3, n, &vals, &LIGHT, rng);
                }
            }
        }
    }
    // block starts of the select structures of `high` behind empty words (see rank_aligned)
    for gaps in [true, false, false] {
        match rank_aligned(rng, gaps, true) {
            Some((n, vals)) => {
                out.stat(if gaps { "rank_aligned.gaps.reached" } else { "rank_aligned.heaps.reached" });
                emit(out, if gaps { "rank_aligned_gaps" } else { "rank_aligned_heaps" }, 1, n, &vals, &Level { all_args: false, samples: 40, iters: true }, rng);
            }
            None => out.stat("rank_aligned.not_reached"),
        }
    }
    // duplicate runs next to bucket boundaries, at 0 and at n - 1
    let reps = if thorough { 15 } else { 5 };
    for w in [1u32, 2, 3, 4, 6, 9, 13, 20, 40, 62] {
        for _ in 0..reps {
            let m = rng.range(4, 300) as usize;
            let nf = (m as f64) * (2.0f64).powi(w as i32) / 2.0f64.ln();
            let n = if nf >= MAX as f64 { MAX } else { std::cmp::max(2, nf as usize) };
            let bucket = 1usize << w;
            let mut vals: Vec<usize> = Vec::new();
            while vals.len() < m {
                let k = rng.below((n / bucket) as u64 + 1) as usize;
                let base = k.wrapping_mul(bucket);
                let x = match rng.below(6) {
                    0 => 0,
                    1 => n - 1,
                    2 => base.wrapping_sub(1),
                    3 => base,
                    4 => base.wrapping_add(bucket - 1),
                    _ => rng.below(n as u64) as usize,
                };
                if x >= n {
                    continue;
                }
                let run = match rng.below(4) {
                    0 => 1,
                    1 => 2,
                    2 => rng.range(2, 9) as usize,
                    _ => rng.range(2, 70) as usize,
                };
                for _ in 0..run {
                    if vals.len() < m {
                        vals.push(x);
                    }
                }
            }
            vals.sort();
            let lv = Level { all_args: n <= 300, samples: 14, iters: true };
            emit(out, "dup_runs", 1, n, &vals, &lv, rng);
            if rng.below(3) == 0 {
                emit(out, "dup_runs.try_from_iter", 3, 0, &vals, &Level { all_args: false, samples: 6, iters: true }, rng);
            }
        }
    }
    // overfull: more values than the universe has positions
    for n in [1usize, 2, 3, 5, 8, 64, 100] {
        for _ in 0..(if thorough { 8 } else { 2 }) {
            let m = n + rng.range(1, 3 * n as u64 + 70) as usize;
            let mut vals: Vec<usize> = (0..m).map(|_| match rng.below(4) { 0 => 0, 1 => n - 1, _ => rng.below(n as u64) as usize }).collect();
            vals.sort();
            emit(out, "overfull", 1, n, &vals, &FULL, rng);
            emit(out, "overfull.try_from_iter", 3, 0, &vals, &LIGHT, rng);
        }
    }
    // all copies of one value
    for (n, v, m) in [(1usize, 0usize, 200usize), (100, 0, 50), (100, 99, 50), (1 << 20, (1 << 20) - 1, 100), (MAX, MAX - 1, 40), (MAX, 0, 40), (1 << 63, 1 << 62, 33)] {
        let vals = vec![v; m];
        emit(out, "single_value", 1, n, &vals, &Level { all_args: n <= 300, samples: 6, iters: true }, rng);
    }
    // random multisets
    for _ in 0..(if thorough { 250 } else { 50 }) {
        let mb = if rng.below(4) == 0 { 64 } else { 20 };
        let n = std::cmp::max(1, log_uniform(rng, mb));
        let m = log_uniform(rng, 10);
        if replay_cost(n, std::cmp::min(m, n)) > budget / 10.0 {
            continue;
        }
        let distinct = std::cmp::max(1, rng.below(m as u64 + 1) as usize);
        let pool: Vec<usize> = (0..distinct).map(|_| rng.below(n as u64) as usize).collect();
        let mut vals: Vec<usize> = (0..m).map(|_| pool[rng.below(pool.len() as u64) as usize]).collect();
        vals.sort();
        emit(out, "random", 1, n, &vals, &Level { all_args: n <= 200, samples: 10, iters: true }, rng);
    }
    // try_from_iter: sorted lists are accepted, anything else is rejected
    for _ in 0..(if thorough { 400 } else { 60 }) {
        let m = rng.range(0, 12) as usize;
        let top = match rng.below(4) { 0 => 4, 1 => 50, 2 => 1 << 20, _ => MAX - 1 } as u64;
        let mut vals: Vec<usize> = (0..m).map(|_| rng.below(top + 1) as usize).collect();
        let sorted = rng.below(3) != 0;
        if sorted {
            vals.sort();
            // sometimes break the order at one place
            if m >= 2 && rng.below(3) == 0 {
                let i = rng.below(m as u64 - 1) as usize;
                vals.swap(i, i + 1);
            }
        }
        emit(out, "try_from_iter", 3, 0, &vals, &Level { all_args: false, samples: 4, iters: true }, rng);
    }
    for vals in [vec![], vec![0usize], vec![0, 0], vec![5], vec![1, 0], vec![0, 1, 0], vec![MAX - 1], vec![MAX - 1, MAX - 1], vec![7, 7, 7, 6]] {
        emit(out, "try_from_iter", 3, 0, &vals, &FULL, rng);
    }
    // multiset builder must reject decreasing input and values outside the universe
    for _ in 0..(if thorough { 200 } else { 30 }) {
        let n = rng.range(0, 30) as usize;
        let m = rng.range(1, 8) as usize;
        let mut vals: Vec<usize> = (0..m).map(|_| rng.below(n as u64 + 2) as usize).collect();
        if rng.below(3) != 0 {
            vals.sort();
        }
        emit(out, "maybe_invalid", 1, n, &vals, &LIGHT, rng);
    }
}


// ---------------------------------------------------------------- long superblocks in the select supports of `high`
//
// `SelectSupport::new` stores a superblock of 4096 ones (select) or zeros (select_zero) of `high` as LONG (every
// position explicitly) when it spans at least bit_len(high.len())^4 positions: 17^4 = 83521 for high.len() < 2^17,
// 18^4 = 104976 below 2^18, 19^4 = 130321 below 2^19. With high.len() = values + buckets and at most ~2.04 buckets
// per value this needs 40 000 .. 250 000 strongly clustered values, so the vectors below are written as runs
// and the questions are chosen from the layout (a scan of the list-based model costs about a millisecond per
// position of `high` it walks over).

// (start, count, step): start, start + step, ... (count values)
type Runs = Vec<(usize, usize, usize)>;

fn expand_runs(rs: &Runs) -> Vec<usize> {
    let mut v = Vec::new();
    for (s, c, st) in rs.iter() {
        for i in 0..*c {
            v.push(s + i * st);
        }
    }
    v
}
fn runs_term(rs: &Runs) -> String {
    let items: Vec<String> = rs.iter().map(|(s, c, st)| format!("({}, {}, {})", nu(*s), nu(*c), nu(*st))).collect();
    format!("(expand [{}])", items.join("; "))
}

// one select support as serialized: per superblock (first position, index into long / short, is_short)
struct Sup {
    sb: Vec<(usize, usize, bool)>,
    long_len: usize,
    short_len: usize,
}
impl Sup {
    fn long_at(&self, rank: usize) -> Option<(usize, usize, usize)> {
        // (first position, index into long, offset inside the superblock) when `rank` lies in a long superblock
        let k = rank / 4096;
        if k < self.sb.len() && !self.sb[k].2 { Some((self.sb[k].0, self.sb[k].1, rank % 4096)) } else { None }
    }
    fn n_long(&self) -> usize {
        self.sb.iter().filter(|x| !x.2).count()
    }
    fn first_long_not_at_0(&self) -> bool {
        !self.sb.is_empty() && !self.sb[0].2 && self.sb[0].0 > 0
    }
    fn long_after_short(&self) -> bool {
        (1..self.sb.len()).any(|i| !self.sb[i].2 && self.sb[i - 1].2)
    }
    fn two_long_in_row(&self) -> bool {
        (1..self.sb.len()).any(|i| !self.sb[i].2 && !self.sb[i - 1].2)
    }
}

fn take_intvec(ser: &[u64], p: &mut usize) -> Vec<u64> {
    let len = ser[*p] as usize;
    let width = ser[*p + 1] as usize;
    let nwords = ser[*p + 3] as usize;
    let words = &ser[*p + 4..*p + 4 + nwords];
    *p += 4 + nwords;
    (0..len)
        .map(|i| {
            let bo = i * width;
            let (wi, off) = (bo / 64, bo % 64);
            let mut x = words[wi] >> off;
            if off + width > 64 {
                x |= words[wi + 1] << (64 - off);
            }
            if width < 64 { x & ((1u64 << width) - 1) } else { x }
        })
        .collect()
}
fn take_sup(ser: &[u64], p: &mut usize) -> Option<Sup> {
    let sz = ser[*p] as usize;
    *p += 1;
    if sz == 0 {
        return None;
    }
    let end = *p + sz;
    let samples = take_intvec(ser, p);
    let long = take_intvec(ser, p);
    let short = take_intvec(ser, p);
    *p = end;
    let sb = (0..samples.len() / 2).map(|k| (samples[2 * k] as usize, (samples[2 * k + 1] / 2) as usize, samples[2 * k + 1] & 1 == 1)).collect();
    Some(Sup { sb, long_len: long.len(), short_len: short.len() })
}
// (high.len(), select support, select_zero support) of the serialized sparse vector
fn parse_high(ser: &[u64]) -> (usize, Option<Sup>, Option<Sup>) {
    let hlen = ser[2] as usize;
    let nwords = ser[3] as usize;
    let mut p = 4 + nwords;
    let rank_sz = ser[p] as usize;
    p += 1 + rank_sz;
    let one = take_sup(ser, &mut p);
    let zero = take_sup(ser, &mut p);
    (hlen, one, zero)
}

// explicit questions. idx: (argument, get?, rank + rank_zero?, items from predecessor (0 = do not ask), items from successor)
#[derive(Default)]
struct Plan {
    idx: Vec<(usize, bool, bool, usize, usize)>,
    ranks: Vec<(usize, usize)>,  // (select argument, items from select_iter)
    zranks: Vec<(usize, usize)>, // (select_zero argument, items from select_zero_iter)
    is_multi: bool,
}

fn ask_plan(sv: &SparseVector, plan: &Plan, out: &mut Out) -> String {
    let (n, m, z) = (sv.len(), sv.count_ones(), sv.count_zeros());
    let mut qs: Vec<String> = Vec::new();
    qs.push(format!("QLens {} {} {}", n, m, z));
    if plan.is_multi {
        qs.push(format!("QIsMulti {}", ires(&catch(|| sv.is_multiset()), |x| b(*x))));
    }
    for (i, get, rank, kp, ks) in plan.idx.iter().cloned() {
        if get && i < n {
            qs.push(format!("QGet {} {}", nu(i), ires(&catch(|| sv.get(i)), |x| b(*x))));
        }
        if rank {
            qs.push(format!("QRank {} {}", nu(i), ires(&catch(|| sv.rank(i)), |x| nu(*x))));
            if i <= n {
                qs.push(format!("QRank0 {} {}", nu(i), ires(&catch(|| sv.rank_zero(i)), |x| nu(*x))));
            }
        }
        if kp > 0 {
            qs.push(format!("QPred {} {} {}", nu(i), kp, ires(&catch(|| sv.predecessor(i).take(kp).collect::<Vec<(usize, usize)>>()), |x| plist(x))));
        }
        if ks > 0 {
            qs.push(format!("QSucc {} {} {}", nu(i), ks, ires(&catch(|| sv.successor(i).take(ks).collect::<Vec<(usize, usize)>>()), |x| plist(x))));
        }
    }
    for (r, k) in plan.ranks.iter().cloned() {
        qs.push(format!("QSel {} {}", nu(r), ires(&catch(|| sv.select(r)), |x| opt(x, |y| nu(*y)))));
        if k > 0 {
            qs.push(format!("QSelIter {} {} {}", nu(r), k, ires(&catch(|| sv.select_iter(r).take(k).collect::<Vec<(usize, usize)>>()), |x| plist(x))));
        }
    }
    for (r, k) in plan.zranks.iter().cloned() {
        qs.push(format!("QSel0 {} {}", nu(r), ires(&catch(|| sv.select_zero(r)), |x| opt(x, |y| nu(*y)))));
        if k > 0 {
            qs.push(format!("QSel0Iter {} {} {}", nu(r), k, ires(&catch(|| sv.select_zero_iter(r).take(k).collect::<Vec<(usize, usize)>>()), |x| plist(x))));
        }
    }
    out.stat_n("queries.index_args", plan.idx.len() as u64);
    out.stat_n("queries.rank_args", (plan.ranks.len() + plan.zranks.len()) as u64);
    format!("[{}]", qs.join("; "))
}

// the layout of `high` for a sorted value list: how many positions of `high` (or values of a bucket) a query walks
// over one at a time. The list-based model pays about a millisecond per step on these vectors, so the planner
// asks only what stays below LIMIT steps.
struct Lay<'a> {
    vals: &'a [usize],
    w: usize,
    n: usize,
    hlen: usize,
}
const LIMIT: usize = 260;
impl<'a> Lay<'a> {
    fn m(&self) -> usize {
        self.vals.len()
    }
    fn lb(&self, x: usize) -> usize {
        self.vals.partition_point(|v| *v < x)
    }
    fn ub(&self, x: usize) -> usize {
        self.vals.partition_point(|v| *v <= x)
    }
    fn onepos(&self, i: usize) -> usize {
        (self.vals[i] >> self.w) + i
    }
    // ranks of the values of bucket hp: [lo, hi)
    fn bucket(&self, hp: usize) -> (usize, usize) {
        let lo = ((hp as u128) << self.w).min(usize::MAX as u128) as usize;
        let hi = (((hp as u128) + 1) << self.w).min(usize::MAX as u128) as usize;
        (self.lb(lo), self.lb(hi))
    }
    fn take_cost(&self, r: usize, k: usize) -> usize {
        if k <= 1 || r >= self.m() { 0 } else { self.onepos(std::cmp::min(r + k - 1, self.m() - 1)) - self.onepos(r) }
    }
    fn cost_get(&self, i: usize) -> usize {
        let (lo, _) = self.bucket(i >> self.w);
        self.lb(i) - lo
    }
    fn cost_rank(&self, i: usize) -> usize {
        if i >= self.n {
            return 0;
        }
        let (_, hi) = self.bucket(i >> self.w);
        hi - self.lb(i)
    }
    fn cost_pred(&self, i: usize, k: usize) -> usize {
        if self.n == 0 {
            return 0;
        }
        let i = std::cmp::min(i, self.n - 1);
        let hp = i >> self.w;
        let (_, hi) = self.bucket(hp);
        let u = self.ub(i);
        if u == 0 {
            return hi;
        }
        (hp + hi) - self.onepos(u - 1) + self.take_cost(u - 1, k)
    }
    fn cost_succ(&self, i: usize, k: usize) -> usize {
        if i >= self.n {
            return 0;
        }
        let hp = i >> self.w;
        let (lo, _) = self.bucket(hp);
        let r = self.lb(i);
        if r == self.m() { self.hlen - (hp + lo) } else { self.onepos(r) - (hp + lo) + self.take_cost(r, k) }
    }
    // select on `high` inside a short superblock walks word by word from the block sample
    fn cost_select(&self, sup: &Sup, r: usize, k: usize) -> usize {
        if r >= self.m() {
            return 0;
        }
        let c = if sup.long_at(r).is_some() { 0 } else { (self.onepos(r) - self.onepos(r - (r % 4096) % 64)) / 64 };
        c + self.take_cost(r, k)
    }
    // select_zero of the vector (sets): the run search ends with a scan over at most 17 values around the answer
    fn cost_sel0(&self, rz: usize) -> usize {
        let m = self.m();
        if m == 0 || rz >= self.n.saturating_sub(m) {
            return 0;
        }
        // number of values before the unset bit of rank rz
        let (mut lo, mut hi) = (0usize, m);
        while lo < hi {
            let mid = lo + (hi - lo) / 2;
            if self.vals[mid].wrapping_sub(mid) <= rz { lo = mid + 1 } else { hi = mid }
        }
        self.onepos(std::cmp::min(lo + 1, m - 1)) - self.onepos(lo.saturating_sub(18))
    }
}

// what a directed case wants to be asked: ranks of values (select side) and buckets (select_zero side of `high`)
struct Wish {
    ranks: Vec<usize>,
    buckets: Vec<usize>,
    cap_idx: usize,
    cap_ranks: usize,
    cap_zranks: usize,
}

fn make_plan(vals: &[usize], n: usize, multiset: bool, wish: &Wish, ser: &[u64], w: usize, out: &mut Out, tag: &str) -> Plan {
    let (hlen, one, zero) = parse_high(ser);
    let lay = Lay { vals, w, n, hlen };
    let m = vals.len();
    let z = n.saturating_sub(m);
    let empty = Sup { sb: Vec::new(), long_len: 0, short_len: 0 };
    let one = one.unwrap_or(Sup { sb: Vec::new(), long_len: 0, short_len: 0 });
    let zero = zero.unwrap_or(empty);
    // which regimes did the crate's construction reach
    for (name, sup) in [("ones", &one), ("zeros", &zero)] {
        out.stat_n(&format!("longsb.{}.{}.long_superblocks", tag, name), sup.n_long() as u64);
        out.stat_n(&format!("longsb.{}.{}.long_entries", tag, name), sup.long_len as u64);
        if sup.first_long_not_at_0() {
            out.stat(&format!("longsb.regime.{}.first_superblock_long_not_at_0", name));
        }
        if sup.long_after_short() {
            out.stat(&format!("longsb.regime.{}.long_after_short", name));
        }
        if sup.two_long_in_row() {
            out.stat(&format!("longsb.regime.{}.two_long_in_a_row", name));
        }
    }
    let mut plan = Plan::default();
    // QIsMulti walks over the values up to the first repetition
    let first_dup = (1..std::cmp::min(m, 400)).find(|i| vals[*i] == vals[*i - 1]);
    plan.is_multi = m <= 3000 || first_dup.is_some();

    // index arguments: the extremes, then around the wished values and buckets
    let mut cands: Vec<usize> = extremes(n);
    let bucket = 1usize << w;
    for hp in wish.buckets.iter().cloned() {
        let base = hp << w;
        let (lo, hi) = lay.bucket(hp);
        cands.push(base);
        if lo < hi {
            cands.push(vals[lo]);
            cands.push(vals[hi - 1]);
            cands.push(vals[hi - 1].wrapping_add(1));
        }
        cands.push(base.wrapping_add(bucket - 1));
        cands.push(base.wrapping_sub(1));
    }
    for r in wish.ranks.iter().cloned() {
        if r < m {
            cands.push(vals[r]);
            cands.push(vals[r].wrapping_add(1));
            cands.push(vals[r].wrapping_sub(1));
        }
    }
    let mut seen: BTreeSet<usize> = BTreeSet::new();
    let mut n_keep = 0usize;
    for (ci, i) in cands.iter().cloned().enumerate() {
        if !seen.insert(i) {
            continue;
        }
        let is_extreme = ci < 8;
        if !is_extreme && n_keep >= wish.cap_idx {
            out.stat("longsb.plan.index_args_over_cap");
            continue;
        }
        let get = i < n && lay.cost_get(i) <= LIMIT;
        let rank = lay.cost_rank(i) <= LIMIT;
        let kp = if lay.cost_pred(i, 2) <= LIMIT { 2 } else if lay.cost_pred(i, 1) <= LIMIT { 1 } else { 0 };
        let ks = if lay.cost_succ(i, 2) <= LIMIT { 2 } else if lay.cost_succ(i, 1) <= LIMIT { 1 } else { 0 };
        for (asked, what) in [(get || i >= n, "get"), (rank, "rank"), (kp > 0, "pred"), (ks > 0, "succ")] {
            if !asked {
                out.stat(&format!("longsb.plan.too_long_a_scan_for_the_model.{}", what));
            }
        }
        if !(get || rank || kp > 0 || ks > 0) {
            continue;
        }
        if !is_extreme {
            n_keep += 1;
        }
        // which superblocks of the select_zero support do lower_bound / upper_bound read
        if i < n {
            let hp = i >> w;
            let mut args: Vec<usize> = Vec::new();
            if (get || ks > 0) && hp > 0 {
                args.push(hp - 1);
            }
            if rank || kp > 0 {
                args.push(hp);
            }
            for a in args {
                if let Some((start, idx, off)) = zero.long_at(a) {
                    out.stat("longsb.asked.zeros.in_long_superblock");
                    if off != 0 && start != 0 {
                        out.stat("longsb.asked.zeros.long_not_at_0_offset_nonzero");
                    }
                    if off != 0 && idx != 0 {
                        out.stat("longsb.asked.zeros.second_or_later_long_offset_nonzero");
                    }
                }
            }
        }
        plan.idx.push((i, get, rank, kp, ks));
    }

    // select arguments
    let mut cands: Vec<usize> = extremes(m);
    cands.extend(wish.ranks.iter().cloned());
    let mut seen: BTreeSet<usize> = BTreeSet::new();
    let mut n_keep = 0usize;
    for (ci, r) in cands.iter().cloned().enumerate() {
        if !seen.insert(r) {
            continue;
        }
        if ci >= 8 && n_keep >= wish.cap_ranks {
            continue;
        }
        let k = if lay.cost_select(&one, r, 3) <= LIMIT { 3 } else if lay.cost_select(&one, r, 1) <= LIMIT { 1 } else { usize::MAX };
        if k == usize::MAX {
            out.stat("longsb.plan.too_long_a_scan_for_the_model.select");
            continue;
        }
        if ci >= 8 {
            n_keep += 1;
        }
        if let Some((start, idx, off)) = one.long_at(r) {
            if r < m {
                out.stat("longsb.asked.ones.in_long_superblock");
                if off != 0 && start != 0 {
                    out.stat("longsb.asked.ones.long_not_at_0_offset_nonzero");
                }
                if off != 0 && idx != 0 {
                    out.stat("longsb.asked.ones.second_or_later_long_offset_nonzero");
                }
            }
        }
        plan.ranks.push((r, k));
    }

    // select_zero arguments: the extremes, and the unset bits next to wished values (the run search calls
    // select_iter on `high` around them)
    let mut cands: Vec<usize> = extremes(z);
    if !multiset {
        for r in wish.ranks.iter().cloned() {
            if r < m {
                let rz = vals[r] - r;
                cands.push(rz);
                cands.push(rz.wrapping_sub(1));
            }
        }
    } else {
        cands.push(2);
        cands.push(z / 2);
    }
    let mut seen: BTreeSet<usize> = BTreeSet::new();
    let mut n_keep = 0usize;
    for (ci, r) in cands.iter().cloned().enumerate() {
        if !seen.insert(r) {
            continue;
        }
        if ci >= 8 && n_keep >= wish.cap_zranks {
            continue;
        }
        if !multiset && lay.cost_sel0(r) > 3 * LIMIT {
            out.stat("longsb.plan.too_long_a_scan_for_the_model.select_zero");
            continue;
        }
        if ci >= 8 {
            n_keep += 1;
        }
        plan.zranks.push((r, 1));
    }
    plan
}

// ranks at many offsets of the superblock that starts at rank `first` (offset 0 is answered from the sample alone)
fn offsets_in_superblock(first: usize, count: usize) -> Vec<usize> {
    let mut v: Vec<usize> = Vec::new();
    for off in [1usize, 2, 63, 64, 65, 127, 128, 500, 1000, 1500, 2000, 2500, 3000, 3500, 4000, 4094, 4095] {
        if off < count {
            v.push(first + off);
        }
    }
    if count > 1 {
        v.push(first + count - 1);
    }
    v.push(first);
    v
}

fn emit_long(out: &mut Out, rng: &mut Rng, tag: &str, route: u64, n: usize, runs: Runs, want_w: usize, wish: Wish) {
    let vals = expand_runs(&runs);
    let multiset = route == 1 || route == 3;
    let tag2 = tag.to_string();
    let vals2 = vals.clone();
    let planner = move |ser: &[u64], w: usize, out: &mut Out| -> Plan {
        if w != want_w {
            out.stat("longsb.width_off_target");
        }
        // try_from_iter sizes the universe to the last value + 1
        let universe = if route == 3 { vals2.last().map(|x| x + 1).unwrap_or(0) } else { n };
        make_plan(&vals2, universe, multiset, &wish, ser, w, out, &tag2)
    };
    emit_full(out, &format!("long_superblocks.{}", tag), route, n, &vals, Some(&runs), Some(&planner), &LIGHT, rng);
    out.stat("longsb.cases");
}

// sets (C02). tier: 0 = the cheapest case only (secondary build of the quick tier), 1 = quick tier on the primary
// build, 2 = thorough tier / after a change in the anchor files
fn long_sets(rng: &mut Rng, out: &mut Out, tier: u32) {
    let j = rng.below(3) as usize; // small variation between random streams
    // --- ones of high (select, select_iter, select_zero of the vector)
    {
        // the last, partial superblock is long and follows ten short ones: width 4, 86000 buckets, high.len() = 129000
        let (w, d, t, nb) = (4usize, 40970 + j, 2030 - j, 86000usize);
        let n = nb << w;
        let step = (n - 1 - (d + 16)) / (t - 1);
        let runs: Runs = vec![(0, d, 1), (d + 16, t - 1, step), (n - 1, 1, 0)];
        let mut ranks = offsets_in_superblock(40960, d + t - 40960);
        ranks.extend([d - 1, d, d + 1, 1, 4095, 4096, 20000]);
        let buckets = vec![(d + 16) >> w, ((d + 16 + 700 * step) >> w) + 1, nb - 1];
        emit_long(out, rng, "set.ones.long_after_short", 0, n, runs, w, Wish { ranks, buckets, cap_idx: 24, cap_ranks: 30, cap_zranks: 6 });
    }
    if tier >= 1 {
        // the first superblock is long and starts at position 5 + j: 4096 values 19.4 buckets apart, then a dense run
        let (w, nb) = (4usize, 86000usize);
        let n = nb << w;
        let first = (5 + j) << w;
        let dense_start = first + 4096 * 311;
        let d = 43000 - 4096 - 30;
        let tail_step = (n - 1 - (dense_start + d + 100)) / 30;
        let runs: Runs = vec![(first, 4096, 311), (dense_start, d, 1), (dense_start + d + 100, 29, tail_step), (n - 1, 1, 0)];
        let mut ranks = offsets_in_superblock(0, 4096);
        ranks.extend([4096, 4097, 8191, 8192, 20000, 43000 - 31, 43000 - 2]);
        let buckets = vec![5 + j, 6 + j, 40000, dense_start >> w];
        emit_long(out, rng, "set.ones.first_long_not_at_0", 0, n, runs, w, Wish { ranks, buckets, cap_idx: 24, cap_ranks: 30, cap_zranks: 6 });

        // 31 short superblocks (a dense run), then a full long one (31 buckets between the values) and a second,
        // partial long one up to the end: width 4, high.len() between 2^18 and 2^19 (threshold 19^4)
        let (w, d, t, nb) = (4usize, 31 * 4096usize, 600usize, 264700usize);
        let n = nb << w;
        let s0 = ((d >> w) + 1) << w;
        let s1 = s0 + 4096 * 496;
        let step = (n - 1 - s1) / (t - 1);
        let runs: Runs = vec![(0, d, 1), (s0 + (j << 1), 4096, 496), (s1, t - 1, step), (n - 1, 1, 0)];
        let mut ranks = offsets_in_superblock(d + 4096, t);
        ranks.extend(offsets_in_superblock(d, 4096));
        ranks.extend([d - 1, 1, 4095, 4096, 70000]);
        let buckets = vec![s0 >> w, (s1 >> w) + 1];
        emit_long(out, rng, "set.ones.two_long_in_a_row", 0, n, runs, w, Wish { ranks, buckets, cap_idx: 14, cap_ranks: 40, cap_zranks: 6 });
    }
    // --- zeros of high (lower_bound / upper_bound of get, rank, predecessor, successor)
    if tier >= 1 {
        // width 5: a dense run of 102360 values inside buckets 4097..8191 makes the second superblock of zeros long
        // (threshold 18^4); the first one (almost empty buckets) and the later ones are short
        let (w, nb) = (5usize, 113500usize);
        let n = nb << w;
        let head = 40usize;
        let d = 25 * 4096 - head;
        let ds = 4097 << w;
        let ts = ds + d + 40;
        let tail_step = (n - 1 - ts) / 50;
        let runs: Runs = vec![(3 + j, head, 100 << w), (ds, d, 1), (ts, 49, tail_step), (n - 1, 1, 0)];
        let ranks = vec![head, head + 1, head + 5000, head + d - 1, head + d, 25 * 4096 + 10];
        let last_dense = (ds + d - 1) >> w;
        let buckets = vec![4097, 4098, 4160, 4161, 5000, 5096, 6000, 6500, 7000, last_dense, last_dense + 1, last_dense + 2, 8000, 8190, 8191, 8192, 4096, 4095, 100];
        emit_long(out, rng, "set.zeros.long_after_short", 0, n, runs, w, Wish { ranks, buckets, cap_idx: 26, cap_ranks: 8, cap_zranks: 4 });

        // the same run from value 0: the first superblock of zeros is long and starts at position 32
        let d = 25 * 4096;
        let ts = d + 40 + j;
        let tail_step = (n - 1 - ts) / 50;
        let runs: Runs = vec![(0, d, 1), (ts, 49, tail_step), (n - 1, 1, 0)];
        let ranks = vec![1, 31, 32, 5000, d - 1, d, d + 10];
        let last_dense = (d - 1) >> w;
        let buckets = vec![1, 2, 3, 64, 65, 1000, 2000, 3000, last_dense, last_dense + 1, last_dense + 2, 4000, 4094, 4095, 4096, 4097];
        emit_long(out, rng, "set.zeros.first_long_not_at_0", 0, n, runs, w, Wish { ranks, buckets, cap_idx: 26, cap_ranks: 8, cap_zranks: 4 });
    }
    if tier >= 2 {
        // two long superblocks of zeros in a row (threshold 19^4): two dense runs of 126956 values in buckets
        // 4097..8191 and 8193..12287, width 5, high.len() = 518002
        let (w, nb) = (5usize, 264000usize);
        let n = nb << w;
        let head = 40usize;
        let d = (62 * 4096 - head) / 2;
        let (ds1, ds2) = (4097usize << w, 8193usize << w);
        let ts = ds2 + d + 40;
        let tail_step = (n - 1 - ts) / 50;
        let runs: Runs = vec![(3 + j, head, 100 << w), (ds1, d, 1), (ds2, d, 1), (ts, 49, tail_step), (n - 1, 1, 0)];
        let ranks = vec![head, head + d - 1, head + d, head + 2 * d - 1, head + 2 * d];
        let (l1, l2) = ((ds1 + d - 1) >> w, (ds2 + d - 1) >> w);
        let buckets = vec![8193, 8194, 8256, 8257, 9000, 10000, 11000, l2, l2 + 1, 12287, 12288, 4097, 4098, 5000, 6000, l1, l1 + 1, 8191, 8192];
        emit_long(out, rng, "set.zeros.two_long_in_a_row", 0, n, runs, w, Wish { ranks, buckets, cap_idx: 26, cap_ranks: 8, cap_zranks: 4 });
    }
}

// multisets (C15); same tiers
fn long_multisets(rng: &mut Rng, out: &mut Out, tier: u32) {
    let j = rng.below(3) as usize;
    // --- zeros of high
    {
        // overfull: 84000 values below 64 (32 buckets); the only superblock of zeros is long and starts at 300 + j
        let n = 64usize;
        let a = 300 + j;
        let big = 84000 - a - 8;
        let runs: Runs = vec![(0, a, 0), (3, 1, 0), (7, 2, 0), (20, big, 0), (40, 1, 0), (41, 1, 0), (55, 1, 0), (62, 1, 0), (63, 1, 0)];
        let ranks = vec![1, a - 1, a, a + 3, a + 4, a + 5000, a + 3 + big, a + 4 + big, 83999];
        let buckets: Vec<usize> = (0..32).collect();
        emit_long(out, rng, "multiset.zeros.first_long_not_at_0", 1, n, runs.clone(), 1, Wish { ranks: ranks.clone(), buckets: buckets.clone(), cap_idx: 44, cap_ranks: 12, cap_zranks: 2 });
        if tier >= 1 {
            emit_long(out, rng, "multiset.zeros.first_long_not_at_0.try_from_iter", 3, 0, runs, 1, Wish { ranks, buckets, cap_idx: 30, cap_ranks: 8, cap_zranks: 2 });
        }
    }
    if tier >= 1 {
        // overfull, 4150 buckets: 200 values in the first 4096 buckets (short superblock), 83797 copies of one value
        // in bucket 4100 (the second, partial superblock of zeros is long)
        let n = 8300usize;
        let runs: Runs = vec![(1 + j, 200, 40), (8200, 84000 - 203, 0), (8250, 2, 0), (8299, 1, 0)];
        let ranks = vec![0, 199, 200, 201, 50000, 84000 - 4, 84000 - 3, 83999];
        let buckets: Vec<usize> = vec![4097, 4098, 4099, 4100, 4101, 4110, 4124, 4125, 4126, 4140, 4148, 4149, 4096, 4095, 20, 2000];
        emit_long(out, rng, "multiset.zeros.long_after_short", 1, n, runs, 1, Wish { ranks, buckets, cap_idx: 40, cap_ranks: 10, cap_zranks: 2 });

        // two long superblocks of zeros (threshold 18^4): 101000 copies of 200 and 105200 copies of 8200
        let runs: Runs = vec![(1, 50, 3), (200, 101000, 0), (300 + j, 100, 70), (8200, 105200, 0), (8250, 2, 0), (8299, 1, 0)];
        let m = 50 + 101000 + 100 + 105200 + 3;
        let ranks = vec![0, 49, 50, 51, 50 + 101000 - 1, 50 + 101000, 50 + 101000 + 99, 50 + 101000 + 100, m - 4, m - 3, m - 1];
        let buckets: Vec<usize> = vec![4097, 4098, 4099, 4100, 4101, 4124, 4125, 4126, 4148, 4149, 1, 2, 50, 99, 100, 101, 150, 2000, 3615, 4000, 4095, 4096];
        emit_long(out, rng, "multiset.zeros.two_long_in_a_row", 1, n, runs, 1, Wish { ranks, buckets, cap_idx: 40, cap_ranks: 12, cap_zranks: 2 });
    }
    // --- ones of high
    {
        // 40970 copies of one value (ten short superblocks), then 1030 values 81 buckets apart: the last, partial
        // superblock is long. Width 1, 84000 buckets, high.len() = 126000
        let n = 168000usize;
        let runs: Runs = vec![(5 + j, 40970, 0), (100, 1029, 163), (n - 1, 1, 0)];
        let mut ranks = offsets_in_superblock(40960, 1040);
        ranks.extend([40969, 40970, 40971, 1, 4095, 4096, 20000]);
        let buckets = vec![50, 51, 40000, 83999];
        emit_long(out, rng, "multiset.ones.long_after_short", 1, n, runs, 1, Wish { ranks, buckets, cap_idx: 24, cap_ranks: 30, cap_zranks: 4 });
    }
    if tier >= 1 {
        // the first superblock is long and starts at position 5: 4096 values 19.5 buckets apart, then 37874 copies
        let n = 168000usize;
        let first = 10 + 2 * j;
        let ds = first + 4096 * 39;
        let runs: Runs = vec![(first, 4096, 39), (ds, 42000 - 4096 - 30, 0), (ds + 46, 29, 274), (n - 1, 1, 0)];
        let mut ranks = offsets_in_superblock(0, 4096);
        ranks.extend([4096, 4097, 20000, 42000 - 31, 42000 - 30, 42000 - 2]);
        let buckets = vec![5 + j, 6 + j, 40000, ds >> 1, (ds >> 1) + 1];
        emit_long(out, rng, "multiset.ones.first_long_not_at_0", 1, n, runs, 1, Wish { ranks, buckets, cap_idx: 24, cap_ranks: 30, cap_zranks: 4 });
    }
    if tier >= 2 {
        // (the quick tier has two long superblocks in a row on the zeros side, and C02 has them on the ones side)
        // 126976 copies (31 short superblocks), a full long superblock (31 buckets between the values), a partial
        // long one up to the end (threshold 19^4); width 1, 256800 buckets
        // (the copies sit in two buckets 4200 apart so that no superblock of ZEROS becomes long as well)
        let (d, t, nb) = (31 * 4096usize, 600usize, 261000usize);
        let n = nb << 1;
        let s0 = 8420 + 2 * j;
        let s1 = s0 + 4096 * 62;
        let step = (n - 1 - s1) / (t - 1);
        let runs: Runs = vec![(10, d / 2, 0), (8410, d / 2, 0), (s0, 4096, 62), (s1, t - 1, step), (n - 1, 1, 0)];
        let mut ranks = offsets_in_superblock(d + 4096, t);
        ranks.extend(offsets_in_superblock(d, 4096));
        ranks.extend([d - 1, 1, 4095, 4096, 70000]);
        let buckets = vec![s0 >> 1, (s1 >> 1) + 1];
        emit_long(out, rng, "multiset.ones.two_long_in_a_row", 1, n, runs, 1, Wish { ranks, buckets, cap_idx: 14, cap_ranks: 40, cap_zranks: 4 });
    }
}

pub fn run(rng: &mut Rng, out: &mut Out, thorough: bool, multiset: bool, variant: &str) {
    THOROUGH.store(thorough, std::sync::atomic::Ordering::Relaxed);
    let primary = variant == "native_dev" || (thorough && variant == "native_release");
    PRIMARY.store(primary, std::sync::atomic::Ordering::Relaxed);
    // long superblocks: first, so that these long-running cases are spread over different shards
    let heavy = thorough || std::env::var("VERIF_ESCALATED").is_ok();
    let tier = if heavy && primary { 2 } else if primary { 1 } else { 0 };
    if multiset {
        long_multisets(rng, out, tier);
        run_multisets(rng, out, thorough);
    } else {
        long_sets(rng, out, tier);
        run_sets(rng, out, thorough);
    }
}
