// C05: RawVector and IntVector as plain sequences under any operation history.
// Runs operation histories on the real vectors and records, after EVERY step, the value returned, len, the
// full content (backing words / items), count_ones, the serialized elements and whether the vector equals a
// freshly built vector with the same content.
use crate::common::*;
use simple_sds::int_vector::IntVector;
use simple_sds::ops::{Access, Pack, Pop, Push, Resize, Vector};
use simple_sds::raw_vector::{AccessRaw, PopRaw, PushRaw, RawVector};
use simple_sds::serialize::Serialize;

// numbers as Coq terms: large ones as `W hi lo` (see coq/Check/C05.v)
fn cn(x: u64) -> String {
    if x < 65536 {
        format!("{}", x)
    } else {
        format!("(W {} {})", x >> 32, x & 0xFFFF_FFFF)
    }
}
fn cu(x: usize) -> String {
    cn(x as u64)
}
fn cl(xs: &[u64]) -> String {
    let v: Vec<String> = xs.iter().map(|x| cn(*x)).collect();
    format!("[{}]", v.join("; "))
}

#[derive(Clone, Debug)]
enum OutV {
    None,
    Bool(bool),
    Nat(u64),
    OptBool(Option<bool>),
    OptNat(Option<u64>),
}

fn outv(o: &OutV) -> String {
    match o {
        OutV::None => "ONone".to_string(),
        OutV::Bool(x) => format!("(OBool {})", b(*x)),
        OutV::Nat(x) => format!("(ONat {})", cn(*x)),
        OutV::OptBool(x) => format!("(OOptBool {})", opt(x, |y| b(*y))),
        OutV::OptNat(x) => format!("(OOptNat {})", opt(x, |y| cn(*y))),
    }
}

fn ser_elems<T: Serialize>(v: &T) -> Vec<u64> {
    let mut buf: Vec<u8> = Vec::new();
    v.serialize(&mut buf).unwrap();
    assert!(buf.len() % 8 == 0);
    buf.chunks(8)
        .map(|c| {
            let mut a = [0u8; 8];
            a.copy_from_slice(c);
            u64::from_le_bytes(a)
        })
        .collect()
}

// ---------------------------------------------------------------- RawVector

#[derive(Clone, Debug)]
enum ROp {
    WithLen(usize, bool),
    Resize(usize, bool),
    Clear,
    Reserve(usize),
    Complement,
    Bit(usize),
    Int(usize, usize),
    SetBit(usize, bool),
    SetInt(usize, u64, usize),
    PushBit(bool),
    PushInt(u64, usize),
    PopBit,
    PopInt(usize),
    CountOnes,
}

fn rop_term(o: &ROp) -> String {
    match o {
        ROp::WithLen(l, v) => format!("RWithLen {} {}", l, b(*v)),
        ROp::Resize(l, v) => format!("RResize {} {}", l, b(*v)),
        ROp::Clear => "RClear".to_string(),
        ROp::Reserve(a) => format!("RReserve {}", a),
        ROp::Complement => "RComplement".to_string(),
        ROp::Bit(i) => format!("RBit {}", i),
        ROp::Int(off, w) => format!("RInt {} {}", off, w),
        ROp::SetBit(i, v) => format!("RSetBit {} {}", i, b(*v)),
        ROp::SetInt(off, v, w) => format!("RSetInt {} {} {}", off, cn(*v), w),
        ROp::PushBit(v) => format!("RPushBit {}", b(*v)),
        ROp::PushInt(v, w) => format!("RPushInt {} {}", cn(*v), w),
        ROp::PopBit => "RPopBit".to_string(),
        ROp::PopInt(w) => format!("RPopInt {}", w),
        ROp::CountOnes => "RCountOnes".to_string(),
    }
}

fn apply_raw(v: &mut RawVector, o: &ROp) -> Res<OutV> {
    catch(|| match o {
        ROp::WithLen(l, x) => {
            *v = RawVector::with_len(*l, *x);
            OutV::None
        }
        ROp::Resize(l, x) => {
            v.resize(*l, *x);
            OutV::None
        }
        ROp::Clear => {
            v.clear();
            OutV::None
        }
        ROp::Reserve(a) => {
            v.reserve(*a);
            OutV::None
        }
        ROp::Complement => {
            *v = v.complement();
            OutV::None
        }
        ROp::Bit(i) => OutV::Bool(v.bit(*i)),
        ROp::Int(off, w) => OutV::Nat(unsafe { v.int(*off, *w) }),
        ROp::SetBit(i, x) => {
            v.set_bit(*i, *x);
            OutV::None
        }
        ROp::SetInt(off, x, w) => {
            unsafe { v.set_int(*off, *x, *w) };
            OutV::None
        }
        ROp::PushBit(x) => {
            v.push_bit(*x);
            OutV::None
        }
        ROp::PushInt(x, w) => {
            unsafe { v.push_int(*x, *w) };
            OutV::None
        }
        ROp::PopBit => OutV::OptBool(v.pop_bit()),
        ROp::PopInt(w) => OutV::OptNat(unsafe { v.pop_int(*w) }),
        ROp::CountOnes => OutV::Nat(v.count_ones() as u64),
    })
}

fn raw_obs(v: &RawVector, out: &Res<OutV>) -> String {
    let len = v.len();
    let words: Vec<u64> = AsRef::<[u64]>::as_ref(v).to_vec();
    let ones = v.count_ones();
    let ser = ser_elems(v);
    let mut fresh = RawVector::new();
    for i in 0..len {
        fresh.push_bit(v.bit(i));
    }
    let eqf = *v == fresh;
    format!("RObs {} {} {} {} {} {}", ires(out, outv), len, cl(&words), ones, cl(&ser), b(eqf))
}

// a value to be written into a field of `w` bits: usually wider than the field
fn value(rng: &mut Rng, w: usize) -> u64 {
    let mask = if w >= 64 { !0u64 } else { (1u64 << w) - 1 };
    match rng.below(8) {
        0 => !0u64,
        1 => 0,
        2 => rng.next() & mask,
        3 => mask,
        4 => mask | (rng.next() & !mask),
        5 => !mask,
        6 => rng.word(),
        _ => rng.next(),
    }
}

fn gen_rop(rng: &mut Rng, len: usize, out: &mut Out) -> ROp {
    loop {
        let big = len > 380;
        let k = if big { 35 + rng.below(23) } else { rng.below(100) };
        match k {
            0..=24 => {
                let w = if rng.chance(1, 20) { 0 } else { rng.range(1, 64) as usize };
                if w > 0 && (len % 64) + w > 64 {
                    out.stat("raw.push_int.straddle");
                } else {
                    out.stat("raw.push_int.single");
                }
                return ROp::PushInt(value(rng, w), w);
            }
            25..=34 => return ROp::PushBit(rng.chance(1, 2)),
            35..=49 => {
                let w = match rng.below(10) {
                    0 => 0,
                    1 => rng.range(1, 64) as usize, // may exceed len: None
                    _ => {
                        if len == 0 {
                            rng.range(1, 64) as usize
                        } else {
                            rng.range(1, std::cmp::min(64, len) as u64) as usize
                        }
                    }
                };
                if w > len {
                    out.stat("raw.pop_int.none");
                } else if (len - w) % 64 != 0 {
                    out.stat("raw.pop_int.leaves_partial_word");
                } else {
                    out.stat("raw.pop_int.word_aligned");
                }
                return ROp::PopInt(w);
            }
            50..=57 => {
                out.stat(if len == 0 { "raw.pop_bit.none" } else { "raw.pop_bit.some" });
                return ROp::PopBit;
            }
            58..=65 => {
                if len == 0 {
                    continue;
                }
                let w = if rng.chance(1, 25) { 0 } else { rng.range(1, std::cmp::min(64, len) as u64) as usize };
                let off = rng.below((len - w + 1) as u64) as usize;
                out.stat(if (off % 64) + w > 64 { "raw.set_int.straddle" } else { "raw.set_int.single" });
                return ROp::SetInt(off, value(rng, w), w);
            }
            66..=70 => {
                if len == 0 {
                    continue;
                }
                return ROp::SetBit(rng.below(len as u64) as usize, rng.chance(1, 2));
            }
            71..=76 => {
                if len == 0 {
                    continue;
                }
                let w = if rng.chance(1, 25) { 0 } else { rng.range(1, std::cmp::min(64, len) as u64) as usize };
                let off = rng.below((len - w + 1) as u64) as usize;
                return ROp::Int(off, w);
            }
            77..=80 => {
                if len == 0 {
                    continue;
                }
                return ROp::Bit(rng.below(len as u64) as usize);
            }
            81..=90 => {
                let fill = rng.chance(1, 2);
                if rng.chance(1, 2) {
                    let add = match rng.below(4) {
                        0 => 0,
                        1 => rng.range(1, 8) as usize,
                        2 => (64 - len % 64) % 64,
                        _ => rng.range(1, 130) as usize,
                    };
                    out.stat(if fill { "raw.resize.up.fill1" } else { "raw.resize.up.fill0" });
                    return ROp::Resize(len + add, fill);
                } else {
                    out.stat("raw.resize.down");
                    return ROp::Resize(rng.below(len as u64 + 1) as usize, fill);
                }
            }
            91..=92 => return ROp::WithLen(rng.below(200) as usize, rng.chance(1, 2)),
            93 => return ROp::Clear,
            94 => return ROp::Reserve(rng.below(300) as usize),
            95..=96 => return ROp::Complement,
            _ => return ROp::CountOnes,
        }
    }
}

fn emit_raw(out: &mut Out, kind: &str, steps: &[String], nontrivial: bool) {
    let term = format!("CRaw [{}]", steps.join("; "));
    let json = format!("{{\"steps\":{},\"term\":{:?}}}", steps.len(), term);
    out.case(kind, term, json, nontrivial);
}

fn raw_random_history(rng: &mut Rng, out: &mut Out, max_len: usize) {
    let mut v = RawVector::new();
    let steps_n = rng.range(4, max_len as u64) as usize;
    let mut steps: Vec<String> = Vec::new();
    // half of the histories start from a vector built with a fill value
    if rng.chance(1, 2) {
        let o = ROp::WithLen(rng.below(150) as usize, rng.chance(1, 2));
        let r = apply_raw(&mut v, &o);
        steps.push(format!("({}, {})", rop_term(&o), raw_obs(&v, &r)));
    }
    for _ in 0..steps_n {
        let o = gen_rop(rng, v.len(), out);
        let r = apply_raw(&mut v, &o);
        steps.push(format!("({}, {})", rop_term(&o), raw_obs(&v, &r)));
    }
    emit_raw(out, "raw.random", &steps, true);
}

// the small alphabet used for exhaustive short histories; None = not applicable at this length
fn raw_alphabet(k: usize, len: usize) -> Option<ROp> {
    match k {
        0 => Some(ROp::PushInt(0xFFFF_FFFF_FFFF_FFF8 | 0b101, 3)),
        1 => Some(ROp::PushBit(true)),
        2 => Some(ROp::PopInt(3)),
        3 => Some(ROp::PopBit),
        4 => Some(ROp::Resize(len + 3, true)),
        5 => Some(ROp::Resize(len.saturating_sub(2), false)),
        6 => {
            if len >= 3 {
                Some(ROp::SetInt(len - 3, 0xF2, 3))
            } else {
                None
            }
        }
        _ => Some(ROp::Complement),
    }
}

fn raw_exhaustive(out: &mut Out, depth: usize) {
    let prefills: [Option<ROp>; 3] = [None, Some(ROp::WithLen(62, true)), Some(ROp::WithLen(128, false))];
    let alpha = 8usize;
    let total = alpha.pow(depth as u32);
    for pre in prefills.iter() {
        for code in 0..total {
            let mut v = RawVector::new();
            let mut steps: Vec<String> = Vec::new();
            if let Some(o) = pre {
                let r = apply_raw(&mut v, o);
                steps.push(format!("({}, {})", rop_term(o), raw_obs(&v, &r)));
            }
            let mut c = code;
            let mut ok = true;
            for _ in 0..depth {
                let k = c % alpha;
                c /= alpha;
                match raw_alphabet(k, v.len()) {
                    Some(o) => {
                        let r = apply_raw(&mut v, &o);
                        steps.push(format!("({}, {})", rop_term(&o), raw_obs(&v, &r)));
                    }
                    None => {
                        ok = false;
                        break;
                    }
                }
            }
            if ok {
                emit_raw(out, "raw.exhaustive", &steps, true);
            }
        }
    }
}

// ---------------------------------------------------------------- IntVector

#[derive(Clone, Debug)]
enum IOp {
    WithLen(usize, usize, u64),
    From(usize, Vec<u64>),
    Get(usize),
    Set(usize, u64),
    Push(u64),
    Pop,
    Resize(usize, u64),
    Clear,
    Reserve(usize),
    Pack,
    Extend(usize, Vec<u64>), // element type width (8/16/32/64/65 = usize), values
    CountOnes,
}

fn iop_term(o: &IOp) -> String {
    match o {
        IOp::WithLen(l, w, v) => format!("IWithLen {} {} {}", l, w, cn(*v)),
        IOp::From(w, xs) => format!("IFrom {} {}", w, cl(xs)),
        IOp::Get(i) => format!("IGet {}", cu(*i)),
        IOp::Set(i, v) => format!("ISet {} {}", cu(*i), cn(*v)),
        IOp::Push(v) => format!("IPush {}", cn(*v)),
        IOp::Pop => "IPop".to_string(),
        IOp::Resize(l, v) => format!("IResize {} {}", l, cn(*v)),
        IOp::Clear => "IClear".to_string(),
        IOp::Reserve(a) => format!("IReserve {}", a),
        IOp::Pack => "IPack".to_string(),
        IOp::Extend(_, xs) => format!("IExtend {}", cl(xs)),
        IOp::CountOnes => "ICountOnes".to_string(),
    }
}

// `assert!(index < self.len(), "Index is out of bounds")` is an assertion, whatever its message says
fn as_assert(r: Res<OutV>) -> Res<OutV> {
    match r {
        Res::Panic(_, msg) if msg == "Index is out of bounds" => Res::Panic(P_ASSERT, msg),
        other => other,
    }
}

fn apply_int(v: &mut IntVector, o: &IOp) -> Res<OutV> {
    as_assert(apply_int_raw(v, o))
}

fn apply_int_raw(v: &mut IntVector, o: &IOp) -> Res<OutV> {
    catch(|| match o {
        IOp::WithLen(l, w, x) => {
            *v = IntVector::with_len(*l, *w, *x).unwrap();
            OutV::None
        }
        IOp::From(w, xs) => {
            *v = match w {
                8 => IntVector::from(xs.iter().map(|x| *x as u8).collect::<Vec<u8>>()),
                16 => IntVector::from(xs.iter().map(|x| *x as u16).collect::<Vec<u16>>()),
                32 => IntVector::from(xs.iter().map(|x| *x as u32).collect::<Vec<u32>>()),
                _ => IntVector::from(xs.clone()),
            };
            OutV::None
        }
        IOp::Get(i) => OutV::Nat(v.get(*i)),
        IOp::Set(i, x) => {
            v.set(*i, *x);
            OutV::None
        }
        IOp::Push(x) => {
            v.push(*x);
            OutV::None
        }
        IOp::Pop => OutV::OptNat(v.pop()),
        IOp::Resize(l, x) => {
            v.resize(*l, *x);
            OutV::None
        }
        IOp::Clear => {
            v.clear();
            OutV::None
        }
        IOp::Reserve(a) => {
            v.reserve(*a);
            OutV::None
        }
        IOp::Pack => {
            v.pack();
            OutV::None
        }
        IOp::Extend(t, xs) => {
            match t {
                8 => v.extend(xs.iter().map(|x| *x as u8)),
                16 => v.extend(xs.iter().map(|x| *x as u16).collect::<Vec<u16>>()),
                32 => v.extend(xs.iter().map(|x| *x as u32)),
                65 => v.extend(xs.iter().map(|x| *x as usize).collect::<Vec<usize>>()),
                _ => v.extend(xs.clone()),
            };
            OutV::None
        }
        IOp::CountOnes => OutV::Nat(AsRef::<RawVector>::as_ref(v).count_ones() as u64),
    })
}

fn int_obs(v: &IntVector, out: &Res<OutV>) -> String {
    let len = v.len();
    let width = v.width();
    let items: Vec<u64> = v.iter().collect();
    let ones = AsRef::<RawVector>::as_ref(v).count_ones();
    let ser = ser_elems(v);
    let mut fresh = IntVector::new(width).unwrap();
    for x in items.iter() {
        fresh.push(*x);
    }
    let eqf = *v == fresh;
    format!("IObs {} {} {} {} {} {} {}", ires(out, outv), len, width, cl(&items), ones, cl(&ser), b(eqf))
}

fn typed_values(rng: &mut Rng, t: usize, count: usize) -> Vec<u64> {
    (0..count)
        .map(|_| {
            let x = match rng.below(4) {
                0 => !0u64,
                1 => rng.word(),
                2 => rng.below(16),
                _ => rng.next(),
            };
            match t {
                8 => x & 0xFF,
                16 => x & 0xFFFF,
                32 => x & 0xFFFF_FFFF,
                _ => x,
            }
        })
        .collect()
}

fn pick_width(rng: &mut Rng) -> usize {
    match rng.below(3) {
        0 => *rng.pick(&[1usize, 2, 3, 7, 8, 13, 31, 32, 33, 48, 63, 64]),
        _ => rng.range(1, 64) as usize,
    }
}

fn gen_iop(rng: &mut Rng, len: usize, width: usize, out: &mut Out) -> IOp {
    loop {
        let big = len > 20;
        let k = if big { 30 + rng.below(30) } else { rng.below(100) };
        match k {
            0..=29 => {
                out.stat(if ((len * width) % 64) + width > 64 { "int.push.straddle" } else { "int.push.single" });
                return IOp::Push(value(rng, width));
            }
            30..=44 => {
                out.stat(if len == 0 { "int.pop.none" } else if ((len - 1) * width) % 64 != 0 { "int.pop.leaves_partial_word" } else { "int.pop.word_aligned" });
                return IOp::Pop;
            }
            45..=52 => {
                if big || rng.chance(1, 2) {
                    out.stat("int.resize.down");
                    return IOp::Resize(rng.below(len as u64 + 1) as usize, value(rng, width));
                } else {
                    out.stat("int.resize.up");
                    return IOp::Resize(len + rng.range(0, 12) as usize, value(rng, width));
                }
            }
            53..=59 => return IOp::Pack,
            60..=67 => {
                if len == 0 {
                    continue;
                }
                return IOp::Get(rng.below(len as u64) as usize);
            }
            68..=77 => {
                if len == 0 {
                    continue;
                }
                return IOp::Set(rng.below(len as u64) as usize, value(rng, width));
            }
            78..=83 => {
                let t = *rng.pick(&[8usize, 16, 32, 64, 65]);
                let cnt = rng.below(8) as usize;
                return IOp::Extend(t, typed_values(rng, t, cnt));
            }
            84..=86 => {
                let w = pick_width(rng);
                return IOp::WithLen(rng.below(24) as usize, w, value(rng, w));
            }
            87..=89 => {
                let t = *rng.pick(&[8usize, 16, 32, 64]);
                let cnt = rng.below(12) as usize;
                return IOp::From(t, typed_values(rng, t, cnt));
            }
            90..=91 => return IOp::Clear,
            92 => return IOp::Reserve(rng.below(100) as usize),
            93..=95 => return IOp::CountOnes,
            // past the end: the code asserts before touching anything
            96..=97 => {
                out.stat("int.get.past_end");
                return IOp::Get(len + *rng.pick(&[0usize, 1, 1000, usize::MAX / 2]));
            }
            _ => {
                out.stat("int.set.past_end");
                return IOp::Set(len + *rng.pick(&[0usize, 1, 1000, usize::MAX / 2]), value(rng, width));
            }
        }
    }
}

fn emit_int(out: &mut Out, kind: &str, w0: usize, steps: &[String], nontrivial: bool) {
    let term = format!("CInt {} [{}]", w0, steps.join("; "));
    let json = format!("{{\"steps\":{},\"term\":{:?}}}", steps.len(), term);
    out.case(kind, term, json, nontrivial);
}

fn int_random_history(rng: &mut Rng, out: &mut Out, max_len: usize) {
    let w0 = pick_width(rng);
    let mut v = IntVector::new(w0).unwrap();
    let steps_n = rng.range(4, max_len as u64) as usize;
    let mut steps: Vec<String> = Vec::new();
    for _ in 0..steps_n {
        let o = gen_iop(rng, v.len(), v.width(), out);
        let r = apply_int(&mut v, &o);
        steps.push(format!("({}, {})", iop_term(&o), int_obs(&v, &r)));
    }
    emit_int(out, "int.random", w0, &steps, true);
}

fn int_alphabet(k: usize, len: usize) -> Option<IOp> {
    match k {
        0 => Some(IOp::Push(5)),
        1 => Some(IOp::Push(0xFFFF_FFFF_FFFF_FFFA)),
        2 => Some(IOp::Pop),
        3 => {
            if len > 0 {
                Some(IOp::Set(len - 1, 0xFF))
            } else {
                None
            }
        }
        4 => Some(IOp::Resize(len + 2, 14)),
        5 => Some(IOp::Resize(len.saturating_sub(1), 0)),
        6 => Some(IOp::Clear),
        _ => Some(IOp::Pack),
    }
}

fn int_exhaustive(out: &mut Out, depth: usize) {
    let prefills: [Option<IOp>; 3] = [None, Some(IOp::WithLen(21, 3, 0xFD)), Some(IOp::WithLen(64, 3, 2))];
    let alpha = 8usize;
    let total = alpha.pow(depth as u32);
    for pre in prefills.iter() {
        for code in 0..total {
            let mut v = IntVector::new(3).unwrap();
            let mut steps: Vec<String> = Vec::new();
            if let Some(o) = pre {
                let r = apply_int(&mut v, o);
                steps.push(format!("({}, {})", iop_term(o), int_obs(&v, &r)));
            }
            let mut c = code;
            let mut ok = true;
            for _ in 0..depth {
                let k = c % alpha;
                c /= alpha;
                match int_alphabet(k, v.len()) {
                    Some(o) => {
                        let r = apply_int(&mut v, &o);
                        steps.push(format!("({}, {})", iop_term(&o), int_obs(&v, &r)));
                    }
                    None => {
                        ok = false;
                        break;
                    }
                }
            }
            if ok {
                emit_int(out, "int.exhaustive", 3, &steps, true);
            }
        }
    }
}

pub fn run(rng0: &mut Rng, out: &mut Out, thorough: bool, variant: &str) {
    // each build variant explores its own random histories (same VERIF_SEED, different stream)
    let mut h: u64 = rng0.next();
    for c in variant.bytes() {
        h = (h ^ c as u64).wrapping_mul(0x100000001b3);
    }
    let mut local = Rng::new(h);
    let rng = &mut local;
    // constructor domain
    for w in [0usize, 1, 2, 63, 64, 65, 66, 128, usize::MAX] {
        let ok = IntVector::new(w).is_ok();
        out.case("int.new", format!("CNew {} {}", cu(w), b(ok)), format!("{{\"w\":{}}}", w), true);
    }
    // exhaustive short histories over an 8-operation alphabet at width 3, from three (raw: empty, 62 one-bits, 128 zero-bits) (int: empty, 21 items = 63 bits, 64 items = 192 bits) starting states
    let depth = if thorough { 4 } else { 3 };
    raw_exhaustive(out, depth);
    int_exhaustive(out, depth);
    // random histories
    let n_random = if thorough { 3000 } else { 400 };
    for _ in 0..n_random {
        raw_random_history(rng, out, 40);
    }
    for _ in 0..n_random {
        int_random_history(rng, out, 40);
    }
    big_counts(out);
}

// count_ones of filled vectors with 2^32 set bits and more (512 MiB of words each, dropped right after the call).
// Such a vector cannot be replayed on the list-based model: the expected value is given by the theorem
// C05_big_with_len_count (coq/Props/C05_big.v), see CBigCount in coq/Check/C05.v. Runs in every build variant:
// an accumulator narrower than usize panics with overflow checks on and wraps silently without them.
fn big_counts(out: &mut Out) {
    const DBG: bool = cfg!(debug_assertions);
    let two32: usize = 1usize << 32;
    for (len, value) in [(two32 - 1, true), (two32 + 100, true), (two32 + 7, false)] {
        let r = catch(|| {
            let v = RawVector::with_len(len, value);
            let c = v.count_ones();
            drop(v);
            c
        });
        out.stat(if value { "big.count.ones" } else { "big.count.zeros" });
        out.case(
            "raw.bigcount",
            format!("CBigCount {} {} {} {}", b(DBG), nu(len), b(value), ires(&r, |x| nu(*x))),
            format!("{{\"op\":\"RawVector::with_len(len, value).count_ones()\",\"len\":{},\"value\":{},\"observed\":{}}}", len, value, jres(&r, |x| format!("{}", x))),
            true,
        );
    }
}
