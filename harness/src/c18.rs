// C18: memory maps are valid while alive, fully released on drop, and fail loudly.
// Real files of chosen sizes are mapped with the real MemoryMap; the address space is read from /proc/self/maps
// while the map is alive and after drop; mutable maps are written through and the file is read back.
use crate::common::*;
use simple_sds::serialize::{MappingMode, MemoryMap};
use std::fs;
use std::path::{Path, PathBuf};

const DBG: bool = cfg!(debug_assertions);
const PAGE: u64 = 4096;

// bytes of the address space backed by `path` (sum over the lines of /proc/self/maps that name it)
fn mapped_bytes(path: &Path) -> u64 {
    let maps = fs::read_to_string("/proc/self/maps").unwrap_or_default();
    let want = path.to_str().unwrap_or("");
    let mut total = 0u64;
    for line in maps.lines() {
        let mut it = line.split_whitespace();
        let range = it.next().unwrap_or("");
        let name = it.nth(4).unwrap_or("");
        if name != want {
            continue;
        }
        let mut ab = range.split('-');
        let a = u64::from_str_radix(ab.next().unwrap_or("0"), 16).unwrap_or(0);
        let b = u64::from_str_radix(ab.next().unwrap_or("0"), 16).unwrap_or(0);
        total += b.wrapping_sub(a);
    }
    total
}

fn words_of(bytes: &[u8]) -> Vec<u64> {
    bytes.chunks_exact(8).map(|c| u64::from_le_bytes([c[0], c[1], c[2], c[3], c[4], c[5], c[6], c[7]])).collect()
}

struct Cyc {
    ok: u64,
    len: u64,
    same: bool,
    during: u64,
    after: u64,
    wr: u64,
    fw: Vec<u64>,
    sl: Vec<u64>,
}

// one new/drop cycle on `path`; `content` is what the file holds (None = no such file) and is updated by the writes
fn cycle(rng: &mut Rng, path: &Path, canon: &Path, mutable: bool, content: &mut Option<Vec<u8>>) -> Cyc {
    let mode = if mutable { MappingMode::Mutable } else { MappingMode::ReadOnly };
    let small = content.as_ref().map(|c| c.len() <= 64 && c.len() % 8 == 0).unwrap_or(false);
    let fw: Vec<u64> = if small { words_of(content.as_ref().unwrap()) } else { Vec::new() };
    match MemoryMap::new(path, mode) {
        Ok(mut map) => {
            let len = map.len();
            let expected: Vec<u64> = content.as_ref().map(|c| words_of(c)).unwrap_or_default();
            let exact = content.as_ref().map(|c| c.len() % 8 == 0).unwrap_or(false);
            let (same, sl) = {
                let slice: &[u64] = map.as_ref();
                (exact && slice == expected.as_slice(), if small { slice.to_vec() } else { Vec::new() })
            };
            let during = mapped_bytes(canon);
            let mut wrote = false;
            if mutable && len > 0 {
                let slice = unsafe { map.as_mut_slice() };
                let mut pos: Vec<usize> = vec![0, len - 1, len / 2];
                for _ in 0..4 {
                    pos.push(rng.below(len as u64) as usize);
                }
                // the last element of each page and the first of the next one
                let mut p = 512usize;
                while p < len {
                    pos.push(p - 1);
                    pos.push(p);
                    p += 512 * (1 + rng.below(8) as usize);
                }
                for i in pos {
                    let v = rng.next();
                    slice[i] = v;
                    if let Some(c) = content.as_mut() {
                        c[8 * i..8 * i + 8].copy_from_slice(&v.to_le_bytes());
                    }
                }
                wrote = true;
            }
            drop(map);
            let after = mapped_bytes(canon);
            let wr = if wrote {
                let back = fs::read(path).unwrap_or_default();
                if Some(&back) == content.as_ref() {
                    1
                } else {
                    2
                }
            } else {
                0
            };
            Cyc { ok: 0, len: len as u64, same, during, after, wr, fw, sl }
        }
        Err(e) => {
            let msg = format!("{}", e);
            let ok = if msg.contains("multiple of 8") {
                2
            } else if msg.contains("Memory mapping failed") {
                3
            } else if e.raw_os_error().is_some() {
                1
            } else {
                4
            };
            let during = mapped_bytes(canon);
            Cyc { ok, len: 0, same: false, during, after: during, wr: 0, fw: Vec::new(), sl: Vec::new() }
        }
    }
}

// one read-only new/drop cycle on a sparse file of `size` bytes (a hole: every element reads 0), too large to hold
// its content in memory: the ends and a few elements in between are read
fn big_cycle(rng: &mut Rng, path: &Path, size: u64) -> Cyc {
    match MemoryMap::new(path, MappingMode::ReadOnly) {
        Ok(map) => {
            let len = map.len();
            let same = {
                let slice: &[u64] = map.as_ref();
                let mut ok = slice.len() as u64 == size / 8 && size % 8 == 0;
                if !slice.is_empty() {
                    let mut pos = vec![0usize, slice.len() - 1, slice.len() / 2, (1usize << 29) - 1, 1usize << 29];
                    for _ in 0..16 {
                        pos.push(rng.below(slice.len() as u64) as usize);
                    }
                    for i in pos {
                        if i < slice.len() {
                            ok &= slice[i] == 0;
                        }
                    }
                }
                ok
            };
            let during = mapped_bytes(path);
            drop(map);
            let after = mapped_bytes(path);
            Cyc { ok: 0, len: len as u64, same, during, after, wr: 0, fw: Vec::new(), sl: Vec::new() }
        }
        Err(e) => {
            let msg = format!("{}", e);
            let ok = if msg.contains("multiple of 8") { 2 } else if msg.contains("Memory mapping failed") { 3 } else if e.raw_os_error().is_some() { 1 } else { 4 };
            let during = mapped_bytes(path);
            Cyc { ok, len: 0, same: false, during, after: during, wr: 0, fw: Vec::new(), sl: Vec::new() }
        }
    }
}

pub fn run(rng: &mut Rng, out: &mut Out, thorough: bool, _variant: &str) {
    let dir: PathBuf = match std::env::var("VERIF_RUNDIR") {
        Ok(d) if !d.is_empty() => PathBuf::from(d),
        _ => std::env::temp_dir(),
    };
    let _ = fs::create_dir_all(&dir);
    let dir = fs::canonicalize(&dir).unwrap_or(dir);
    // None = no such file
    let mut sizes: Vec<Option<u64>> = vec![Some(0), Some(8), Some(16), Some(4088), Some(4096), Some(4104), Some(8192),
        Some(33 * PAGE), Some(33 * PAGE + 8), Some(7), Some(12), None];
    let extra = if thorough { 60 } else { 8 };
    for _ in 0..extra {
        let pages = rng.below(65);
        let s = match rng.below(4) {
            0 => pages * PAGE,                                   // exact pages (0 included)
            1 => pages * PAGE + 8 * rng.range(1, 511),           // multiple of 8 inside a page
            2 => pages * PAGE + rng.range(1, 4095),              // mostly not a multiple of 8
            _ => 8 * rng.range(1, 8),                            // small: the content itself goes to the check
        };
        sizes.push(Some(s));
    }
    let mut fileno = 0usize;
    for size in sizes.iter() {
        for &mutable in [false, true].iter() {
            for ncyc in 1..=3usize {
                fileno += 1;
                let path = dir.join(format!("c18_{}_{}.bin", std::process::id(), fileno));
                let mut content: Option<Vec<u8>> = size.map(|s| (0..s).map(|_| (rng.next() >> 32) as u8).collect());
                if let Some(c) = content.as_ref() {
                    fs::write(&path, c).unwrap();
                }
                let mut cycs: Vec<Cyc> = Vec::new();
                let mut panicked = false;
                for _ in 0..ncyc {
                    let r = catch(|| cycle(rng, &path, &path, mutable, &mut content));
                    match r {
                        Res::Ok(c) => cycs.push(c),
                        Res::Panic(_, _) => {
                            panicked = true;
                            cycs.push(Cyc { ok: 5, len: 0, same: false, during: mapped_bytes(&path), after: mapped_bytes(&path), wr: 0, fw: Vec::new(), sl: Vec::new() });
                        }
                    }
                }
                if content.is_some() {
                    let _ = fs::remove_file(&path);
                }
                let regime = match size {
                    None => "missing",
                    Some(0) => "empty",
                    Some(s) if s % 8 != 0 => "not_multiple_of_8",
                    Some(s) if *s <= PAGE => "one_page",
                    Some(s) if s % PAGE == 0 => "exact_pages",
                    Some(_) => "partial_last_page",
                };
                out.stat(&format!("size.{}", regime));
                out.stat(if mutable { "mode.mutable" } else { "mode.readonly" });
                out.stat(&format!("cycles.{}", ncyc));
                if panicked {
                    out.stat("panicked");
                }
                let cyc_s: Vec<String> = cycs.iter().map(|c| format!("Cyc {} {} {} {} {} {} {} {}", c.ok, c.len, b(c.same), c.during, c.after, c.wr, nlist(&c.fw), nlist(&c.sl))).collect();
                let term = format!("CMap {} {} {} [{}]", b(DBG), b(mutable), opt(size, |s| n(*s)), cyc_s.join("; "));
                let cyc_j: Vec<String> = cycs.iter().map(|c| format!("{{\"ok\":{},\"len\":{},\"same\":{},\"during\":{},\"after\":{},\"wr\":{},\"fw\":{:?},\"sl\":{:?}}}",
                    c.ok, c.len, c.same, c.during, c.after, c.wr, c.fw, c.sl)).collect();
                let json = format!("{{\"size\":{},\"mutable\":{},\"cycles\":[{}]}}", match size { Some(s) => format!("{}", s), None => "null".to_string() }, mutable, cyc_j.join(","));
                out.case("map", term, json, true);
            }
        }
    }
    // files of 4 GiB and more (sparse: a hole of that size), sizes that are and are not multiples of 8
    for size in [(1u64 << 32) - 8, 1u64 << 32, (1u64 << 32) + 8, (1u64 << 32) + 4, (1u64 << 33) + 4096] {
        fileno += 1;
        let path = dir.join(format!("c18_{}_{}.bin", std::process::id(), fileno));
        let made = fs::File::create(&path).and_then(|f| f.set_len(size));
        if made.is_err() {
            out.stat("size.huge.not_created");
            let _ = fs::remove_file(&path);
            continue;
        }
        let r = catch(|| big_cycle(rng, &path, size));
        let c = match r {
            Res::Ok(c) => c,
            Res::Panic(_, _) => Cyc { ok: 5, len: 0, same: false, during: mapped_bytes(&path), after: mapped_bytes(&path), wr: 0, fw: Vec::new(), sl: Vec::new() },
        };
        let _ = fs::remove_file(&path);
        out.stat("size.huge");
        let term = format!("CMap {} {} (Some {}) [Cyc {} {} {} {} {} {} {} {}]", b(DBG), b(false), n(size), c.ok, c.len, b(c.same), c.during, c.after, c.wr, nlist(&c.fw), nlist(&c.sl));
        let json = format!("{{\"size\":{},\"mutable\":false,\"sparse\":true,\"cycles\":[{{\"ok\":{},\"len\":{},\"same\":{},\"during\":{},\"after\":{}}}]}}", size, c.ok, c.len, c.same, c.during, c.after);
        out.case("map", term, json, true);
    }
}
