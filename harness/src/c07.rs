// C07: files follow SERIALIZATION.md in both directions.
//
// WRITE direction: structures of every documented type are built with the real crate and serialized; the case
// carries the type, the logical content computed HERE from the defining input (never from the structure's own
// answers) and the file. The Coq side decodes the file with the codec written from the document.
//
// READ direction: the module `doc` below is an independent writer ported from SERIALIZATION.md (not from the
// crate): it produces files with no support structures anywhere and with random admissible writer-side choices
// (any low width for sparse vectors, any sufficient width for integer vectors and wavelet matrices). Each file is
// handed to the crate's `load`; the loaded structure is then queried and every answer is compared here with the
// content. The case carries content, choice, file, whether the load succeeded and the number of wrong answers;
// the Coq side also checks that the file is exactly what the Coq document writer produces (so the port is checked).
use crate::common::*;
use simple_sds::bit_vector::BitVector;
use simple_sds::int_vector::IntVector;
use simple_sds::ops::*;
use simple_sds::raw_vector::{AccessRaw, PopRaw, PushRaw, RawVector};
use simple_sds::rl_vector::{RLBuilder, RLVector};
use simple_sds::serialize::Serialize;
use simple_sds::sparse_vector::{SparseBuilder, SparseVector};
use simple_sds::wavelet_matrix::wm_core::WMCore;
use simple_sds::wavelet_matrix::WaveletMatrix;
use std::convert::TryFrom;
use std::fmt::Write as FmtWrite;

// ---------------------------------------------------------------- logical content (mirrors Check/C07.v)

#[derive(Clone, Debug)]
enum K {
    List(Vec<u64>),
    Pairs(Vec<(u64, u64)>),
    KNone,
    KSome(Box<K>),
    Bits(u64, Vec<u64>),
    Int(u64, Vec<u64>),
    Sparse(u64, Vec<u64>),
    Runs(u64, Vec<(u64, u64)>),
}

fn plist64(xs: &[(u64, u64)]) -> String {
    let mut s = String::from("[");
    for (i, (a, b)) in xs.iter().enumerate() {
        if i > 0 {
            s.push_str("; ");
        }
        let _ = write!(s, "({}, {})", a, b);
    }
    s.push(']');
    s
}

fn jpairs(xs: &[(u64, u64)]) -> String {
    let v: Vec<String> = xs.iter().map(|(a, b)| format!("[{},{}]", a, b)).collect();
    format!("[{}]", v.join(","))
}

impl K {
    fn coq(&self) -> String {
        match self {
            K::List(l) => format!("(KList {})", nlist(l)),
            K::Pairs(l) => format!("(KPairs {})", plist64(l)),
            K::KNone => "KNone".to_string(),
            K::KSome(c) => format!("(KSome {})", c.coq()),
            K::Bits(n, o) => format!("(KBits {} {})", n, nlist(o)),
            K::Int(w, l) => format!("(KInt {} {})", w, nlist(l)),
            K::Sparse(n, l) => format!("(KSparse {} {})", n, nlist(l)),
            K::Runs(n, r) => format!("(KRuns {} {})", n, plist64(r)),
        }
    }
    fn json(&self) -> String {
        match self {
            K::List(l) => format!("{{\"list\":{:?}}}", l),
            K::Pairs(l) => format!("{{\"pairs\":{}}}", jpairs(l)),
            K::KNone => "{\"none\":1}".to_string(),
            K::KSome(c) => format!("{{\"some\":{}}}", c.json()),
            K::Bits(n, o) => format!("{{\"len\":{},\"ones\":{:?}}}", n, o),
            K::Int(w, l) => format!("{{\"width\":{},\"items\":{:?}}}", w, l),
            K::Sparse(n, l) => format!("{{\"n\":{},\"items\":{:?}}}", n, l),
            K::Runs(n, r) => format!("{{\"len\":{},\"runs\":{}}}", n, jpairs(r)),
        }
    }
}

fn kbits(bits: &[bool]) -> K {
    K::Bits(bits.len() as u64, bits.iter().enumerate().filter(|(_, b)| **b).map(|(i, _)| i as u64).collect())
}

fn ser<T: Serialize>(x: &T) -> Vec<u8> {
    let mut v: Vec<u8> = Vec::new();
    x.serialize(&mut v).unwrap();
    v
}

fn le_elems(bytes: &[u8]) -> Option<Vec<u64>> {
    if bytes.len() % 8 != 0 {
        return None;
    }
    Some(bytes.chunks(8).map(|c| u64::from_le_bytes([c[0], c[1], c[2], c[3], c[4], c[5], c[6], c[7]])).collect())
}

fn le_bytes(elems: &[u64]) -> Vec<u8> {
    let mut v = Vec::with_capacity(elems.len() * 8);
    for e in elems {
        v.extend_from_slice(&e.to_le_bytes());
    }
    v
}

// written file: as bytes while small (so that Coq checks the little-endian element rule itself), as elements above
fn emit_w(out: &mut Out, ty: &str, regime: &str, c: &K, bytes: &[u8]) {
    let fd = if bytes.len() <= 640 || bytes.len() % 8 != 0 {
        let v: Vec<u64> = bytes.iter().map(|b| *b as u64).collect();
        format!("(FBytes {})", nlist(&v))
    } else {
        format!("(FElems {})", nlist(&le_elems(bytes).unwrap()))
    };
    out.stat(&format!("w.{}", ty));
    out.stat(&format!("w.{}.{}", ty, regime));
    let el = le_elems(bytes).unwrap_or_default();
    out.case(
        &format!("w_{}", ty),
        format!("CW {} {} {}", ty, c.coq(), fd),
        format!("{{\"dir\":\"write\",\"ty\":\"{}\",\"regime\":\"{}\",\"content\":{},\"bytes\":{},\"file\":{:?}}}", ty, regime, c.json(), bytes.len(), el),
        bytes.len() > 8,
    );
}

// ---------------------------------------------------------------- the document's writer, ported from SERIALIZATION.md

mod doc {
    // "Serialization format for vectors of serializable items: 1. Length 2. Concatenated items"
    pub fn vec(items: &[u64]) -> Vec<u64> {
        let mut f = vec![items.len() as u64];
        f.extend_from_slice(items);
        f
    }
    pub fn pairs(items: &[(u64, u64)]) -> Vec<u64> {
        let mut f = vec![items.len() as u64];
        for (a, b) in items {
            f.push(*a);
            f.push(*b);
        }
        f
    }
    // "vectors of bytes: 1. Length 2. items 3. 0 to 7 bytes of padding with byte value 0"
    pub fn bytes(bs: &[u8]) -> Vec<u64> {
        let mut f = vec![bs.len() as u64];
        for chunk in bs.chunks(8) {
            let mut e = 0u64;
            for (j, b) in chunk.iter().enumerate() {
                e |= (*b as u64) << (8 * j);
            }
            f.push(e);
        }
        f
    }
    // "Optional structures: 1. Length of the optional structure as an element. 2. The structure, if present."
    pub fn opt(o: Option<Vec<u64>>) -> Vec<u64> {
        match o {
            None => vec![0],
            Some(s) => {
                let mut f = vec![s.len() as u64];
                f.extend(s);
                f
            }
        }
    }
    // "Bit i of the raw bitvector is stored as bit i % 64 of element floor(i / 64)"; floor((n + 63) / 64) elements;
    // unused bits 0.   "1. Length of the vector 2. Vector of elements storing the items"
    pub fn raw(bits: &[bool]) -> Vec<u64> {
        let mut words = vec![0u64; (bits.len() + 63) / 64];
        for (i, b) in bits.iter().enumerate() {
            if *b {
                words[i / 64] |= 1u64 << (i % 64);
            }
        }
        let mut f = vec![bits.len() as u64];
        f.extend(vec(&words));
        f
    }
    // "1. Length 2. Width of the items 3. Raw bitvector storing the items" (n * w bits)
    pub fn int(w: u64, items: &[u64]) -> Vec<u64> {
        let mut bits: Vec<bool> = Vec::with_capacity(items.len() * w as usize);
        for x in items {
            for j in 0..w {
                bits.push((x >> j) & 1 == 1);
            }
        }
        let mut f = vec![items.len() as u64, w];
        f.extend(raw(&bits));
        f
    }
    // "1. Number of set bits 2. Raw bitvector 3.-5. optional support structures" (all absent)
    pub fn bv(bits: &[bool]) -> Vec<u64> {
        let mut f = vec![bits.iter().filter(|b| **b).count() as u64];
        f.extend(raw(bits));
        f.extend_from_slice(&[0, 0, 0]);
        f
    }
    // one bucket for each slice of 0..n, none after them
    pub fn buckets(n: u64, w: u64) -> u64 {
        if n == 0 {
            0
        } else if w >= 64 {
            1
        } else {
            ((n - 1) >> w) + 1
        }
    }
    // "1. Length of the vector of bits 2. Bitvector storing the high parts 3. Integer vector storing the low parts"
    pub fn sparse(n: u64, w: u64, items: &[u64]) -> Vec<u64> {
        let m = items.len() as u64;
        let mut high = vec![false; (m + buckets(n, w)) as usize];
        let mut low = Vec::with_capacity(items.len());
        for (i, x) in items.iter().enumerate() {
            high[((if w >= 64 { 0 } else { x >> w }) + i as u64) as usize] = true;
            low.push(if w >= 64 { *x } else { x & ((1u64 << w) - 1) });
        }
        let mut f = vec![n];
        f.extend(bv(&high));
        f.extend(int(w, &low));
        f
    }
    // "little-endian order using 4-bit code units. The lowest 3 bits of each code unit contain data. If the high bit
    // is set, the encoding continues in the next unit."
    fn varint(mut x: u64, out: &mut Vec<u64>) {
        while x > 7 {
            out.push((x & 7) | 8);
            x >>= 3;
        }
        out.push(x);
    }
    pub fn bitlen(x: u64) -> u64 {
        if x == 0 {
            1
        } else {
            64 - x.leading_zeros() as u64
        }
    }
    pub struct RlShape {
        pub blocks: usize,
        pub padded: usize,
        pub final_units: usize,
    }
    // runs as maximal (start, length); returns the file and the shape of the block structure
    pub fn rl(len: u64, runs: &[(u64, u64)]) -> (Vec<u64>, RlShape) {
        let mut units: Vec<u64> = Vec::new();
        let mut samples: Vec<u64> = Vec::new();
        let (mut pos, mut ones, mut padded) = (0u64, 0u64, 0usize);
        for (s, l) in runs {
            let mut code = Vec::new();
            varint(s - pos, &mut code); // n0
            varint(l - 1, &mut code); // n1 - 1
            let blocks = (units.len() + 63) / 64;
            let free = blocks * 64 - units.len();
            if code.len() > free {
                // "If there is not enough space left for encoding the next (n0, n1), we pad the block with 0 values
                // and move to the next block."  One sample (set bits, bits) of the preceding blocks per block.
                if free > 0 {
                    padded += 1;
                }
                units.resize(blocks * 64, 0);
                samples.push(ones);
                samples.push(pos);
            }
            units.extend(code);
            pos = s + l;
            ones += l;
        }
        let sw = bitlen(samples.iter().cloned().max().unwrap_or(0)); // "the minimal width necessary"
        let mut f = vec![len, ones];
        f.extend(int(sw, &samples));
        f.extend(int(4, &units));
        let blocks = (units.len() + 63) / 64;
        let final_units = if blocks == 0 { 0 } else { units.len() - (blocks - 1) * 64 };
        (f, RlShape { blocks, padded, final_units })
    }
    // levels of the wavelet matrix: bit values 1 << (width - 1 - level); items with an unset bit move before the
    // items with a set bit, order kept. Returns the levels and the reordered vector.
    pub fn levels(width: u64, items: &[u64]) -> (Vec<Vec<bool>>, Vec<u64>) {
        let mut cur: Vec<u64> = items.to_vec();
        let mut out = Vec::new();
        for level in 0..width {
            let bit = 1u64 << (width - 1 - level);
            out.push(cur.iter().map(|x| x & bit != 0).collect::<Vec<bool>>());
            let mut next: Vec<u64> = cur.iter().cloned().filter(|x| x & bit == 0).collect();
            next.extend(cur.iter().cloned().filter(|x| x & bit != 0));
            cur = next;
        }
        (out, cur)
    }
    // "1. width 2. levels: A BitVector for each level in 0..width"
    pub fn wmcore(width: u64, items: &[u64]) -> Vec<u64> {
        let mut f = vec![width];
        for l in levels(width, items).0 {
            f.extend(bv(&l));
        }
        f
    }
    // "1. len 2. data: WMCore 3. first: position of the first occurrence of each value in the reordered vector",
    // len if the value is not present, over the alphabet 0..=max; "bit-packed to minimize its width"
    pub fn wm(width: u64, items: &[u64]) -> Vec<u64> {
        let len = items.len() as u64;
        let reordered = levels(width, items).1;
        let max = items.iter().cloned().max().unwrap_or(0);
        let first: Vec<u64> = (0..=max).map(|v| reordered.iter().position(|x| *x == v).map(|p| p as u64).unwrap_or(len)).collect();
        let fw = bitlen(first.iter().cloned().max().unwrap_or(0));
        let mut f = vec![len];
        f.extend(wmcore(width, items));
        f.extend(int(fw, &first));
        f
    }
}

// ---------------------------------------------------------------- read direction plumbing

struct Q {
    total: u64,
    wrong: u64,
    first: String,
}

impl Q {
    fn new() -> Q {
        Q { total: 0, wrong: 0, first: String::new() }
    }
    fn eq<T: PartialEq + std::fmt::Debug>(&mut self, what: &str, arg: u64, got: T, exp: T) {
        self.total += 1;
        if got != exp {
            self.wrong += 1;
            if self.first.is_empty() {
                self.first = format!("{}({}) = {:?}, expected {:?}", what, arg, got, exp);
                self.first.truncate(300);
            }
        }
    }
}

// load a T from the elements; Err(text) for an Err result, a panic, or unread trailing bytes
fn load_from<T: Serialize>(elems: &[u64]) -> Result<T, String> {
    let bytes = le_bytes(elems);
    let r = catch(|| {
        let mut rd: &[u8] = &bytes[..];
        let v = T::load(&mut rd);
        (v, rd.len())
    });
    match r {
        Res::Ok((Ok(v), 0)) => Ok(v),
        Res::Ok((Ok(_), rest)) => Err(format!("{} bytes not consumed", rest)),
        Res::Ok((Err(e), _)) => Err(format!("Err: {}", e)),
        Res::Panic(_, m) => Err(format!("panic: {}", m)),
    }
}

fn emit_r<T, F: FnOnce(&mut T, &mut Q)>(out: &mut Out, ty: &str, regime: &str, c: &K, choice: u64, file: &[u64], loaded: Result<T, String>, queries: F) {
    let mut q = Q::new();
    let (ok, err) = match loaded {
        Ok(mut v) => {
            let r = catch(|| queries(&mut v, &mut q));
            if let Res::Panic(_, m) = r {
                q.wrong += 1;
                if q.first.is_empty() {
                    q.first = format!("panic in queries: {}", m);
                }
            }
            (true, String::new())
        }
        Err(e) => (false, e),
    };
    out.stat(&format!("r.{}", ty));
    out.stat(&format!("r.{}.{}", ty, regime));
    out.stat_n("r.answers_compared", q.total);
    out.case(
        &format!("r_{}", ty),
        format!("CR {} {} {} {} {} {}", ty, c.coq(), choice, nlist(file), b(ok), q.wrong),
        format!(
            "{{\"dir\":\"read\",\"ty\":\"{}\",\"regime\":\"{}\",\"content\":{},\"choice\":{},\"file\":{:?},\"loaded\":{},\"load_error\":{:?},\"answers\":{},\"wrong\":{},\"first_wrong\":{:?}}}",
            ty, regime, c.json(), choice, file, ok, err, q.total, q.wrong, q.first
        ),
        file.len() > 1,
    );
}

// ---------------------------------------------------------------- oracles on the content (naive)

fn o_rank(items: &[u64], i: u64) -> usize {
    items.iter().filter(|x| **x < i).count()
}
// position of the k-th unset bit of a vector of length n whose set bits are `items` (sorted, distinct)
fn o_select_zero(items: &[u64], n: u64, k: u64) -> Option<usize> {
    let mut pos = k;
    for x in items {
        if *x <= pos {
            pos += 1;
        } else {
            break;
        }
    }
    if pos < n {
        Some(pos as usize)
    } else {
        None
    }
}
fn o_pred(items: &[u64], i: u64) -> Option<(usize, usize)> {
    let r = items.iter().filter(|x| **x <= i).count();
    if r == 0 {
        None
    } else {
        Some((r - 1, items[r - 1] as usize))
    }
}
fn o_succ(items: &[u64], i: u64) -> Option<(usize, usize)> {
    let r = items.iter().filter(|x| **x < i).count();
    if r == items.len() {
        None
    } else {
        Some((r, items[r] as usize))
    }
}
// positions worth asking about: around every item, the ends, a few random ones (all of them for small n)
fn probe_positions(rng: &mut Rng, n: u64, items: &[u64], cap: usize) -> Vec<u64> {
    if n <= 400 {
        return (0..n).collect();
    }
    let mut ps: Vec<u64> = vec![0, 1, n / 2, n - 2, n - 1];
    for x in items.iter().take(cap) {
        for d in [0i64, -1, 1].iter() {
            let p = (*x as i128 + *d as i128) as i128;
            if p >= 0 && (p as u128) < n as u128 {
                ps.push(p as u64);
            }
        }
    }
    for _ in 0..8 {
        ps.push(rng.below(n));
    }
    ps.sort();
    ps.dedup();
    ps
}

fn bits_queries<'a, T>(v: &'a T, q: &mut Q, rng: &mut Rng, n: u64, items: &[u64], with_zero: bool)
where
    T: BitVec<'a> + Rank<'a> + Select<'a> + SelectZero<'a> + PredSucc<'a>,
{
    let m = items.len();
    q.eq("len", 0, v.len(), n as usize);
    q.eq("count_ones", 0, v.count_ones(), m);
    for p in probe_positions(rng, n, items, 40) {
        q.eq("get", p, v.get(p as usize), items.binary_search(&p).is_ok());
        q.eq("rank", p, v.rank(p as usize), o_rank(items, p));
        q.eq("predecessor", p, v.predecessor(p as usize).next(), o_pred(items, p));
        q.eq("successor", p, v.successor(p as usize).next(), o_succ(items, p));
    }
    q.eq("rank", n, v.rank(n as usize), m);
    for k in 0..=(m as u64) {
        if m > 60 && k % 7 != 0 && k + 2 < m as u64 {
            continue;
        }
        q.eq("select", k, v.select(k as usize), items.get(k as usize).map(|x| *x as usize));
    }
    if with_zero {
        let zeros = n - m as u64;
        let mut ks: Vec<u64> = vec![0, 1, zeros / 2, zeros.saturating_sub(1), zeros, zeros + 1];
        for _ in 0..6 {
            ks.push(rng.below(zeros + 1));
        }
        if zeros <= 300 {
            ks = (0..=zeros).collect();
        }
        for k in ks {
            q.eq("select_zero", k, v.select_zero(k as usize), o_select_zero(items, n, k));
        }
    }
    let all: Vec<(usize, usize)> = v.one_iter().collect();
    let exp: Vec<(usize, usize)> = items.iter().enumerate().map(|(i, x)| (i, *x as usize)).collect();
    q.eq("one_iter", 0, all, exp);
}

// ---------------------------------------------------------------- generators

fn gen_bits(rng: &mut Rng, len: usize) -> Vec<bool> {
    match rng.below(6) {
        0 => vec![false; len],
        1 => vec![true; len],
        2 => (0..len).map(|_| rng.chance(1, 20)).collect(),
        3 => (0..len).map(|_| rng.chance(19, 20)).collect(),
        4 => {
            // runs
            let mut v = Vec::with_capacity(len);
            let mut cur = rng.chance(1, 2);
            while v.len() < len {
                let l = rng.range(1, 90) as usize;
                for _ in 0..l {
                    if v.len() < len {
                        v.push(cur);
                    }
                }
                cur = !cur;
            }
            v
        }
        _ => (0..len).map(|_| rng.chance(1, 2)).collect(),
    }
}

const BOUNDARY_LENS: [usize; 16] = [0, 1, 2, 7, 63, 64, 65, 127, 128, 129, 191, 192, 193, 511, 512, 513];

fn pick_len(rng: &mut Rng, i: usize, max: u64) -> usize {
    if i < BOUNDARY_LENS.len() {
        BOUNDARY_LENS[i]
    } else {
        rng.below(max) as usize
    }
}

fn sorted_distinct(rng: &mut Rng, n: u64, m: usize) -> Vec<u64> {
    let mut v: Vec<u64> = Vec::new();
    if n == 0 {
        return v;
    }
    let style = rng.below(4);
    for _ in 0..(m * 2) {
        let x = match style {
            0 => rng.below(n),
            1 => rng.below(std::cmp::min(n, 64)),           // clustered at the start: many items per bucket
            2 => n - 1 - rng.below(std::cmp::min(n, 64)),   // clustered in the last bucket
            _ => {
                let base = rng.below(n);
                std::cmp::min(n - 1, base + rng.below(4))
            }
        };
        v.push(x);
    }
    v.sort();
    v.dedup();
    // a random subset of the right size (keeps the clustering)
    while v.len() > m {
        let i = rng.below(v.len() as u64) as usize;
        v.remove(i);
    }
    v
}

// maximal runs (start, length) inside [0, len): style selects how many code units the runs need
fn gen_runs(rng: &mut Rng, count: usize, style: u64) -> (u64, Vec<(u64, u64)>) {
    let mut runs = Vec::new();
    let mut pos = 0u64;
    for i in 0..count {
        let (gap_max, len_max) = match style {
            0 => (7u64, 8u64),                    // one unit each: exactly 32 runs per block
            1 => (60, 60),                        // two units each
            2 => (1 << 20, 1 << 12),
            3 => (1u64 << 40, 1u64 << 30),        // long codes: padding whenever a block cannot take the next run
            _ => match rng.below(4) {
                0 => (7, 8),
                1 => (500, 70),
                2 => (1 << 33, 9),
                _ => (9, 1 << 33),
            },
        };
        let lo = if i == 0 { 0 } else { 1 };
        let gap = rng.range(lo, gap_max);
        let l = rng.range(1, len_max);
        runs.push((pos + gap, l));
        pos += gap + l;
    }
    let len = pos + if rng.chance(1, 2) { 0 } else { rng.range(1, 1000) };
    (len, runs)
}

fn gen_items(rng: &mut Rng, len: usize, max: u64, holes: bool) -> Vec<u64> {
    let mut alphabet: Vec<u64> = (0..=max).collect();
    if holes && max >= 2 {
        // remove some values (never the maximum, so that the alphabet stays 0..=max)
        let drop = rng.range(1, max / 2 + 1);
        for _ in 0..drop {
            let i = rng.below(alphabet.len() as u64 - 1) as usize;
            if alphabet.len() > 1 {
                alphabet.remove(i);
            }
        }
    }
    let mut v: Vec<u64> = (0..len).map(|_| *rng.pick(&alphabet)).collect();
    if len > 0 && !v.contains(&max) {
        let i = rng.below(len as u64) as usize;
        v[i] = max;
    }
    v
}

// ---------------------------------------------------------------- write direction

fn write_basic(rng: &mut Rng, out: &mut Out, reps: usize) {
    for i in 0..(12 * reps) {
        let len = if i < 4 { i } else { rng.below(40) as usize };
        let v: Vec<u64> = (0..len).map(|_| rng.word()).collect();
        emit_w(out, "TVec", if len == 0 { "empty" } else { "u64" }, &K::List(v.clone()), &ser(&v));
        let u: Vec<usize> = v.iter().map(|x| *x as usize).collect();
        emit_w(out, "TVec", if len == 0 { "empty" } else { "usize" }, &K::List(v.clone()), &ser(&u));
        let p: Vec<(u64, u64)> = (0..len / 2).map(|_| (rng.word(), rng.next())).collect();
        emit_w(out, "TPairs", if p.is_empty() { "empty" } else { "pairs" }, &K::Pairs(p.clone()), &ser(&p));
    }
    // byte vectors: every length 0..=17 (all padding lengths twice) and random ones
    for i in 0..(18 + 8 * reps) {
        let len = if i < 18 { i } else { rng.below(70) as usize };
        let v: Vec<u8> = (0..len).map(|_| if rng.chance(1, 4) { 0 } else { rng.below(256) as u8 }).collect();
        let c = K::List(v.iter().map(|b| *b as u64).collect());
        emit_w(out, "TBytes", &format!("pad{}", (8 - len % 8) % 8), &c, &ser(&v));
    }
    let alphabet: Vec<char> = vec!['a', 'Z', '0', ' ', '\u{0}', '\u{7f}', '\u{80}', '\u{e9}', '\u{7ff}', '\u{800}', '\u{20ac}', '\u{ffff}', '\u{10000}', '\u{1f600}', '\u{10ffff}'];
    for i in 0..(10 + 6 * reps) {
        let chars = if i < 3 { i } else { rng.below(20) as usize };
        let s: String = (0..chars).map(|_| *rng.pick(&alphabet)).collect();
        let c = K::List(s.as_bytes().iter().map(|b| *b as u64).collect());
        emit_w(out, "TString", &format!("pad{}", (8 - s.len() % 8) % 8), &c, &ser(&s));
    }
    for i in 0..(6 * reps) {
        let o: Option<Vec<u64>> = if i % 3 == 0 { None } else { Some((0..rng.below(9)).map(|_| rng.word()).collect()) };
        let c = match &o {
            None => K::KNone,
            Some(v) => K::KSome(Box::new(K::List(v.clone()))),
        };
        emit_w(out, "TOptVec", if o.is_none() { "absent" } else { "present" }, &c, &ser(&o));
        let w = rng.range(1, 64);
        let items: Vec<u64> = (0..rng.below(30)).map(|_| rng.next() & mask(w)).collect();
        let oi: Option<IntVector> = if i % 3 == 1 { None } else { Some(int_vector(w, &items)) };
        let c = match &oi {
            None => K::KNone,
            Some(_) => K::KSome(Box::new(K::Int(w, items.clone()))),
        };
        emit_w(out, "TOptInt", if oi.is_none() { "absent" } else { "present" }, &c, &ser(&oi));
    }
}

fn mask(w: u64) -> u64 {
    if w >= 64 {
        !0u64
    } else {
        (1u64 << w) - 1
    }
}

fn int_vector(w: u64, items: &[u64]) -> IntVector {
    let mut iv = IntVector::new(w as usize).unwrap();
    for x in items {
        iv.push(*x);
    }
    iv
}

fn raw_vector(bits: &[bool]) -> RawVector {
    let mut r = RawVector::new();
    for b in bits {
        r.push_bit(*b);
    }
    r
}

fn write_raw(rng: &mut Rng, out: &mut Out, reps: usize) {
    for i in 0..(BOUNDARY_LENS.len() + 20 * reps) {
        let len = pick_len(rng, i, 900);
        let bits = gen_bits(rng, len);
        emit_w(out, "TRaw", if len % 64 == 0 { "pushed.whole_words" } else { "pushed.partial_word" }, &kbits(&bits), &ser(&raw_vector(&bits)));
    }
    // histories that leave stale data behind the end: the unused bits of the last element must still be 0
    for _ in 0..(40 * reps) {
        let len = rng.range(1, 300) as usize;
        let fill = rng.chance(2, 3);
        let mut r = RawVector::with_len(len, fill);
        let mut shadow = vec![fill; len];
        let steps = rng.range(1, 6);
        let mut regime = String::from("ops");
        for _ in 0..steps {
            match rng.below(5) {
                0 => {
                    let k = rng.below(shadow.len() as u64 + 1);
                    for _ in 0..k {
                        r.pop_bit();
                        shadow.pop();
                    }
                    regime.push_str(".pop");
                }
                1 => {
                    let nl = rng.below(330) as usize;
                    let v = rng.chance(1, 2);
                    r.resize(nl, v);
                    shadow.resize(nl, v);
                    regime.push_str(if v { ".resize1" } else { ".resize0" });
                }
                2 => {
                    r = r.complement();
                    for b in shadow.iter_mut() {
                        *b = !*b;
                    }
                    regime.push_str(".not");
                }
                3 => {
                    if !shadow.is_empty() {
                        let p = rng.below(shadow.len() as u64) as usize;
                        let v = rng.chance(1, 2);
                        r.set_bit(p, v);
                        shadow[p] = v;
                    }
                }
                _ => {
                    let k = rng.below(70);
                    for _ in 0..k {
                        let v = rng.chance(1, 2);
                        r.push_bit(v);
                        shadow.push(v);
                    }
                    regime.push_str(".push");
                }
            }
        }
        out.stat(if shadow.len() % 64 == 0 { "w.raw_ops.whole_words" } else { "w.raw_ops.partial_word" });
        for op in ["pop", "resize0", "resize1", "not", "push"].iter() {
            if regime.contains(op) {
                out.stat(&format!("w.raw_ops.with_{}", op));
            }
        }
        emit_w(out, "TRaw", "history", &kbits(&shadow), &ser(&r));
    }
}

const WIDTHS: [u64; 12] = [1, 2, 3, 7, 8, 31, 32, 33, 47, 62, 63, 64];

fn write_int(rng: &mut Rng, out: &mut Out, reps: usize) {
    for (k, w) in WIDTHS.iter().enumerate() {
        for i in 0..(3 + 2 * reps) {
            let len = if i < 3 { [0usize, 1, 64][i] } else { rng.below(130) as usize };
            let items: Vec<u64> = (0..len).map(|_| if rng.chance(1, 8) { mask(*w) } else { rng.next() & mask(*w) }).collect();
            let mut iv = int_vector(*w, &items);
            let mut items = items;
            if k % 3 == 0 && !items.is_empty() {
                // pop / resize / set histories
                let drop = rng.below(items.len() as u64) as usize;
                for _ in 0..drop {
                    iv.pop();
                    items.pop();
                }
                let nl = items.len() + rng.below(5) as usize;
                let v = rng.next() & mask(*w);
                iv.resize(nl, v);
                items.resize(nl, v);
            }
            emit_w(out, "TInt", &format!("w{}", w), &K::Int(*w, items), &ser(&iv));
        }
    }
    // files left by the buffered writers (closed explicitly, or just dropped: "when the writer goes out of scope, the
    // internal buffer is flushed, the file is closed") are integer / raw vector files like any other
    let dir = match std::env::var("VERIF_RUNDIR") {
        Ok(d) if !d.is_empty() => std::path::PathBuf::from(d),
        _ => std::env::temp_dir(),
    };
    let _ = std::fs::create_dir_all(&dir);
    for i in 0..(8 * reps) {
        let w = *rng.pick(&WIDTHS);
        let len = rng.below(200) as usize;
        let items: Vec<u64> = (0..len).map(|_| rng.next() & mask(w)).collect();
        let path = dir.join(format!("c07-writer-{}-{}.bin", std::process::id(), i));
        let _ = std::fs::remove_file(&path);
        let closed = i % 2 == 0;
        {
            let mut wr = match rng.below(2) {
                0 => simple_sds::int_vector::IntVectorWriter::new(&path, w as usize).unwrap(),
                _ => simple_sds::int_vector::IntVectorWriter::with_buf_len(&path, w as usize, 1 + rng.below(70) as usize).unwrap(),
            };
            for x in items.iter() {
                wr.push(*x);
            }
            if closed {
                wr.close().unwrap();
            }
        }
        let bytes = std::fs::read(&path).unwrap_or_default();
        let _ = std::fs::remove_file(&path);
        out.stat(if closed { "w.TInt.writer_closed" } else { "w.TInt.writer_dropped" });
        emit_w(out, "TInt", if closed { "writer_closed" } else { "writer_dropped" }, &K::Int(w, items), &bytes);
    }
    // pack(): the documented effect is the smallest width that holds every item
    for _ in 0..(6 * reps) {
        let len = rng.range(0, 60) as usize;
        let top = rng.range(0, 63);
        let items: Vec<u64> = (0..len).map(|_| rng.next() & mask(top + 1)).collect();
        let mut iv = int_vector(64, &items);
        iv.pack();
        let w = doc::bitlen(items.iter().cloned().max().unwrap_or(0));
        emit_w(out, "TInt", "packed", &K::Int(w, items), &ser(&iv));
    }
}

fn write_bv(rng: &mut Rng, out: &mut Out, reps: usize) {
    for i in 0..(BOUNDARY_LENS.len() + 6 * reps) {
        let len = pick_len(rng, i, 1500);
        let bits = gen_bits(rng, len);
        // every subset of the three support structures
        for sup in 0..8u64 {
            if i >= BOUNDARY_LENS.len() && sup != (i as u64 % 8) && !rng.chance(1, 4) {
                continue;
            }
            let mut bv = BitVector::from(raw_vector(&bits));
            if sup & 1 != 0 {
                bv.enable_rank();
            }
            if sup & 2 != 0 {
                bv.enable_select();
            }
            if sup & 4 != 0 {
                bv.enable_select_zero();
            }
            emit_w(out, "TBV", &format!("supports{}", sup), &kbits(&bits), &ser(&bv));
        }
    }
    // collected from an iterator of bits
    for _ in 0..(4 * reps) {
        let len = rng.below(400) as usize;
        let bits = gen_bits(rng, len);
        let bv: BitVector = bits.iter().cloned().collect();
        emit_w(out, "TBV", "from_iter", &kbits(&bits), &ser(&bv));
    }
}

// the low width the crate chose, read off the file (only to classify the regime)
fn low_width_of(file: &[u64]) -> Option<u64> {
    let mut i = 3usize; // n, ones, raw length, [word count]
    let wc = *file.get(i)? as usize;
    i += 1 + wc;
    for _ in 0..3 {
        let s = *file.get(i)? as usize;
        i += 1 + s;
    }
    file.get(i + 1).cloned()
}

fn write_sparse(rng: &mut Rng, out: &mut Out, reps: usize) {
    let universes: Vec<u64> = vec![0, 1, 2, 3, 63, 64, 65, 100, 128, 255, 256, 257, 1000, 1024, 4096, 5000, 65536, 65537, 1 << 20, (1 << 20) + 1, 3 << 19, 1 << 32, (1u64 << 40) + 12345, 1u64 << 62];
    let counts: Vec<usize> = vec![0, 1, 2, 3, 4, 7, 8, 16, 31, 32, 33, 64, 100];
    for n in universes.iter() {
        for m in counts.iter() {
            if (*m as u64) > *n || (*m == 0 && *n > 70000) {
                // (an empty vector gets low width 1: the high bitvector has n / 2 bits)
                continue;
            }
            for rep in 0..reps {
                let items = sorted_distinct(rng, *n, *m);
                if rep > 0 && items.len() < 2 {
                    continue;
                }
                let built = catch(|| {
                    let mut b = SparseBuilder::new(*n as usize, items.len()).unwrap();
                    for x in items.iter() {
                        b.set(*x as usize);
                    }
                    SparseVector::try_from(b).unwrap()
                });
                if let Res::Ok(sv) = built {
                    let bytes = ser(&sv);
                    let w = le_elems(&bytes).and_then(|f| low_width_of(&f)).unwrap_or(0);
                    let regime = if *n == 0 {
                        "n0"
                    } else if w > 0 && w < 64 && n % (1u64 << w) == 0 {
                        "universe_multiple_of_bucket"
                    } else {
                        "universe_not_multiple"
                    };
                    emit_w(out, "TSparse", regime, &K::Sparse(*n, items.clone()), &bytes);
                } else {
                    out.stat("w.TSparse.build_panicked");
                }
            }
        }
    }
    // multiset builder (duplicates): "The encoding also supports multisets / duplicate items"
    for _ in 0..(8 * reps) {
        let n = *rng.pick(&[16u64, 64, 100, 1024, 1 << 20]);
        let m = rng.range(1, 20) as usize;
        let mut items: Vec<u64> = (0..m).map(|_| rng.below(n)).collect();
        let extra = rng.below(4);
        for _ in 0..extra {
            let d = *rng.pick(&items);
            items.push(d);
        }
        items.sort();
        let mut b = SparseBuilder::multiset(n as usize, items.len());
        for x in items.iter() {
            b.set(*x as usize);
        }
        let sv = SparseVector::try_from(b).unwrap();
        emit_w(out, "TSparse", "multiset", &K::Sparse(n, items.clone()), &ser(&sv));
    }
}

fn write_rl(rng: &mut Rng, out: &mut Out, reps: usize) {
    let mut plans: Vec<(usize, u64)> = vec![(0, 0), (1, 0), (1, 3), (2, 1), (31, 0), (32, 0), (33, 0), (64, 0), (65, 0), (96, 0), (16, 1), (17, 1), (32, 1), (40, 2), (30, 3), (60, 3), (50, 4), (120, 4)];
    for _ in 0..(14 * reps) {
        plans.push((rng.range(1, 150) as usize, rng.below(5)));
    }
    // the fill rule at its edges ("a block is padded only if the next run does not fit"): a run whose gap or length
    // sits at a code-length boundary arrives with one unit too few / exactly enough / one to spare
    let mut inputs: Vec<(u64, Vec<(u64, u64)>)> = Vec::new();
    for (count, style) in plans {
        inputs.push(gen_runs(rng, count, style));
    }
    for v in rl_unit_boundaries(if reps > 1 { 20 } else { 7 }) {
        for in_len in [false, true] {
            for slack in [-1i64, 0, 1] {
                if reps == 1 && slack == 1 && !rng.chance(1, 3) {
                    continue;
                }
                let lead = rng.below(2) as usize;
                let after = 1 + rng.below(5) as usize;
                let (len, runs) = rl_directed(rng, v, in_len, slack, lead, after);
                inputs.push((len as u64, runs.iter().map(|(a, b)| (*a as u64, *b as u64)).collect()));
                out.stat("w.TRL.block_edge_directed");
            }
        }
    }
    for (len, runs) in inputs {
        // some runs are given to the builder in two adjacent pieces (it must merge them: runs are maximal)
        let mut b = RLBuilder::new();
        let mut split = false;
        let mut cur = 0u64;
        for (s, l) in runs.iter() {
            // sometimes the gap in front of a run is declared first (set_len up to the start of the run), and calls
            // documented to have no effect sit between the two pieces of a run
            if *s > cur && rng.chance(1, 5) {
                if rng.chance(1, 2) && *s > cur + 1 {
                    b.set_len((cur + 1 + rng.below(*s - cur - 1)) as usize);
                }
                b.set_len(*s as usize);
                out.stat("w.TRL.gap_declared_with_set_len");
            }
            if *l >= 2 && rng.chance(1, 6) {
                let a = rng.range(1, l - 1);
                b.try_set(*s as usize, a as usize).unwrap();
                match rng.below(3) {
                    0 => b.set_len((*s + a) as usize),
                    1 => { let _ = b.try_set((*s + a + 1 + rng.below(9)) as usize, 0); }
                    _ => {}
                }
                b.try_set((*s + a) as usize, (*l - a) as usize).unwrap();
                split = true;
            } else {
                b.try_set(*s as usize, *l as usize).unwrap();
            }
            cur = *s + *l;
        }
        b.set_len(len as usize);
        let rv = RLVector::from(b);
        let shape = doc::rl(len, &runs).1;
        let regime = format!(
            "{}.{}{}",
            if shape.blocks == 0 { "no_blocks" } else if shape.blocks == 1 { "one_block" } else { "several_blocks" },
            if shape.blocks == 0 { "empty" } else if shape.final_units == 64 { "final_full" } else { "final_partial" },
            if shape.padded > 0 { ".run_did_not_fit" } else { "" }
        );
        if split {
            out.stat("w.TRL.adjacent_pieces_merged");
        }
        if runs.last().map(|(s, l)| s + l < len).unwrap_or(len > 0) {
            out.stat("w.TRL.trailing_unset_run");
        }
        emit_w(out, "TRL", &regime, &K::Runs(len, runs.clone()), &ser(&rv));
    }
}

fn write_wm(rng: &mut Rng, out: &mut Out, reps: usize) {
    let mut plans: Vec<(usize, u64, bool)> = vec![(0, 0, false), (1, 0, false), (1, 1, false), (5, 0, false), (1, 9, false), (10, 1, false), (20, 3, false), (20, 7, true), (64, 15, true), (65, 16, true), (100, 40, true), (30, 255, true), (128, 2, false), (40, 300, true)];
    for _ in 0..(10 * reps) {
        plans.push((rng.range(1, 150) as usize, rng.range(0, 70), rng.chance(2, 3)));
    }
    for (len, max, holes) in plans {
        let items = gen_items(rng, len, max, holes);
        let present = { let mut s = items.clone(); s.sort(); s.dedup(); s.len() as u64 };
        let regime = if len == 0 { "empty" } else if present < max + 1 { "missing_values" } else { "full_alphabet" };
        emit_w(out, "TWM", regime, &K::List(items.clone()), &ser(&WaveletMatrix::from(items.clone())));
        emit_w(out, "TWMCore", regime, &K::List(items.clone()), &ser(&WMCore::from(items.clone())));
        if max < 256 {
            let small: Vec<u8> = items.iter().map(|x| *x as u8).collect();
            emit_w(out, "TWM", "from_u8", &K::List(items.clone()), &ser(&WaveletMatrix::from(small)));
        }
    }
    // wide items (cores only: `first` of a plain wavelet matrix has one entry per value of the alphabet)
    for _ in 0..(6 * reps) {
        let len = rng.range(1, 40) as usize;
        let w = rng.range(20, 64);
        let items: Vec<u64> = (0..len).map(|_| rng.next() & mask(w)).collect();
        emit_w(out, "TWMCore", "wide", &K::List(items.clone()), &ser(&WMCore::from(items.clone())));
    }
}

// ---------------------------------------------------------------- read direction

fn read_basic(rng: &mut Rng, out: &mut Out, reps: usize) {
    for i in 0..(8 * reps) {
        let len = if i < 3 { i } else { rng.below(40) as usize };
        let v: Vec<u64> = (0..len).map(|_| rng.word()).collect();
        let f = doc::vec(&v);
        emit_r(out, "TVec", "u64", &K::List(v.clone()), 0, &f, load_from::<Vec<u64>>(&f), |x, q| q.eq("value", 0, x.clone(), v.clone()));
        let p: Vec<(u64, u64)> = (0..len / 2).map(|_| (rng.word(), rng.next())).collect();
        let f = doc::pairs(&p);
        emit_r(out, "TPairs", "pairs", &K::Pairs(p.clone()), 0, &f, load_from::<Vec<(u64, u64)>>(&f), |x, q| q.eq("value", 0, x.clone(), p.clone()));
    }
    for i in 0..(18 + 4 * reps) {
        let len = if i < 18 { i } else { rng.below(70) as usize };
        let v: Vec<u8> = (0..len).map(|_| rng.below(256) as u8).collect();
        let f = doc::bytes(&v);
        let c = K::List(v.iter().map(|b| *b as u64).collect());
        emit_r(out, "TBytes", &format!("pad{}", (8 - len % 8) % 8), &c, 0, &f, load_from::<Vec<u8>>(&f), |x, q| q.eq("value", 0, x.clone(), v.clone()));
    }
    let alphabet: Vec<char> = vec!['a', ' ', '\u{0}', '\u{7f}', '\u{80}', '\u{7ff}', '\u{800}', '\u{ffff}', '\u{10000}', '\u{10ffff}'];
    for _ in 0..(6 * reps) {
        let s: String = (0..rng.below(16)).map(|_| *rng.pick(&alphabet)).collect();
        let f = doc::bytes(s.as_bytes());
        let c = K::List(s.as_bytes().iter().map(|b| *b as u64).collect());
        emit_r(out, "TString", "utf8", &c, 0, &f, load_from::<String>(&f), |x, q| q.eq("value", 0, x.clone(), s.clone()));
    }
    for i in 0..(6 * reps) {
        let o: Option<Vec<u64>> = if i % 3 == 0 { None } else { Some((0..rng.below(9)).map(|_| rng.word()).collect()) };
        let f = doc::opt(o.as_ref().map(|v| doc::vec(v)));
        let c = match &o {
            None => K::KNone,
            Some(v) => K::KSome(Box::new(K::List(v.clone()))),
        };
        emit_r(out, "TOptVec", if o.is_none() { "absent" } else { "present" }, &c, 0, &f, load_from::<Option<Vec<u64>>>(&f), |x, q| q.eq("value", 0, x.clone(), o.clone()));
        let w = rng.range(1, 64);
        let items: Vec<u64> = (0..rng.below(30)).map(|_| rng.next() & mask(w)).collect();
        let present = i % 3 != 1;
        let f = doc::opt(if present { Some(doc::int(w, &items)) } else { None });
        let c = if present { K::KSome(Box::new(K::Int(w, items.clone()))) } else { K::KNone };
        emit_r(out, "TOptInt", if present { "present" } else { "absent" }, &c, 0, &f, load_from::<Option<IntVector>>(&f), |x, q| {
            q.eq("is_some", 0, x.is_some(), present);
            if let Some(iv) = x {
                q.eq("width", 0, iv.width(), w as usize);
                q.eq("items", 0, iv.iter().collect::<Vec<u64>>(), items.clone());
            }
        });
    }
}

fn read_core(rng: &mut Rng, out: &mut Out, reps: usize) {
    for i in 0..(BOUNDARY_LENS.len() + 8 * reps) {
        let len = pick_len(rng, i, 900);
        let bits = gen_bits(rng, len);
        let f = doc::raw(&bits);
        emit_r(out, "TRaw", if len % 64 == 0 { "whole_words" } else { "partial_word" }, &kbits(&bits), 0, &f, load_from::<RawVector>(&f), |x, q| {
            q.eq("len", 0, x.len(), bits.len());
            q.eq("count_ones", 0, x.count_ones(), bits.iter().filter(|b| **b).count());
            for (p, bt) in bits.iter().enumerate() {
                q.eq("bit", p as u64, x.bit(p), *bt);
            }
        });
    }
    for w in WIDTHS.iter() {
        for i in 0..(2 + reps) {
            let len = if i < 2 { [0usize, 1][i] } else { rng.below(130) as usize };
            // items narrower than the width half of the time: any sufficient width is admissible
            let iw = if rng.chance(1, 2) { *w } else { rng.range(1, *w) };
            let items: Vec<u64> = (0..len).map(|_| rng.next() & mask(iw)).collect();
            let f = doc::int(*w, &items);
            emit_r(out, "TInt", &format!("w{}", w), &K::Int(*w, items.clone()), 0, &f, load_from::<IntVector>(&f), |x, q| {
                q.eq("len", 0, x.len(), items.len());
                q.eq("width", 0, x.width(), *w as usize);
                for (p, it) in items.iter().enumerate() {
                    q.eq("get", p as u64, x.get(p), *it);
                }
                q.eq("iter", 0, x.iter().collect::<Vec<u64>>(), items.clone());
            });
        }
    }
    for i in 0..(BOUNDARY_LENS.len() + 8 * reps) {
        let len = pick_len(rng, i, 1200);
        let bits = gen_bits(rng, len);
        let ones: Vec<u64> = bits.iter().enumerate().filter(|(_, b)| **b).map(|(p, _)| p as u64).collect();
        let f = doc::bv(&bits);
        let mut qrng = rng.clone();
        emit_r(out, "TBV", "no_supports", &kbits(&bits), 0, &f, load_from::<BitVector>(&f), |x, q| {
            // the support structures are absent from the file: the reader builds what it needs
            x.enable_rank();
            x.enable_select();
            x.enable_select_zero();
            x.enable_pred_succ();
            bits_queries(&*x, q, &mut qrng, bits.len() as u64, &ones, true);
            q.eq("iter", 0, x.iter().collect::<Vec<bool>>(), bits.clone());
        });
        rng.next();
    }
}

fn read_sparse(rng: &mut Rng, out: &mut Out, reps: usize) {
    let universes: Vec<u64> = vec![0, 1, 2, 63, 64, 65, 100, 256, 1000, 1024, 4096, 65536, 1 << 20, (1 << 20) + 1, 1 << 32, (1u64 << 40) + 12345, 1u64 << 62];
    for n0 in universes.iter() {
        for rep in 0..(4 * reps) {
            // every admissible low width that keeps the high bitvector short
            let mut ws: Vec<u64> = (1..=63u64).filter(|w| (*n0 >> *w) <= 2500).collect();
            if ws.is_empty() {
                continue;
            }
            let w = if rep == 0 { ws[0] } else { ws.remove(rng.below(ws.len() as u64) as usize) };
            // half of the universes are rounded to a multiple of the bucket size 2^w
            let mut n = *n0;
            if rep % 2 == 1 && w < 40 && n > 0 {
                n = std::cmp::max(1, (n >> w) + (rng.below(2))) << w;
                if (n >> w) > 2500 {
                    continue;
                }
            }
            let m = std::cmp::min(n, *rng.pick(&[0u64, 1, 2, 5, 17, 40, 90])) as usize;
            let items = sorted_distinct(rng, n, m);
            let f = doc::sparse(n, w, &items);
            let regime = if n == 0 {
                "n0"
            } else if n % (1u64 << w) == 0 {
                "universe_multiple_of_bucket"
            } else {
                "universe_not_multiple"
            };
            out.stat(&format!("r.sparse.w{}", if w < 8 { "1..7" } else if w < 32 { "8..31" } else { "32..63" }));
            let mut qrng = rng.clone();
            emit_r(out, "TSparse", regime, &K::Sparse(n, items.clone()), w, &f, load_from::<SparseVector>(&f), |x, q| {
                bits_queries(&*x, q, &mut qrng, n, &items, true);
            });
            rng.next();
        }
    }
}

// PROBE, not part of the compared cases: low width 64. The document only asks for w >= 1 and an integer vector may be
// 64 bits wide (one bucket then holds everything); the property quantifies over 1..63 (what the crate's own rule
// can choose), so the outcome is only recorded in the statistics.
fn probe_sparse_w64(rng: &mut Rng, out: &mut Out) {
    for n in [1u64, 64, 1000, 1 << 20, (1u64 << 40) + 5].iter() {
        let m = std::cmp::min(*n, *rng.pick(&[1u64, 3, 20])) as usize;
        let items = sorted_distinct(rng, *n, m);
        let f = doc::sparse(*n, 64, &items);
        match load_from::<SparseVector>(&f) {
            Err(_) => out.stat("probe.sparse_low_width_64.load_rejected"),
            Ok(x) => {
                out.stat("probe.sparse_low_width_64.load_ok");
                let mut q = Q::new();
                let mut qrng = rng.clone();
                match catch(|| bits_queries(&x, &mut q, &mut qrng, *n, &items, true)) {
                    Res::Panic(_, _) => out.stat("probe.sparse_low_width_64.queries_panicked"),
                    Res::Ok(_) => out.stat(if q.wrong == 0 { "probe.sparse_low_width_64.queries_right" } else { "probe.sparse_low_width_64.queries_wrong" }),
                }
            }
        }
    }
}

fn o_run_rank(runs: &[(u64, u64)], i: u64) -> usize {
    runs.iter().map(|(s, l)| if i <= *s { 0 } else { std::cmp::min(i - s, *l) }).sum::<u64>() as usize
}

fn read_rl(rng: &mut Rng, out: &mut Out, reps: usize) {
    let mut plans: Vec<(usize, u64)> = vec![(0, 0), (1, 0), (1, 3), (32, 0), (33, 0), (64, 0), (16, 1), (32, 1), (40, 2), (30, 3), (60, 3), (50, 4)];
    for _ in 0..(10 * reps) {
        plans.push((rng.range(1, 130) as usize, rng.below(5)));
    }
    for (count, style) in plans {
        let (len, runs) = gen_runs(rng, count, style);
        let (f, shape) = doc::rl(len, &runs);
        let regime = format!(
            "{}.{}{}",
            if shape.blocks == 0 { "no_blocks" } else if shape.blocks == 1 { "one_block" } else { "several_blocks" },
            if shape.blocks == 0 { "empty" } else if shape.final_units == 64 { "final_full" } else { "final_partial" },
            if shape.padded > 0 { ".run_did_not_fit" } else { "" }
        );
        let ones: u64 = runs.iter().map(|(_, l)| *l).sum();
        let mut qrng = rng.clone();
        emit_r(out, "TRL", &regime, &K::Runs(len, runs.clone()), 0, &f, load_from::<RLVector>(&f), |x, q| {
            q.eq("len", 0, x.len(), len as usize);
            q.eq("count_ones", 0, x.count_ones(), ones as usize);
            q.eq("run_iter", 0, x.run_iter().collect::<Vec<(usize, usize)>>(), runs.iter().map(|(s, l)| (*s as usize, *l as usize)).collect::<Vec<_>>());
            let mut ps: Vec<u64> = vec![0, len / 2, len.saturating_sub(1)];
            for (s, l) in runs.iter().take(50) {
                ps.extend_from_slice(&[s.saturating_sub(1), *s, s + l - 1, s + l]);
            }
            for _ in 0..10 {
                ps.push(qrng.below(len + 1));
            }
            ps.sort();
            ps.dedup();
            for p in ps {
                if p < len {
                    q.eq("get", p, x.get(p as usize), runs.iter().any(|(s, l)| *s <= p && p < s + l));
                    let pred = runs.iter().filter(|(s, _)| *s <= p).last().map(|(s, l)| std::cmp::min(p, s + l - 1));
                    q.eq("predecessor", p, x.predecessor(p as usize).next(), pred.map(|v| (o_run_rank(&runs, v), v as usize)));
                    let succ = runs.iter().filter(|(s, l)| s + l > p).next().map(|(s, _)| std::cmp::max(p, *s));
                    q.eq("successor", p, x.successor(p as usize).next(), succ.map(|v| (o_run_rank(&runs, v), v as usize)));
                }
                q.eq("rank", p, x.rank(p as usize), o_run_rank(&runs, p));
            }
            let mut ks: Vec<u64> = vec![0, ones / 2, ones.saturating_sub(1), ones];
            for _ in 0..10 {
                ks.push(qrng.below(ones + 1));
            }
            for k in ks {
                let mut rem = k;
                let mut exp = None;
                for (s, l) in runs.iter() {
                    if rem < *l {
                        exp = Some((s + rem) as usize);
                        break;
                    }
                    rem -= l;
                }
                q.eq("select", k, x.select(k as usize), exp);
            }
            let zeros = len - ones;
            let mut zs: Vec<u64> = vec![0, zeros / 2, zeros.saturating_sub(1), zeros];
            for _ in 0..8 {
                zs.push(qrng.below(zeros + 1));
            }
            for k in zs {
                // k-th unset bit: skip the runs that start at or before it
                let mut pos = k;
                for (s, l) in runs.iter() {
                    if *s <= pos {
                        pos += l;
                    } else {
                        break;
                    }
                }
                q.eq("select_zero", k, x.select_zero(k as usize), if pos < len { Some(pos as usize) } else { None });
            }
        });
        rng.next();
    }
}

fn read_wm(rng: &mut Rng, out: &mut Out, reps: usize) {
    let mut plans: Vec<(usize, u64, bool)> = vec![(0, 0, false), (1, 0, false), (1, 1, false), (5, 0, false), (1, 9, false), (20, 3, false), (20, 7, true), (64, 15, true), (100, 40, true), (30, 255, true), (128, 2, false)];
    for _ in 0..(8 * reps) {
        plans.push((rng.range(1, 130) as usize, rng.range(0, 70), rng.chance(2, 3)));
    }
    for (len, max, holes) in plans {
        let items = gen_items(rng, len, max, holes);
        let need = doc::bitlen(max);
        // any width that holds the items is admissible for the core; `first` keeps its minimal width
        let width = if rng.chance(1, 2) { need } else { std::cmp::min(64, need + rng.range(1, 3)) };
        let present = { let mut s = items.clone(); s.sort(); s.dedup(); s.len() as u64 };
        let regime = format!("{}{}", if len == 0 { "empty" } else if present < max + 1 { "missing_values" } else { "full_alphabet" }, if width > need { ".wider" } else { "" });
        let f = doc::wmcore(width, &items);
        let reordered = doc::levels(width, &items).1;
        emit_r(out, "TWMCore", &regime, &K::List(items.clone()), width, &f, load_from::<WMCore>(&f), |x, q| {
            q.eq("len", 0, x.len(), items.len());
            q.eq("width", 0, x.width(), width as usize);
            let mut seen = vec![false; items.len()];
            for (p, it) in items.iter().enumerate() {
                let r = x.map_down(p);
                q.eq("map_down.value", p as u64, r.map(|t| t.1), Some(*it));
                if let Some((pos, v)) = r {
                    q.eq("reordered", p as u64, reordered.get(pos).cloned(), Some(v));
                    if pos < seen.len() {
                        seen[pos] = true;
                    }
                    q.eq("map_up_with", p as u64, x.map_up_with(pos, v), Some(p));
                }
            }
            q.eq("permutation", 0, seen.iter().all(|s| *s), true);
        });
        let f = doc::wm(width, &items);
        let mut qrng = rng.clone();
        emit_r(out, "TWM", &regime, &K::List(items.clone()), width, &f, load_from::<WaveletMatrix>(&f), |x, q| {
            q.eq("len", 0, x.len(), items.len());
            q.eq("width", 0, x.width(), width as usize);
            q.eq("iter", 0, x.iter().collect::<Vec<u64>>(), items.clone());
            for (p, it) in items.iter().enumerate() {
                q.eq("get", p as u64, x.get(p), *it);
                let r = items[..p].iter().filter(|y| *y == it).count();
                q.eq("inverse_select", p as u64, x.inverse_select(p), Some((r, *it)));
            }
            let mut vals: Vec<u64> = (0..=std::cmp::min(max, 24)).collect();
            vals.push(max);
            for v in vals {
                let occ: Vec<usize> = items.iter().enumerate().filter(|(_, y)| **y == v).map(|(p, _)| p).collect();
                q.eq("contains", v, x.contains(v), !occ.is_empty());
                q.eq("value_iter", v, x.value_iter(v).collect::<Vec<(usize, usize)>>(), occ.iter().cloned().enumerate().collect::<Vec<_>>());
                for _ in 0..3 {
                    let p = qrng.below(items.len() as u64 + 1) as usize;
                    q.eq("rank", p as u64, x.rank(p, v), occ.iter().filter(|o| **o < p).count());
                    q.eq("successor", p as u64, x.successor(p, v).next(), occ.iter().cloned().enumerate().filter(|(_, o)| *o >= p).next());
                    q.eq("predecessor", p as u64, x.predecessor(p, v).next(), occ.iter().cloned().enumerate().filter(|(_, o)| *o <= p).last());
                }
                for k in 0..=occ.len() {
                    q.eq("select", k as u64, x.select(k, v), occ.get(k).cloned());
                }
            }
        });
        rng.next();
    }
}

// ---------------------------------------------------------------- entry

pub fn run(rng: &mut Rng, out: &mut Out, thorough: bool, _variant: &str) {
    let reps = if thorough { 6 } else { 2 };
    write_basic(rng, out, reps);
    write_raw(rng, out, reps);
    write_int(rng, out, reps);
    write_bv(rng, out, reps);
    write_sparse(rng, out, reps);
    write_rl(rng, out, reps);
    write_wm(rng, out, reps);
    read_basic(rng, out, reps);
    read_core(rng, out, reps);
    read_sparse(rng, out, reps);
    probe_sparse_w64(&mut rng.clone(), out);
    read_rl(rng, out, reps);
    read_wm(rng, out, reps);
}
